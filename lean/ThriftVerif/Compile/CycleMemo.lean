/-
M-Compile — the typedef cycle search with the shared memo (`visitCycleM`, what the code runs since repair
D85 and what `moduleHasCycle` uses) gives the verdict of the plain search (`visitCycle`), for every
program, and `cycleFuel` is enough fuel for either. Helper lemmas; the property statements are in
Properties/C08.lean.
-/
import ThriftVerif.Compile.Link


namespace ThriftVerif.Compile

abbrev TNode := Nat × Name

/-- the resolved target of typedef `x`, if `x` is a typedef: `some none` = a typedef whose target does
not resolve -/
def tdTarget (p : GProg) (x : TNode) : Option (Option LType) :=
  match lookupType p x.1 x.2 with
  | some (.typedef target) => some (resolveExpr p x.1 target)
  | _ => none

/-- the unfolding of `t` finishes within depth `h` and every typedef in it resolves (no path) -/
def fin (p : GProg) : Nat → LType → Bool
  | 0, _ => false
  | h + 1, t =>
    match t with
    | .named m n =>
      match tdTarget p (m, n) with
      | some (some t') => fin p h t'
      | some none => false
      | none => true
    | .list _ e => fin p h e
    | .set _ e => fin p h e
    | .map _ k v => fin p h k && fin p h v
    | _ => true

/-- typedef `y` occurs in the unfolding of `t` -/
inductive Reach (p : GProg) : LType → TNode → Prop
  | here {m n o} : tdTarget p (m, n) = some o → Reach p (.named m n) (m, n)
  | td {m n t' y} : tdTarget p (m, n) = some (some t') → Reach p t' y → Reach p (.named m n) y
  | list {o e y} : Reach p e y → Reach p (.list o e) y
  | set {o e y} : Reach p e y → Reach p (.set o e) y
  | mapk {o k v y} : Reach p k y → Reach p (.map o k v) y
  | mapv {o k v y} : Reach p v y → Reach p (.map o k v) y

/-- `z` occurs strictly below typedef `y` -/
def ReachP (p : GProg) (y z : TNode) : Prop := ∃ t', tdTarget p y = some (some t') ∧ Reach p t' z

/-! ## the two searches in terms of `tdTarget` -/

theorem visitCycle_named (p : GProg) (f : Nat) (path : List TNode) (m : Nat) (n : Name) :
    visitCycle p (f + 1) path (.named m n) =
      match tdTarget p (m, n) with
      | some o =>
        if path.contains (m, n) then true else
        match o with
        | some t' => visitCycle p f ((m, n) :: path) t'
        | none => true
      | none => false := by
  cases h : lookupType p m n with
  | none => simp [visitCycle, tdTarget, h]
  | some d =>
    cases d with
    | typedef tg =>
      simp only [visitCycle, tdTarget, h]
      cases resolveExpr p m tg <;> rfl
    | _ => simp [visitCycle, tdTarget, h]

theorem visitCycleM_named (p : GProg) (f : Nat) (path clean : List TNode) (m : Nat) (n : Name) :
    visitCycleM p (f + 1) path clean (.named m n) =
      match tdTarget p (m, n) with
      | some o =>
        if path.contains (m, n) then (true, clean) else
        if clean.contains (m, n) then (false, clean) else
        match o with
        | some t' =>
          match visitCycleM p f ((m, n) :: path) clean t' with
          | (true, c) => (true, c)
          | (false, c) => (false, (m, n) :: c)
        | none => (true, clean)
      | none => (false, clean) := by
  cases h : lookupType p m n with
  | none => simp [visitCycleM, tdTarget, h]
  | some d =>
    cases d with
    | typedef tg =>
      simp only [visitCycleM, tdTarget, h]
      cases resolveExpr p m tg with
      | none => rfl
      | some t' =>
        simp only []
        rcases visitCycleM p f ((m, n) :: path) clean t' with ⟨b, c⟩
        cases b <;> rfl
    | _ => simp [visitCycleM, tdTarget, h]

/-! ## `fin` and `Reach` -/

theorem fin_mono (p : GProg) : ∀ (h : Nat) (t : LType), fin p h t = true → fin p (h + 1) t = true
  | 0, _, h0 => by simp [fin] at h0
  | h + 1, t, h0 => by
    cases t with
    | named m n =>
      cases ht : tdTarget p (m, n) with
      | none => simp [fin, ht]
      | some o =>
        cases o with
        | none => simp [fin, ht] at h0
        | some t' =>
          simp only [fin, ht] at h0 ⊢
          exact fin_mono p h t' h0
    | list o e => simp only [fin] at h0 ⊢; exact fin_mono p h e h0
    | set o e => simp only [fin] at h0 ⊢; exact fin_mono p h e h0
    | map o k v =>
      simp only [fin, Bool.and_eq_true] at h0 ⊢
      exact ⟨fin_mono p h k h0.1, fin_mono p h v h0.2⟩
    | base o b => simp [fin]
    | uref n => simp [fin]

theorem fin_mono_le (p : GProg) {h h' : Nat} (t : LType) (hle : h ≤ h') (h0 : fin p h t = true) :
    fin p h' t = true := by
  induction hle with
  | refl => exact h0
  | step _ ih => exact fin_mono p _ t ih

/-- whatever occurs in a finite unfolding has a finite unfolding of at most that depth -/
theorem reach_fin (p : GProg) {t : LType} {y : TNode} (hr : Reach p t y) :
    ∀ h, fin p h t = true → fin p h (.named y.1 y.2) = true := by
  induction hr with
  | here _ => intro h h0; exact h0
  | @td m n t' y ht _ ih =>
    intro h h0
    cases h with
    | zero => simp [fin] at h0
    | succ h =>
      simp only [fin, ht] at h0
      exact fin_mono p h _ (ih h h0)
  | list _ ih =>
    intro h h0
    cases h with
    | zero => simp [fin] at h0
    | succ h => simp only [fin] at h0; exact fin_mono p h _ (ih h h0)
  | set _ ih =>
    intro h h0
    cases h with
    | zero => simp [fin] at h0
    | succ h => simp only [fin] at h0; exact fin_mono p h _ (ih h h0)
  | mapk _ ih =>
    intro h h0
    cases h with
    | zero => simp [fin] at h0
    | succ h =>
      simp only [fin, Bool.and_eq_true] at h0; exact fin_mono p h _ (ih h h0.1)
  | mapv _ ih =>
    intro h h0
    cases h with
    | zero => simp [fin] at h0
    | succ h =>
      simp only [fin, Bool.and_eq_true] at h0; exact fin_mono p h _ (ih h h0.2)

/-- a typedef with a finite unfolding does not occur below itself -/
theorem fin_no_self (p : GProg) {m : Nat} {n : Name} {t' : LType}
    (ht : tdTarget p (m, n) = some (some t')) (hr : Reach p t' (m, n)) :
    ∀ h, fin p h (.named m n) = true → False
  | 0, h0 => by simp [fin] at h0
  | h + 1, h0 => by
    simp only [fin, ht] at h0
    exact fin_no_self p ht hr h (reach_fin p hr h h0)

/-- `Reach` composes -/
theorem reach_trans (p : GProg) {t : LType} {y z : TNode} (hr : Reach p t y) (hz : ReachP p y z) :
    Reach p t z := by
  induction hr with
  | @here m n o _ =>
    obtain ⟨t', ht', hr'⟩ := hz
    exact .td ht' hr'
  | td ht _ ih => exact .td ht (ih hz)
  | list _ ih => exact .list (ih hz)
  | set _ ih => exact .set (ih hz)
  | mapk _ ih => exact .mapk (ih hz)
  | mapv _ ih => exact .mapv (ih hz)

/-! ## an error of the memoised search is an error of the plain one (any memo, same fuel) -/

theorem visitCycleM_true (p : GProg) : ∀ (f : Nat) (path clean : List TNode) (t : LType),
    (visitCycleM p f path clean t).1 = true → visitCycle p f path t = true
  | 0, _, _, _, _ => by simp [visitCycle]
  | f + 1, path, clean, t, h0 => by
    cases t with
    | named m n =>
      rw [visitCycleM_named] at h0
      rw [visitCycle_named]
      cases ht : tdTarget p (m, n) with
      | none => simp [ht] at h0
      | some o =>
        simp only [ht] at h0 ⊢
        by_cases hp : path.contains (m, n) = true
        · rw [if_pos hp]
        · rw [if_neg hp] at h0 ⊢
          by_cases hc : clean.contains (m, n) = true
          · rw [if_pos hc] at h0; simp at h0
          · rw [if_neg hc] at h0
            cases o with
            | none => rfl
            | some t' =>
              simp only [] at h0 ⊢
              have ih := visitCycleM_true p f ((m, n) :: path) clean t'
              rcases hv : visitCycleM p f ((m, n) :: path) clean t' with ⟨b, c⟩
              rw [hv] at h0 ih
              cases b with
              | true => exact ih rfl
              | false => simp at h0
    | list o e => simp only [visitCycleM, visitCycle] at h0 ⊢; exact visitCycleM_true p f path clean e h0
    | set o e => simp only [visitCycleM, visitCycle] at h0 ⊢; exact visitCycleM_true p f path clean e h0
    | map o k v =>
      simp only [visitCycleM, visitCycle, Bool.or_eq_true] at h0 ⊢
      have ihk := visitCycleM_true p f path clean k
      rcases hk : visitCycleM p f path clean k with ⟨b, c⟩
      rw [hk] at h0 ihk
      cases b with
      | true => exact Or.inl (ihk rfl)
      | false => exact Or.inr (visitCycleM_true p f path c v h0)
    | base o b => simp [visitCycleM] at h0
    | uref n => simp [visitCycleM] at h0

/-! ## the plain search on a finite unfolding that avoids the chain finds nothing -/

theorem visitCycle_false_of_fin (p : GProg) : ∀ (h : Nat) (path : List TNode) (t : LType),
    fin p h t = true → (∀ y, Reach p t y → y ∉ path) → visitCycle p h path t = false
  | 0, _, _, h0, _ => by simp [fin] at h0
  | h + 1, path, t, h0, hn => by
    cases t with
    | named m n =>
      rw [visitCycle_named]
      cases ht : tdTarget p (m, n) with
      | none => rfl
      | some o =>
        have hp : path.contains (m, n) = false := by
          have := hn (m, n) (.here ht)
          simpa using this
        cases o with
        | none => simp [fin, ht] at h0
        | some t' =>
          have h0' := h0
          simp only [fin, ht] at h0
          simp only []
          rw [if_neg (by rw [hp]; exact Bool.false_ne_true)]
          refine visitCycle_false_of_fin p h ((m, n) :: path) t' h0 ?_
          intro y hy hmem
          rcases List.mem_cons.1 hmem with rfl | hmem
          · exact fin_no_self p ht hy (h + 1) h0'
          · exact hn y (.td ht hy) hmem
    | list o e =>
      simp only [fin] at h0; simp only [visitCycle]
      exact visitCycle_false_of_fin p h path e h0 (fun y hy => hn y (.list hy))
    | set o e =>
      simp only [fin] at h0; simp only [visitCycle]
      exact visitCycle_false_of_fin p h path e h0 (fun y hy => hn y (.set hy))
    | map o k v =>
      simp only [fin, Bool.and_eq_true] at h0
      simp only [visitCycle, Bool.or_eq_false_iff]
      exact ⟨visitCycle_false_of_fin p h path k h0.1 (fun y hy => hn y (.mapk hy)),
        visitCycle_false_of_fin p h path v h0.2 (fun y hy => hn y (.mapv hy))⟩
    | base o b => simp [visitCycle]
    | uref n => simp [visitCycle]

/-! ## "no error" of the memoised search is sound

The memo is only ever consulted under a chain every member of which leads to the type at hand
(`hpath`); a memoised typedef has a finite unfolding (`hclean`), so it cannot lead back into that
chain: it would lie below itself. -/

def CleanOK (p : GProg) (clean : List TNode) : Prop :=
  ∀ x ∈ clean, ∃ h, fin p h (.named x.1 x.2) = true

theorem visitCycleM_false (p : GProg) : ∀ (f : Nat) (path clean : List TNode) (t : LType) (c : List TNode),
    visitCycleM p f path clean t = (false, c) → CleanOK p clean →
    (∀ y ∈ path, ∀ z, Reach p t z → ReachP p y z) →
    (∃ h, fin p h t = true) ∧ (∀ y, Reach p t y → y ∉ path) ∧ CleanOK p c
  | 0, _, _, _, _, h0, _, _ => by simp [visitCycleM] at h0
  | f + 1, path, clean, t, c, h0, hclean, hpath => by
    cases t with
    | named m n =>
      rw [visitCycleM_named] at h0
      cases ht : tdTarget p (m, n) with
      | none =>
        simp only [ht, Prod.mk.injEq, true_and] at h0
        subst h0
        refine ⟨⟨1, by simp [fin, ht]⟩, ?_, hclean⟩
        intro y hy
        cases hy with
        | here h' => rw [ht] at h'; cases h'
        | td h' _ => rw [ht] at h'; cases h'
      | some o =>
        simp only [ht] at h0
        by_cases hp : path.contains (m, n) = true
        · rw [if_pos hp] at h0; simp at h0
        · rw [if_neg hp] at h0
          have hp' : (m, n) ∉ path := by simpa using hp
          by_cases hc : clean.contains (m, n) = true
          · rw [if_pos hc] at h0
            simp only [Prod.mk.injEq, true_and] at h0
            subst h0
            have hmem : (m, n) ∈ clean := by simpa using hc
            obtain ⟨h, hf⟩ := hclean (m, n) hmem
            refine ⟨⟨h, hf⟩, ?_, hclean⟩
            intro y hy hy'
            have hback : ReachP p y (m, n) := hpath y hy' (m, n) (.here ht)
            cases hy with
            | here _ =>
              obtain ⟨ty, hty, hr⟩ := hback
              exact fin_no_self p hty hr h hf
            | td ht' hr' =>
              exact fin_no_self p ht' (reach_trans p hr' hback) h hf
          · rw [if_neg hc] at h0
            cases o with
            | none => simp at h0
            | some t' =>
              simp only [] at h0
              rcases hv : visitCycleM p f ((m, n) :: path) clean t' with ⟨b, c'⟩
              rw [hv] at h0
              cases b with
              | true => simp at h0
              | false =>
                simp only [Prod.mk.injEq, true_and] at h0
                subst h0
                have hpath' : ∀ y ∈ (m, n) :: path, ∀ z, Reach p t' z → ReachP p y z := by
                  intro y hy z hz
                  rcases List.mem_cons.1 hy with rfl | hy
                  · exact ⟨t', ht, hz⟩
                  · exact hpath y hy z (.td ht hz)
                obtain ⟨⟨h, hf⟩, hn, hc'⟩ := visitCycleM_false p f ((m, n) :: path) clean t' c' hv hclean hpath'
                have hfin : fin p (h + 1) (.named m n) = true := by simp only [fin, ht]; exact hf
                refine ⟨⟨h + 1, hfin⟩, ?_, ?_⟩
                · intro y hy
                  cases hy with
                  | here _ => exact hp'
                  | td ht' hr' =>
                    rw [ht] at ht'
                    cases ht'
                    exact fun hmem => hn y hr' (List.mem_cons_of_mem _ hmem)
                · intro x hx
                  rcases List.mem_cons.1 hx with rfl | hx
                  · exact ⟨h + 1, hfin⟩
                  · exact hc' x hx
    | list o e =>
      simp only [visitCycleM] at h0
      obtain ⟨⟨h, hf⟩, hn, hc'⟩ := visitCycleM_false p f path clean e c h0 hclean
        (fun y hy z hz => hpath y hy z (.list hz))
      refine ⟨⟨h + 1, by simp only [fin]; exact hf⟩, ?_, hc'⟩
      intro y hy
      cases hy with
      | list hr => exact hn y hr
    | set o e =>
      simp only [visitCycleM] at h0
      obtain ⟨⟨h, hf⟩, hn, hc'⟩ := visitCycleM_false p f path clean e c h0 hclean
        (fun y hy z hz => hpath y hy z (.set hz))
      refine ⟨⟨h + 1, by simp only [fin]; exact hf⟩, ?_, hc'⟩
      intro y hy
      cases hy with
      | set hr => exact hn y hr
    | map o k v =>
      simp only [visitCycleM] at h0
      rcases hk : visitCycleM p f path clean k with ⟨b, ck⟩
      rw [hk] at h0
      cases b with
      | true => simp at h0
      | false =>
        simp only [] at h0
        obtain ⟨⟨h1, hf1⟩, hn1, hc1⟩ := visitCycleM_false p f path clean k ck hk hclean
          (fun y hy z hz => hpath y hy z (.mapk hz))
        obtain ⟨⟨h2, hf2⟩, hn2, hc2⟩ := visitCycleM_false p f path ck v c h0 hc1
          (fun y hy z hz => hpath y hy z (.mapv hz))
        refine ⟨⟨max h1 h2 + 1, ?_⟩, ?_, hc2⟩
        · simp only [fin, Bool.and_eq_true]
          exact ⟨fin_mono_le p k (Nat.le_max_left _ _) hf1, fin_mono_le p v (Nat.le_max_right _ _) hf2⟩
        · intro y hy
          cases hy with
          | mapk hr => exact hn1 y hr
          | mapv hr => exact hn2 y hr
    | base o b =>
      simp only [visitCycleM, Prod.mk.injEq, true_and] at h0
      subst h0
      exact ⟨⟨1, by simp [fin]⟩, (fun y hy => by cases hy), hclean⟩
    | uref n =>
      simp only [visitCycleM, Prod.mk.injEq, true_and] at h0
      subst h0
      exact ⟨⟨1, by simp [fin]⟩, (fun y hy => by cases hy), hclean⟩

/-! ## the plain search: "no error" is a fact about the unfolding, and stays with more fuel -/

theorem fin_of_visitCycle_false (p : GProg) : ∀ (f : Nat) (path : List TNode) (t : LType),
    visitCycle p f path t = false → fin p f t = true ∧ ∀ y, Reach p t y → y ∉ path
  | 0, _, _, h0 => by simp [visitCycle] at h0
  | f + 1, path, t, h0 => by
    cases t with
    | named m n =>
      rw [visitCycle_named] at h0
      cases ht : tdTarget p (m, n) with
      | none =>
        refine ⟨by simp [fin, ht], ?_⟩
        intro y hy
        cases hy with
        | here h' => rw [ht] at h'; cases h'
        | td h' _ => rw [ht] at h'; cases h'
      | some o =>
        simp only [ht] at h0
        by_cases hp : path.contains (m, n) = true
        · rw [if_pos hp] at h0; cases h0
        · rw [if_neg hp] at h0
          have hp' : (m, n) ∉ path := by simpa using hp
          cases o with
          | none => cases h0
          | some t' =>
            simp only [] at h0
            obtain ⟨hf, hn⟩ := fin_of_visitCycle_false p f ((m, n) :: path) t' h0
            refine ⟨by simp only [fin, ht]; exact hf, ?_⟩
            intro y hy
            cases hy with
            | here _ => exact hp'
            | td ht' hr' =>
              rw [ht] at ht'
              cases ht'
              exact fun hmem => hn y hr' (List.mem_cons_of_mem _ hmem)
    | list o e =>
      simp only [visitCycle] at h0
      obtain ⟨hf, hn⟩ := fin_of_visitCycle_false p f path e h0
      exact ⟨by simp only [fin]; exact hf, fun y hy => by cases hy with | list hr => exact hn y hr⟩
    | set o e =>
      simp only [visitCycle] at h0
      obtain ⟨hf, hn⟩ := fin_of_visitCycle_false p f path e h0
      exact ⟨by simp only [fin]; exact hf, fun y hy => by cases hy with | set hr => exact hn y hr⟩
    | map o k v =>
      simp only [visitCycle, Bool.or_eq_false_iff] at h0
      obtain ⟨hf1, hn1⟩ := fin_of_visitCycle_false p f path k h0.1
      obtain ⟨hf2, hn2⟩ := fin_of_visitCycle_false p f path v h0.2
      refine ⟨by simp only [fin, Bool.and_eq_true]; exact ⟨hf1, hf2⟩, ?_⟩
      intro y hy
      cases hy with
      | mapk hr => exact hn1 y hr
      | mapv hr => exact hn2 y hr
    | base o b => exact ⟨by simp [fin], fun y hy => by cases hy⟩
    | uref n => exact ⟨by simp [fin], fun y hy => by cases hy⟩

/-- "no error" of the plain search does not depend on the fuel once it has been reached -/
theorem visitCycle_false_mono (p : GProg) {f f' : Nat} {path : List TNode} {t : LType}
    (h0 : visitCycle p f path t = false) (hle : f ≤ f') : visitCycle p f' path t = false := by
  obtain ⟨hf, hn⟩ := fin_of_visitCycle_false p f path t h0
  exact visitCycle_false_of_fin p f' path t (fin_mono_le p t hle hf) hn

/-! ## the verdicts of the two searches -/

/-- an error of the memoised search (from an empty memo or any other) is an error of the plain
search with the same fuel -/
theorem memo_error_is_error (p : GProg) (f : Nat) (t : LType)
    (h : (visitCycleM p f [] [] t).1 = true) : visitCycle p f [] t = true :=
  visitCycleM_true p f [] [] t h

/-- where the plain search finds nothing, the memoised search with the same fuel finds nothing -/
theorem memo_clean_of_clean (p : GProg) (f : Nat) (t : LType)
    (h : visitCycle p f [] t = false) : (visitCycleM p f [] [] t).1 = false := by
  cases hm : (visitCycleM p f [] [] t).1 with
  | false => rfl
  | true => rw [memo_error_is_error p f t hm] at h; cases h

/-- where the memoised search finds nothing, the plain search finds nothing either, given fuel -/
theorem memo_clean_is_clean (p : GProg) (f : Nat) (t : LType)
    (h : (visitCycleM p f [] [] t).1 = false) : ∃ f0, ∀ f', f0 ≤ f' → visitCycle p f' [] t = false := by
  rcases hv : visitCycleM p f [] [] t with ⟨b, c⟩
  rw [hv] at h
  simp only [] at h
  subst h
  obtain ⟨⟨h, hf⟩, hn, _⟩ := visitCycleM_false p f [] [] t c hv
    (fun x hx => by cases hx) (fun y hy => by cases hy)
  exact ⟨h, fun f' hle => visitCycle_false_of_fin p f' [] t (fin_mono_le p t hle hf) hn⟩

/-- **The memoised search gives the verdict of the plain search** at every fuel at which the plain
search's error, if it reports one, is not for lack of fuel. -/
theorem memo_verdict (p : GProg) (f : Nat) (t : LType)
    (hfuel : visitCycle p f [] t = true → ∀ f', visitCycle p f' [] t = true) :
    (visitCycleM p f [] [] t).1 = visitCycle p f [] t := by
  cases hv : visitCycle p f [] t with
  | false => exact memo_clean_of_clean p f t hv
  | true =>
    cases hm : (visitCycleM p f [] [] t).1 with
    | true => rfl
    | false =>
      obtain ⟨f0, h0⟩ := memo_clean_is_clean p f t hm
      have := hfuel hv f0
      rw [h0 f0 (Nat.le_refl _)] at this
      cases this


/-! ## `cycleFuel` is enough for the plain search -/

def ldepth : LType → Nat
  | .list _ e => ldepth e + 1
  | .set _ e => ldepth e + 1
  | .map _ k v => max (ldepth k) (ldepth v) + 1
  | _ => 1

theorem ldepth_pos (t : LType) : 1 ≤ ldepth t := by
  cases t <;> simp [ldepth]

theorem ldepth_resolveExpr (p : GProg) (m : Nat) : ∀ (e : TExpr) (t : LType),
    resolveExpr p m e = some t → ldepth t ≤ e.depth
  | .base o b, t, h => by simp [resolveExpr] at h; subst h; simp [ldepth, TExpr.depth]
  | .list o e, t, h => by
    simp only [resolveExpr, Option.map_eq_some_iff] at h
    obtain ⟨t', ht', rfl⟩ := h
    simp only [ldepth, TExpr.depth]
    have := ldepth_resolveExpr p m e t' ht'
    omega
  | .set o e, t, h => by
    simp only [resolveExpr, Option.map_eq_some_iff] at h
    obtain ⟨t', ht', rfl⟩ := h
    simp only [ldepth, TExpr.depth]
    have := ldepth_resolveExpr p m e t' ht'
    omega
  | .map o k v, t, h => by
    simp only [resolveExpr] at h
    cases hk : resolveExpr p m k with
    | none => simp [hk] at h
    | some k' =>
      cases hv : resolveExpr p m v with
      | none => simp [hk, hv] at h
      | some v' =>
        simp only [hk, hv, Option.some.injEq] at h
        subst h
        simp only [ldepth, TExpr.depth]
        have := ldepth_resolveExpr p m k k' hk
        have := ldepth_resolveExpr p m v v' hv
        omega
  | .ref n, t, h => by
    simp only [resolveExpr, Option.map_eq_some_iff] at h
    obtain ⟨k, _, rfl⟩ := h
    simp [ldepth, TExpr.depth]

/-- weight of the typedef entries of module `m` that are not on the chain -/
def remW (path : List TNode) (m : Nat) : List (Name × TDef) → Nat
  | [] => 0
  | (n, .typedef t) :: rest => (if (m, n) ∈ path then 0 else t.depth + 1) + remW path m rest
  | _ :: rest => remW path m rest

def remAll (path : List TNode) : Nat → List Mod → Nat
  | _, [] => 0
  | i, md :: rest => remW path i md.types + remAll path (i + 1) rest

theorem remW_nil (m : Nat) : ∀ l, remW [] m l = typedefWeight l
  | [] => rfl
  | (n, d) :: rest => by
    cases d <;> simp [remW, typedefWeight, remW_nil m rest]

theorem remAll_nil : ∀ (i : Nat) (l : List Mod), remAll [] i l = (l.map (fun m => typedefWeight m.types)).sum
  | _, [] => rfl
  | i, md :: rest => by simp [remAll, remW_nil, remAll_nil (i + 1) rest]

theorem remW_mono (path : List TNode) (x : TNode) (m : Nat) : ∀ l, remW (x :: path) m l ≤ remW path m l
  | [] => Nat.le_refl _
  | (n, d) :: rest => by
    have ih := remW_mono path x m rest
    cases d with
    | typedef t =>
      simp only [remW, List.mem_cons]
      by_cases h1 : (m, n) ∈ path
      · simp [h1]; exact ih
      · by_cases h2 : (m, n) = x
        · simp [h2]; omega
        · simp [h1, h2]; exact ih
    | _ => simpa [remW] using ih

theorem remAll_mono (path : List TNode) (x : TNode) : ∀ (i : Nat) (l : List Mod),
    remAll (x :: path) i l ≤ remAll path i l
  | _, [] => Nat.le_refl _
  | i, md :: rest => by
    have := remW_mono path x i md.types
    have := remAll_mono path x (i + 1) rest
    simp only [remAll]; omega

theorem remW_strict (path : List TNode) (m : Nat) (n : Name) (t : TExpr) (hp : (m, n) ∉ path) :
    ∀ l, alookup n l = some (.typedef t) → remW ((m, n) :: path) m l + (t.depth + 1) ≤ remW path m l
  | [], h => by simp [alookup] at h
  | (n', d) :: rest, h => by
    simp only [alookup] at h
    by_cases hn : n' = n
    · subst hn
      simp only [if_true, Option.some.injEq] at h
      subst h
      have := remW_mono path (m, n') m rest
      simp only [remW, List.mem_cons, true_or, if_true, hp, if_false]
      omega
    · simp only [hn, if_false] at h
      have ih := remW_strict path m n t hp rest h
      cases d with
      | typedef t' =>
        have hne : (m, n') ≠ (m, n) := by
          intro h'; exact hn (Prod.mk.inj h').2
        simp only [remW, List.mem_cons, hne, false_or]
        omega
      | _ => simpa [remW] using ih

theorem remAll_strict (path : List TNode) (m : Nat) (n : Name) (t : TExpr) (hp : (m, n) ∉ path) :
    ∀ (i : Nat) (l : List Mod), i ≤ m → alookup n (l.getD (m - i) Mod.empty).types = some (.typedef t) →
      remAll ((m, n) :: path) i l + (t.depth + 1) ≤ remAll path i l
  | _, [], _, h => by simp [Mod.empty, alookup] at h
  | i, md :: rest, hi, h => by
    by_cases hm : m = i
    · subst hm
      simp only [Nat.sub_self, List.getD_cons_zero] at h
      have := remW_strict path m n t hp md.types h
      have := remAll_mono path (m, n) (m + 1) rest
      simp only [remAll]; omega
    · have hlt : i + 1 ≤ m := by omega
      have hsub : m - i = (m - (i + 1)) + 1 := by omega
      rw [hsub, List.getD_cons_succ] at h
      have := remAll_strict path m n t hp (i + 1) rest hlt h
      have := remW_mono path (m, n) i md.types
      simp only [remAll]; omega

theorem tdTarget_some_some {p : GProg} {m : Nat} {n : Name} {t' : LType}
    (h : tdTarget p (m, n) = some (some t')) :
    ∃ target, lookupType p m n = some (.typedef target) ∧ resolveExpr p m target = some t' := by
  simp only [tdTarget] at h
  cases hl : lookupType p m n with
  | none => simp [hl] at h
  | some d =>
    cases d with
    | typedef target => simp only [hl, Option.some.injEq] at h; exact ⟨target, rfl, h⟩
    | _ => simp [hl] at h

/-- whatever the plain search clears with some fuel, it clears with the depth of the type plus the
weight of the typedefs that are not on the chain -/
theorem visitCycle_fuel_enough (p : GProg) : ∀ (f' F : Nat) (path : List TNode) (t : LType),
    visitCycle p f' path t = false → ldepth t + remAll path 0 p ≤ F → visitCycle p F path t = false
  | 0, _, _, _, h0, _ => by simp [visitCycle] at h0
  | f' + 1, F, path, t, h0, hF => by
    have hpos := ldepth_pos t
    obtain ⟨F0, rfl⟩ : ∃ F0, F = F0 + 1 := ⟨F - 1, by omega⟩
    cases t with
    | named m n =>
      rw [visitCycle_named] at h0 ⊢
      cases ht : tdTarget p (m, n) with
      | none => rfl
      | some o =>
        simp only [ht] at h0 ⊢
        by_cases hp : path.contains (m, n) = true
        · rw [if_pos hp] at h0; cases h0
        · rw [if_neg hp] at h0 ⊢
          have hp' : (m, n) ∉ path := by simpa using hp
          cases o with
          | none => cases h0
          | some t' =>
            simp only [] at h0 ⊢
            obtain ⟨target, hl, hr⟩ := tdTarget_some_some ht
            have hd := ldepth_resolveExpr p m target t' hr
            have hs := remAll_strict path m n target hp' 0 p (Nat.zero_le _)
              (by simpa [lookupType, modAt] using hl)
            refine visitCycle_fuel_enough p f' F0 ((m, n) :: path) t' h0 ?_
            simp only [ldepth] at hF
            omega
    | list o e =>
      simp only [visitCycle] at h0 ⊢
      simp only [ldepth] at hF
      exact visitCycle_fuel_enough p f' F0 path e h0 (by omega)
    | set o e =>
      simp only [visitCycle] at h0 ⊢
      simp only [ldepth] at hF
      exact visitCycle_fuel_enough p f' F0 path e h0 (by omega)
    | map o k v =>
      simp only [visitCycle, Bool.or_eq_false_iff] at h0 ⊢
      simp only [ldepth] at hF
      exact ⟨visitCycle_fuel_enough p f' F0 path k h0.1 (by omega),
        visitCycle_fuel_enough p f' F0 path v h0.2 (by omega)⟩
    | base o b => simp [visitCycle]
    | uref n => simp [visitCycle]

/-- an error of the plain search with `cycleFuel` is never for lack of fuel -/
theorem cycleFuel_adequate (p : GProg) (m : Nat) (n : Name)
    (h : visitCycle p (cycleFuel p) [] (.named m n) = true) :
    ∀ f', visitCycle p f' [] (.named m n) = true := by
  intro f'
  cases hv : visitCycle p f' [] (.named m n) with
  | true => rfl
  | false =>
    have := visitCycle_fuel_enough p f' (cycleFuel p) [] (.named m n) hv
      (by simp only [ldepth, remAll_nil, cycleFuel]; omega)
    rw [this] at h; cases h

/-- "no cycle", declaratively: the unfolding of the type (typedefs replaced by their targets) is finite
and every typedef in it resolves -/
theorem visitCycle_false_iff_fin (p : GProg) (m : Nat) (n : Name) :
    visitCycle p (cycleFuel p) [] (.named m n) = false ↔ ∃ h, fin p h (.named m n) = true := by
  constructor
  · intro h
    exact ⟨_, (fin_of_visitCycle_false p _ [] _ h).1⟩
  · rintro ⟨h, hf⟩
    have := visitCycle_false_of_fin p h [] _ hf (fun y _ hy => by cases hy)
    exact visitCycle_fuel_enough p h (cycleFuel p) [] _ this
      (by simp only [ldepth, remAll_nil, cycleFuel]; omega)

/-- **With the fuel the model uses, the memoised search and the plain search give the same verdict, on
every program and every named type.** -/
theorem memo_verdict_cycleFuel (p : GProg) (m : Nat) (n : Name) :
    (visitCycleM p (cycleFuel p) [] [] (.named m n)).1 = visitCycle p (cycleFuel p) [] (.named m n) :=
  memo_verdict p (cycleFuel p) (.named m n) (cycleFuel_adequate p m n)

/-- `moduleHasCycle` (what `compileWith` consults, and what is tied to the code) in terms of the plain search -/
theorem moduleHasCycle_plain (p : GProg) (m : Nat) :
    moduleHasCycle p m = (modAt p m).types.any (fun (n, d) =>
      match d with
      | .typedef _ => visitCycle p (cycleFuel p) [] (.named m n)
      | _ => false) := by
  unfold moduleHasCycle
  congr 1
  funext ⟨n, d⟩
  cases d <;> simp [memo_verdict_cycleFuel]

end ThriftVerif.Compile
