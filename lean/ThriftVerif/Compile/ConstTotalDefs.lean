/-
Termination (C08) for programs with constants: definitions and small lemmas.

The linker's mutual block is analysed with a lexicographic measure
  (definitions whose Link has not started, constants not being linked or cast, size of the argument)
instead of an explicit fuel bound: `uCount`, `kCount`, `CV.msz`. This file has the value classes
(`CV.plain`: what the theorem's hypothesis allows in constants and defaults; `CV.noMS`: what is
then ever stored), the counters with their monotonicity lemmas, and the lifting of a verdict to
larger fuel (from `monoStep`).
-/
import ThriftVerif.Compile.TotalProofs

namespace ThriftVerif.Compile

/-! ## values without map / struct literals -/

mutual
/-- source values built from scalars, references and list literals only -/
def CV.plain : CV → Bool
  | .int _ => true
  | .dbl _ => true
  | .bool _ => true
  | .str _ => true
  | .uref _ => true
  | .list xs => CV.plainList xs
  | _ => false
def CV.plainList : List CV → Bool
  | [] => true
  | x :: xs => x.plain && CV.plainList xs
end

mutual
/-- values (source or linked) without a map or struct node -/
def CV.noMS : CV → Bool
  | .map _ => false
  | .struct _ => false
  | .list xs => CV.noMSList xs
  | .set xs => CV.noMSList xs
  | _ => true
def CV.noMSList : List CV → Bool
  | [] => true
  | x :: xs => x.noMS && CV.noMSList xs
end

mutual
/-- the size that decreases along the linker's descent into a value; an unlinked reference
weighs more than the linked reference it becomes, and more the longer its dotted name -/
def CV.msz : CV → Nat
  | .uref n => n.length + 3
  | .list xs => CV.mszList xs + 1
  | .set xs => CV.mszList xs + 1
  | _ => 1
def CV.mszList : List CV → Nat
  | [] => 0
  | x :: xs => x.msz + CV.mszList xs + 1
end

mutual
theorem CV.noMS_of_plain : ∀ v : CV, v.plain = true → v.noMS = true
  | .int _, _ => rfl
  | .dbl _, _ => rfl
  | .bool _, _ => rfl
  | .str _, _ => rfl
  | .uref _, _ => rfl
  | .list xs, h => by
    simp only [CV.plain] at h; simp only [CV.noMS]; exact CV.noMSList_of_plainList xs h
  | .map _, h => by simp [CV.plain] at h
  | .set _, h => by simp [CV.plain] at h
  | .struct _, h => by simp [CV.plain] at h
  | .cref _ _, h => by simp [CV.plain] at h
  | .eref _ _ _ _, h => by simp [CV.plain] at h
theorem CV.noMSList_of_plainList : ∀ xs : List CV, CV.plainList xs = true → CV.noMSList xs = true
  | [], _ => rfl
  | x :: xs, h => by
    simp only [CV.plainList, Bool.and_eq_true] at h
    simp only [CV.noMSList, Bool.and_eq_true]
    exact ⟨CV.noMS_of_plain x h.1, CV.noMSList_of_plainList xs h.2⟩
end

/-- defaults of a field list are plain -/
def dfltsPlain : List GField → Bool
  | [] => true
  | f :: rest => (match f.dflt with | some d => d.plain | none => true) && dfltsPlain rest

def fsz : List GField → Nat
  | [] => 0
  | f :: rest => f.ty.size + (match f.dflt with | some d => d.msz | none => 0) + 1 + fsz rest

/-- every constant value and every default value of the program is plain -/
def plainValuesB (p : GProg) : Bool :=
  p.all (fun md =>
    md.consts.all (fun c => c.2.val.plain) &&
    md.types.all (fun t => match t.2 with | .struct _ fs => dfltsPlain fs | _ => true) &&
    md.services.all (fun s => s.2.funcs.all (fun g => dfltsPlain g.args && dfltsPlain g.excs)))

def PlainValues (p : GProg) : Prop := plainValuesB p = true
instance (p : GProg) : Decidable (PlainValues p) := by unfold PlainValues; infer_instance

def allConstKeys (p : GProg) : List (Nat × Name) :=
  (List.range p.length).flatMap (fun m => (modAt p m).consts.map (fun t => (m, t.1)))

/-- definitions (types and constants) whose `Link` has not started -/
def uCount (p : GProg) (σ : St) : Nat :=
  (allTypeKeys p).countP (fun k => !σ.tflag.contains k) + (allConstKeys p).countP (fun k => !σ.cflag.contains k)

/-- constants whose value is not being linked or cast at the moment -/
def kCount (p : GProg) (σ : St) : Nat := (allConstKeys p).countP (fun k => !σ.clink.contains k)

/-- every stored constant value is free of map / struct nodes -/
def StoreOK (σ : St) : Prop := ∀ k v, alookup k σ.cval = some v → v.noMS = true

def FlagsLe2 (σ σ' : St) : Prop :=
  (∀ k, σ.tflag.contains k = true → σ'.tflag.contains k = true) ∧
  (∀ k, σ.cflag.contains k = true → σ'.cflag.contains k = true)

def ClinkGe (σ σ' : St) : Prop := ∀ k, σ.clink.contains k = true → σ'.clink.contains k = true

/-- what a completed call guarantees about the state it returns -/
def Post (p : GProg) (σ σ' : St) : Prop :=
  FlagsLe2 σ σ' ∧ (uCount p σ' < uCount p σ ∨ ClinkGe σ σ') ∧ (StoreOK σ → StoreOK σ')

theorem countP_le_of_imp {α : Type} (P Q : α → Bool) (l : List α) (h : ∀ x, P x = true → Q x = true) :
    l.countP P ≤ l.countP Q := by
  induction l with
  | nil => simp
  | cons a l ih =>
    simp only [List.countP_cons]
    by_cases hp : P a = true
    · simp [hp, h a hp]; exact ih
    · simp [hp]; omega

theorem countP_lt_of_imp {α : Type} (P Q : α → Bool) (l : List α) (h : ∀ x, P x = true → Q x = true)
    (a : α) (ha : a ∈ l) (hq : Q a = true) (hp : P a = false) : l.countP P < l.countP Q := by
  induction l with
  | nil => cases ha
  | cons b l ih =>
    simp only [List.countP_cons]
    simp only [List.mem_cons] at ha
    rcases ha with ha | ha
    · subst ha
      have := countP_le_of_imp P Q l h
      simp [hq, hp]; omega
    · have := ih ha
      by_cases hpb : P b = true
      · simp [hpb, h b hpb]; omega
      · simp [hpb]; omega

theorem uCount_le {p : GProg} {σ σ' : St} (h : FlagsLe2 σ σ') : uCount p σ' ≤ uCount p σ := by
  unfold uCount
  have h1 := countP_le_of_imp (fun k => !σ'.tflag.contains k) (fun k => !σ.tflag.contains k) (allTypeKeys p)
    (by intro x hx; simp only [Bool.not_eq_true'] at hx ⊢
        cases hc : σ.tflag.contains x with
        | false => rfl
        | true => rw [h.1 x hc] at hx; cases hx)
  have h2 := countP_le_of_imp (fun k => !σ'.cflag.contains k) (fun k => !σ.cflag.contains k) (allConstKeys p)
    (by intro x hx; simp only [Bool.not_eq_true'] at hx ⊢
        cases hc : σ.cflag.contains x with
        | false => rfl
        | true => rw [h.2 x hc] at hx; cases hx)
  omega

theorem kCount_le {p : GProg} {σ σ' : St} (h : ClinkGe σ σ') : kCount p σ' ≤ kCount p σ := by
  unfold kCount
  exact countP_le_of_imp _ _ _ (by
    intro x hx; simp only [Bool.not_eq_true'] at hx ⊢
    cases hc : σ.clink.contains x with
    | false => rfl
    | true => rw [h x hc] at hx; cases hx)

theorem allConstKeys_mem {p : GProg} {m : Nat} {n : Name} {c : GConst} (h : lookupConst p m n = some c) :
    (m, n) ∈ allConstKeys p := by
  have hm := mem_of_alookup h
  have hne : modAt p m ≠ Mod.empty := by
    intro he; unfold lookupConst at h; rw [he] at hm; simp [Mod.empty] at hm
  unfold allConstKeys
  rw [List.mem_flatMap]
  exact ⟨m, List.mem_range.2 (modAt_mem hne).1, List.mem_map.2 ⟨(n, c), hm, rfl⟩⟩

theorem allTypeKeys_mem {p : GProg} {m : Nat} {n : Name} {d : TDef} (h : lookupType p m n = some d) :
    (m, n) ∈ allTypeKeys p := by
  obtain ⟨hm, _, hmem⟩ := lookupType_mod h
  unfold allTypeKeys
  rw [List.mem_flatMap]
  exact ⟨m, List.mem_range.2 hm, List.mem_map.2 ⟨(n, d), hmem, rfl⟩⟩


theorem stable_lift {α : Type} (F : Nat → Res α) (hs : ∀ f, Stable (F f) (F (f + 1))) {f : Nat} {r : Res α}
    (h : F f = r) (hr : r ≠ .fuel) : ∀ g, f ≤ g → F g = r := by
  intro g hg
  induction g with
  | zero => have : f = 0 := by omega
            subst this; exact h
  | succ g ih =>
    by_cases hfg : f = g + 1
    · subst hfg; exact h
    · have hg' := ih (by omega)
      rcases hs g with h1 | h1
      · rw [hg'] at h1; exact absurd h1 hr
      · rw [← h1]; exact hg'

theorem linkTy_lift (p : GProg) {m e σ f r} (h : linkTy f p m e σ = r) (hr : r ≠ .fuel) {g : Nat} (hg : f ≤ g) :
    linkTy g p m e σ = r := stable_lift (fun f => linkTy f p m e σ) (fun f => (monoStep p f).1 m e σ) h hr g hg
theorem linkNamed_lift (p : GProg) {m n σ f r} (h : linkNamed f p m n σ = r) (hr : r ≠ .fuel) {g : Nat} (hg : f ≤ g) :
    linkNamed g p m n σ = r := stable_lift (fun f => linkNamed f p m n σ) (fun f => (monoStep p f).2.1 m n σ) h hr g hg
theorem linkFields_lift (p : GProg) {o m i fs σ f r} (h : linkFields f p o m i fs σ = r) (hr : r ≠ .fuel) {g : Nat} (hg : f ≤ g) :
    linkFields g p o m i fs σ = r :=
  stable_lift (fun f => linkFields f p o m i fs σ) (fun f => (monoStep p f).2.2.1 o m i fs σ) h hr g hg
theorem linkConst_lift (p : GProg) {m n σ f r} (h : linkConst f p m n σ = r) (hr : r ≠ .fuel) {g : Nat} (hg : f ≤ g) :
    linkConst g p m n σ = r := stable_lift (fun f => linkConst f p m n σ) (fun f => (monoStep p f).2.2.2.1 m n σ) h hr g hg
theorem linkVal_lift (p : GProg) {m v t σ f r} (h : linkVal f p m v t σ = r) (hr : r ≠ .fuel) {g : Nat} (hg : f ≤ g) :
    linkVal g p m v t σ = r := stable_lift (fun f => linkVal f p m v t σ) (fun f => (monoStep p f).2.2.2.2.1 m v t σ) h hr g hg
theorem linkVals_lift (p : GProg) {m vs t σ f r} (h : linkVals f p m vs t σ = r) (hr : r ≠ .fuel) {g : Nat} (hg : f ≤ g) :
    linkVals g p m vs t σ = r :=
  stable_lift (fun f => linkVals f p m vs t σ) (fun f => (monoStep p f).2.2.2.2.2.1 m vs t σ) h hr g hg

end ThriftVerif.Compile
