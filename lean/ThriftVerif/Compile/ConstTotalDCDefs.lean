/-
Termination (C08) for programs whose DEFAULT values are closed — part 1: values that touch no
constant.

`nrAt p m v`: linked in scope `m`, the value `v` never reaches a constant — scalars, enum items,
list / set literals of such, and dotted names that denote no constant (`enumRefF`). Linking such a
value leaves the state alone and yields a linked value without references (`nrStep`), and it
halts (`nrHalts`). This is what makes the completion of a struct literal from the defaults of its
struct harmless: a default of this kind is not a part of the literal being linked, but linking it
cannot lead anywhere.
-/
import ThriftVerif.Compile.ConstTotalDefs

namespace ThriftVerif.Compile.DC
open ThriftVerif.Compile

/-! ## names that denote no constant, values that touch no constant -/

/-- `name`, looked up in module `m` the way `constantReference.Link` does, never reaches a
constant: it is not a constant of `m`, and following its dotted prefix through an include
(when the prefix is not an enum of `m`) leads to a module where the same holds for the rest. -/
def enumRefF (p : GProg) : Nat → Nat → Name → Bool
  | 0, _, _ => false
  | f + 1, m, name =>
    (lookupConst p m name).isNone &&
    (match splitInclude name with
     | none => true
     | some (mn, inm) =>
       match lookupType p m mn with
       | some (.enum _) => true
       | _ =>
         match lookupInclude p m mn with
         | none => true
         | some m' => enumRefF p f m' inm)

theorem enumRefF_fuel (p : GProg) : ∀ (f g m : Nat) (name : Name), name.length < f → name.length < g →
    enumRefF p f m name = enumRefF p g m name := by
  intro f
  induction f with
  | zero => intro g m name h; omega
  | succ f ih =>
    intro g m name hf hg
    cases g with
    | zero => omega
    | succ g =>
      simp only [enumRefF]
      cases hsp : splitInclude name with
      | none => rfl
      | some pr =>
        obtain ⟨mn, inm⟩ := pr
        have hl := splitInclude_length hsp
        simp only
        split
        · rfl
        · split
          · rfl
          · rw [ih g _ inm (by omega) (by omega)]

mutual
/-- the value never touches a constant when linked in scope `m`: scalars, enum items, list / set
literals of such, and references that denote no constant -/
def nrAt (p : GProg) (m : Nat) : CV → Bool
  | .int _ => true
  | .dbl _ => true
  | .bool _ => true
  | .str _ => true
  | .eref _ _ _ _ => true
  | .uref n => enumRefF p (n.length + 1) m n
  | .list xs => nrAtList p m xs
  | .set xs => nrAtList p m xs
  | _ => false
def nrAtList (p : GProg) (m : Nat) : List CV → Bool
  | [] => true
  | x :: xs => nrAt p m x && nrAtList p m xs
end

mutual
/-- linked values without references and without struct / map nodes -/
def lnk : CV → Bool
  | .int _ => true
  | .dbl _ => true
  | .bool _ => true
  | .str _ => true
  | .eref _ _ _ _ => true
  | .list xs => lnkList xs
  | .set xs => lnkList xs
  | _ => false
def lnkList : List CV → Bool
  | [] => true
  | x :: xs => lnk x && lnkList xs
end

mutual
theorem nrAt_of_lnk (p : GProg) (m : Nat) : ∀ v : CV, lnk v = true → nrAt p m v = true
  | .int _, _ => rfl
  | .dbl _, _ => rfl
  | .bool _, _ => rfl
  | .str _, _ => rfl
  | .eref _ _ _ _, _ => rfl
  | .list xs, h => by simp only [lnk] at h; simp only [nrAt]; exact nrAtList_of_lnkList p m xs h
  | .set xs, h => by simp only [lnk] at h; simp only [nrAt]; exact nrAtList_of_lnkList p m xs h
  | .uref _, h => by simp [lnk] at h
  | .map _, h => by simp [lnk] at h
  | .struct _, h => by simp [lnk] at h
  | .cref _ _, h => by simp [lnk] at h
theorem nrAtList_of_lnkList (p : GProg) (m : Nat) : ∀ xs : List CV, lnkList xs = true → nrAtList p m xs = true
  | [], _ => rfl
  | x :: xs, h => by
    simp only [lnkList, Bool.and_eq_true] at h
    simp only [nrAtList, Bool.and_eq_true]
    exact ⟨nrAt_of_lnk p m x h.1, nrAtList_of_lnkList p m xs h.2⟩
end

theorem castInt_lnk {k : RootKind} {n : Int} {v : CV} (h : castInt k n = some v) : lnk v = true := by
  unfold castInt at h
  split at h
  · split at h
    · cases h; rfl
    · cases h
  · cases h; rfl
  · split at h
    · cases h; rfl
    · split at h
      · cases h; rfl
      · cases h
  · split at h
    · cases h; rfl
    · cases h
  · cases h

/-- linking a value that touches no constant leaves the state alone and yields a linked value
without references -/
def NrStep (p : GProg) (f : Nat) : Prop :=
  (∀ m v t σ σ' v', nrAt p m v = true → linkVal f p m v t σ = .ok (σ', v') → σ' = σ ∧ lnk v' = true) ∧
  (∀ m vs t σ σ' vs', nrAtList p m vs = true → linkVals f p m vs t σ = .ok (σ', vs') → σ' = σ ∧ lnkList vs' = true)

theorem nrStep (p : GProg) : ∀ f, NrStep p f := by
  intro f
  induction f with
  | zero => exact ⟨fun _ _ _ _ _ _ _ h => by simp [linkVal] at h, fun _ _ _ _ _ _ _ h => by simp [linkVals] at h⟩
  | succ f ih =>
    obtain ⟨iV, iVs⟩ := ih
    refine ⟨?_, ?_⟩
    · intro m v t σ σ' v' hn h
      cases v with
      | bool b =>
        simp only [linkVal] at h
        split at h
        · cases h; exact ⟨rfl, rfl⟩
        · cases h
      | int n =>
        simp only [linkVal] at h
        split at h
        · rename_i x hc; cases h; exact ⟨rfl, castInt_lnk hc⟩
        · cases h
      | str s =>
        simp only [linkVal] at h
        split at h
        · cases h; exact ⟨rfl, rfl⟩
        · cases h
      | dbl b =>
        simp only [linkVal] at h
        split at h
        · cases h; exact ⟨rfl, rfl⟩
        · cases h
      | eref em en item val =>
        simp only [linkVal] at h
        split at h
        · cases h; exact ⟨rfl, rfl⟩
        · cases h
      | map kvs => simp [nrAt] at hn
      | struct fs => simp [nrAt] at hn
      | cref cm cn => simp [nrAt] at hn
      | list xs =>
        simp only [nrAt] at hn
        simp only [linkVal] at h
        split at h
        · split at h
          · rename_i σ1 xs' hx; cases guardDup_ok h
            obtain ⟨e1, e2⟩ := iVs _ _ _ _ _ _ hn hx
            exact ⟨e1, by simp only [lnk]; exact e2⟩
          · cases h
          · cases h
        · split at h
          · rename_i σ1 xs' hx; cases h
            obtain ⟨e1, e2⟩ := iVs _ _ _ _ _ _ hn hx
            exact ⟨e1, by simp only [lnk]; exact e2⟩
          · cases h
          · cases h
        · cases h
      | set xs =>
        simp only [nrAt] at hn
        simp only [linkVal] at h
        split at h
        · split at h
          · rename_i σ1 xs' hx; cases guardDup_ok h
            obtain ⟨e1, e2⟩ := iVs _ _ _ _ _ _ hn hx
            exact ⟨e1, by simp only [lnk]; exact e2⟩
          · cases h
          · cases h
        · cases h
      | uref name =>
        simp only [nrAt] at hn
        simp only [enumRefF, Bool.and_eq_true, Option.isNone_iff_eq_none] at hn
        obtain ⟨hlc, hrest⟩ := hn
        simp only [linkVal, hlc] at h
        split at h
        · cases h
        · rename_i mn inm hsp
          rw [hsp] at hrest
          simp only at hrest
          split at h
          · rename_i items hlt
            split at h
            · split at h
              · cases h; exact ⟨rfl, rfl⟩
              · cases h
            · cases h
          · rename_i hne
            split at h
            · cases h
            · rename_i m' hi
              have hlen := splitInclude_length hsp
              have hr' : enumRefF p name.length m' inm = true := by
                revert hrest
                split
                · rename_i items hlt; exact absurd hlt (hne items)
                · rw [hi]; exact fun h => h
              refine iV m' (.uref inm) t σ σ' v' ?_ h
              simp only [nrAt]
              rw [enumRefF_fuel p _ name.length m' inm (by omega) (by omega)]
              exact hr'
    · intro m vs t σ σ' vs' hn h
      cases vs with
      | nil => simp only [linkVals] at h; cases h; exact ⟨rfl, rfl⟩
      | cons x xs =>
        simp only [nrAtList, Bool.and_eq_true] at hn
        simp only [linkVals] at h
        split at h
        · rename_i σ1 x' hx
          split at h
          · rename_i σ2 xs' hxs
            cases h
            obtain ⟨e1, l1⟩ := iV _ _ _ _ _ _ hn.1 hx
            subst e1
            obtain ⟨e2, l2⟩ := iVs _ _ _ _ _ _ hn.2 hxs
            exact ⟨e2, by simp only [lnkList, l1, l2, Bool.and_self]⟩
          · cases h
          · cases h
        · cases h
        · cases h


/-- a value that touches no constant is linked with some fuel, the state unchanged -/
def NrHalts (p : GProg) (n : Nat) : Prop :=
  (∀ m v t σ, v.msz ≤ n → nrAt p m v = true →
    ∃ f, linkVal f p m v t σ = .err ∨ ∃ v', linkVal f p m v t σ = .ok (σ, v') ∧ lnk v' = true) ∧
  (∀ m vs t σ, CV.mszList vs ≤ n → nrAtList p m vs = true →
    ∃ f, linkVals f p m vs t σ = .err ∨ ∃ vs', linkVals f p m vs t σ = .ok (σ, vs') ∧ lnkList vs' = true)

theorem CV.msz_pos' (v : CV) : 1 ≤ v.msz := by cases v <;> simp [CV.msz] <;> omega

theorem nrHalts (p : GProg) : ∀ n, NrHalts p n := by
  intro n
  induction n with
  | zero =>
    refine ⟨fun m v t σ h _ => ?_, fun m vs t σ h _ => ?_⟩
    · have := CV.msz_pos' v; omega
    · cases vs with
      | nil => exact ⟨1, Or.inr ⟨[], by simp only [linkVals], rfl⟩⟩
      | cons x xs => simp only [CV.mszList] at h; omega
  | succ n ih =>
    obtain ⟨iV, iVs⟩ := ih
    have viaVals : ∀ m xs t σ, CV.mszList xs ≤ n → nrAtList p m xs = true → ∀ (fin : St → List CV → Res (St × CV))
        (hw : ∀ σ1 l, lnkList l = true → fin σ1 l = .err ∨ ∃ v, fin σ1 l = .ok (σ1, v) ∧ lnk v = true),
        ∃ f, (match linkVals f p m xs t σ with
              | .ok (σ1, xs') => fin σ1 xs'
              | .err => .err
              | .fuel => .fuel) = .err ∨
          ∃ v', (match linkVals f p m xs t σ with
              | .ok (σ1, xs') => fin σ1 xs'
              | .err => .err
              | .fuel => .fuel) = .ok (σ, v') ∧ lnk v' = true := by
      intro m xs t σ hsz hn fin hw
      obtain ⟨f, hf⟩ := iVs m xs t σ hsz hn
      rcases hf with h | ⟨xs', h, hl⟩
      · exact ⟨f, Or.inl (by rw [h])⟩
      · rcases hw σ xs' hl with hg | ⟨v, hg, hv⟩
        · exact ⟨f, Or.inl (by rw [h]; exact hg)⟩
        · exact ⟨f, Or.inr ⟨v, by rw [h]; exact hg, hv⟩⟩
    have finSet : ∀ σ1 l, lnkList l = true → guardDup p σ1 l (.set l) = .err ∨
        ∃ v, guardDup p σ1 l (.set l) = .ok (σ1, v) ∧ lnk v = true := by
      intro σ1 l hl
      rcases guardDup_cases p σ1 l (.set l) with hg | hg
      · exact Or.inl hg
      · exact Or.inr ⟨.set l, hg, by simp only [lnk]; exact hl⟩
    have finList : ∀ σ1 l, lnkList l = true → (Res.ok (σ1, CV.list l) : Res (St × CV)) = .err ∨
        ∃ v, (Res.ok (σ1, CV.list l) : Res (St × CV)) = .ok (σ1, v) ∧ lnk v = true :=
      fun σ1 l hl => Or.inr ⟨.list l, rfl, by simp only [lnk]; exact hl⟩
    refine ⟨?_, ?_⟩
    · intro m v t σ hsz hn
      cases v with
      | bool b =>
        refine ⟨1, ?_⟩
        simp only [linkVal]
        split
        · exact Or.inr ⟨_, rfl, rfl⟩
        · exact Or.inl rfl
      | int k =>
        refine ⟨1, ?_⟩
        simp only [linkVal]
        split
        · rename_i x hc; exact Or.inr ⟨_, rfl, castInt_lnk hc⟩
        · exact Or.inl rfl
      | str x =>
        refine ⟨1, ?_⟩
        simp only [linkVal]
        split
        · exact Or.inr ⟨_, rfl, rfl⟩
        · exact Or.inl rfl
      | dbl x =>
        refine ⟨1, ?_⟩
        simp only [linkVal]
        split
        · exact Or.inr ⟨_, rfl, rfl⟩
        · exact Or.inl rfl
      | eref em en item val =>
        refine ⟨1, ?_⟩
        simp only [linkVal]
        split
        · exact Or.inr ⟨_, rfl, rfl⟩
        · exact Or.inl rfl
      | map kvs => simp [nrAt] at hn
      | struct fs => simp [nrAt] at hn
      | cref cm cn => simp [nrAt] at hn
      | list xs =>
        simp only [nrAt] at hn
        simp only [CV.msz] at hsz
        cases hk : rootKind p (rootIn p σ t) with
        | set e =>
          obtain ⟨f, hf⟩ := viaVals m xs e σ (by omega) hn (fun σ1 l => guardDup p σ1 l (.set l)) finSet
          exact ⟨f + 1, by simp only [linkVal, hk]; exact hf⟩
        | list e =>
          obtain ⟨f, hf⟩ := viaVals m xs e σ (by omega) hn (fun σ1 l => .ok (σ1, .list l)) finList
          exact ⟨f + 1, by simp only [linkVal, hk]; exact hf⟩
        | _ => exact ⟨1, Or.inl (by simp only [linkVal, hk])⟩
      | set xs =>
        simp only [nrAt] at hn
        simp only [CV.msz] at hsz
        cases hk : rootKind p (rootIn p σ t) with
        | set e =>
          obtain ⟨f, hf⟩ := viaVals m xs e σ (by omega) hn (fun σ1 l => guardDup p σ1 l (.set l)) finSet
          exact ⟨f + 1, by simp only [linkVal, hk]; exact hf⟩
        | _ => exact ⟨1, Or.inl (by simp only [linkVal, hk])⟩
      | uref name =>
        simp only [nrAt] at hn
        have hn0 := hn
        simp only [enumRefF, Bool.and_eq_true, Option.isNone_iff_eq_none] at hn
        obtain ⟨hlc, hrest⟩ := hn
        simp only [CV.msz] at hsz
        cases hsp : splitInclude name with
        | none => exact ⟨1, Or.inl (by simp only [linkVal, hlc, hsp])⟩
        | some pr =>
          obtain ⟨mn, inm⟩ := pr
          have hlen := splitInclude_length hsp
          rw [hsp] at hrest
          simp only at hrest
          cases hlt : lookupType p m mn with
          | some d =>
            cases d with
            | enum items =>
              refine ⟨1, ?_⟩
              simp only [linkVal, hlc, hsp, hlt]
              split
              · split
                · exact Or.inr ⟨_, rfl, rfl⟩
                · exact Or.inl rfl
              · exact Or.inl rfl
            | typedef tg =>
              rw [hlt] at hrest
              simp only at hrest
              cases hi : lookupInclude p m mn with
              | none => exact ⟨1, Or.inl (by simp only [linkVal, hlc, hsp, hlt, hi])⟩
              | some m' =>
                rw [hi] at hrest
                simp only at hrest
                obtain ⟨f, hf⟩ := iV m' (.uref inm) t σ (by simp only [CV.msz]; omega)
                  (by simp only [nrAt]; rw [enumRefF_fuel p _ name.length m' inm (by omega) (by omega)]; exact hrest)
                exact ⟨f + 1, by simp only [linkVal, hlc, hsp, hlt, hi]; exact hf⟩
            | struct k fs =>
              rw [hlt] at hrest
              simp only at hrest
              cases hi : lookupInclude p m mn with
              | none => exact ⟨1, Or.inl (by simp only [linkVal, hlc, hsp, hlt, hi])⟩
              | some m' =>
                rw [hi] at hrest
                simp only at hrest
                obtain ⟨f, hf⟩ := iV m' (.uref inm) t σ (by simp only [CV.msz]; omega)
                  (by simp only [nrAt]; rw [enumRefF_fuel p _ name.length m' inm (by omega) (by omega)]; exact hrest)
                exact ⟨f + 1, by simp only [linkVal, hlc, hsp, hlt, hi]; exact hf⟩
          | none =>
            rw [hlt] at hrest
            simp only at hrest
            cases hi : lookupInclude p m mn with
            | none => exact ⟨1, Or.inl (by simp only [linkVal, hlc, hsp, hlt, hi])⟩
            | some m' =>
              rw [hi] at hrest
              simp only at hrest
              obtain ⟨f, hf⟩ := iV m' (.uref inm) t σ (by simp only [CV.msz]; omega)
                (by simp only [nrAt]; rw [enumRefF_fuel p _ name.length m' inm (by omega) (by omega)]; exact hrest)
              exact ⟨f + 1, by simp only [linkVal, hlc, hsp, hlt, hi]; exact hf⟩
    · intro m vs t σ hsz hn
      cases vs with
      | nil => exact ⟨1, Or.inr ⟨[], by simp only [linkVals], rfl⟩⟩
      | cons x xs =>
        simp only [nrAtList, Bool.and_eq_true] at hn
        simp only [CV.mszList] at hsz
        obtain ⟨f1, h1⟩ := iV m x t σ (by omega) hn.1
        rcases h1 with h | ⟨x', h1, l1⟩
        · exact ⟨f1 + 1, Or.inl (by simp only [linkVals]; rw [h])⟩
        · obtain ⟨f2, h2⟩ := iVs m xs t σ (by omega) hn.2
          have h1' := linkVal_lift p h1 (by intro h; cases h) (Nat.le_max_left f1 f2)
          rcases h2 with h | ⟨xs', h2, l2⟩
          · have h' := linkVals_lift p h (by intro h; cases h) (Nat.le_max_right f1 f2)
            exact ⟨max f1 f2 + 1, Or.inl (by simp only [linkVals]; rw [h1']; simp only; rw [h'])⟩
          · have h2' := linkVals_lift p h2 (by intro h; cases h) (Nat.le_max_right f1 f2)
            exact ⟨max f1 f2 + 1, Or.inr ⟨x' :: xs', by simp only [linkVals]; rw [h1']; simp only; rw [h2'],
              by simp only [lnkList, l1, l2, Bool.and_self]⟩⟩

end ThriftVerif.Compile.DC
