/-
Regression witnesses for the repaired findings D4 D5 D6 D7 D8 D9 D17 D40 D74: on the inputs on
which the compiler used to overflow the stack, truncate a number or accept a self-defined
constant/service, the model of the repaired code answers `err` — for every fuel that lets it
answer at all (a verdict other than fuel exhaustion is fuel-independent, `compileWith_mono`).
-/
import ThriftVerif.Compile.Witness
import ThriftVerif.Compile.TotalProofs

namespace ThriftVerif.Compile

/-- A program rejected with some fuel is accepted with none, and rejected with every larger fuel. -/
theorem rejected_of_err {pre : Bool} {n : Nat} {o : Orders} {src : Program}
    (h : compileWith pre n o src = .err) :
    (∀ fuel, n ≤ fuel → compileWith pre fuel o src = .err) ∧
    (∀ fuel, (compileWith pre fuel o src).isOk = false) := by
  have hne : (Res.err : Res Compiled) ≠ .fuel := by intro hh; cases hh
  refine ⟨compileWith_mono h hne, ?_⟩
  intro fuel
  cases hf : compileWith pre fuel o src with
  | err => rfl
  | fuel => rfl
  | ok c =>
    exfalso
    have h1 := compileWith_mono hf (by intro hh; cases hh) (max fuel n) (Nat.le_max_left _ _)
    have h2 := compileWith_mono h hne (max fuel n) (Nat.le_max_right _ _)
    rw [h1] at h2
    cases h2

def Res.isErr {α : Type} : Res α → Bool
  | .err => true
  | _ => false

theorem Res.eq_err_of_isErr {α : Type} {r : Res α} (h : r.isErr = true) : r = .err := by
  cases r <;> simp [Res.isErr] at h ⊢

def progD6list : Program :=
  oneFileProg true [.const (nm "c") (.list 0 (.base 1 .i32)) (.uref (nm "c"))]

/-- `struct S {1: optional S f = c; 2: optional i32 g = 0}  const S c = {}` -/
def progD6default : Program :=
  oneFileProg true [
    .struct .struct (nm "S") [⟨some 1, nm "f", .optional, .ref (nm "S"), some (.uref (nm "c"))⟩,
                              ⟨some 2, nm "g", .optional, .base 0 .i32, some (.int 0)⟩],
    .const (nm "c") (.ref (nm "S")) (.map [])]

/-- `typedef i32 N  const N a = b  const N b = a` (was accepted) -/
def progD4named : Program :=
  oneFileProg true [.typedef (nm "N") (.base 0 .i32), .const (nm "a") (.ref (nm "N")) (.uref (nm "b")),
                    .const (nm "b") (.ref (nm "N")) (.uref (nm "a"))]

theorem err_D4 : compile 30 [] progD4 = .err := Res.eq_err_of_isErr (by decide +kernel)
theorem err_D4named : compile 30 [] progD4named = .err := Res.eq_err_of_isErr (by decide +kernel)
theorem err_D6 : compile 30 [] progD6 = .err := Res.eq_err_of_isErr (by decide +kernel)
theorem err_D6list : compile 30 [] progD6list = .err := Res.eq_err_of_isErr (by decide +kernel)
theorem err_D6default : compile 30 [] progD6default = .err := Res.eq_err_of_isErr (by decide +kernel)
theorem err_D40 : compile 30 [] progD40 = .err := Res.eq_err_of_isErr (by decide +kernel)
theorem err_D74 : compile 30 [] progD74 = .err := Res.eq_err_of_isErr (by decide +kernel)
theorem err_D5 : compile 30 [] progD5 = .err := Res.eq_err_of_isErr (by decide +kernel)
theorem err_D5self : compile 30 [] progD5self = .err := Res.eq_err_of_isErr (by decide +kernel)
theorem err_D7 : compile 30 [] progD7 = .err := Res.eq_err_of_isErr (by decide +kernel)
theorem err_D8 : compile 30 [] progD8 = .err := Res.eq_err_of_isErr (by decide +kernel)
theorem err_D9 : compile 30 [] progD9 = .err := Res.eq_err_of_isErr (by decide +kernel)
theorem err_D95 : compile 30 [] progD95 = .err := Res.eq_err_of_isErr (by decide +kernel)
theorem err_D9enum : compile 30 [] progD9enum = .err := Res.eq_err_of_isErr (by decide +kernel)
theorem err_D17 : compile 30 [] progD17 = .err := Res.eq_err_of_isErr (by decide +kernel)

end ThriftVerif.Compile
