/-
M-Schema, part 2: the deserialisers of generated code — `FromWire` (value path, on a
wire value) and `Decode` (streaming path, on bytes through the StreamReader
primitives incl. `Skip`) — and the streaming serialiser `Encode`.

Core-only.
-/
import ThriftVerif.Schema.Basic

namespace ThriftVerif.Schema
open ThriftVerif.Wire

/-! ### Go map semantics for hashable sets / maps -/

def isNaNBits (v : UInt64) : Bool :=
  (v.toNat / 2 ^ 52) % 2 ^ 11 == 2 ^ 11 - 1 && v.toNat % 2 ^ 52 != 0

def isZeroBits (v : UInt64) : Bool := v.toNat % 2 ^ 63 == 0

/-- Go's `==` on map keys (primitive roots only): doubles compare numerically
(NaN ≠ NaN, +0 = −0); everything else bit-for-bit. Written out by constructor so that it
evaluates in the kernel and has the obvious lemmas. -/
def keyEq : GVal → GVal → Bool
  | .bool a, .bool b => a == b
  | .i8 a, .i8 b => a == b
  | .i16 a, .i16 b => a == b
  | .i32 a, .i32 b => a == b
  | .i64 a, .i64 b => a == b
  | .double a, .double b =>
    if isNaNBits a || isNaNBits b then false
    else if isZeroBits a && isZeroBits b then true else a == b
  | .str a, .str b => a == b
  | _, _ => false

/-- `o[x] = struct{}{}`. -/
def setInsert (xs : List GVal) (x : GVal) : List GVal :=
  if xs.any (keyEq · x) then xs else xs ++ [x]

/-- `o[k] = v`. -/
def mapInsert : List (GVal × GVal) → GVal → GVal → List (GVal × GVal)
  | [], k, v => [(k, v)]
  | (k', v') :: rest, k, v => if keyEq k' k then (k', v) :: rest else (k', v') :: mapInsert rest k v

/-! ### field bookkeeping shared by FromWire and Decode -/

/-- per-field decoding state: current value and the `…IsSet` flag. -/
abbrev FState := List (GVal × Bool)

def initState (fields : List Field) : FState := fields.map fun _ => (.nil, false)

/-- assign a decoded value to the field at the position of the first schema field for which `p` holds. -/
def assignField (p : Field → Bool) (g : GVal) : List Field → FState → FState
  | f :: fs, s :: ss => if p f then (g, true) :: ss else s :: assignField p g fs ss
  | _, ss => ss

/-- the post-loop pass: defaults, required checks (gen/field.go FromWire/Decode tail). -/
def finishFields : List Field → FState → Res (List GVal)
  | f :: fs, (g, isSet) :: ss =>
    match f.dflt with
    | some d =>
      match finishFields fs ss with
      | .error e => .error e
      | .ok rest => .ok ((if g.isNil then d else g) :: rest)
    | none =>
      if f.req && !isSet then .error .bad else
      match finishFields fs ss with
      | .error e => .error e
      | .ok rest => .ok (g :: rest)
  | _, _ => .ok []

def countSet (gs : List GVal) : Nat := (gs.filter (!·.isNil)).length

/-- finish + union arity. -/
def finishStruct (sd : StructDef) (st : FState) : Res GVal :=
  match finishFields sd.fields st with
  | .error e => .error e
  | .ok gs => if arityOkS sd (countSet gs) then .ok (.struct gs) else .error .bad

/-! ### FromWire (value path) -/

/-- the field loop of a generated `FromWire`: for each wire field, the schema field with the
same id AND the same wire type receives the value; everything else is ignored. -/
def fromWireFields (rd : Ty → WValue → Res GVal) (fields : List Field) :
    List (UInt16 × WValue) → FState → Res FState
  | [], st => .ok st
  | (id, w) :: rest, st =>
    match fields.find? (fun f => f.id == id && f.ty.code == w.tcode) with
    | none => fromWireFields rd fields rest st
    | some f =>
      match rd f.ty w with
      | .error e => .error e
      | .ok g => fromWireFields rd fields rest (assignField (fun f' => f'.id == id) g fields st)

/-- generated `FromWire` / `_T_Read` helpers on a (well-typed) wire value. -/
def fromWire (env : Env) : Nat → Ty → WValue → Res GVal
  | 0, _, _ => .error .fuel
  | fuel + 1, t, w =>
    match t.root, w with
    | .bool, .bool b => .ok (.bool b)
    | .i8, .i8 v => .ok (.i8 v)
    | .i16, .i16 v => .ok (.i16 v)
    | .i32, .i32 v => .ok (.i32 v)
    | .i64, .i64 v => .ok (.i64 v)
    | .double, .double v => .ok (.double v)
    | .enum _, .i32 v => .ok (.i32 v)
    | .string, .binary bs => .ok (.str bs)
    | .binary, .binary bs => .ok (.bin bs)
    | .list e, .list et ws =>
      if et != e.code then .ok .nil else
      match mapRes (fromWire env fuel e) ws with
      | .ok gs => .ok (.list gs)
      | .error er => .error er
    | .set e, .set et ws =>
      if et != e.code then .ok .nil else
      match mapRes (fromWire env fuel e) ws with
      | .ok gs => .ok (if e.isPrim then .set true (gs.foldl setInsert []) else .set false gs)
      | .error er => .error er
    | .sset e, .set et ws =>
      if et != e.code then .ok .nil else
      match mapRes (fromWire env fuel e) ws with
      | .ok gs => .ok (.set false gs)
      | .error er => .error er
    | .map k v, .map kt vt ws =>
      if kt != k.code then .ok .nil else
      if vt != v.code then .ok .nil else
      match mapRes2 (fromWire env fuel k) (fromWire env fuel v) ws with
      | .ok kvs =>
        .ok (if k.isPrim then .map true (kvs.foldl (fun m kv => mapInsert m kv.1 kv.2) []) else .map false kvs)
      | .error er => .error er
    | .struct n, .struct wfs =>
      match env.find n with
      | none => .error .bad
      | some sd =>
        match fromWireFields (fromWire env fuel) sd.fields wfs (initState sd.fields) with
        | .error er => .error er
        | .ok st => finishStruct sd st
    | _, _ => .error .bad

/-! ### Decode (streaming path) -/

/-- read `n` items with `rd`, threading the remaining bytes. -/
def readN {α : Type} (rd : Bytes → Res (α × Bytes)) : Nat → Bytes → Res (List α × Bytes)
  | 0, bs => .ok ([], bs)
  | n + 1, bs =>
    match rd bs with
    | .error e => .error e
    | .ok (x, r) =>
      match readN rd n r with
      | .error e => .error e
      | .ok (xs, r') => .ok (x :: xs, r')

def readKV {α : Type} (rk rv : Bytes → Res (α × Bytes)) : Nat → Bytes → Res (List (α × α) × Bytes)
  | 0, bs => .ok ([], bs)
  | n + 1, bs =>
    match rk bs with
    | .error e => .error e
    | .ok (k, r) =>
      match rv r with
      | .error e => .error e
      | .ok (v, r') =>
        match readKV rk rv n r' with
        | .error e => .error e
        | .ok (xs, r'') => .ok ((k, v) :: xs, r'')

/-- `for i < n { sr.Skip(t) }` on a non-seekable stream. -/
def skipElems (t : UInt8) (n : Nat) (bs : Bytes) : Res Bytes :=
  match skipN false (fuelFor bs) t n (bs, 0) with
  | .ok s => .ok s.1
  | .error e => .error e

def skipPairs (kt vt : UInt8) (n : Nat) (bs : Bytes) : Res Bytes :=
  match skipKV false (fuelFor bs) kt vt n (bs, 0) with
  | .ok s => .ok s.1
  | .error e => .error e

def skipOne (t : UInt8) (bs : Bytes) : Res Bytes :=
  match skip false (fuelFor bs) t (bs, 0) with
  | .ok s => .ok s.1
  | .error e => .error e

/-- the field loop of a generated `Decode`: `switch { case fh.ID == id && fh.Type == code: … default: Skip }`. -/
def decodeFields (rd : Ty → Bytes → Res (GVal × Bytes)) (fields : List Field) :
    Nat → FState → Bytes → Res (FState × Bytes)
  | 0, _, _ => .error .fuel
  | fuel + 1, st, bs =>
    match bs with
    | [] => .error .bad
    | t :: r0 =>
      if t = 0 then .ok (st, r0) else
      match rdN 2 r0 with
      | none => .error .bad
      | some (idn, r1) =>
        let id := UInt16.ofNat idn
        match fields.find? (fun f => f.id == id && f.ty.code == t) with
        | some f =>
          match rd f.ty r1 with
          | .error e => .error e
          | .ok (g, r2) => decodeFields rd fields fuel (assignField (fun f' => f'.id == id) g fields st) r2
        | none =>
          match skipOne t r1 with
          | .error e => .error e
          | .ok r2 => decodeFields rd fields fuel st r2

/-- generated `Decode` / `_T_Decode` helpers over the StreamReader primitives. -/
def decodeS (env : Env) : Nat → Ty → Bytes → Res (GVal × Bytes)
  | 0, _, _ => .error .fuel
  | fuel + 1, t, bs =>
    match t.root with
    | .bool =>
      match bs with
      | b :: r => if b = 0 then .ok (.bool false, r) else if b = 1 then .ok (.bool true, r) else .error .bad
      | [] => .error .bad
    | .i8 =>
      match bs with
      | b :: r => .ok (.i8 b, r)
      | [] => .error .bad
    | .i16 =>
      match rdN 2 bs with
      | some (n, r) => .ok (.i16 (UInt16.ofNat n), r)
      | none => .error .bad
    | .i32 =>
      match rdN 4 bs with
      | some (n, r) => .ok (.i32 (UInt32.ofNat n), r)
      | none => .error .bad
    | .enum _ =>
      match rdN 4 bs with
      | some (n, r) => .ok (.i32 (UInt32.ofNat n), r)
      | none => .error .bad
    | .i64 =>
      match rdN 8 bs with
      | some (n, r) => .ok (.i64 (UInt64.ofNat n), r)
      | none => .error .bad
    | .double =>
      match rdN 8 bs with
      | some (n, r) => .ok (.double (UInt64.ofNat n), r)
      | none => .error .bad
    | .string =>
      match rdLen bs with
      | some (n, r) => if n ≤ r.length then .ok (.str (r.take n), r.drop n) else .error .bad
      | none => .error .bad
    | .binary =>
      match rdLen bs with
      | some (n, r) => if n ≤ r.length then .ok (.bin (r.take n), r.drop n) else .error .bad
      | none => .error .bad
    | .list e =>
      match bs with
      | et :: r0 =>
        match rdLen r0 with
        | some (n, r) =>
          if et != e.code then
            match skipElems et n r with
            | .ok r' => .ok (.nil, r')
            | .error er => .error er
          else
            match readN (decodeS env fuel e) n r with
            | .ok (gs, r') => .ok (.list gs, r')
            | .error er => .error er
        | none => .error .bad
      | [] => .error .bad
    | .set e =>
      match bs with
      | et :: r0 =>
        match rdLen r0 with
        | some (n, r) =>
          if et != e.code then
            match skipElems et n r with
            | .ok r' => .ok (.nil, r')
            | .error er => .error er
          else
            match readN (decodeS env fuel e) n r with
            | .ok (gs, r') =>
              .ok (if e.isPrim then .set true (gs.foldl setInsert []) else .set false gs, r')
            | .error er => .error er
        | none => .error .bad
      | [] => .error .bad
    | .sset e =>
      match bs with
      | et :: r0 =>
        match rdLen r0 with
        | some (n, r) =>
          if et != e.code then
            match skipElems et n r with
            | .ok r' => .ok (.nil, r')
            | .error er => .error er
          else
            match readN (decodeS env fuel e) n r with
            | .ok (gs, r') => .ok (.set false gs, r')
            | .error er => .error er
        | none => .error .bad
      | [] => .error .bad
    | .map k v =>
      match bs with
      | kt :: vt :: r0 =>
        match rdLen r0 with
        | some (n, r) =>
          if kt != k.code || vt != v.code then
            match skipPairs kt vt n r with
            | .ok r' => .ok (.nil, r')
            | .error er => .error er
          else
            match readKV (decodeS env fuel k) (decodeS env fuel v) n r with
            | .ok (kvs, r') =>
              .ok (if k.isPrim then .map true (kvs.foldl (fun m kv => mapInsert m kv.1 kv.2) [])
                   else .map false kvs, r')
            | .error er => .error er
        | none => .error .bad
      | _ => .error .bad
    | .struct n =>
      match env.find n with
      | none => .error .bad
      | some sd =>
        match decodeFields (decodeS env fuel) sd.fields (fuelFor bs) (initState sd.fields) bs with
        | .error er => .error er
        | .ok (st, r) =>
          match finishStruct sd st with
          | .ok g => .ok (g, r)
          | .error er => .error er
    | .typedef .. => .error .bad

/-! ### Encode (streaming serialiser) -/

def concatRes {α : Type} : List (Res (List α)) → Res (List α)
  | [] => .ok []
  | r :: rs =>
    match r with
    | .error e => .error e
    | .ok xs =>
      match concatRes rs with
      | .error e => .error e
      | .ok ys => .ok (xs ++ ys)

/-- sequencing of two write-op results (key then value of a map entry). -/
def seqOps (a b : Res (List WriteOp)) : Res (List WriteOp) :=
  match a with
  | .error er => .error er
  | .ok x =>
    match b with
    | .error er => .error er
    | .ok y => .ok (x ++ y)

/-- the field loop of a generated `Encode`. -/
def encodeFields (en : Ty → GVal → Res (List WriteOp)) : List Field → List GVal → Res (List WriteOp)
  | f :: fs, g :: gs =>
    match fieldEmit f g with
    | .error er => .error er
    | .ok none => encodeFields en fs gs
    | .ok (some g') =>
      match en f.ty g' with
      | .error er => .error er
      | .ok ops =>
        match encodeFields en fs gs with
        | .error er => .error er
        | .ok rest => .ok (.fieldBegin f.ty.code f.id :: (ops ++ (.fieldEnd :: rest)))
  | _, _ => .ok []

/-- generated `Encode`: the `stream.Writer` call sequence. -/
def encodeS (env : Env) : Nat → Ty → GVal → Res (List WriteOp)
  | 0, _, _ => .error .fuel
  | fuel + 1, t, g =>
    match t.root, g with
    | .bool, .bool b => .ok [.bool b]
    | .i8, .i8 v => .ok [.i8 v]
    | .i16, .i16 v => .ok [.i16 v]
    | .i32, .i32 v => .ok [.i32 v]
    | .i64, .i64 v => .ok [.i64 v]
    | .double, .double v => .ok [.double v]
    | .enum _, .i32 v => .ok [.i32 v]
    | .string, .str bs => .ok [.binary bs]
    | .binary, .bin bs => .ok [.binary bs]
    | .list e, .nil => .ok [.listBegin e.code 0, .listEnd]
    | .set e, .nil => .ok [.setBegin e.code 0, .setEnd]
    | .sset e, .nil => .ok [.setBegin e.code 0, .setEnd]
    | .map k v, .nil => .ok [.mapBegin k.code v.code 0, .mapEnd]
    | .list e, .list xs =>
      match concatRes (xs.map fun x => if elemNilBad e x then .error .bad else encodeS env fuel e x) with
      | .ok ops => .ok (.listBegin e.code xs.length :: (ops ++ [.listEnd]))
      | .error er => .error er
    | .set e, .set _ xs =>
      match concatRes (xs.map fun x => if elemNilBad e x then .error .bad else encodeS env fuel e x) with
      | .ok ops => .ok (.setBegin e.code xs.length :: (ops ++ [.setEnd]))
      | .error er => .error er
    | .sset e, .set _ xs =>
      match concatRes (xs.map fun x => if elemNilBad e x then .error .bad else encodeS env fuel e x) with
      | .ok ops => .ok (.setBegin e.code xs.length :: (ops ++ [.setEnd]))
      | .error er => .error er
    | .map k v, .map _ kvs =>
      match concatRes (kvs.map fun kv =>
          seqOps (if elemNilBad k kv.1 then .error .bad else encodeS env fuel k kv.1)
                 (if elemNilBad v kv.2 then .error .bad else encodeS env fuel v kv.2)) with
      | .ok ops => .ok (.mapBegin k.code v.code kvs.length :: (ops ++ [.mapEnd]))
      | .error er => .error er
    | .struct n, .struct gs =>
      match env.find n with
      | none => .error .bad
      | some sd =>
        match encodeFields (encodeS env fuel) sd.fields gs with
        | .error er => .error er
        | .ok ops =>
          -- the arity rule counts non-nil fields (after the fields were written)
          if arityOkS sd (countSet (gs.take sd.fields.length))
          then .ok (.structBegin :: (ops ++ [.structEnd])) else .error .bad
    | _, _ => .error .bad

end ThriftVerif.Schema
