/-
M-Schema proofs (C01): `FromWire` of a wire map returns `Equals`-equal values for every order of
its entries (keys converting to pairwise different decoded values).

Core-only.
-/
import ThriftVerif.Schema.PermSets
import ThriftVerif.Schema.MapLemmas

set_option linter.unusedSimpArgs false

namespace ThriftVerif.Schema
open ThriftVerif.Wire

/-- inserting a key that is in the map under no spelling appends the entry. -/
theorem mapInsert_new (m : List (GVal × GVal)) (k v : GVal) (h : ∀ p ∈ m, keyEq p.1 k = false) :
    mapInsert m k v = m ++ [(k, v)] := by
  induction m with
  | nil => rfl
  | cons p m ih =>
    obtain ⟨k', v'⟩ := p
    simp only [mapInsert, h (k', v') (by simp), Bool.false_eq_true, if_false, List.cons_append]
    rw [ih (fun q hq => h q (by simp [hq]))]

theorem foldl_mapInsert_distinct : ∀ (kvs acc : List (GVal × GVal)),
    (∀ a ∈ acc, ∀ x ∈ kvs, keyEq a.1 x.1 = false) → pairwiseNot keyEq (kvs.map (·.1)) = true →
    kvs.foldl (fun m kv => mapInsert m kv.1 kv.2) acc = acc ++ kvs := by
  intro kvs
  induction kvs with
  | nil => intro acc _ _; simp
  | cons x xs ih =>
    intro acc hacc hnd
    simp only [List.map_cons] at hnd
    rw [pairwiseNot_iff] at hnd
    simp only [List.foldl_cons]
    rw [mapInsert_new acc x.1 x.2 (fun p hp => hacc p hp x (by simp))]
    rw [ih (acc ++ [(x.1, x.2)]) ?_ hnd.2]
    · simp
    · intro a ha y hy
      simp only [List.mem_append, List.mem_singleton] at ha
      rcases ha with ha | rfl
      · exact hacc a ha y (by simp [hy])
      · exact hnd.1 y.1 (by simp only [List.mem_map]; exact ⟨y, hy, rfl⟩)

/-- `pairwiseNot` survives a permutation when the relation is symmetric on the list. -/
theorem pairwiseNot_perm_symm {α : Type} (r : α → α → Bool) {l l' : List α} (hp : l.Perm l')
    (hs : ∀ x ∈ l, ∀ y ∈ l, r x y = false → r y x = false) (h : pairwiseNot r l = true) :
    pairwiseNot r l' = true := by
  induction hp with
  | nil => exact h
  | cons x hp ih =>
    rw [pairwiseNot_iff] at h ⊢
    exact ⟨fun y hy => h.1 y (hp.mem_iff.mpr hy),
      ih (fun a ha b hb => hs a (by simp [ha]) b (by simp [hb])) h.2⟩
  | swap x y l =>
    rw [pairwiseNot_iff] at h
    obtain ⟨h1, h2⟩ := h
    rw [pairwiseNot_iff] at h2
    rw [pairwiseNot_iff, pairwiseNot_iff]
    refine ⟨?_, ?_, h2.2⟩
    · intro z hz
      rcases List.mem_cons.mp hz with hzy | hz
      · rw [hzy]; exact hs y (by simp) x (by simp) (h1 x (by simp))
      · exact h2.1 z hz
    · intro z hz; exact h1 z (by simp [hz])
  | trans p1 _ ih1 ih2 =>
    have h' := ih1 hs h
    exact ih2 (fun a ha b hb => hs a (p1.mem_iff.mpr ha) b (p1.mem_iff.mpr hb)) h'

section maps
variable (env : Env) (fuel : Nat)

/-- key-distinct entry lists that are permutations of each other are `mapSub`-related. -/
theorem mapSub_of_perm (DK DV : GVal → Prop) (r eqv : GVal → GVal → Bool)
    (hk : EquivOn DK r) (hv : EquivOn DV eqv) (a b : List (GVal × GVal)) (hp : a.Perm b)
    (hDk : ∀ p ∈ a, DK p.1) (hDv : ∀ p ∈ a, DV p.2) (hnd : pairwiseNot r (a.map (·.1)) = true) :
    mapSub r eqv a b = true := by
  have hsymm : ∀ x ∈ a.map (·.1), ∀ y ∈ a.map (·.1), r x y = false → r y x = false := by
    intro x hx y hy hxy
    obtain ⟨vx, hmx⟩ := mem_map_fst hx
    obtain ⟨vy, hmy⟩ := mem_map_fst hy
    cases hyx : r y x with
    | false => rfl
    | true =>
      have := hk.symm y x (hDk _ hmy) (hDk _ hmx) hyx
      rw [this] at hxy; cases hxy
  have hndb : pairwiseNot r (b.map (·.1)) = true :=
    pairwiseNot_perm_symm r (hp.map (·.1)) hsymm hnd
  rw [mapSub_iff]
  intro kv hkv
  refine ⟨kv.2, ?_, hv.refl kv.2 (hDv kv hkv)⟩
  exact lookupR_of_mem DK r hk b kv.1 kv.1 kv.2 (hDk kv hkv)
    (fun q hq => hDk q (hp.mem_iff.mpr hq)) hndb (by simpa using hp.mem_iff.mp hkv) (hk.refl kv.1 (hDk kv hkv))

/-- **C01, map order**: `FromWire` of a wire map returns `Equals`-equal values for every order of
its entries (keys converting to pairwise different decoded values; result in decoded form). -/
theorem fromWire_map_order (k v : Ty) (kt vt : UInt8) (ws ws' : List (WValue × WValue)) (hp : ws.Perm ws')
    (g : GVal) (h : fromWire env (fuel + 1) (.map k v) (.map kt vt ws) = .ok g)
    (hdec : decodedV env (fuel + 1) (.map k v) g = true ∨ g = .nil)
    (hnd : ∀ kvs, mapRes2 (fromWire env fuel k) (fromWire env fuel v) ws = .ok kvs → k.isPrim = true →
      pairwiseNot keyEq (kvs.map (·.1)) = true) :
    ∃ g', fromWire env (fuel + 1) (.map k v) (.map kt vt ws') = .ok g' ∧
      equalsG env (fuel + 1) (.map k v) g g' = true := by
  simp only [fromWire, Ty.root] at h ⊢
  by_cases hmk : (kt != k.code) = true
  · simp only [hmk, if_true, Except.ok.injEq] at h ⊢
    subst h
    exact ⟨.nil, rfl, by cases hpr : k.isPrim <;> simp [equalsG, Ty.root, hpr, pairsOf, mapSub]⟩
  · have hmk' : (kt != k.code) = false := by simpa using hmk
    simp only [hmk', Bool.false_eq_true, if_false] at h ⊢
    by_cases hmv : (vt != v.code) = true
    · simp only [hmv, if_true, Except.ok.injEq] at h ⊢
      subst h
      exact ⟨.nil, rfl, by cases hpr : k.isPrim <;> simp [equalsG, Ty.root, hpr, pairsOf, mapSub]⟩
    · have hmv' : (vt != v.code) = false := by simpa using hmv
      simp only [hmv', Bool.false_eq_true, if_false] at h ⊢
      cases hmr : mapRes2 (fromWire env fuel k) (fromWire env fuel v) ws with
      | error er => simp [hmr] at h
      | ok kvs =>
        simp only [hmr, Except.ok.injEq] at h
        obtain ⟨kvs', hmr', hpg⟩ := mapRes2_perm (fromWire env fuel k) (fromWire env fuel v) hp kvs hmr
        simp only [hmr', Except.ok.injEq]
        refine ⟨_, rfl, ?_⟩
        subst h
        have hdec' : decodedV env (fuel + 1) (.map k v)
            (if k.isPrim then GVal.map true (kvs.foldl (fun m kv => mapInsert m kv.1 kv.2) [])
             else GVal.map false kvs) = true := by
          rcases hdec with hd | hd
          · exact hd
          · cases hpr : k.isPrim <;> simp [hpr] at hd
        have hv' := equalsG_equivOn env fuel v
        cases hpr : k.isPrim with
        | true =>
          simp only [hpr, if_true] at hdec' ⊢
          have hnd' := hnd kvs hmr hpr
          have hnd'' : pairwiseNot keyEq (kvs'.map (·.1)) = true :=
            pairwiseNot_keyEq_perm (hpg.map (·.1)) hnd'
          rw [foldl_mapInsert_distinct kvs [] (by intro a ha; cases ha) hnd'] at hdec' ⊢
          rw [foldl_mapInsert_distinct kvs' [] (by intro a ha; cases ha) hnd'']
          simp only [List.nil_append, decodedV, Ty.root, Bool.and_eq_true, List.all_eq_true] at hdec'
          have hall := hdec'.1.2
          simp only [List.nil_append, equalsG, Ty.root, hpr, if_true, pairsOf, Bool.and_eq_true, beq_iff_eq]
          refine ⟨hpg.length_eq, ?_⟩
          rw [keyEqFlip_eq]
          exact mapSub_of_perm (Dom env fuel k) (Dom env fuel v) keyEq (equalsG env fuel v)
            (keyEq_equivOn_decoded env fuel k hpr) hv' kvs kvs' hpg
            (fun p hp' => (hall p hp').1) (fun p hp' => (hall p hp').2) hnd'
        | false =>
          simp only [hpr, Bool.false_eq_true, if_false] at hdec' ⊢
          simp only [decodedV, Ty.root, Bool.and_eq_true, List.all_eq_true, hpr, Bool.false_eq_true, if_false] at hdec'
          have hall := hdec'.1.2
          have hndk : pairwiseNot (equalsG env fuel k) (kvs.map (·.1)) = true := by
            have := hdec'.2
            have hh : (false : Bool) = k.isPrim := by rw [hpr]
            simpa using this
          simp only [equalsG, Ty.root, hpr, Bool.false_eq_true, if_false, pairsOf, Bool.and_eq_true, beq_iff_eq]
          refine ⟨hpg.length_eq, ?_⟩
          exact mapSub_of_perm (Dom env fuel k) (Dom env fuel v) (equalsG env fuel k) (equalsG env fuel v)
            (equalsG_equivOn env fuel k) hv' kvs kvs' hpg
            (fun p hp' => (hall p hp').1) (fun p hp' => (hall p hp').2) hndk

end maps

end ThriftVerif.Schema
