/-
M-Schema proofs for C14: on values in decoded form, generated `Equals` is an equivalence
relation (reflexive, symmetric, transitive) for every schema and every type.
-/
import ThriftVerif.Schema.KeyEqLemmas
import ThriftVerif.Schema.MapLemmas

set_option linter.unusedSimpArgs false

namespace ThriftVerif.Schema
open ThriftVerif.Wire

theorem EquivOn.mono {α : Type} {D D' : α → Prop} {r : α → α → Bool} (h : ∀ x, D' x → D x)
    (he : EquivOn D r) : EquivOn D' r :=
  ⟨fun x hx => he.refl x (h x hx), fun x y hx hy => he.symm x y (h x hx) (h y hy),
   fun x y z hx hy hz => he.trans x y z (h x hx) (h y hy) (h z hz)⟩

theorem keyEqFlip_eq : keyEqFlip = keyEq := by
  funext a b; simp [keyEqFlip, keyEq_comm]

/-- the domain of decoded values of a type at a fuel. -/
abbrev Dom (env : Env) (fuel : Nat) (t : Ty) : GVal → Prop := fun g => decodedV env fuel t g = true

/-! ### per-field and per-struct -/

theorem fieldsEq_refl (eq : Ty → GVal → GVal → Bool) (dv : Ty → GVal → Bool)
    (he : ∀ t, EquivOn (fun g => dv t g = true) (eq t))
    (fields : List Field) (gs : List GVal) (h : decodedFields dv fields gs = true) :
    fieldsEq eq fields gs gs = true := by
  induction fields generalizing gs with
  | nil => cases gs <;> simp [fieldsEq]
  | cons f fs ih =>
    cases gs with
    | nil => simp [fieldsEq]
    | cons g gs =>
      simp only [decodedFields, Bool.and_eq_true] at h
      simp only [fieldsEq, Bool.and_eq_true]
      refine ⟨?_, ih gs h.2⟩
      unfold fieldEq
      by_cases hn : g.isNil = true
      · simp only [hn, if_true, Bool.and_eq_true, Bool.not_eq_true'] at h
        simp [hn, h.1.1]
      · have hn' : g.isNil = false := by simpa using hn
        simp only [hn', Bool.false_eq_true, if_false] at h
        have := (he f.ty).refl g h.1
        by_cases hr : f.req = true <;> simp [hr, hn', this]

theorem fieldsEq_symm (eq : Ty → GVal → GVal → Bool) (dv : Ty → GVal → Bool)
    (he : ∀ t, EquivOn (fun g => dv t g = true) (eq t))
    (fields : List Field) (as bs : List GVal) (ha : decodedFields dv fields as = true)
    (hb : decodedFields dv fields bs = true) (h : fieldsEq eq fields as bs = true) :
    fieldsEq eq fields bs as = true := by
  induction fields generalizing as bs with
  | nil => cases as <;> cases bs <;> simp [fieldsEq]
  | cons f fs ih =>
    cases as with
    | nil => simp [decodedFields] at ha
    | cons a as =>
      cases bs with
      | nil => simp [decodedFields] at hb
      | cons b bs =>
        simp only [decodedFields, Bool.and_eq_true] at ha hb
        simp only [fieldsEq, Bool.and_eq_true] at h ⊢
        refine ⟨?_, ih as bs ha.2 hb.2 h.2⟩
        have h1 := h.1
        unfold fieldEq at h1 ⊢
        by_cases hna : a.isNil = true <;> by_cases hnb : b.isNil = true
        · simp only [hna, hnb, if_true, Bool.and_eq_true, Bool.not_eq_true'] at ha hb
          simp [hna, hnb, ha.1.1]
        · simp only [hna, if_true, Bool.and_eq_true, Bool.not_eq_true'] at ha
          simp [hna, hnb, ha.1.1] at h1
        · simp only [hnb, if_true, Bool.and_eq_true, Bool.not_eq_true'] at hb
          simp [hna, hnb, hb.1.1] at h1
        · have hna' : a.isNil = false := by simpa using hna
          have hnb' : b.isNil = false := by simpa using hnb
          simp only [hna', hnb', Bool.false_eq_true, if_false] at ha hb
          have hab : eq f.ty a b = true := by
            by_cases hr : f.req = true <;> simpa [hr, hna', hnb'] using h1
          have := (he f.ty).symm a b ha.1 hb.1 hab
          by_cases hr : f.req = true <;> simp [hr, hna', hnb', this]

theorem fieldsEq_trans (eq : Ty → GVal → GVal → Bool) (dv : Ty → GVal → Bool)
    (he : ∀ t, EquivOn (fun g => dv t g = true) (eq t))
    (fields : List Field) (as bs cs : List GVal) (ha : decodedFields dv fields as = true)
    (hb : decodedFields dv fields bs = true) (hc : decodedFields dv fields cs = true)
    (h1 : fieldsEq eq fields as bs = true) (h2 : fieldsEq eq fields bs cs = true) :
    fieldsEq eq fields as cs = true := by
  induction fields generalizing as bs cs with
  | nil => cases as <;> cases cs <;> simp [fieldsEq]
  | cons f fs ih =>
    cases as with
    | nil => simp [decodedFields] at ha
    | cons a as =>
      cases bs with
      | nil => simp [decodedFields] at hb
      | cons b bs =>
        cases cs with
        | nil => simp [decodedFields] at hc
        | cons c cs =>
          simp only [decodedFields, Bool.and_eq_true] at ha hb hc
          simp only [fieldsEq, Bool.and_eq_true] at h1 h2 ⊢
          refine ⟨?_, ih as bs cs ha.2 hb.2 hc.2 h1.2 h2.2⟩
          have g1 := h1.1
          have g2 := h2.1
          unfold fieldEq at g1 g2 ⊢
          by_cases hna : a.isNil = true <;> by_cases hnb : b.isNil = true <;> by_cases hnc : c.isNil = true
          · simp only [hna, if_true, Bool.and_eq_true, Bool.not_eq_true'] at ha
            simp [hna, hnc, ha.1.1]
          · simp only [hnb, if_true, Bool.and_eq_true, Bool.not_eq_true'] at hb
            simp [hnb, hnc, hb.1.1] at g2
          · simp only [hna, if_true, Bool.and_eq_true, Bool.not_eq_true'] at ha
            simp [hna, hnb, ha.1.1] at g1
          · simp only [hna, if_true, Bool.and_eq_true, Bool.not_eq_true'] at ha
            simp [hna, hnb, ha.1.1] at g1
          · simp only [hnb, if_true, Bool.and_eq_true, Bool.not_eq_true'] at hb
            simp [hna, hnb, hb.1.1] at g1
          · simp only [hnb, if_true, Bool.and_eq_true, Bool.not_eq_true'] at hb
            simp [hna, hnb, hb.1.1] at g1
          · simp only [hnc, if_true, Bool.and_eq_true, Bool.not_eq_true'] at hc
            simp [hnb, hnc, hc.1.1] at g2
          · have hna' : a.isNil = false := by simpa using hna
            have hnb' : b.isNil = false := by simpa using hnb
            have hnc' : c.isNil = false := by simpa using hnc
            simp only [hna', hnb', hnc', Bool.false_eq_true, if_false] at ha hb hc
            have hab : eq f.ty a b = true := by
              by_cases hr : f.req = true <;> simpa [hr, hna', hnb'] using g1
            have hbc : eq f.ty b c = true := by
              by_cases hr : f.req = true <;> simpa [hr, hnb', hnc'] using g2
            have := (he f.ty).trans a b c ha.1 hb.1 hc.1 hab hbc
            by_cases hr : f.req = true <;> simp [hr, hna', hnc', this]

/-! ### the induction over fuel -/

/-- C14: on decoded values, `Equals` is an equivalence relation — for every schema, type, fuel. -/
theorem equalsG_equivOn (env : Env) (fuel : Nat) :
    ∀ t, EquivOn (Dom env fuel t) (equalsG env fuel t) := by
  induction fuel with
  | zero =>
    intro t
    refine ⟨?_, ?_, ?_⟩ <;> intros <;> simp_all [Dom, decodedV]
  | succ fuel ih =>
    intro t
    -- shape of the domain and of the relation at this type
    have hD : ∀ g, Dom env (fuel + 1) t g →
        (match t.root, g with
          | .bool, .bool _ => True | .i8, .i8 _ => True | .i16, .i16 _ => True | .i32, .i32 _ => True
          | .i64, .i64 _ => True | .double, .double v => isNaNBits v = false | .enum _, .i32 _ => True
          | .string, .str _ => True | .binary, .bin _ => True
          | .list e, .list xs => ∀ x ∈ xs, Dom env fuel e x
          | .set e, .set h xs => h = e.isPrim ∧ (∀ x ∈ xs, Dom env fuel e x) ∧
              (if h then pairwiseNot keyEq xs = true else pairwiseNot (equalsG env fuel e) xs = true)
          | .sset e, .set _ xs => (∀ x ∈ xs, Dom env fuel e x) ∧ pairwiseNot (equalsG env fuel e) xs = true
          | .map k v, .map h kvs => h = k.isPrim ∧ (∀ kv ∈ kvs, Dom env fuel k kv.1 ∧ Dom env fuel v kv.2) ∧
              (if h then pairwiseNot keyEq (kvs.map (·.1)) = true
               else pairwiseNot (equalsG env fuel k) (kvs.map (·.1)) = true)
          | .struct n, .struct gs => ∃ sd, env.find n = some sd ∧ decodedFields (decodedV env fuel) sd.fields gs = true
          | _, _ => False) := by
      intro g hg
      simp only [Dom] at hg
      unfold decodedV at hg
      generalize t.root = r at hg ⊢
      cases r <;> cases g <;> simp only [] at hg ⊢ <;> try (first | trivial | (cases hg; done))
      case double.double v => simpa using hg
      case list.list e xs =>
        simp only [Bool.and_eq_true, List.all_eq_true] at hg
        exact hg.2
      case set.set e h xs =>
        simp only [Bool.and_eq_true, List.all_eq_true, beq_iff_eq] at hg
        refine ⟨hg.1.1.2, hg.1.2, ?_⟩
        cases h <;> simpa using hg.2
      case sset.set e h xs =>
        simp only [Bool.and_eq_true, List.all_eq_true, beq_iff_eq] at hg
        exact ⟨hg.1.2, hg.2⟩
      case map.map k v h kvs =>
        simp only [Bool.and_eq_true, List.all_eq_true, beq_iff_eq] at hg
        refine ⟨hg.1.1.2, hg.1.2, ?_⟩
        cases h <;> simpa using hg.2
      case struct.struct n gs =>
        cases hf : env.find n with
        | none => simp [hf] at hg
        | some sd => exact ⟨sd, rfl, by simpa [hf] using hg⟩
    have hprim : t.isPrim = true → EquivOn (Dom env (fuel + 1) t) (equalsG env (fuel + 1) t) := by
      intro hp
      have hk := keyEq_equivOn_decoded env (fuel + 1) t hp
      have heq : equalsG env (fuel + 1) t = keyEq := by
        funext a b
        unfold equalsG
        unfold Ty.isPrim at hp
        generalize t.root = r at hp ⊢
        cases r <;> simp_all [primEq]
      rw [heq]; exact hk
    -- case analysis on the root type
    cases hr : t.root with
    | bool => exact hprim (by simp [Ty.isPrim, hr])
    | i8 => exact hprim (by simp [Ty.isPrim, hr])
    | i16 => exact hprim (by simp [Ty.isPrim, hr])
    | i32 => exact hprim (by simp [Ty.isPrim, hr])
    | i64 => exact hprim (by simp [Ty.isPrim, hr])
    | double => exact hprim (by simp [Ty.isPrim, hr])
    | string => exact hprim (by simp [Ty.isPrim, hr])
    | enum n => exact hprim (by simp [Ty.isPrim, hr])
    | typedef n t' =>
      refine ⟨?_, ?_, ?_⟩ <;> intro x <;> intros <;>
        (have := hD x (by assumption); simp only [hr] at this)
    | binary =>
      have heq : ∀ a b, equalsG env (fuel + 1) t a b = (bytesOf a == bytesOf b) := by
        intro a b; simp [equalsG, hr]
      refine ⟨?_, ?_, ?_⟩
      · intro x _; simp [heq]
      · intro x y _ _ h; simp only [heq, beq_iff_eq] at h ⊢; exact h.symm
      · intro x y z _ _ _ h1 h2; simp only [heq, beq_iff_eq] at h1 h2 ⊢; exact h1.trans h2
    | list e =>
      have heq : ∀ a b, equalsG env (fuel + 1) t a b = allPairwise (equalsG env fuel e) (listOf a) (listOf b) := by
        intro a b; simp [equalsG, hr]
      have hdom : ∀ g, Dom env (fuel + 1) t g → ∀ x ∈ listOf g, Dom env fuel e x := by
        intro g hg
        have := hD g hg
        simp only [hr] at this
        cases g <;> simp at this
        simpa [listOf] using this
      refine ⟨?_, ?_, ?_⟩
      · intro x hx; rw [heq]; exact allPairwise_refl _ _ (ih e) _ (hdom x hx)
      · intro x y hx hy h; rw [heq] at h ⊢
        exact allPairwise_symm _ _ (ih e) _ _ (hdom x hx) (hdom y hy) h
      · intro x y z hx hy hz h1 h2; rw [heq] at h1 h2 ⊢
        exact allPairwise_trans _ _ (ih e) _ _ _ (hdom x hx) (hdom y hy) (hdom z hz) h1 h2
    | sset e =>
      have heq : ∀ a b, equalsG env (fuel + 1) t a b =
          ((listOf a).length == (listOf b).length && subR (equalsG env fuel e) (listOf a) (listOf b)) := by
        intro a b; simp [equalsG, hr]
      have hdom : ∀ g, Dom env (fuel + 1) t g →
          (∀ x ∈ listOf g, Dom env fuel e x) ∧ pairwiseNot (equalsG env fuel e) (listOf g) = true := by
        intro g hg
        have := hD g hg
        simp only [hr] at this
        cases g <;> simp at this
        simpa [listOf] using this
      refine ⟨?_, ?_, ?_⟩
      · intro x hx; rw [heq]; simp [subR_refl _ _ (ih e) _ (hdom x hx).1]
      · intro x y hx hy h; rw [heq] at h ⊢
        simp only [Bool.and_eq_true, beq_iff_eq] at h ⊢
        exact ⟨h.1.symm, subR_symm _ _ (ih e) _ _ (hdom x hx).1 (hdom y hy).1 (hdom x hx).2 (hdom y hy).2 h.1 h.2⟩
      · intro x y z hx hy hz h1 h2; rw [heq] at h1 h2 ⊢
        simp only [Bool.and_eq_true, beq_iff_eq] at h1 h2 ⊢
        exact ⟨h1.1.trans h2.1, subR_trans _ _ (ih e) _ _ _ (hdom x hx).1 (hdom y hy).1 (hdom z hz).1 h1.2 h2.2⟩
    | set e =>
      by_cases hp : e.isPrim = true
      · -- Go-map backed set: membership loop over the right-hand side
        have heq : ∀ a b, equalsG env (fuel + 1) t a b =
            ((listOf a).length == (listOf b).length && subR keyEq (listOf b) (listOf a)) := by
          intro a b; simp [equalsG, hr, hp, keyEqFlip_eq]
        have hke := keyEq_equivOn_decoded env fuel e hp
        have hdom : ∀ g, Dom env (fuel + 1) t g →
            (∀ x ∈ listOf g, Dom env fuel e x) ∧ pairwiseNot keyEq (listOf g) = true := by
          intro g hg
          have := hD g hg
          simp only [hr] at this
          cases g <;> simp at this
          rename_i h xs
          obtain ⟨h1, h2, h3⟩ := this
          subst h1
          simp only [hp, if_true] at h3
          exact ⟨by simpa [listOf] using h2, by simpa [listOf] using h3⟩
        refine ⟨?_, ?_, ?_⟩
        · intro x hx; rw [heq]; simp [subR_refl _ _ hke _ (hdom x hx).1]
        · intro x y hx hy h; rw [heq] at h ⊢
          simp only [Bool.and_eq_true, beq_iff_eq] at h ⊢
          exact ⟨h.1.symm, subR_symm _ _ hke _ _ (hdom y hy).1 (hdom x hx).1 (hdom y hy).2 (hdom x hx).2 h.1.symm h.2⟩
        · intro x y z hx hy hz h1 h2; rw [heq] at h1 h2 ⊢
          simp only [Bool.and_eq_true, beq_iff_eq] at h1 h2 ⊢
          exact ⟨h1.1.trans h2.1, subR_trans _ _ hke _ _ _ (hdom z hz).1 (hdom y hy).1 (hdom x hx).1 h2.2 h1.2⟩
      · have hp' : e.isPrim = false := by simpa using hp
        have heq : ∀ a b, equalsG env (fuel + 1) t a b =
            ((listOf a).length == (listOf b).length && subR (equalsG env fuel e) (listOf a) (listOf b)) := by
          intro a b; simp [equalsG, hr, hp']
        have hdom : ∀ g, Dom env (fuel + 1) t g →
            (∀ x ∈ listOf g, Dom env fuel e x) ∧ pairwiseNot (equalsG env fuel e) (listOf g) = true := by
          intro g hg
          have := hD g hg
          simp only [hr] at this
          cases g <;> simp at this
          rename_i h xs
          obtain ⟨h1, h2, h3⟩ := this
          subst h1
          simp only [hp', Bool.false_eq_true, if_false] at h3
          exact ⟨by simpa [listOf] using h2, by simpa [listOf] using h3⟩
        refine ⟨?_, ?_, ?_⟩
        · intro x hx; rw [heq]; simp [subR_refl _ _ (ih e) _ (hdom x hx).1]
        · intro x y hx hy h; rw [heq] at h ⊢
          simp only [Bool.and_eq_true, beq_iff_eq] at h ⊢
          exact ⟨h.1.symm, subR_symm _ _ (ih e) _ _ (hdom x hx).1 (hdom y hy).1 (hdom x hx).2 (hdom y hy).2 h.1 h.2⟩
        · intro x y z hx hy hz h1 h2; rw [heq] at h1 h2 ⊢
          simp only [Bool.and_eq_true, beq_iff_eq] at h1 h2 ⊢
          exact ⟨h1.1.trans h2.1, subR_trans _ _ (ih e) _ _ _ (hdom x hx).1 (hdom y hy).1 (hdom z hz).1 h1.2 h2.2⟩
    | map k v =>
      -- both representations are `mapSub R (Equals on values)` with R an equivalence on keys
      have hgen : ∀ (R : GVal → GVal → Bool), EquivOn (Dom env fuel k) R →
          (∀ a b, equalsG env (fuel + 1) t a b =
            ((pairsOf a).length == (pairsOf b).length && mapSub R (equalsG env fuel v) (pairsOf a) (pairsOf b))) →
          (∀ g, Dom env (fuel + 1) t g → MapDom (Dom env fuel k) (Dom env fuel v) R (pairsOf g)) →
          EquivOn (Dom env (fuel + 1) t) (equalsG env (fuel + 1) t) := by
        intro R hR heq hdom
        refine ⟨?_, ?_, ?_⟩
        · intro x hx; rw [heq]; simp [mapSub_refl _ _ _ _ hR (ih v) _ (hdom x hx)]
        · intro x y hx hy h; rw [heq] at h ⊢
          simp only [Bool.and_eq_true, beq_iff_eq] at h ⊢
          exact ⟨h.1.symm, mapSub_symm _ _ _ _ hR (ih v) _ _ (hdom x hx) (hdom y hy) h.1 h.2⟩
        · intro x y z hx hy hz h1 h2; rw [heq] at h1 h2 ⊢
          simp only [Bool.and_eq_true, beq_iff_eq] at h1 h2 ⊢
          exact ⟨h1.1.trans h2.1, mapSub_trans _ _ _ _ hR (ih v) _ _ _ (hdom x hx) (hdom y hy) (hdom z hz) h1.2 h2.2⟩
      by_cases hp : k.isPrim = true
      · apply hgen keyEq (keyEq_equivOn_decoded env fuel k hp)
        · intro a b; simp [equalsG, hr, hp, keyEqFlip_eq]
        · intro g hg
          have := hD g hg
          simp only [hr] at this
          cases g <;> simp at this
          rename_i h kvs
          obtain ⟨h1, h2, h3⟩ := this
          subst h1
          simp only [hp, if_true] at h3
          exact ⟨fun kv hkv => (h2 kv.1 kv.2 (by simpa [pairsOf] using hkv)).1,
                 fun kv hkv => (h2 kv.1 kv.2 (by simpa [pairsOf] using hkv)).2,
                 by simpa [pairsOf] using h3⟩
      · have hp' : k.isPrim = false := by simpa using hp
        apply hgen (equalsG env fuel k) (ih k)
        · intro a b; simp [equalsG, hr, hp']
        · intro g hg
          have := hD g hg
          simp only [hr] at this
          cases g <;> simp at this
          rename_i h kvs
          obtain ⟨h1, h2, h3⟩ := this
          subst h1
          simp only [hp', Bool.false_eq_true, if_false] at h3
          exact ⟨fun kv hkv => (h2 kv.1 kv.2 (by simpa [pairsOf] using hkv)).1,
                 fun kv hkv => (h2 kv.1 kv.2 (by simpa [pairsOf] using hkv)).2,
                 by simpa [pairsOf] using h3⟩
    | struct n =>
      have hdom : ∀ g, Dom env (fuel + 1) t g →
          ∃ gs sd, g = .struct gs ∧ env.find n = some sd ∧ decodedFields (decodedV env fuel) sd.fields gs = true := by
        intro g hg
        have := hD g hg
        simp only [hr] at this
        cases g <;> simp at this
        rename_i gs
        obtain ⟨sd, h1, h2⟩ := this
        exact ⟨gs, sd, rfl, h1, h2⟩
      refine ⟨?_, ?_, ?_⟩
      · intro x hx
        obtain ⟨gs, sd, rfl, hf, hd⟩ := hdom x hx
        simp [equalsG, hr, hf, fieldsEq_refl _ _ (fun t => ih t) _ _ hd]
      · intro x y hx hy h
        obtain ⟨as, sd, rfl, hf, hda⟩ := hdom x hx
        obtain ⟨bs, sd', rfl, hf', hdb⟩ := hdom y hy
        rw [hf] at hf'; cases hf'
        simp only [equalsG, hr, hf] at h ⊢
        exact fieldsEq_symm _ _ (fun t => ih t) _ _ _ hda hdb h
      · intro x y z hx hy hz h1 h2
        obtain ⟨as, sd, rfl, hf, hda⟩ := hdom x hx
        obtain ⟨bs, sd', rfl, hf', hdb⟩ := hdom y hy
        obtain ⟨cs, sd'', rfl, hf'', hdc⟩ := hdom z hz
        rw [hf] at hf' hf''; cases hf'; cases hf''
        simp only [equalsG, hr, hf] at h1 h2 ⊢
        exact fieldsEq_trans _ _ (fun t => ih t) _ _ _ _ hda hdb hdc h1 h2

end ThriftVerif.Schema
