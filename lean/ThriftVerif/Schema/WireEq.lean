/-
M-Schema, part 4: `wire.ValuesAreEqual` (wire/value_equals.go). Core-only.
-/
import ThriftVerif.Schema.Read

namespace ThriftVerif.Schema
open ThriftVerif.Wire

def dblEq (a b : UInt64) : Bool :=
  if isNaNBits a || isNaNBits b then false
  else if isZeroBits a && isZeroBits b then true else a == b

/-- is the element type hashable for `wire` (value_equals.go `isHashable`). -/
def wHashable (t : UInt8) : Bool :=
  t == 2 || t == 3 || t == 4 || t == 6 || t == 8 || t == 10 || t == 11

/-- `fieldMap`: last value per id. -/
def lookupLast (id : UInt16) : List (UInt16 × WValue) → Option WValue
  | [] => none
  | (i, v) :: rest =>
    match lookupLast id rest with
    | some w => some w
    | none => if i == id then some v else none

/-- `len(fieldMap)`: the number of different identifiers. -/
def distinctIds : List (UInt16 × WValue) → Nat
  | [] => 0
  | (i, _) :: rest => (if rest.any (fun p => p.1 == i) then 0 else 1) + distinctIds rest

def wireEq : Nat → WValue → WValue → Bool
  | 0, _, _ => false
  | fuel + 1, a, b =>
    match a, b with
    | .bool x, .bool y => x == y
    | .i8 x, .i8 y => x == y
    | .i16 x, .i16 y => x == y
    | .i32 x, .i32 y => x == y
    | .i64 x, .i64 y => x == y
    | .double x, .double y => dblEq x y
    | .binary x, .binary y => x == y
    | .struct fa, .struct fb =>
      distinctIds fa == distinctIds fb &&
        fa.all fun f =>
          match lookupLast f.1 fa, lookupLast f.1 fb with
          | some lv, some rv => wireEq fuel lv rv
          | _, _ => false
    | .list ea xs, .list eb ys =>
      ea == eb && xs.length == ys.length &&
        (List.zip xs ys).all fun p => wireEq fuel p.1 p.2
    | .set ea xs, .set eb ys =>
      ea == eb && xs.length == ys.length &&
        ys.all fun y => xs.any fun x => wireEq fuel x y
    | .map ka va xs, .map kb vb ys =>
      ka == kb && va == vb && xs.length == ys.length &&
        (if wHashable ka then
          -- m[key] = value for left items (last wins), then every right item must be found
          ys.all fun y =>
            match (xs.reverse.find? fun x => wireEq fuel x.1 y.1) with
            | some x => wireEq fuel x.2 y.2
            | none => false
        else
          ys.all fun y => xs.any fun x => wireEq fuel x.1 y.1 && wireEq fuel x.2 y.2)
    | _, _ => false

end ThriftVerif.Schema
