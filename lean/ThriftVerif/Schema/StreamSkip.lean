/-
M-Schema proofs: whatever a generated streaming `Decode` reads successfully, `Skip` of the same
wire type (stream discard) skips successfully, ending at the same place. This is the bridge
between positions of the schema-driven stream decoder and positions of the lazy decoder
(which validates by skipping).

Core-only.
-/
import ThriftVerif.Schema.Read
import ThriftVerif.Schema.LazyAgree
import ThriftVerif.Wire.StreamLemmas

set_option linter.unusedSimpArgs false

namespace ThriftVerif.Schema
open ThriftVerif.Wire

theorem discard_of_rdN {k : Nat} {bs r : Bytes} {n : Nat} (h : rdN k bs = some (n, r)) :
    Wire.discard false k (bs, 0) = some (r, 0) := by
  obtain ⟨hk, hr⟩ := rdN_drop h
  unfold Wire.discard
  simp [hk, hr]

theorem stRdLen_of_rdLen {bs r : Bytes} {n : Nat} (h : rdLen bs = some (n, r)) :
    stRdLen (bs, 0) = some (n, (r, 0)) := by
  simp [stRdLen, h]

theorem stRdN_of_rdN {k : Nat} {bs r : Bytes} {n : Nat} (h : rdN k bs = some (n, r)) :
    stRdN k (bs, 0) = some (n, (r, 0)) := by
  simp [stRdN, h]

/-- a fixed-width scalar: `Skip` is one discard of its width. -/
theorem skip_fixed_of_discard (t : UInt8) (w : Nat) (hw : fixedWidth t = w) (hpos : 0 < w) (s a : St)
    (h : Wire.discard false w s = some a) : skip false 1 t s = .ok a := by
  unfold skip
  simp [hw, hpos, h]

/-- list / set header followed by skippable items. -/
theorem skip_listlike (c : UInt8) (hc : c = 14 ∨ c = 15) (et : UInt8) (r0 r r' : Bytes) (n F : Nat)
    (hl : rdLen r0 = some (n, r)) (hs : skipN false F et n (r, 0) = .ok (r', 0)) :
    skip false (F + 1) c (et :: r0, 0) = .ok (r', 0) := by
  unfold skip
  have hfw : fixedWidth c = 0 := by rcases hc with rfl | rfl <;> rfl
  simp only [hfw, Nat.lt_irrefl, if_false]
  have hst : stByte (et :: r0, 0) = some (et, (r0, 0)) := rfl
  rcases hc with rfl | rfl
  · show (match TType.ofByte 14 with | _ => _) = _
    simp only [show TType.ofByte 14 = some TType.set from rfl, hst, stRdLen_of_rdLen hl]
    by_cases hw : 0 < fixedWidth et
    · simp only [hw, if_true]
      rw [skipN_fixed_stream et hw n F (r, 0) (r', 0) rfl hs]
    · simp only [hw, if_false]; exact hs
  · show (match TType.ofByte 15 with | _ => _) = _
    simp only [show TType.ofByte 15 = some TType.list from rfl, hst, stRdLen_of_rdLen hl]
    by_cases hw : 0 < fixedWidth et
    · simp only [hw, if_true]
      rw [skipN_fixed_stream et hw n F (r, 0) (r', 0) rfl hs]
    · simp only [hw, if_false]; exact hs

theorem skip_maplike (kt vt : UInt8) (r0 r r' : Bytes) (n F : Nat)
    (hl : rdLen r0 = some (n, r)) (hs : skipKV false F kt vt n (r, 0) = .ok (r', 0)) :
    skip false (F + 1) 13 (kt :: vt :: r0, 0) = .ok (r', 0) := by
  unfold skip
  simp only [show fixedWidth 13 = 0 from rfl, Nat.lt_irrefl, if_false]
  show (match TType.ofByte 13 with | _ => _) = _
  have h1 : stByte (kt :: vt :: r0, 0) = some (kt, (vt :: r0, 0)) := rfl
  have h2 : stByte (vt :: r0, 0) = some (vt, (r0, 0)) := rfl
  simp only [show TType.ofByte 13 = some TType.map from rfl, h1, h2, stRdLen_of_rdLen hl]
  by_cases hw : 0 < fixedWidth kt ∧ 0 < fixedWidth vt
  · simp only [hw, and_self, if_true]
    rw [skipKV_fixed_stream kt vt hw.1 hw.2 n F (r, 0) (r', 0) rfl hs]
  · simp only [hw, if_false]; exact hs

theorem skipElems_ok {et : UInt8} {n : Nat} {r r' : Bytes} (h : skipElems et n r = .ok r') :
    skipN false (fuelFor r) et n (r, 0) = .ok (r', 0) := by
  unfold skipElems at h
  cases hs : skipN false (fuelFor r) et n (r, 0) with
  | error e => simp [hs] at h
  | ok s =>
    simp only [hs, Except.ok.injEq] at h
    have h0 := skipN_stream_over (s := (r, 0)) rfl hs
    subst h
    cases s; simp_all

theorem skipPairs_ok {kt vt : UInt8} {n : Nat} {r r' : Bytes} (h : skipPairs kt vt n r = .ok r') :
    skipKV false (fuelFor r) kt vt n (r, 0) = .ok (r', 0) := by
  unfold skipPairs at h
  cases hs : skipKV false (fuelFor r) kt vt n (r, 0) with
  | error e => simp [hs] at h
  | ok s =>
    simp only [hs, Except.ok.injEq] at h
    have h0 := skipKV_stream_over (s := (r, 0)) rfl hs
    subst h
    cases s; simp_all

theorem skipOne_ok {t : UInt8} {r r' : Bytes} (h : skipOne t r = .ok r') :
    skip false (fuelFor r) t (r, 0) = .ok (r', 0) := by
  unfold skipOne at h
  cases hs : skip false (fuelFor r) t (r, 0) with
  | error e => simp [hs] at h
  | ok s =>
    simp only [hs, Except.ok.injEq] at h
    have h0 := skip_stream_over (s := (r, 0)) rfl hs
    subst h
    cases s; simp_all

/-- reading `n` items: if each read can be skipped, the item loop can. -/
theorem readN_skips (rd : Bytes → Res (GVal × Bytes)) (c : UInt8)
    (hrd : ∀ bs g r', rd bs = .ok (g, r') → ∃ F, skip false F c (bs, 0) = .ok (r', 0)) :
    ∀ (n : Nat) (r : Bytes) (gs : List GVal) (r' : Bytes), readN rd n r = .ok (gs, r') →
      ∃ F, skipN false F c n (r, 0) = .ok (r', 0) := by
  intro n
  induction n with
  | zero => intro r gs r' h; simp [readN] at h; exact ⟨0, by simp [skipN, h.2]⟩
  | succ n ih =>
    intro r gs r' h
    simp only [readN] at h
    cases h1 : rd r with
    | error e => simp [h1] at h
    | ok p =>
      obtain ⟨x, r1⟩ := p
      simp only [h1] at h
      cases h2 : readN rd n r1 with
      | error e => simp [h2] at h
      | ok q =>
        obtain ⟨xs, r2⟩ := q
        simp only [h2, Except.ok.injEq, Prod.mk.injEq] at h
        obtain ⟨F1, hs1⟩ := hrd r x r1 h1
        obtain ⟨F2, hs2⟩ := ih r1 xs r2 h2
        refine ⟨max F1 F2 + 1, ?_⟩
        simp only [skipN, skip_mono (Nat.le_max_left F1 F2) hs1]
        rw [← h.2]
        exact skipN_mono (Nat.le_max_right F1 F2) hs2

theorem readKV_skips (rk rv : Bytes → Res (GVal × Bytes)) (ck cv : UInt8)
    (hrk : ∀ bs g r', rk bs = .ok (g, r') → ∃ F, skip false F ck (bs, 0) = .ok (r', 0))
    (hrv : ∀ bs g r', rv bs = .ok (g, r') → ∃ F, skip false F cv (bs, 0) = .ok (r', 0)) :
    ∀ (n : Nat) (r : Bytes) (kvs : List (GVal × GVal)) (r' : Bytes), readKV rk rv n r = .ok (kvs, r') →
      ∃ F, skipKV false F ck cv n (r, 0) = .ok (r', 0) := by
  intro n
  induction n with
  | zero => intro r gs r' h; simp [readKV] at h; exact ⟨0, by simp [skipKV, h.2]⟩
  | succ n ih =>
    intro r gs r' h
    simp only [readKV] at h
    cases h1 : rk r with
    | error e => simp [h1] at h
    | ok p =>
      obtain ⟨x, r1⟩ := p
      simp only [h1] at h
      cases h1' : rv r1 with
      | error e => simp [h1'] at h
      | ok p' =>
        obtain ⟨y, r1'⟩ := p'
        simp only [h1'] at h
        cases h2 : readKV rk rv n r1' with
        | error e => simp [h2] at h
        | ok q =>
          obtain ⟨xs, r2⟩ := q
          simp only [h2, Except.ok.injEq, Prod.mk.injEq] at h
          obtain ⟨F1, hs1⟩ := hrk r x r1 h1
          obtain ⟨F1', hs1'⟩ := hrv r1 y r1' h1'
          obtain ⟨F2, hs2⟩ := ih r1' xs r2 h2
          refine ⟨max (max F1 F1') F2 + 1, ?_⟩
          have l1 : F1 ≤ max (max F1 F1') F2 := Nat.le_trans (Nat.le_max_left _ _) (Nat.le_max_left _ _)
          have l2 : F1' ≤ max (max F1 F1') F2 := Nat.le_trans (Nat.le_max_right _ _) (Nat.le_max_left _ _)
          simp only [skipKV, skip_mono l1 hs1, skip_mono l2 hs1']
          rw [← h.2]
          exact skipKV_mono (Nat.le_max_right _ _) hs2

/-- the field loop: if every field read can be skipped, the struct can. -/
theorem decodeFields_skips (rd : Ty → Bytes → Res (GVal × Bytes)) (fields : List Field)
    (hrd : ∀ ft bs g r', rd ft bs = .ok (g, r') → ∃ F, skip false F ft.code (bs, 0) = .ok (r', 0)) :
    ∀ (fuelS : Nat) (st st' : FState) (bs r' : Bytes), decodeFields rd fields fuelS st bs = .ok (st', r') →
      ∃ F, skipStruct false F (bs, 0) = .ok (r', 0) := by
  intro fuelS
  induction fuelS with
  | zero => intro st st' bs r' h; simp [decodeFields] at h
  | succ fuelS ih =>
    intro st st' bs r' h
    unfold decodeFields at h
    cases bs with
    | nil => simp at h
    | cons t r0 =>
      simp only at h
      by_cases ht : t = 0
      · simp only [ht, if_true, Except.ok.injEq, Prod.mk.injEq] at h
        refine ⟨1, ?_⟩
        unfold skipStruct
        simp [stByte, ht, h.2]
      · simp only [ht, if_false] at h
        cases hid : rdN 2 r0 with
        | none => simp [hid] at h
        | some p =>
          obtain ⟨idn, r1⟩ := p
          simp only [hid] at h
          -- either way the field's value can be skipped, and the rest of the struct after it
          have key : ∃ r2 st2, (∃ F1, skip false F1 t (r1, 0) = .ok (r2, 0)) ∧
              decodeFields rd fields fuelS st2 r2 = .ok (st', r') := by
            cases hf : fields.find? (fun f => f.id == UInt16.ofNat idn && f.ty.code == t) with
            | some fd =>
              simp only [hf] at h
              cases hr : rd fd.ty r1 with
              | error e => simp [hr] at h
              | ok q =>
                obtain ⟨g, r2⟩ := q
                simp only [hr] at h
                have hcode : fd.ty.code = t := by
                  have := List.find?_some hf
                  simp only [Bool.and_eq_true, beq_iff_eq] at this
                  exact this.2
                obtain ⟨F1, hs1⟩ := hrd fd.ty r1 g r2 hr
                rw [hcode] at hs1
                exact ⟨r2, _, ⟨F1, hs1⟩, h⟩
            | none =>
              simp only [hf] at h
              cases hso : skipOne t r1 with
              | error e => simp [hso] at h
              | ok r2 =>
                simp only [hso] at h
                exact ⟨r2, _, ⟨_, skipOne_ok hso⟩, h⟩
          obtain ⟨r2, st2, ⟨F1, hs1⟩, hrest⟩ := key
          obtain ⟨F2, hs2⟩ := ih st2 st' r2 r' hrest
          refine ⟨max F1 F2 + 1, ?_⟩
          unfold skipStruct
          simp only [stByte, ht, if_false, discard_of_rdN hid, skip_mono (Nat.le_max_left F1 F2) hs1]
          exact skipStruct_mono (Nat.le_max_right F1 F2) hs2

/-- **Whatever streaming `Decode` reads, `Skip` skips, to the same position** — for every schema,
type and byte string. -/
theorem decodeS_skips (env : Env) (fuel : Nat) :
    ∀ (t : Ty) (bs : Bytes) (g : GVal) (r' : Bytes), decodeS env fuel t bs = .ok (g, r') →
      ∃ F, skip false F t.code (bs, 0) = .ok (r', 0) := by
  induction fuel with
  | zero => intro t bs g r' h; simp [decodeS] at h
  | succ fuel ih =>
    intro t bs g r' h
    unfold decodeS at h
    unfold Ty.code
    generalize t.root = rt at h ⊢
    cases rt <;> simp only [] at h ⊢
    case bool =>
      cases bs with
      | nil => simp at h
      | cons b r =>
        simp only at h
        refine ⟨1, skip_fixed_of_discard 2 1 rfl (by omega) _ _ ?_⟩
        have hr : r' = r := by
          by_cases h0 : b = 0
          · simp [h0] at h; exact h.2.symm
          · by_cases h1 : b = 1
            · simp [h1] at h; exact h.2.symm
            · simp [h0, h1] at h
        subst hr
        simp [Wire.discard]
    case i8 =>
      cases bs with
      | nil => simp at h
      | cons b r =>
        simp only [Except.ok.injEq, Prod.mk.injEq] at h
        refine ⟨1, skip_fixed_of_discard 3 1 rfl (by omega) _ _ ?_⟩
        rw [← h.2]; simp [Wire.discard]
    case i16 =>
      cases hr : rdN 2 bs with
      | none => simp [hr] at h
      | some p =>
        obtain ⟨n, r⟩ := p
        simp only [hr, Except.ok.injEq, Prod.mk.injEq] at h
        rw [← h.2]
        exact ⟨1, skip_fixed_of_discard 6 2 rfl (by omega) _ _ (discard_of_rdN hr)⟩
    case i32 =>
      cases hr : rdN 4 bs with
      | none => simp [hr] at h
      | some p =>
        obtain ⟨n, r⟩ := p
        simp only [hr, Except.ok.injEq, Prod.mk.injEq] at h
        rw [← h.2]
        exact ⟨1, skip_fixed_of_discard 8 4 rfl (by omega) _ _ (discard_of_rdN hr)⟩
    case enum =>
      cases hr : rdN 4 bs with
      | none => simp [hr] at h
      | some p =>
        obtain ⟨n, r⟩ := p
        simp only [hr, Except.ok.injEq, Prod.mk.injEq] at h
        rw [← h.2]
        exact ⟨1, skip_fixed_of_discard 8 4 rfl (by omega) _ _ (discard_of_rdN hr)⟩
    case i64 =>
      cases hr : rdN 8 bs with
      | none => simp [hr] at h
      | some p =>
        obtain ⟨n, r⟩ := p
        simp only [hr, Except.ok.injEq, Prod.mk.injEq] at h
        rw [← h.2]
        exact ⟨1, skip_fixed_of_discard 10 8 rfl (by omega) _ _ (discard_of_rdN hr)⟩
    case double =>
      cases hr : rdN 8 bs with
      | none => simp [hr] at h
      | some p =>
        obtain ⟨n, r⟩ := p
        simp only [hr, Except.ok.injEq, Prod.mk.injEq] at h
        rw [← h.2]
        exact ⟨1, skip_fixed_of_discard 4 8 rfl (by omega) _ _ (discard_of_rdN hr)⟩
    case string =>
      cases hr : rdLen bs with
      | none => simp [hr] at h
      | some p =>
        obtain ⟨n, r⟩ := p
        simp only [hr] at h
        by_cases hn : n ≤ r.length
        · simp only [hn, if_true, Except.ok.injEq, Prod.mk.injEq] at h
          refine ⟨1, ?_⟩
          unfold skip
          simp only [show fixedWidth 11 = 0 from rfl, Nat.lt_irrefl, if_false,
            show TType.ofByte 11 = some TType.binary from rfl, stRdLen_of_rdLen hr]
          simp [Wire.discard, hn, h.2]
        · simp [hn] at h
    case binary =>
      cases hr : rdLen bs with
      | none => simp [hr] at h
      | some p =>
        obtain ⟨n, r⟩ := p
        simp only [hr] at h
        by_cases hn : n ≤ r.length
        · simp only [hn, if_true, Except.ok.injEq, Prod.mk.injEq] at h
          refine ⟨1, ?_⟩
          unfold skip
          simp only [show fixedWidth 11 = 0 from rfl, Nat.lt_irrefl, if_false,
            show TType.ofByte 11 = some TType.binary from rfl, stRdLen_of_rdLen hr]
          simp [Wire.discard, hn, h.2]
        · simp [hn] at h
    case list e =>
      cases bs with
      | nil => simp at h
      | cons et r0 =>
        simp only at h
        cases hl : rdLen r0 with
        | none => simp [hl] at h
        | some p =>
          obtain ⟨n, r⟩ := p
          simp only [hl] at h
          by_cases hm : (et != e.code) = true
          · simp only [hm, if_true] at h
            cases hs : skipElems et n r with
            | error er => simp [hs] at h
            | ok r2 =>
              simp only [hs, Except.ok.injEq, Prod.mk.injEq] at h
              rw [← h.2]
              exact ⟨_, skip_listlike 15 (by simp) et r0 r r2 n _ hl (skipElems_ok hs)⟩
          · have het : et = e.code := by simpa using hm
            have hm' : (et != e.code) = false := by simp [het]
            simp only [hm', Bool.false_eq_true, if_false] at h
            cases hs : readN (decodeS env fuel e) n r with
            | error er => simp [hs] at h
            | ok q =>
              obtain ⟨gs, r2⟩ := q
              simp only [hs, Except.ok.injEq, Prod.mk.injEq] at h
              obtain ⟨F, hF⟩ := readN_skips (decodeS env fuel e) e.code (ih e) n r gs r2 hs
              rw [← h.2, het]
              exact ⟨_, skip_listlike 15 (by simp) e.code r0 r r2 n F hl hF⟩
    case set e =>
      cases bs with
      | nil => simp at h
      | cons et r0 =>
        simp only at h
        cases hl : rdLen r0 with
        | none => simp [hl] at h
        | some p =>
          obtain ⟨n, r⟩ := p
          simp only [hl] at h
          by_cases hm : (et != e.code) = true
          · simp only [hm, if_true] at h
            cases hs : skipElems et n r with
            | error er => simp [hs] at h
            | ok r2 =>
              simp only [hs, Except.ok.injEq, Prod.mk.injEq] at h
              rw [← h.2]
              exact ⟨_, skip_listlike 14 (by simp) et r0 r r2 n _ hl (skipElems_ok hs)⟩
          · have het : et = e.code := by simpa using hm
            have hm' : (et != e.code) = false := by simp [het]
            simp only [hm', Bool.false_eq_true, if_false] at h
            cases hs : readN (decodeS env fuel e) n r with
            | error er => simp [hs] at h
            | ok q =>
              obtain ⟨gs, r2⟩ := q
              simp only [hs, Except.ok.injEq, Prod.mk.injEq] at h
              obtain ⟨F, hF⟩ := readN_skips (decodeS env fuel e) e.code (ih e) n r gs r2 hs
              rw [← h.2, het]
              exact ⟨_, skip_listlike 14 (by simp) e.code r0 r r2 n F hl hF⟩
    case sset e =>
      cases bs with
      | nil => simp at h
      | cons et r0 =>
        simp only at h
        cases hl : rdLen r0 with
        | none => simp [hl] at h
        | some p =>
          obtain ⟨n, r⟩ := p
          simp only [hl] at h
          by_cases hm : (et != e.code) = true
          · simp only [hm, if_true] at h
            cases hs : skipElems et n r with
            | error er => simp [hs] at h
            | ok r2 =>
              simp only [hs, Except.ok.injEq, Prod.mk.injEq] at h
              rw [← h.2]
              exact ⟨_, skip_listlike 14 (by simp) et r0 r r2 n _ hl (skipElems_ok hs)⟩
          · have het : et = e.code := by simpa using hm
            have hm' : (et != e.code) = false := by simp [het]
            simp only [hm', Bool.false_eq_true, if_false] at h
            cases hs : readN (decodeS env fuel e) n r with
            | error er => simp [hs] at h
            | ok q =>
              obtain ⟨gs, r2⟩ := q
              simp only [hs, Except.ok.injEq, Prod.mk.injEq] at h
              obtain ⟨F, hF⟩ := readN_skips (decodeS env fuel e) e.code (ih e) n r gs r2 hs
              rw [← h.2, het]
              exact ⟨_, skip_listlike 14 (by simp) e.code r0 r r2 n F hl hF⟩
    case map k v =>
      match bs with
      | [] => simp at h
      | [_] => simp at h
      | kt :: vt :: r0 =>
        simp only at h
        cases hl : rdLen r0 with
        | none => simp [hl] at h
        | some p =>
          obtain ⟨n, r⟩ := p
          simp only [hl] at h
          by_cases hm : (kt != k.code || vt != v.code) = true
          · simp only [hm, if_true] at h
            cases hs : skipPairs kt vt n r with
            | error er => simp [hs] at h
            | ok r2 =>
              simp only [hs, Except.ok.injEq, Prod.mk.injEq] at h
              rw [← h.2]
              exact ⟨_, skip_maplike kt vt r0 r r2 n _ hl (skipPairs_ok hs)⟩
          · have hkv : kt = k.code ∧ vt = v.code := by
              simp only [Bool.or_eq_true, bne_iff_ne, ne_eq, not_or, Decidable.not_not] at hm
              exact hm
            have hm' : (kt != k.code || vt != v.code) = false := by simp [hkv.1, hkv.2]
            simp only [hm', Bool.false_eq_true, if_false] at h
            cases hs : readKV (decodeS env fuel k) (decodeS env fuel v) n r with
            | error er => simp [hs] at h
            | ok q =>
              obtain ⟨kvs, r2⟩ := q
              simp only [hs, Except.ok.injEq, Prod.mk.injEq] at h
              obtain ⟨F, hF⟩ := readKV_skips (decodeS env fuel k) (decodeS env fuel v) k.code v.code
                (ih k) (ih v) n r kvs r2 hs
              rw [← h.2, hkv.1, hkv.2]
              exact ⟨_, skip_maplike k.code v.code r0 r r2 n F hl hF⟩
    case struct name =>
      cases hf : env.find name with
      | none => simp [hf] at h
      | some sd =>
        simp only [hf] at h
        cases hd : decodeFields (decodeS env fuel) sd.fields (fuelFor bs) (initState sd.fields) bs with
        | error er => simp [hd] at h
        | ok q =>
          obtain ⟨st, r⟩ := q
          simp only [hd] at h
          cases hfin : finishStruct sd st with
          | error er => simp [hfin] at h
          | ok g' =>
            simp only [hfin, Except.ok.injEq, Prod.mk.injEq] at h
            obtain ⟨F, hF⟩ := decodeFields_skips (decodeS env fuel) sd.fields (ih) (fuelFor bs)
              (initState sd.fields) st bs r hd
            refine ⟨F + 1, ?_⟩
            unfold skip
            simp only [show fixedWidth 12 = 0 from rfl, Nat.lt_irrefl, if_false,
              show TType.ofByte 12 = some TType.struct from rfl]
            rw [← h.2]; exact hF
    case typedef => cases h

end ThriftVerif.Schema
