/-
C14, wire level: `wire.ValuesAreEqual` (model `wireEq`) on ARBITRARY wire values.

`wclean` — no NaN, no set with two equal items, no map with two equal keys (structs may repeat field
identifiers: the decoder accepts them and the last entry is the field).
`wireEq_equivOn`  : on such values `wireEq` is reflexive, symmetric and transitive — although its set and
                    map loops only look one way and its struct case compares a count and one direction
                    (pigeonhole: `surj_of_inj`, `structQ_ids`). Before the repair of finding D87 (length
                    of the field lists instead of the number of different identifiers) symmetry failed.
`wireEq_eq_specEq`: on such values `wireEq` agrees with `specEq`, an independent statement of "the same
                    logical value" that tests no lengths or counts and looks both ways (`length_le_of_inj`).
Core-only.
-/
import ThriftVerif.Schema.WireEq
import ThriftVerif.Schema.MapLemmas

set_option linter.unusedSimpArgs false
set_option linter.unusedVariables false

namespace ThriftVerif.Schema
open ThriftVerif.Wire

/-- wire values `wire.ValuesAreEqual` is meant for: no NaN, sets without two equal items, maps without two
equal keys, nested at most `fuel` deep. Structs may repeat field identifiers. -/
def wclean : Nat → WValue → Bool
  | 0, _ => false
  | f + 1, v =>
    match v with
    | .double x => !isNaNBits x
    | .struct fs => fs.all fun p => wclean f p.2
    | .list _ xs => xs.all (wclean f)
    | .set _ xs => xs.all (wclean f) && pairwiseNot (wireEq f) xs
    | .map _ _ xs => xs.all (fun p => wclean f p.1 && wclean f p.2) && pairwiseNot (wireEq f) (xs.map (·.1))
    | _ => true

variable {α : Type}

/-! ### lists: position by position -/

def zipRel (r : α → α → Bool) (xs ys : List α) : Bool :=
  xs.length == ys.length && (List.zip xs ys).all fun p => r p.1 p.2

theorem zipRel_nil_nil (r : α → α → Bool) : zipRel r [] [] = true := by simp [zipRel]

theorem zipRel_cons (r : α → α → Bool) (x y : α) (xs ys : List α) :
    zipRel r (x :: xs) (y :: ys) = (r x y && zipRel r xs ys) := by
  simp only [zipRel, List.length_cons, List.zip_cons_cons, List.all_cons]
  have : (xs.length + 1 == ys.length + 1) = (xs.length == ys.length) := by
    cases h : (xs.length == ys.length) <;> simp_all
  rw [this]
  cases (xs.length == ys.length) <;> cases (r x y) <;> simp

theorem zipRel_nil_cons (r : α → α → Bool) (y : α) (ys : List α) : zipRel r [] (y :: ys) = false := by
  simp [zipRel]

theorem zipRel_cons_nil (r : α → α → Bool) (x : α) (xs : List α) : zipRel r (x :: xs) [] = false := by
  simp [zipRel]

theorem zipRel_refl (D : α → Prop) (r : α → α → Bool) (he : EquivOn D r) (xs : List α)
    (hD : ∀ x ∈ xs, D x) : zipRel r xs xs = true := by
  induction xs with
  | nil => exact zipRel_nil_nil r
  | cons x xs ih =>
    rw [zipRel_cons, he.refl x (hD x (by simp)), ih (fun y hy => hD y (by simp [hy]))]; rfl

theorem zipRel_symm (D : α → Prop) (r : α → α → Bool) (he : EquivOn D r) (xs ys : List α)
    (hDx : ∀ x ∈ xs, D x) (hDy : ∀ y ∈ ys, D y) (h : zipRel r xs ys = true) : zipRel r ys xs = true := by
  induction xs generalizing ys with
  | nil => cases ys with
    | nil => exact h
    | cons y ys => rw [zipRel_nil_cons] at h; cases h
  | cons x xs ih =>
    cases ys with
    | nil => rw [zipRel_cons_nil] at h; cases h
    | cons y ys =>
      rw [zipRel_cons, Bool.and_eq_true] at h ⊢
      exact ⟨he.symm x y (hDx x (by simp)) (hDy y (by simp)) h.1,
        ih ys (fun a ha => hDx a (by simp [ha])) (fun a ha => hDy a (by simp [ha])) h.2⟩

theorem zipRel_trans (D : α → Prop) (r : α → α → Bool) (he : EquivOn D r) (xs ys zs : List α)
    (hDx : ∀ x ∈ xs, D x) (hDy : ∀ y ∈ ys, D y) (hDz : ∀ z ∈ zs, D z)
    (h1 : zipRel r xs ys = true) (h2 : zipRel r ys zs = true) : zipRel r xs zs = true := by
  induction xs generalizing ys zs with
  | nil =>
    cases ys with
    | nil => exact h2
    | cons y ys => rw [zipRel_nil_cons] at h1; cases h1
  | cons x xs ih =>
    cases ys with
    | nil => rw [zipRel_cons_nil] at h1; cases h1
    | cons y ys =>
      cases zs with
      | nil => rw [zipRel_cons_nil] at h2; cases h2
      | cons z zs =>
        rw [zipRel_cons, Bool.and_eq_true] at h1 h2 ⊢
        exact ⟨he.trans x y z (hDx x (by simp)) (hDy y (by simp)) (hDz z (by simp)) h1.1 h2.1,
          ih ys zs (fun a ha => hDx a (by simp [ha])) (fun a ha => hDy a (by simp [ha]))
            (fun a ha => hDz a (by simp [ha])) h1.2 h2.2⟩

/-! ### sets: every right item is found on the left -/

def setRel (r : α → α → Bool) (xs ys : List α) : Bool :=
  xs.length == ys.length && ys.all fun y => xs.any fun x => r x y

theorem setRel_iff (r : α → α → Bool) (xs ys : List α) :
    setRel r xs ys = true ↔ xs.length = ys.length ∧ ∀ y ∈ ys, ∃ x ∈ xs, r x y = true := by
  simp [setRel, List.all_eq_true, List.any_eq_true]

theorem setRel_refl (D : α → Prop) (r : α → α → Bool) (he : EquivOn D r) (xs : List α)
    (hD : ∀ x ∈ xs, D x) : setRel r xs xs = true := by
  rw [setRel_iff]
  exact ⟨rfl, fun y hy => ⟨y, hy, he.refl y (hD y hy)⟩⟩

theorem setRel_symm (D : α → Prop) (r : α → α → Bool) (he : EquivOn D r) (xs ys : List α)
    (hDx : ∀ x ∈ xs, D x) (hDy : ∀ y ∈ ys, D y)
    (hnx : pairwiseNot r xs = true) (hny : pairwiseNot r ys = true)
    (h : setRel r xs ys = true) : setRel r ys xs = true := by
  rw [setRel_iff] at h ⊢
  refine ⟨h.1.symm, ?_⟩
  have hinj : ∀ y ∈ ys, ∃ x ∈ xs, r y x = true := by
    intro y hy
    obtain ⟨x, hx, hr⟩ := h.2 y hy
    exact ⟨x, hx, he.symm x y (hDx x hx) (hDy y hy) hr⟩
  exact surj_of_inj D r he ys xs hDy hDx hny hnx h.1.symm hinj

theorem setRel_trans (D : α → Prop) (r : α → α → Bool) (he : EquivOn D r) (xs ys zs : List α)
    (hDx : ∀ x ∈ xs, D x) (hDy : ∀ y ∈ ys, D y) (hDz : ∀ z ∈ zs, D z)
    (h1 : setRel r xs ys = true) (h2 : setRel r ys zs = true) : setRel r xs zs = true := by
  rw [setRel_iff] at h1 h2 ⊢
  refine ⟨h1.1.trans h2.1, ?_⟩
  intro z hz
  obtain ⟨y, hy, hyz⟩ := h2.2 z hz
  obtain ⟨x, hx, hxy⟩ := h1.2 y hy
  exact ⟨x, hx, he.trans x y z (hDx x hx) (hDy y hy) (hDz z hz) hxy hyz⟩

/-! ### maps: every right entry finds its key on the left, with an equal value -/

variable {K V : Type}

/-- what both map loops of `wire.ValuesAreEqual` decide on maps without repeated keys. -/
def MapP (rk : K → K → Bool) (rv : V → V → Bool) (xs ys : List (K × V)) : Prop :=
  ∀ y ∈ ys, ∃ x ∈ xs, rk x.1 y.1 = true ∧ rv x.2 y.2 = true

def mapU (rk : K → K → Bool) (rv : V → V → Bool) (xs ys : List (K × V)) : Bool :=
  ys.all fun y => xs.any fun x => rk x.1 y.1 && rv x.2 y.2

def mapH (rk : K → K → Bool) (rv : V → V → Bool) (xs ys : List (K × V)) : Bool :=
  ys.all fun y =>
    match (xs.reverse.find? fun x => rk x.1 y.1) with
    | some x => rv x.2 y.2
    | none => false

theorem mapU_iff (rk : K → K → Bool) (rv : V → V → Bool) (xs ys : List (K × V)) :
    mapU rk rv xs ys = true ↔ MapP rk rv xs ys := by
  simp [mapU, MapP, List.all_eq_true, List.any_eq_true]

/-- in a list with pairwise different keys, two entries with related keys are the same entry. -/
theorem entry_unique (D : K → Prop) (rk : K → K → Bool) (he : EquivOn D rk) (l : List (K × V))
    (hD : ∀ kv ∈ l, D kv.1) (hnd : pairwiseNot rk (l.map (·.1)) = true)
    (x x' : K × V) (hx : x ∈ l) (hx' : x' ∈ l) (hr : rk x.1 x'.1 = true) : x = x' := by
  induction l with
  | nil => cases hx
  | cons h t ih =>
    simp only [List.map_cons] at hnd
    rw [pairwiseNot_iff] at hnd
    have hDh : D h.1 := hD h (by simp)
    simp only [List.mem_cons] at hx hx'
    rcases hx with rfl | hx
    · rcases hx' with rfl | hx'
      · rfl
      · have := hnd.1 x'.1 (by simp only [List.mem_map]; exact ⟨x', hx', rfl⟩)
        rw [hr] at this; cases this
    · rcases hx' with rfl | hx'
      · have h1 := he.symm x.1 x'.1 (hD x (by simp [hx])) hDh hr
        have := hnd.1 x.1 (by simp only [List.mem_map]; exact ⟨x, hx, rfl⟩)
        rw [h1] at this; cases this
      · exact ih (fun kv hkv => hD kv (by simp [hkv])) hnd.2 hx hx'

theorem mapH_iff (D : K → Prop) (rk : K → K → Bool) (rv : V → V → Bool) (he : EquivOn D rk)
    (xs ys : List (K × V)) (hDx : ∀ kv ∈ xs, D kv.1) (hDy : ∀ kv ∈ ys, D kv.1)
    (hnd : pairwiseNot rk (xs.map (·.1)) = true) :
    mapH rk rv xs ys = true ↔ MapP rk rv xs ys := by
  simp only [mapH, MapP, List.all_eq_true]
  constructor
  · intro h y hy
    have := h y hy
    split at this
    · rename_i x hx
      have hm := List.mem_of_find?_eq_some hx
      have hp := List.find?_some hx
      exact ⟨x, by simpa using hm, hp, this⟩
    · cases this
  · intro h y hy
    obtain ⟨x, hx, hk, hv⟩ := h y hy
    cases hf : (xs.reverse.find? fun x => rk x.1 y.1) with
    | none =>
      rw [List.find?_eq_none] at hf
      have := hf x (by simpa using hx)
      simp [hk] at this
    | some x' =>
      have hm : x' ∈ xs := by simpa using List.mem_of_find?_eq_some hf
      have hp : rk x'.1 y.1 = true := by
        have := List.find?_some hf
        simpa using this
      have hyx : rk y.1 x.1 = true := he.symm x.1 y.1 (hDx x hx) (hDy y hy) hk
      have hxx : rk x'.1 x.1 = true := he.trans x'.1 y.1 x.1 (hDx x' hm) (hDy y hy) (hDx x hx) hp hyx
      have := entry_unique D rk he xs hDx hnd x' x hm hx hxx
      subst this
      simpa using hv

theorem mapP_refl (DK : K → Prop) (DV : V → Prop) (rk : K → K → Bool) (rv : V → V → Bool)
    (hk : EquivOn DK rk) (hv : EquivOn DV rv) (xs : List (K × V))
    (hD : ∀ kv ∈ xs, DK kv.1 ∧ DV kv.2) : MapP rk rv xs xs :=
  fun y hy => ⟨y, hy, hk.refl y.1 (hD y hy).1, hv.refl y.2 (hD y hy).2⟩

theorem mapP_trans (DK : K → Prop) (DV : V → Prop) (rk : K → K → Bool) (rv : V → V → Bool)
    (hk : EquivOn DK rk) (hv : EquivOn DV rv) (xs ys zs : List (K × V))
    (hDx : ∀ kv ∈ xs, DK kv.1 ∧ DV kv.2) (hDy : ∀ kv ∈ ys, DK kv.1 ∧ DV kv.2)
    (hDz : ∀ kv ∈ zs, DK kv.1 ∧ DV kv.2)
    (h1 : MapP rk rv xs ys) (h2 : MapP rk rv ys zs) : MapP rk rv xs zs := by
  intro z hz
  obtain ⟨y, hy, hk1, hv1⟩ := h2 z hz
  obtain ⟨x, hx, hk2, hv2⟩ := h1 y hy
  exact ⟨x, hx, hk.trans x.1 y.1 z.1 (hDx x hx).1 (hDy y hy).1 (hDz z hz).1 hk2 hk1,
    hv.trans x.2 y.2 z.2 (hDx x hx).2 (hDy y hy).2 (hDz z hz).2 hv2 hv1⟩

theorem mapP_symm (DK : K → Prop) (DV : V → Prop) (rk : K → K → Bool) (rv : V → V → Bool)
    (hk : EquivOn DK rk) (hv : EquivOn DV rv) (xs ys : List (K × V))
    (hDx : ∀ kv ∈ xs, DK kv.1 ∧ DV kv.2) (hDy : ∀ kv ∈ ys, DK kv.1 ∧ DV kv.2)
    (hnx : pairwiseNot rk (xs.map (·.1)) = true) (hny : pairwiseNot rk (ys.map (·.1)) = true)
    (hl : xs.length = ys.length) (h : MapP rk rv xs ys) : MapP rk rv ys xs := by
  have hinj : ∀ k ∈ ys.map (·.1), ∃ k' ∈ xs.map (·.1), rk k k' = true := by
    intro k hkm
    obtain ⟨v, hm⟩ := mem_map_fst hkm
    obtain ⟨x, hx, hr, _⟩ := h (k, v) hm
    exact ⟨x.1, by simp only [List.mem_map]; exact ⟨x, hx, rfl⟩,
      hk.symm x.1 k (hDx x hx).1 (hDy (k, v) hm).1 hr⟩
  have hsurj := surj_of_inj DK rk hk (ys.map (·.1)) (xs.map (·.1))
    (by intro k hk'; obtain ⟨v, hm⟩ := mem_map_fst hk'; exact (hDy (k, v) hm).1)
    (by intro k hk'; obtain ⟨v, hm⟩ := mem_map_fst hk'; exact (hDx (k, v) hm).1)
    hny hnx (by simpa using hl.symm) hinj
  intro x hx
  obtain ⟨ky, hkym, hr⟩ := hsurj x.1 (by simp only [List.mem_map]; exact ⟨x, hx, rfl⟩)
  obtain ⟨vy, hym⟩ := mem_map_fst hkym
  -- the entry (ky, vy) of ys finds an entry x' of xs; its key is related to x's, so it is x
  obtain ⟨x', hx', hr', hv'⟩ := h (ky, vy) hym
  have hxx : rk x'.1 x.1 = true :=
    hk.trans x'.1 ky x.1 (hDx x' hx').1 (hDy (ky, vy) hym).1 (hDx x hx).1 hr' hr
  have := entry_unique DK rk hk xs (fun kv hkv => (hDx kv hkv).1) hnx x' x hx' hx hxx
  subst this
  exact ⟨(ky, vy), hym, hr, hv.symm x'.2 vy (hDx x' hx').2 (hDy (ky, vy) hym).2 hv'⟩

/-! ### structs: field maps (the last entry of an identifier is the field) -/

abbrev Fields := List (UInt16 × WValue)

def lastIds : Fields → List UInt16
  | [] => []
  | (i, _) :: rest => if rest.any (fun p => p.1 == i) then lastIds rest else i :: lastIds rest

theorem distinctIds_eq_length (l : Fields) : distinctIds l = (lastIds l).length := by
  induction l with
  | nil => rfl
  | cons p rest ih =>
    obtain ⟨i, v⟩ := p
    simp only [distinctIds, lastIds]
    split <;> simp [ih] <;> omega

theorem mem_lastIds (l : Fields) (i : UInt16) : i ∈ lastIds l ↔ ∃ v, (i, v) ∈ l := by
  induction l with
  | nil => simp [lastIds]
  | cons p rest ih =>
    obtain ⟨j, w⟩ := p
    simp only [lastIds]
    split
    · rename_i hany
      rw [ih]
      constructor
      · rintro ⟨v, hv⟩; exact ⟨v, by simp [hv]⟩
      · rintro ⟨v, hv⟩
        simp only [List.mem_cons, Prod.mk.injEq] at hv
        rcases hv with ⟨rfl, rfl⟩ | hv
        · rw [List.any_eq_true] at hany
          obtain ⟨q, hq, hqi⟩ := hany
          simp only [beq_iff_eq] at hqi
          exact ⟨q.2, by rw [← hqi]; exact hq⟩
        · exact ⟨v, hv⟩
    · simp only [List.mem_cons, ih, Prod.mk.injEq]
      constructor
      · rintro (rfl | ⟨v, hv⟩)
        · exact ⟨w, Or.inl ⟨rfl, rfl⟩⟩
        · exact ⟨v, Or.inr hv⟩
      · rintro ⟨v, ⟨rfl, _⟩ | hv⟩
        · exact Or.inl rfl
        · exact Or.inr ⟨v, hv⟩

theorem lastIds_nodup (l : Fields) : pairwiseNot (fun a b : UInt16 => a == b) (lastIds l) = true := by
  induction l with
  | nil => rfl
  | cons p rest ih =>
    obtain ⟨j, w⟩ := p
    simp only [lastIds]
    split
    · exact ih
    · rename_i hany
      rw [pairwiseNot_iff]
      refine ⟨?_, ih⟩
      intro y hy
      rw [mem_lastIds] at hy
      obtain ⟨v, hv⟩ := hy
      cases hjy : (j == y) with
      | false => rfl
      | true =>
        simp only [beq_iff_eq] at hjy
        subst hjy
        exfalso; apply hany
        rw [List.any_eq_true]
        exact ⟨(j, v), hv, by simp⟩

theorem lookupLast_mem (id : UInt16) (l : Fields) (v : WValue) (h : lookupLast id l = some v) :
    (id, v) ∈ l := by
  induction l with
  | nil => simp [lookupLast] at h
  | cons p rest ih =>
    obtain ⟨i, w⟩ := p
    simp only [lookupLast] at h
    cases hr : lookupLast id rest with
    | some u =>
      simp only [hr, Option.some.injEq] at h
      subst h
      exact List.mem_cons_of_mem _ (ih hr)
    | none =>
      simp only [hr] at h
      split at h
      · rename_i hi
        simp only [beq_iff_eq] at hi
        simp only [Option.some.injEq] at h
        subst hi h
        simp
      · cases h

theorem lookupLast_of_mem (id : UInt16) (l : Fields) (h : ∃ v, (id, v) ∈ l) :
    ∃ v, lookupLast id l = some v := by
  induction l with
  | nil => obtain ⟨v, hv⟩ := h; cases hv
  | cons p rest ih =>
    obtain ⟨i, w⟩ := p
    obtain ⟨v, hv⟩ := h
    simp only [lookupLast]
    cases hr : lookupLast id rest with
    | some u => exact ⟨u, rfl⟩
    | none =>
      simp only [List.mem_cons, Prod.mk.injEq] at hv
      rcases hv with ⟨rfl, rfl⟩ | hv
      · exact ⟨v, by simp⟩
      · obtain ⟨u, hu⟩ := ih ⟨v, hv⟩
        rw [hr] at hu; cases hu

def structRel (r : WValue → WValue → Bool) (fa fb : Fields) : Bool :=
  distinctIds fa == distinctIds fb &&
    fa.all fun f =>
      match lookupLast f.1 fa, lookupLast f.1 fb with
      | some lv, some rv => r lv rv
      | _, _ => false

/-- the same identifiers on both sides, and for each the two fields related. -/
def StructQ (r : WValue → WValue → Bool) (fa fb : Fields) : Prop :=
  distinctIds fa = distinctIds fb ∧
    ∀ id, (∃ v, (id, v) ∈ fa) → ∃ lv rv, lookupLast id fa = some lv ∧ lookupLast id fb = some rv ∧ r lv rv = true

theorem structRel_iff (r : WValue → WValue → Bool) (fa fb : Fields) :
    structRel r fa fb = true ↔ StructQ r fa fb := by
  simp only [structRel, StructQ, Bool.and_eq_true, beq_iff_eq, List.all_eq_true]
  constructor
  · rintro ⟨h1, h2⟩
    refine ⟨h1, ?_⟩
    rintro id ⟨v, hv⟩
    have := h2 (id, v) hv
    simp only at this
    split at this
    · rename_i lv rv hl hr; exact ⟨lv, rv, hl, hr, this⟩
    · cases this
  · rintro ⟨h1, h2⟩
    refine ⟨h1, ?_⟩
    intro f hf
    obtain ⟨lv, rv, hl, hr, hrel⟩ := h2 f.1 ⟨f.2, hf⟩
    simp [hl, hr, hrel]

theorem u16_equivOn : EquivOn (fun _ : UInt16 => True) (fun a b : UInt16 => a == b) where
  refl := fun x _ => by simp
  symm := fun x y _ _ h => by simp only [beq_iff_eq] at h ⊢; exact h.symm
  trans := fun x y z _ _ _ h1 h2 => by simp only [beq_iff_eq] at h1 h2 ⊢; exact h1.trans h2

/-- equally many identifiers and every left one present on the right: every right one is present on the left. -/
theorem structQ_ids (r : WValue → WValue → Bool) (fa fb : Fields) (h : StructQ r fa fb) :
    ∀ id, (∃ v, (id, v) ∈ fb) → ∃ v, (id, v) ∈ fa := by
  have hinj : ∀ a ∈ lastIds fa, ∃ b ∈ lastIds fb, (a == b) = true := by
    intro a ha
    rw [mem_lastIds] at ha
    obtain ⟨lv, rv, _, hr, _⟩ := h.2 a ha
    exact ⟨a, by rw [mem_lastIds]; exact ⟨rv, lookupLast_mem a fb rv hr⟩, by simp⟩
  have hsurj := surj_of_inj (fun _ : UInt16 => True) (fun a b : UInt16 => a == b) u16_equivOn
    (lastIds fa) (lastIds fb) (fun _ _ => trivial) (fun _ _ => trivial) (lastIds_nodup fa) (lastIds_nodup fb)
    (by rw [← distinctIds_eq_length, ← distinctIds_eq_length]; exact h.1) hinj
  intro id hid
  obtain ⟨a, ha, hab⟩ := hsurj id (by rw [mem_lastIds]; exact hid)
  simp only [beq_iff_eq] at hab
  subst hab
  rwa [mem_lastIds] at ha

theorem structQ_refl (D : WValue → Prop) (r : WValue → WValue → Bool) (he : EquivOn D r) (fa : Fields)
    (hD : ∀ p ∈ fa, D p.2) : StructQ r fa fa := by
  refine ⟨rfl, ?_⟩
  intro id hid
  obtain ⟨lv, hl⟩ := lookupLast_of_mem id fa hid
  exact ⟨lv, lv, hl, hl, he.refl lv (hD (id, lv) (lookupLast_mem id fa lv hl))⟩

theorem structQ_symm (D : WValue → Prop) (r : WValue → WValue → Bool) (he : EquivOn D r) (fa fb : Fields)
    (hDa : ∀ p ∈ fa, D p.2) (hDb : ∀ p ∈ fb, D p.2) (h : StructQ r fa fb) : StructQ r fb fa := by
  refine ⟨h.1.symm, ?_⟩
  intro id hid
  obtain ⟨lv, rv, hl, hr, hrel⟩ := h.2 id (structQ_ids r fa fb h id hid)
  exact ⟨rv, lv, hr, hl, he.symm lv rv (hDa (id, lv) (lookupLast_mem id fa lv hl))
    (hDb (id, rv) (lookupLast_mem id fb rv hr)) hrel⟩

theorem structQ_trans (D : WValue → Prop) (r : WValue → WValue → Bool) (he : EquivOn D r) (fa fb fc : Fields)
    (hDa : ∀ p ∈ fa, D p.2) (hDb : ∀ p ∈ fb, D p.2) (hDc : ∀ p ∈ fc, D p.2)
    (h1 : StructQ r fa fb) (h2 : StructQ r fb fc) : StructQ r fa fc := by
  refine ⟨h1.1.trans h2.1, ?_⟩
  intro id hid
  obtain ⟨lv, mv, hl, hm, hlm⟩ := h1.2 id hid
  obtain ⟨mv', cv, hm', hc, hmc⟩ := h2.2 id ⟨mv, lookupLast_mem id fb mv hm⟩
  rw [hm] at hm'
  cases hm'
  exact ⟨lv, cv, hl, hc, he.trans lv mv cv (hDa (id, lv) (lookupLast_mem id fa lv hl))
    (hDb (id, mv) (lookupLast_mem id fb mv hm)) (hDc (id, cv) (lookupLast_mem id fc cv hc)) hlm hmc⟩

/-! ### `wireEq`, one level unfolded -/

theorem wireEq_list (f : Nat) (ea eb : UInt8) (xs ys : List WValue) :
    wireEq (f + 1) (.list ea xs) (.list eb ys) = (ea == eb && zipRel (wireEq f) xs ys) := by
  simp only [wireEq, zipRel, Bool.and_assoc]

theorem wireEq_set (f : Nat) (ea eb : UInt8) (xs ys : List WValue) :
    wireEq (f + 1) (.set ea xs) (.set eb ys) = (ea == eb && setRel (wireEq f) xs ys) := by
  simp only [wireEq, setRel, Bool.and_assoc]

theorem wireEq_map (f : Nat) (ka va kb vb : UInt8) (xs ys : List (WValue × WValue)) :
    wireEq (f + 1) (.map ka va xs) (.map kb vb ys) =
      (ka == kb && va == vb && xs.length == ys.length &&
        (if wHashable ka then mapH (wireEq f) (wireEq f) xs ys else mapU (wireEq f) (wireEq f) xs ys)) := by
  simp only [wireEq, mapH, mapU]
  refine congrArg _ ?_
  split
  · refine congrArg _ ?_
    funext y
    cases List.find? (fun x => wireEq f x.fst y.fst) xs.reverse <;> rfl
  · rfl

theorem wireEq_struct (f : Nat) (fa fb : Fields) :
    wireEq (f + 1) (.struct fa) (.struct fb) = structRel (wireEq f) fa fb := by
  simp only [wireEq, structRel]
  refine congrArg _ ?_
  refine congrArg _ ?_
  funext p
  cases lookupLast p.1 fa <;> cases lookupLast p.1 fb <;> rfl

theorem dblEq_refl (a : UInt64) (h : isNaNBits a = false) : dblEq a a = true := by
  simp [dblEq, h]

theorem dblEq_symm (a b : UInt64) (h : dblEq a b = true) : dblEq b a = true := by
  unfold dblEq at h ⊢
  cases ha : isNaNBits a <;> cases hb : isNaNBits b <;> simp [ha, hb] at h ⊢
  cases hza : isZeroBits a <;> cases hzb : isZeroBits b <;> simp [hza, hzb] at h ⊢ <;> exact h.symm

theorem dblEq_trans (a b c : UInt64) (h1 : dblEq a b = true) (h2 : dblEq b c = true) : dblEq a c = true := by
  unfold dblEq at h1 h2 ⊢
  cases ha : isNaNBits a <;> cases hb : isNaNBits b <;> cases hc : isNaNBits c <;> simp [ha, hb, hc] at h1 h2 ⊢
  cases hza : isZeroBits a <;> cases hzb : isZeroBits b <;> cases hzc : isZeroBits c <;>
    simp [hza, hzb, hzc] at h1 h2 ⊢ <;> first | (subst h1; subst h2; simp_all) | (subst h1; simp_all) | (subst h2; simp_all) | simp_all

/-! ### the theorem -/

/-- **`wire.ValuesAreEqual` is an equivalence relation** on wire values without NaN, without repeated set
items and without repeated map keys — structs that repeat field identifiers included (finding D87: before
the repair the struct case was not symmetric). -/
theorem wireEq_equivOn : ∀ fuel : Nat, EquivOn (fun v => wclean fuel v = true) (wireEq fuel)
  | 0 =>
    { refl := fun x h => by simp [wclean] at h
      symm := fun x y hx _ _ => by simp [wclean] at hx
      trans := fun x y z hx _ _ _ _ => by simp [wclean] at hx }
  | f + 1 => by
    have ih := wireEq_equivOn f
    refine ⟨?_, ?_, ?_⟩
    · -- reflexive
      intro x hx
      cases x with
      | bool b => simp [wireEq]
      | i8 v => simp [wireEq]
      | i16 v => simp [wireEq]
      | i32 v => simp [wireEq]
      | i64 v => simp [wireEq]
      | binary bs => simp [wireEq]
      | double a =>
        simp only [wclean, Bool.not_eq_true'] at hx
        simp only [wireEq]
        exact dblEq_refl a hx
      | struct fa =>
        simp only [wclean, List.all_eq_true] at hx
        rw [wireEq_struct, structRel_iff]
        exact structQ_refl _ _ ih fa hx
      | list e xs =>
        simp only [wclean, List.all_eq_true] at hx
        rw [wireEq_list, zipRel_refl _ _ ih xs hx]
        simp
      | set e xs =>
        simp only [wclean, Bool.and_eq_true, List.all_eq_true] at hx
        rw [wireEq_set, setRel_refl _ _ ih xs hx.1]
        simp
      | map k v xs =>
        simp only [wclean, Bool.and_eq_true, List.all_eq_true] at hx
        rw [wireEq_map]
        have hP := mapP_refl _ _ _ _ ih ih xs hx.1
        have : (if wHashable k then mapH (wireEq f) (wireEq f) xs xs else mapU (wireEq f) (wireEq f) xs xs) = true := by
          split
          · exact (mapH_iff _ _ _ ih xs xs (fun kv h => (hx.1 kv h).1) (fun kv h => (hx.1 kv h).1) hx.2).mpr hP
          · exact (mapU_iff _ _ xs xs).mpr hP
        rw [this]
        simp
    · -- symmetric
      intro x y hx hy h
      cases x <;> cases y <;> try (simp [wireEq] at h; done)
      case bool.bool a b => simp only [wireEq, beq_iff_eq] at h ⊢; exact h.symm
      case i8.i8 a b => simp only [wireEq, beq_iff_eq] at h ⊢; exact h.symm
      case i16.i16 a b => simp only [wireEq, beq_iff_eq] at h ⊢; exact h.symm
      case i32.i32 a b => simp only [wireEq, beq_iff_eq] at h ⊢; exact h.symm
      case i64.i64 a b => simp only [wireEq, beq_iff_eq] at h ⊢; exact h.symm
      case binary.binary a b => simp only [wireEq, beq_iff_eq] at h ⊢; exact h.symm
      case double.double a b => simp only [wireEq] at h ⊢; exact dblEq_symm a b h
      case struct.struct fa fb =>
        simp only [wclean, List.all_eq_true] at hx hy
        rw [wireEq_struct, structRel_iff] at h ⊢
        exact structQ_symm _ _ ih fa fb hx hy h
      case list.list ea xs eb ys =>
        simp only [wclean, List.all_eq_true] at hx hy
        rw [wireEq_list, Bool.and_eq_true, beq_iff_eq] at h ⊢
        exact ⟨h.1.symm, zipRel_symm _ _ ih xs ys hx hy h.2⟩
      case set.set ea xs eb ys =>
        simp only [wclean, Bool.and_eq_true, List.all_eq_true] at hx hy
        rw [wireEq_set, Bool.and_eq_true, beq_iff_eq] at h ⊢
        exact ⟨h.1.symm, setRel_symm _ _ ih xs ys hx.1 hy.1 hx.2 hy.2 h.2⟩
      case map.map ka va xs kb vb ys =>
        simp only [wclean, Bool.and_eq_true, List.all_eq_true] at hx hy
        rw [wireEq_map] at h ⊢
        simp only [Bool.and_eq_true, beq_iff_eq] at h ⊢
        obtain ⟨⟨⟨hk, hv⟩, hl⟩, hm⟩ := h
        subst hk hv
        refine ⟨⟨⟨rfl, rfl⟩, hl.symm⟩, ?_⟩
        have hkx : ∀ kv ∈ xs, wclean f kv.1 = true := fun kv h => (hx.1 kv h).1
        have hky : ∀ kv ∈ ys, wclean f kv.1 = true := fun kv h => (hy.1 kv h).1
        split at hm
        · rename_i hh
          simp only [hh, ↓reduceIte]
          have hP := (mapH_iff _ _ _ ih xs ys hkx hky hx.2).mp hm
          exact (mapH_iff _ _ _ ih ys xs hky hkx hy.2).mpr
            (mapP_symm _ _ _ _ ih ih xs ys hx.1 hy.1 hx.2 hy.2 hl hP)
        · rename_i hh
          simp only [hh, Bool.false_eq_true, ↓reduceIte]
          have hP := (mapU_iff _ _ xs ys).mp hm
          exact (mapU_iff _ _ ys xs).mpr (mapP_symm _ _ _ _ ih ih xs ys hx.1 hy.1 hx.2 hy.2 hl hP)
    · -- transitive
      intro x y z hx hy hz h1 h2
      cases x <;> cases y <;> try (simp [wireEq] at h1; done)
      all_goals (cases z <;> try (simp [wireEq] at h2; done))
      case bool.bool.bool a b c => simp only [wireEq, beq_iff_eq] at h1 h2 ⊢; exact h1.trans h2
      case i8.i8.i8 a b c => simp only [wireEq, beq_iff_eq] at h1 h2 ⊢; exact h1.trans h2
      case i16.i16.i16 a b c => simp only [wireEq, beq_iff_eq] at h1 h2 ⊢; exact h1.trans h2
      case i32.i32.i32 a b c => simp only [wireEq, beq_iff_eq] at h1 h2 ⊢; exact h1.trans h2
      case i64.i64.i64 a b c => simp only [wireEq, beq_iff_eq] at h1 h2 ⊢; exact h1.trans h2
      case binary.binary.binary a b c => simp only [wireEq, beq_iff_eq] at h1 h2 ⊢; exact h1.trans h2
      case double.double.double a b c => simp only [wireEq] at h1 h2 ⊢; exact dblEq_trans a b c h1 h2
      case struct.struct.struct fa fb fc =>
        simp only [wclean, List.all_eq_true] at hx hy hz
        rw [wireEq_struct, structRel_iff] at h1 h2 ⊢
        exact structQ_trans _ _ ih fa fb fc hx hy hz h1 h2
      case list.list.list ea xs eb ys ec zs =>
        simp only [wclean, List.all_eq_true] at hx hy hz
        rw [wireEq_list, Bool.and_eq_true, beq_iff_eq] at h1 h2 ⊢
        exact ⟨h1.1.trans h2.1, zipRel_trans _ _ ih xs ys zs hx hy hz h1.2 h2.2⟩
      case set.set.set ea xs eb ys ec zs =>
        simp only [wclean, Bool.and_eq_true, List.all_eq_true] at hx hy hz
        rw [wireEq_set, Bool.and_eq_true, beq_iff_eq] at h1 h2 ⊢
        exact ⟨h1.1.trans h2.1, setRel_trans _ _ ih xs ys zs hx.1 hy.1 hz.1 h1.2 h2.2⟩
      case map.map.map ka va xs kb vb ys kc vc zs =>
        simp only [wclean, Bool.and_eq_true, List.all_eq_true] at hx hy hz
        rw [wireEq_map] at h1 h2 ⊢
        simp only [Bool.and_eq_true, beq_iff_eq] at h1 h2 ⊢
        obtain ⟨⟨⟨hk1, hv1⟩, hl1⟩, hm1⟩ := h1
        obtain ⟨⟨⟨hk2, hv2⟩, hl2⟩, hm2⟩ := h2
        subst hk1 hv1 hk2 hv2
        refine ⟨⟨⟨rfl, rfl⟩, hl1.trans hl2⟩, ?_⟩
        have hkx : ∀ kv ∈ xs, wclean f kv.1 = true := fun kv h => (hx.1 kv h).1
        have hky : ∀ kv ∈ ys, wclean f kv.1 = true := fun kv h => (hy.1 kv h).1
        have hkz : ∀ kv ∈ zs, wclean f kv.1 = true := fun kv h => (hz.1 kv h).1
        split at hm1
        · rename_i hh
          simp only [hh, ↓reduceIte] at hm2 ⊢
          have hP1 := (mapH_iff _ _ _ ih xs ys hkx hky hx.2).mp hm1
          have hP2 := (mapH_iff _ _ _ ih ys zs hky hkz hy.2).mp hm2
          exact (mapH_iff _ _ _ ih xs zs hkx hkz hx.2).mpr
            (mapP_trans _ _ _ _ ih ih xs ys zs hx.1 hy.1 hz.1 hP1 hP2)
        · rename_i hh
          simp only [hh, Bool.false_eq_true, ↓reduceIte] at hm2 ⊢
          have hP1 := (mapU_iff _ _ xs ys).mp hm1
          have hP2 := (mapU_iff _ _ ys zs).mp hm2
          exact (mapU_iff _ _ xs zs).mpr (mapP_trans _ _ _ _ ih ih xs ys zs hx.1 hy.1 hz.1 hP1 hP2)

/-! ### an independent statement of "the same logical value" -/

/-- Two wire values denote the same logical value: scalars equal (doubles numerically), lists item by item,
sets and maps with every item / entry of either side present on the other, structs with every identifier
that occurs on either side denoting related fields (the last entry of an identifier is the field). No
hashing, no lookups in one direction only, no length or count tests. -/
def specEq : Nat → WValue → WValue → Bool
  | 0, _, _ => false
  | fuel + 1, a, b =>
    match a, b with
    | .bool x, .bool y => x == y
    | .i8 x, .i8 y => x == y
    | .i16 x, .i16 y => x == y
    | .i32 x, .i32 y => x == y
    | .i64 x, .i64 y => x == y
    | .double x, .double y => dblEq x y
    | .binary x, .binary y => x == y
    | .struct fa, .struct fb =>
      (fa ++ fb).all fun p =>
        match lookupLast p.1 fa, lookupLast p.1 fb with
        | some lv, some rv => specEq fuel lv rv
        | _, _ => false
    | .list ea xs, .list eb ys => ea == eb && zipRel (specEq fuel) xs ys
    | .set ea xs, .set eb ys =>
      ea == eb && (xs.all fun x => ys.any fun y => specEq fuel x y) &&
        (ys.all fun y => xs.any fun x => specEq fuel x y)
    | .map ka va xs, .map kb vb ys =>
      ka == kb && va == vb &&
        (xs.all fun x => ys.any fun y => specEq fuel x.1 y.1 && specEq fuel x.2 y.2) &&
        (ys.all fun y => xs.any fun x => specEq fuel x.1 y.1 && specEq fuel x.2 y.2)
    | _, _ => false

/-- an injection (up to `r`) from a duplicate-free list: the target is at least as long. -/
theorem length_le_of_inj (D : α → Prop) (r : α → α → Bool) (he : EquivOn D r) :
    ∀ (as bs : List α), (∀ a ∈ as, D a) → (∀ b ∈ bs, D b) → pairwiseNot r as = true →
      (∀ a ∈ as, ∃ b ∈ bs, r a b = true) → as.length ≤ bs.length := by
  intro as
  induction as with
  | nil => intro bs _ _ _ _; simp
  | cons a as ih =>
    intro bs hDa hDb hnd h
    obtain ⟨b, hb, hab⟩ := h a (by simp)
    obtain ⟨p, q, rfl⟩ := List.append_of_mem hb
    rw [pairwiseNot_iff] at hnd
    have hDa' : ∀ x ∈ as, D x := fun x hx => hDa x (by simp [hx])
    have hDb' : ∀ x ∈ p ++ q, D x := by
      intro x hx
      apply hDb
      simp only [List.mem_append, List.mem_cons] at hx ⊢
      rcases hx with hx | hx
      · exact Or.inl hx
      · exact Or.inr (Or.inr hx)
    have h' : ∀ a' ∈ as, ∃ b' ∈ p ++ q, r a' b' = true := by
      intro a' ha'
      obtain ⟨b', hb', hr'⟩ := h a' (by simp [ha'])
      simp only [List.mem_append, List.mem_cons] at hb'
      rcases hb' with hb' | rfl | hb'
      · exact ⟨b', by simp [hb'], hr'⟩
      · -- a and a' both go to b: then a ~ a', against duplicate-freeness
        exfalso
        have hDa0 := hDa a (by simp)
        have hDa1 := hDa a' (by simp [ha'])
        have hDb0 := hDb b' (by simp)
        have h1 := he.symm a' b' hDa1 hDb0 hr'
        have h2 := he.trans a b' a' hDa0 hDb0 hDa1 hab h1
        rw [hnd.1 a' ha'] at h2; cases h2
      · exact ⟨b', by simp [hb'], hr'⟩
    have := ih (p ++ q) hDa' hDb' hnd.2 h'
    simp only [List.length_append, List.length_cons] at this ⊢
    omega

theorem zipRel_congr (r s : α → α → Bool) (xs ys : List α)
    (h : ∀ x ∈ xs, ∀ y ∈ ys, r x y = s x y) : zipRel r xs ys = zipRel s xs ys := by
  induction xs generalizing ys with
  | nil => cases ys <;> simp [zipRel]
  | cons x xs ih =>
    cases ys with
    | nil => simp [zipRel]
    | cons y ys =>
      rw [zipRel_cons, zipRel_cons, h x (by simp) y (by simp),
        ih ys (fun a ha b hb => h a (by simp [ha]) b (by simp [hb]))]

def pairRel (r : WValue → WValue → Bool) (fa fb : Fields) (id : UInt16) : Bool :=
  match lookupLast id fa, lookupLast id fb with
  | some lv, some rv => r lv rv
  | _, _ => false

theorem pairRel_iff (r : WValue → WValue → Bool) (fa fb : Fields) (id : UInt16) :
    pairRel r fa fb id = true ↔
      ∃ lv rv, lookupLast id fa = some lv ∧ lookupLast id fb = some rv ∧ r lv rv = true := by
  unfold pairRel
  cases lookupLast id fa <;> cases lookupLast id fb <;> simp

theorem specEq_struct (f : Nat) (fa fb : Fields) :
    specEq (f + 1) (.struct fa) (.struct fb) = (fa ++ fb).all fun p => pairRel (specEq f) fa fb p.1 := by
  simp only [specEq, pairRel]

theorem specEq_list (f : Nat) (ea eb : UInt8) (xs ys : List WValue) :
    specEq (f + 1) (.list ea xs) (.list eb ys) = (ea == eb && zipRel (specEq f) xs ys) := by
  simp only [specEq]

theorem specEq_set (f : Nat) (ea eb : UInt8) (xs ys : List WValue) :
    specEq (f + 1) (.set ea xs) (.set eb ys) =
      (ea == eb && (xs.all fun x => ys.any fun y => specEq f x y) &&
        (ys.all fun y => xs.any fun x => specEq f x y)) := by
  simp only [specEq]

theorem specEq_map (f : Nat) (ka va kb vb : UInt8) (xs ys : List (WValue × WValue)) :
    specEq (f + 1) (.map ka va xs) (.map kb vb ys) =
      (ka == kb && va == vb &&
        (xs.all fun x => ys.any fun y => specEq f x.1 y.1 && specEq f x.2 y.2) &&
        (ys.all fun y => xs.any fun x => specEq f x.1 y.1 && specEq f x.2 y.2)) := by
  simp only [specEq]

/-- **`wire.ValuesAreEqual` decides "the same logical value"** on wire values without NaN, repeated set
items or repeated map keys (structs may repeat identifiers): it agrees with the independent statement
`specEq`, which tests neither lengths nor counts and looks both ways. -/
theorem wireEq_eq_specEq : ∀ (fuel : Nat) (x y : WValue), wclean fuel x = true → wclean fuel y = true →
    wireEq fuel x y = specEq fuel x y
  | 0, x, _, hx, _ => by simp [wclean] at hx
  | f + 1, x, y, hx, hy => by
    have ih := wireEq_eq_specEq f
    have he := wireEq_equivOn f
    cases x <;> cases y <;> try (simp [wireEq, specEq]; done)
    case struct.struct fa fb =>
      simp only [wclean, List.all_eq_true] at hx hy
      rw [wireEq_struct, specEq_struct]
      apply Bool.eq_iff_iff.mpr
      rw [structRel_iff]
      simp only [List.all_eq_true, List.mem_append, pairRel_iff]
      constructor
      · intro hQ p hp
        have hid : ∃ v, (p.1, v) ∈ fa := by
          rcases hp with hp | hp
          · exact ⟨p.2, hp⟩
          · exact structQ_ids _ fa fb hQ p.1 ⟨p.2, hp⟩
        obtain ⟨lv, rv, hl, hr, hrel⟩ := hQ.2 p.1 hid
        refine ⟨lv, rv, hl, hr, ?_⟩
        rw [← ih lv rv (hx _ (lookupLast_mem _ _ _ hl)) (hy _ (lookupLast_mem _ _ _ hr))]
        exact hrel
      · intro h
        have hW : ∀ id, ((∃ v, (id, v) ∈ fa) ∨ (∃ v, (id, v) ∈ fb)) →
            ∃ lv rv, lookupLast id fa = some lv ∧ lookupLast id fb = some rv ∧ wireEq f lv rv = true := by
          rintro id (⟨v, hv⟩ | ⟨v, hv⟩)
          · obtain ⟨lv, rv, hl, hr, hrel⟩ := h (id, v) (Or.inl hv)
            refine ⟨lv, rv, hl, hr, ?_⟩
            rw [ih lv rv (hx _ (lookupLast_mem _ _ _ hl)) (hy _ (lookupLast_mem _ _ _ hr))]
            exact hrel
          · obtain ⟨lv, rv, hl, hr, hrel⟩ := h (id, v) (Or.inr hv)
            refine ⟨lv, rv, hl, hr, ?_⟩
            rw [ih lv rv (hx _ (lookupLast_mem _ _ _ hl)) (hy _ (lookupLast_mem _ _ _ hr))]
            exact hrel
        refine ⟨?_, fun id hid => hW id (Or.inl hid)⟩
        rw [distinctIds_eq_length, distinctIds_eq_length]
        apply Nat.le_antisymm
        · apply length_le_of_inj (fun _ : UInt16 => True) (fun a b : UInt16 => a == b) u16_equivOn
            (lastIds fa) (lastIds fb) (fun _ _ => trivial) (fun _ _ => trivial) (lastIds_nodup fa)
          intro a ha
          rw [mem_lastIds] at ha
          obtain ⟨_, rv, _, hr, _⟩ := hW a (Or.inl ha)
          exact ⟨a, by rw [mem_lastIds]; exact ⟨rv, lookupLast_mem _ _ _ hr⟩, by simp⟩
        · apply length_le_of_inj (fun _ : UInt16 => True) (fun a b : UInt16 => a == b) u16_equivOn
            (lastIds fb) (lastIds fa) (fun _ _ => trivial) (fun _ _ => trivial) (lastIds_nodup fb)
          intro b hb
          rw [mem_lastIds] at hb
          obtain ⟨lv, _, hl, _, _⟩ := hW b (Or.inr hb)
          exact ⟨b, by rw [mem_lastIds]; exact ⟨lv, lookupLast_mem _ _ _ hl⟩, by simp⟩
    case list.list ea xs eb ys =>
      simp only [wclean, List.all_eq_true] at hx hy
      rw [wireEq_list, specEq_list, zipRel_congr (wireEq f) (specEq f) xs ys
        (fun a ha b hb => ih a b (hx a ha) (hy b hb))]
    case set.set ea xs eb ys =>
      simp only [wclean, Bool.and_eq_true, List.all_eq_true] at hx hy
      rw [wireEq_set, specEq_set]
      apply Bool.eq_iff_iff.mpr
      simp only [Bool.and_eq_true, beq_iff_eq, setRel_iff, List.all_eq_true, List.any_eq_true]
      constructor
      · rintro ⟨he1, hl, h⟩
        refine ⟨⟨he1, ?_⟩, ?_⟩
        · have hs := (setRel_iff _ _ _).mp
            (setRel_symm _ _ he xs ys hx.1 hy.1 hx.2 hy.2 ((setRel_iff _ _ _).mpr ⟨hl, h⟩))
          intro x hxm
          obtain ⟨y, hym, hr⟩ := hs.2 x hxm
          refine ⟨y, hym, ?_⟩
          rw [← ih x y (hx.1 x hxm) (hy.1 y hym)]
          exact he.symm y x (hy.1 y hym) (hx.1 x hxm) hr
        · intro y hym
          obtain ⟨x, hxm, hr⟩ := h y hym
          exact ⟨x, hxm, by rw [← ih x y (hx.1 x hxm) (hy.1 y hym)]; exact hr⟩
      · rintro ⟨⟨he1, hA⟩, hB⟩
        have hA' : ∀ x ∈ xs, ∃ y ∈ ys, wireEq f x y = true := by
          intro x hxm
          obtain ⟨y, hym, hr⟩ := hA x hxm
          exact ⟨y, hym, by rw [ih x y (hx.1 x hxm) (hy.1 y hym)]; exact hr⟩
        have hB' : ∀ y ∈ ys, ∃ x ∈ xs, wireEq f x y = true := by
          intro y hym
          obtain ⟨x, hxm, hr⟩ := hB y hym
          exact ⟨x, hxm, by rw [ih x y (hx.1 x hxm) (hy.1 y hym)]; exact hr⟩
        refine ⟨he1, ?_, hB'⟩
        apply Nat.le_antisymm
        · exact length_le_of_inj _ _ he xs ys hx.1 hy.1 hx.2 hA'
        · apply length_le_of_inj _ _ he ys xs hy.1 hx.1 hy.2
          intro y hym
          obtain ⟨x, hxm, hr⟩ := hB' y hym
          exact ⟨x, hxm, he.symm x y (hx.1 x hxm) (hy.1 y hym) hr⟩
    case map.map ka va xs kb vb ys =>
      simp only [wclean, Bool.and_eq_true, List.all_eq_true] at hx hy
      have hkx : ∀ kv ∈ xs, wclean f kv.1 = true := fun kv h => (hx.1 kv h).1
      have hky : ∀ kv ∈ ys, wclean f kv.1 = true := fun kv h => (hy.1 kv h).1
      rw [wireEq_map, specEq_map]
      have hm : (if wHashable ka then mapH (wireEq f) (wireEq f) xs ys else mapU (wireEq f) (wireEq f) xs ys) = true ↔
          MapP (wireEq f) (wireEq f) xs ys := by
        split
        · exact mapH_iff _ _ _ he xs ys hkx hky hx.2
        · exact mapU_iff _ _ xs ys
      apply Bool.eq_iff_iff.mpr
      simp only [Bool.and_eq_true, beq_iff_eq, hm, List.all_eq_true, List.any_eq_true]
      constructor
      · rintro ⟨⟨⟨hk, hv⟩, hl⟩, hP⟩
        refine ⟨⟨⟨hk, hv⟩, ?_⟩, ?_⟩
        · have hs := mapP_symm _ _ _ _ he he xs ys hx.1 hy.1 hx.2 hy.2 hl hP
          intro x hxm
          obtain ⟨y, hym, h1, h2⟩ := hs x hxm
          refine ⟨y, hym, ?_, ?_⟩
          · rw [← ih x.1 y.1 (hx.1 x hxm).1 (hy.1 y hym).1]
            exact he.symm y.1 x.1 (hy.1 y hym).1 (hx.1 x hxm).1 h1
          · rw [← ih x.2 y.2 (hx.1 x hxm).2 (hy.1 y hym).2]
            exact he.symm y.2 x.2 (hy.1 y hym).2 (hx.1 x hxm).2 h2
        · intro y hym
          obtain ⟨x, hxm, h1, h2⟩ := hP y hym
          exact ⟨x, hxm, by rw [← ih x.1 y.1 (hx.1 x hxm).1 (hy.1 y hym).1]; exact h1,
            by rw [← ih x.2 y.2 (hx.1 x hxm).2 (hy.1 y hym).2]; exact h2⟩
      · rintro ⟨⟨⟨hk, hv⟩, hA⟩, hB⟩
        have hP : MapP (wireEq f) (wireEq f) xs ys := by
          intro y hym
          obtain ⟨x, hxm, h1, h2⟩ := hB y hym
          exact ⟨x, hxm, by rw [ih x.1 y.1 (hx.1 x hxm).1 (hy.1 y hym).1]; exact h1,
            by rw [ih x.2 y.2 (hx.1 x hxm).2 (hy.1 y hym).2]; exact h2⟩
        refine ⟨⟨⟨hk, hv⟩, ?_⟩, hP⟩
        have hlen : (xs.map (·.1)).length = (ys.map (·.1)).length := by
          apply Nat.le_antisymm
          · apply length_le_of_inj _ _ he (xs.map (·.1)) (ys.map (·.1))
              (by intro k hk'; obtain ⟨v, hm'⟩ := mem_map_fst hk'; exact hkx (k, v) hm')
              (by intro k hk'; obtain ⟨v, hm'⟩ := mem_map_fst hk'; exact hky (k, v) hm') hx.2
            intro k hk'
            obtain ⟨v, hm'⟩ := mem_map_fst hk'
            obtain ⟨y, hym, h1, _⟩ := hA (k, v) hm'
            refine ⟨y.1, by simp only [List.mem_map]; exact ⟨y, hym, rfl⟩, ?_⟩
            rw [ih k y.1 (hkx (k, v) hm') (hky y hym)]
            exact h1
          · apply length_le_of_inj _ _ he (ys.map (·.1)) (xs.map (·.1))
              (by intro k hk'; obtain ⟨v, hm'⟩ := mem_map_fst hk'; exact hky (k, v) hm')
              (by intro k hk'; obtain ⟨v, hm'⟩ := mem_map_fst hk'; exact hkx (k, v) hm') hy.2
            intro k hk'
            obtain ⟨v, hm'⟩ := mem_map_fst hk'
            obtain ⟨x, hxm, h1, _⟩ := hP (k, v) hm'
            exact ⟨x.1, by simp only [List.mem_map]; exact ⟨x, hxm, rfl⟩,
              he.symm x.1 k (hkx x hxm) (hky (k, v) hm') h1⟩
        simpa using hlen

end ThriftVerif.Schema
