/-
M-Schema proofs for C01: for every value in decoded form, generated `FromWire` turns what
generated `ToWire` produced back into exactly that value (defaults already filled, Go-map
dedup a no-op because keys are distinct).
-/
import ThriftVerif.Schema.Decoded
import ThriftVerif.Schema.EncodeProofs

set_option linter.unusedSimpArgs false

namespace ThriftVerif.Schema
open ThriftVerif.Wire

/-! ### Go-map insertion is the identity on key-distinct sequences -/

theorem foldl_setInsert (acc xs : List GVal)
    (h1 : ∀ a ∈ acc, ∀ x ∈ xs, keyEq a x = false) (h2 : pairwiseNot keyEq xs = true) :
    xs.foldl setInsert acc = acc ++ xs := by
  induction xs generalizing acc with
  | nil => simp
  | cons x xs ih =>
    simp only [pairwiseNot, Bool.and_eq_true, List.all_eq_true, Bool.not_eq_true'] at h2
    have hx : acc.any (keyEq · x) = false := by
      simp only [List.any_eq_false]
      intro a ha; simp [h1 a ha x (by simp)]
    simp only [List.foldl_cons, setInsert, hx, Bool.false_eq_true, if_false]
    rw [ih (acc ++ [x]) _ h2.2]
    · simp
    · intro a ha y hy
      simp only [List.mem_append, List.mem_singleton] at ha
      cases ha with
      | inl ha => exact h1 a ha y (by simp [hy])
      | inr ha => subst ha; exact h2.1 y hy

theorem mapInsert_new (m : List (GVal × GVal)) (k v : GVal)
    (h : ∀ kv ∈ m, keyEq kv.1 k = false) : mapInsert m k v = m ++ [(k, v)] := by
  induction m with
  | nil => rfl
  | cons kv m ih =>
    obtain ⟨k', v'⟩ := kv
    have h0 := h (k', v') (by simp)
    simp only at h0
    simp only [mapInsert, h0, Bool.false_eq_true, if_false, List.cons_append]
    rw [ih (fun kv hkv => h kv (by simp [hkv]))]

theorem foldl_mapInsert (acc kvs : List (GVal × GVal))
    (h1 : ∀ a ∈ acc, ∀ x ∈ kvs, keyEq a.1 x.1 = false)
    (h2 : pairwiseNot keyEq (kvs.map (·.1)) = true) :
    kvs.foldl (fun m kv => mapInsert m kv.1 kv.2) acc = acc ++ kvs := by
  induction kvs generalizing acc with
  | nil => simp
  | cons x kvs ih =>
    simp only [List.map_cons, pairwiseNot, Bool.and_eq_true, List.all_eq_true, Bool.not_eq_true'] at h2
    simp only [List.foldl_cons]
    rw [mapInsert_new acc x.1 x.2 (fun kv hkv => h1 kv hkv x (by simp))]
    rw [ih (acc ++ [(x.1, x.2)]) _ h2.2]
    · simp
    · intro a ha y hy
      simp only [List.mem_append, List.mem_singleton] at ha
      cases ha with
      | inl ha => exact h1 a ha y (by simp [hy])
      | inr ha =>
        subst ha
        exact h2.1 y.1 (by simp; exact ⟨y.2, hy⟩)

/-! ### mapping back -/

theorem mapRes_inverse {α β : Type} (f : α → Res β) (g : β → Res α) (xs : List α) (ys : List β)
    (h : mapRes f xs = .ok ys) (hinv : ∀ x ∈ xs, ∀ y, f x = .ok y → g y = .ok x) :
    mapRes g ys = .ok xs := by
  induction xs generalizing ys with
  | nil => simp [mapRes] at h; subst h; rfl
  | cons x xs ih =>
    simp only [mapRes] at h
    split at h
    · cases h
    · rename_i y hy
      split at h
      · cases h
      · rename_i ys' hys; cases h
        have h1 := hinv x (by simp) y hy
        have h2 := ih ys' hys (fun x' hx' => hinv x' (by simp [hx']))
        simp [mapRes, h1, h2]

theorem mapRes2_inverse {α β : Type} (f1 f2 : α → Res β) (g1 g2 : β → Res α)
    (xs : List (α × α)) (ys : List (β × β))
    (h : mapRes2 f1 f2 xs = .ok ys)
    (hinv1 : ∀ x ∈ xs, ∀ y, f1 x.1 = .ok y → g1 y = .ok x.1)
    (hinv2 : ∀ x ∈ xs, ∀ y, f2 x.2 = .ok y → g2 y = .ok x.2) :
    mapRes2 g1 g2 ys = .ok xs := by
  induction xs generalizing ys with
  | nil => simp [mapRes2] at h; subst h; rfl
  | cons x xs ih =>
    obtain ⟨a, b⟩ := x
    simp only [mapRes2] at h
    split at h
    · cases h
    · rename_i a' ha
      split at h
      · cases h
      · rename_i b' hb
        split at h
        · cases h
        · rename_i ys' hys; cases h
          have h1 := hinv1 (a, b) (by simp) a' ha
          have h2 := hinv2 (a, b) (by simp) b' hb
          have h3 := ih ys' hys (fun x' hx' => hinv1 x' (by simp [hx'])) (fun x' hx' => hinv2 x' (by simp [hx']))
          simp only at h1 h2
          simp [mapRes2, h1, h2, h3]

/-! ### struct fields -/

theorem find_unique (pre suf : List Field) (f : Field) (c : UInt8)
    (hd : idsDistinct (pre ++ f :: suf) = true) (hc : f.ty.code = c) :
    (pre ++ f :: suf).find? (fun f' => f'.id == f.id && f'.ty.code == c) = some f := by
  induction pre with
  | nil => simp [List.find?, hc]
  | cons p pre ih =>
    simp only [List.cons_append, idsDistinct, pairwiseNot, Bool.and_eq_true, List.all_eq_true,
      Bool.not_eq_true'] at hd
    have hne : (p.id == f.id) = false := hd.1 f (by simp)
    simp only [List.cons_append, List.find?, hne, Bool.false_and]
    exact ih hd.2

theorem assign_unique (pre suf : List Field) (f : Field) (g : GVal)
    (sp : FState) (s : GVal × Bool) (ss : FState)
    (hd : idsDistinct (pre ++ f :: suf) = true) (hl : sp.length = pre.length) :
    assignField (fun f' => f'.id == f.id) g (pre ++ f :: suf) (sp ++ s :: ss) = sp ++ (g, true) :: ss := by
  induction pre generalizing sp with
  | nil =>
    cases sp with
    | nil => simp [assignField]
    | cons _ _ => simp at hl
  | cons p pre ih =>
    cases sp with
    | nil => simp at hl
    | cons s0 sp =>
      simp only [List.cons_append, idsDistinct, pairwiseNot, Bool.and_eq_true, List.all_eq_true,
        Bool.not_eq_true'] at hd
      have hne : (p.id == f.id) = false := hd.1 f (by simp)
      simp only [List.cons_append, assignField, hne, Bool.false_eq_true, if_false]
      rw [ih sp hd.2 (by simpa using hl)]

def stateOf (gs : List GVal) : FState := gs.map fun g => (g, !g.isNil)

/-- the field loop of `FromWire` run on what the field loop of `ToWire` emitted restores the fields. -/
theorem fromWireFields_toWireFields (tw : Ty → GVal → Res WValue) (rd : Ty → WValue → Res GVal)
    (dv : Ty → GVal → Bool)
    (hval : ∀ t g w, dv t g = true → tw t g = .ok w → rd t w = .ok g ∧ w.tcode = t.code)
    (suf : List Field) (gs : List GVal) (ws : List (UInt16 × WValue))
    (pre : List Field) (sp : FState)
    (hd : idsDistinct (pre ++ suf) = true) (hl : sp.length = pre.length)
    (hdec : decodedFields dv suf gs = true)
    (htw : toWireFields tw suf gs = .ok ws) :
    fromWireFields rd (pre ++ suf) ws (sp ++ initState suf) = .ok (sp ++ stateOf gs) := by
  induction suf generalizing gs ws pre sp with
  | nil =>
    cases gs with
    | nil => simp [toWireFields] at htw; subst htw; simp [fromWireFields, initState, stateOf]
    | cons _ _ => simp [decodedFields] at hdec
  | cons f suf ih =>
    cases gs with
    | nil => simp [decodedFields] at hdec
    | cons g gs =>
      simp only [decodedFields, Bool.and_eq_true] at hdec
      simp only [toWireFields] at htw
      have hpre : pre ++ f :: suf = (pre ++ [f]) ++ suf := by simp
      by_cases hn : g.isNil = true
      · -- absent optional field: nothing emitted
        simp only [hn, if_true, Bool.and_eq_true, Bool.not_eq_true', Option.isNone_iff_eq_none] at hdec
        have he : fieldEmit f g = .ok none := by simp [fieldEmit, hdec.1.1, hdec.1.2, hn]
        simp only [he] at htw
        have := ih gs ws (pre ++ [f]) (sp ++ [(.nil, false)]) (by rw [← hpre]; exact hd) (by simp [hl]) hdec.2 htw
        have hg : g = .nil := by cases g <;> simp [GVal.isNil] at hn ⊢
        subst hg
        simpa [initState, stateOf, GVal.isNil] using this
      · have hn' : g.isNil = false := by simpa using hn
        simp only [hn', Bool.false_eq_true, if_false] at hdec
        have he : fieldEmit f g = .ok (some g) := by
          unfold fieldEmit
          by_cases hr : f.req = true
          · simp [hr, hn']
          · cases hdf : f.dflt <;> simp [hr, hdf, hn']
        simp only [he] at htw
        split at htw
        · cases htw
        · rename_i w hw
          split at htw
          · cases htw
          · rename_i rest hrest; cases htw
            obtain ⟨hrd, hcode⟩ := hval f.ty g w hdec.1 hw
            have hfind := find_unique pre suf f w.tcode hd hcode.symm
            have hassign := assign_unique pre suf f g sp (GVal.nil, false) (initState suf) hd hl
            simp only [fromWireFields, hfind, hrd]
            have hinit : sp ++ initState (f :: suf) = sp ++ (GVal.nil, false) :: initState suf := by
              simp [initState]
            rw [hinit, hassign]
            have := ih gs rest (pre ++ [f]) (sp ++ [(g, true)]) (by rw [← hpre]; exact hd) (by simp [hl]) hdec.2 hrest
            simpa [stateOf, hn'] using this

/-- the post-loop pass is the identity on a decoded struct's state. -/
theorem finishFields_stateOf (dv : Ty → GVal → Bool) (fields : List Field) (gs : List GVal)
    (h : decodedFields dv fields gs = true) : finishFields fields (stateOf gs) = .ok gs := by
  induction fields generalizing gs with
  | nil =>
    cases gs with
    | nil => rfl
    | cons _ _ => simp [decodedFields] at h
  | cons f fs ih =>
    cases gs with
    | nil => simp [decodedFields] at h
    | cons g gs =>
      simp only [decodedFields, Bool.and_eq_true] at h
      have h2 := ih gs h.2
      simp only [stateOf, List.map_cons] at h2 ⊢
      by_cases hn : g.isNil = true
      · simp only [hn, if_true, Bool.and_eq_true, Bool.not_eq_true', Option.isNone_iff_eq_none] at h
        simp [finishFields, h.1.2, h.1.1, h2]
      · have hn' : g.isNil = false := by simpa using hn
        cases hdf : f.dflt with
        | none => simp [finishFields, hdf, hn', h2]
        | some d => simp [finishFields, hdf, hn', h2]

/-- emitted field count = number of set fields, for a decoded struct. -/
theorem toWireFields_count (tw : Ty → GVal → Res WValue) (dv : Ty → GVal → Bool)
    (fields : List Field) (gs : List GVal) (ws : List (UInt16 × WValue))
    (hdec : decodedFields dv fields gs = true) (h : toWireFields tw fields gs = .ok ws) :
    ws.length = countSet gs := by
  induction fields generalizing gs ws with
  | nil =>
    cases gs with
    | nil => simp [toWireFields] at h; subst h; rfl
    | cons _ _ => simp [decodedFields] at hdec
  | cons f fs ih =>
    cases gs with
    | nil => simp [decodedFields] at hdec
    | cons g gs =>
      simp only [decodedFields, Bool.and_eq_true] at hdec
      simp only [toWireFields] at h
      by_cases hn : g.isNil = true
      · simp only [hn, if_true, Bool.and_eq_true, Bool.not_eq_true', Option.isNone_iff_eq_none] at hdec
        have he : fieldEmit f g = .ok none := by simp [fieldEmit, hdec.1.1, hdec.1.2, hn]
        simp only [he] at h
        simpa [countSet, hn] using ih gs ws hdec.2 h
      · have hn' : g.isNil = false := by simpa using hn
        simp only [hn', Bool.false_eq_true, if_false] at hdec
        have he : fieldEmit f g = .ok (some g) := by
          unfold fieldEmit
          by_cases hr : f.req = true
          · simp [hr, hn']
          · cases hdf : f.dflt <;> simp [hr, hdf, hn']
        simp only [he] at h
        split at h
        · cases h
        · split at h
          · cases h
          · rename_i rest hrest; cases h
            have := ih gs rest hdec.2 hrest
            simp [countSet, hn', this] at this ⊢
            try omega

/-- all structs of the environment have distinct field ids. -/
def WFIds (env : Env) : Prop := ∀ n sd, env.find n = some sd → idsDistinct sd.fields = true

/-- C01 (value path): decode ∘ encode = id on decoded-form values, for every schema and type. -/
theorem fromWire_toWire (env : Env) (hids : WFIds env) (fuel : Nat) :
    ∀ (t : Ty) (g : GVal) (w : WValue), decodedV env fuel t g = true →
      toWire env fuel t g = .ok w → fromWire env fuel t w = .ok g := by
  induction fuel with
  | zero => intro t g w h; simp [decodedV] at h
  | succ fuel ih =>
    intro t g w hdec htw
    unfold decodedV at hdec
    unfold toWire at htw
    unfold fromWire
    generalize t.root = r at hdec htw ⊢
    cases r <;> cases g <;> simp only [] at hdec htw <;> first | (cases hdec; done) | (cases htw; rfl) | skip
    case list.list e xs =>
      split at htw
      · rename_i ws hws; cases htw
        simp only [Bool.and_eq_true, List.all_eq_true] at hdec
        have := mapRes_inverse _ (fromWire env fuel e) xs ws hws (by
          intro x hx y hy
          split at hy
          · cases hy
          · exact ih e x y (hdec.2 x hx) hy)
        simp [this]
      · cases htw
    case set.set e h xs =>
      simp only [Bool.and_eq_true, beq_iff_eq, List.all_eq_true] at hdec
      split at htw
      · rename_i ws hws; cases htw
        have := mapRes_inverse _ (fromWire env fuel e) xs ws hws (by
          intro x hx y hy
          split at hy
          · cases hy
          · exact ih e x y (hdec.1.2 x hx) hy)
        obtain ⟨⟨⟨_, hh⟩, _⟩, hnd⟩ := hdec
        subst hh
        by_cases hp : e.isPrim = true
        · simp only [hp, if_true] at hnd
          simp [this, hp, foldl_setInsert [] xs (by simp) hnd]
        · have hp' : e.isPrim = false := by simpa using hp
          simp [this, hp']
      · cases htw
    case sset.set e h xs =>
      simp only [Bool.and_eq_true, beq_iff_eq, List.all_eq_true] at hdec
      split at htw
      · rename_i ws hws; cases htw
        have := mapRes_inverse _ (fromWire env fuel e) xs ws hws (by
          intro x hx y hy
          split at hy
          · cases hy
          · exact ih e x y (hdec.1.2 x hx) hy)
        obtain ⟨⟨⟨_, hh⟩, _⟩, _⟩ := hdec
        subst hh
        simp [this]
      · cases htw
    case map.map k v h kvs =>
      simp only [Bool.and_eq_true, beq_iff_eq, List.all_eq_true] at hdec
      split at htw
      · rename_i ws hws; cases htw
        have := mapRes2_inverse _ _ (fromWire env fuel k) (fromWire env fuel v) kvs ws hws
          (by
            intro x hx y hy
            split at hy
            · cases hy
            · exact ih k x.1 y (hdec.1.2 x hx).1 hy)
          (by
            intro x hx y hy
            split at hy
            · cases hy
            · exact ih v x.2 y (hdec.1.2 x hx).2 hy)
        obtain ⟨⟨⟨_, hh⟩, _⟩, hnd⟩ := hdec
        subst hh
        by_cases hp : k.isPrim = true
        · simp only [hp, if_true] at hnd
          simp [this, hp, foldl_mapInsert [] kvs (by simp) hnd]
        · have hp' : k.isPrim = false := by simpa using hp
          simp [this, hp']
      · cases htw
    case struct.struct n gs =>
      cases hfind : env.find n with
      | none => simp [hfind] at hdec
      | some sd =>
        simp only [hfind] at hdec htw ⊢
        split at htw
        · cases htw
        · rename_i ws hws
          split at htw
          · rename_i hok; cases htw
            have hloop := fromWireFields_toWireFields (toWire env fuel) (fromWire env fuel) (decodedV env fuel)
              (fun t g w h1 h2 => ⟨ih t g w h1 h2, toWire_tcode env fuel t g w h2⟩)
              sd.fields gs ws [] [] (by simpa using hids n sd hfind) rfl hdec hws
            simp only [List.nil_append] at hloop
            have hfin := finishFields_stateOf (decodedV env fuel) sd.fields gs hdec
            have hcnt := toWireFields_count (toWire env fuel) (decodedV env fuel) sd.fields gs ws hdec hws
            simp [hfind, hloop, finishStruct, hfin, ← hcnt, hok]
          · cases htw

end ThriftVerif.Schema
