/-
M-Schema proofs: a successful lazy decode (`decL`) ends exactly where a successful seeking
`Skip` of the same type from the same position ends.
-/
import ThriftVerif.Schema.Lazy
import ThriftVerif.Wire.SkipAgree

set_option linter.unusedSimpArgs false

namespace ThriftVerif.Schema
open ThriftVerif.Wire

theorem rdN_drop {k : Nat} {bs r : Bytes} {n : Nat} (h : rdN k bs = some (n, r)) :
    k ≤ bs.length ∧ r = bs.drop k := by
  unfold rdN at h
  split at h
  · rename_i hk; cases h; exact ⟨hk, rfl⟩
  · cases h

theorem stRdN_discard {seek : Bool} {k : Nat} {s r : St} {n : Nat} (hk : 0 < k)
    (h : stRdN k s = some (n, r)) (hw : WFSt s) : discard seek k s = some r := by
  have h0 := (stRdN_wf hk h hw).2.1
  unfold stRdN at h
  split at h
  · rename_i n' r1 hr
    cases h
    obtain ⟨h1, h2⟩ := rdN_drop hr
    unfold Wire.discard
    simp [h1, h0, h2]
  · cases h

theorem stByte_discard {seek : Bool} {s r : St} {b : UInt8}
    (h : stByte s = some (b, r)) (hw : WFSt s) : discard seek 1 s = some r := by
  have h0 := (stByte_wf h hw).2.1
  unfold stByte at h
  split at h
  · rename_i b' r1 hs
    cases h
    unfold Wire.discard
    simp [hs, h0]
  · cases h

def DSAt (f : Nat) : Prop :=
  (∀ t s lv s', WFSt s → decL f t s = .ok (lv, s') →
      WFSt s' ∧ ∀ f' s'', skip true f' t s = .ok s'' → s'' = s') ∧
  (∀ s fs s', WFSt s → decFieldsL f s = .ok (fs, s') →
      WFSt s' ∧ ∀ f' s'', skipStruct true f' s = .ok s'' → s'' = s')

theorem fixedWidth_of (t : UInt8) (tt : TType) (h : TType.ofByte t = some tt) :
    fixedWidth t = (match tt with
      | .bool => 1 | .i8 => 1 | .double => 8 | .i16 => 2 | .i32 => 4 | .i64 => 8 | _ => 0) := by
  cases tt <;> simp [fixedWidth, h]

/-- a fixed-width type is skipped by one discard. -/
theorem skip_fixed_ok {f' : Nat} {t : UInt8} {s r s'' : St} {w : Nat} (hfw : fixedWidth t = w) (hw : 0 < w)
    (hd : Wire.discard true w s = some r) (h2 : skip true f' t s = .ok s'') : s'' = r := by
  cases f' with
  | zero => simp [skip] at h2
  | succ f' =>
    unfold skip at h2
    simp only [hfw, hw, if_true, hd] at h2
    cases h2; rfl

theorem skip_container_head {f' : Nat} {t : UInt8} (hfw : fixedWidth t = 0) {s s'' : St}
    (h2 : skip true f' t s = .ok s'') : ∃ f'', f' = f'' + 1 := by
  cases f' with
  | zero => simp [skip] at h2
  | succ f'' => exact ⟨f'', rfl⟩

theorem dsAt (f : Nat) : DSAt f := by
  induction f with
  | zero =>
    refine ⟨?_, ?_⟩
    · intro t s lv s' _ h; simp [decL] at h
    · intro s fs s' _ h; simp [decFieldsL] at h
  | succ f ih =>
    obtain ⟨ihV, ihF⟩ := ih
    refine ⟨?_, ?_⟩
    · intro t s lv s' hw h1
      unfold decL at h1
      cases ht : TType.ofByte t with
      | none => simp [ht] at h1
      | some tt =>
        have hfw := fixedWidth_of t tt ht
        simp only [ht] at h1
        cases tt <;> simp only [] at h1 hfw
        case bool =>
          cases hb : stByte s with
          | none => simp [hb] at h1
          | some p =>
            obtain ⟨b, r⟩ := p
            simp only [hb] at h1
            have hs' : s' = r := by
              split at h1
              · cases h1; rfl
              · split at h1
                · cases h1; rfl
                · cases h1
            subst hs'
            exact ⟨(stByte_wf hb hw).1, fun f' s'' h2 =>
              skip_fixed_ok hfw (by decide) (stByte_discard hb hw) h2⟩
        case i8 =>
          cases hb : stByte s with
          | none => simp [hb] at h1
          | some p =>
            obtain ⟨b, r⟩ := p
            simp only [hb] at h1
            cases h1
            exact ⟨(stByte_wf hb hw).1, fun f' s'' h2 =>
              skip_fixed_ok hfw (by decide) (stByte_discard hb hw) h2⟩
        case double =>
          cases hr : stRdN 8 s with
          | none => simp [hr] at h1
          | some p =>
            obtain ⟨n, r⟩ := p
            simp only [hr] at h1
            cases h1
            exact ⟨(stRdN_wf (by decide) hr hw).1, fun f' s'' h2 =>
              skip_fixed_ok hfw (by decide) (stRdN_discard (by decide) hr hw) h2⟩
        case i16 =>
          cases hr : stRdN 2 s with
          | none => simp [hr] at h1
          | some p =>
            obtain ⟨n, r⟩ := p
            simp only [hr] at h1
            cases h1
            exact ⟨(stRdN_wf (by decide) hr hw).1, fun f' s'' h2 =>
              skip_fixed_ok hfw (by decide) (stRdN_discard (by decide) hr hw) h2⟩
        case i32 =>
          cases hr : stRdN 4 s with
          | none => simp [hr] at h1
          | some p =>
            obtain ⟨n, r⟩ := p
            simp only [hr] at h1
            cases h1
            exact ⟨(stRdN_wf (by decide) hr hw).1, fun f' s'' h2 =>
              skip_fixed_ok hfw (by decide) (stRdN_discard (by decide) hr hw) h2⟩
        case i64 =>
          cases hr : stRdN 8 s with
          | none => simp [hr] at h1
          | some p =>
            obtain ⟨n, r⟩ := p
            simp only [hr] at h1
            cases h1
            exact ⟨(stRdN_wf (by decide) hr hw).1, fun f' s'' h2 =>
              skip_fixed_ok hfw (by decide) (stRdN_discard (by decide) hr hw) h2⟩
        case binary =>
          cases hl : stRdLen s with
          | none => simp [hl] at h1
          | some p =>
            obtain ⟨n, r⟩ := p
            simp only [hl] at h1
            have hr0 := (stRdLen_wf hl hw).2.2
            split at h1
            · rename_i hn
              cases h1
              have hd : Wire.discard true n r = some (List.drop n r.1, r.2) := by
                unfold Wire.discard; simp [hn, hr0]
              refine ⟨discard_wf hd (stRdLen_wf hl hw).1, ?_⟩
              intro f' s'' h2
              obtain ⟨f'', rfl⟩ := skip_container_head hfw h2
              unfold skip at h2
              simp only [hfw, Nat.lt_irrefl, if_false, ht, hl, hd] at h2
              cases h2; rfl
            · cases h1
        case struct =>
          cases hf : decFieldsL f s with
          | error e => simp [hf] at h1
          | ok p =>
            obtain ⟨fs, r⟩ := p
            simp only [hf] at h1
            cases h1
            obtain ⟨g1, g2⟩ := ihF s fs s' hw hf
            refine ⟨g1, ?_⟩
            intro f' s'' h2
            obtain ⟨f'', rfl⟩ := skip_container_head hfw h2
            unfold skip at h2
            simp only [hfw, Nat.lt_irrefl, if_false, ht] at h2
            exact g2 f'' s'' h2
        case map =>
          cases hb1 : stByte s with
          | none => simp [hb1] at h1
          | some p1 =>
            obtain ⟨kt, s1⟩ := p1
            simp only [hb1] at h1
            have hw1 := (stByte_wf hb1 hw).1
            cases hb2 : stByte s1 with
            | none => simp [hb2] at h1
            | some p2 =>
              obtain ⟨vt, s2⟩ := p2
              simp only [hb2] at h1
              have hw2 := (stByte_wf hb2 hw1).1
              cases hl : stRdLen s2 with
              | none => simp [hl] at h1
              | some p3 =>
                obtain ⟨n, s3⟩ := p3
                simp only [hl] at h1
                have hw3 := (stRdLen_wf hl hw2).1
                cases hsk : skipMapItems true (fuelFor s3.1) kt vt n s3 with
                | error e => simp [hsk] at h1
                | ok sEnd =>
                  simp only [hsk] at h1
                  cases h1
                  refine ⟨skipMapItems_wf hw3 hsk, ?_⟩
                  intro f' s'' h2
                  obtain ⟨f'', rfl⟩ := skip_container_head hfw h2
                  unfold skip at h2
                  simp only [hfw, Nat.lt_irrefl, if_false, ht, hb1, hb2, hl] at h2
                  unfold skipMapItems at hsk
                  by_cases hfx : 0 < fixedWidth kt ∧ 0 < fixedWidth vt
                  · simp only [hfx, and_self, if_true] at hsk h2
                    cases hd : Wire.discard true (n * (fixedWidth kt + fixedWidth vt)) s3 with
                    | none => simp [hd] at hsk
                    | some x => simp [hd] at hsk h2; rw [← hsk, ← h2]
                  · simp only [hfx, if_false] at hsk h2
                    exact skipKV_agree h2 hsk
        case set =>
          cases hb1 : stByte s with
          | none => simp [hb1] at h1
          | some p1 =>
            obtain ⟨et, s1⟩ := p1
            simp only [hb1] at h1
            have hw1 := (stByte_wf hb1 hw).1
            cases hl : stRdLen s1 with
            | none => simp [hl] at h1
            | some p3 =>
              obtain ⟨n, s2⟩ := p3
              simp only [hl] at h1
              have hw2 := (stRdLen_wf hl hw1).1
              cases hsk : skipListItems true (fuelFor s2.1) et n s2 with
              | error e => simp [hsk] at h1
              | ok sEnd =>
                simp only [hsk] at h1
                cases h1
                refine ⟨skipListItems_wf hw2 hsk, ?_⟩
                intro f' s'' h2
                obtain ⟨f'', rfl⟩ := skip_container_head hfw h2
                unfold skip at h2
                simp only [hfw, Nat.lt_irrefl, if_false, ht, hb1, hl] at h2
                unfold skipListItems at hsk
                by_cases hfx : 0 < fixedWidth et
                · simp only [hfx, if_true] at hsk h2
                  cases hd : Wire.discard true (fixedWidth et * n) s2 with
                  | none => simp [hd] at hsk
                  | some x => simp [hd] at hsk h2; rw [← hsk, ← h2]
                · simp only [hfx, if_false] at hsk h2
                  exact skipN_agree h2 hsk
        case list =>
          cases hb1 : stByte s with
          | none => simp [hb1] at h1
          | some p1 =>
            obtain ⟨et, s1⟩ := p1
            simp only [hb1] at h1
            have hw1 := (stByte_wf hb1 hw).1
            cases hl : stRdLen s1 with
            | none => simp [hl] at h1
            | some p3 =>
              obtain ⟨n, s2⟩ := p3
              simp only [hl] at h1
              have hw2 := (stRdLen_wf hl hw1).1
              cases hsk : skipListItems true (fuelFor s2.1) et n s2 with
              | error e => simp [hsk] at h1
              | ok sEnd =>
                simp only [hsk] at h1
                cases h1
                refine ⟨skipListItems_wf hw2 hsk, ?_⟩
                intro f' s'' h2
                obtain ⟨f'', rfl⟩ := skip_container_head hfw h2
                unfold skip at h2
                simp only [hfw, Nat.lt_irrefl, if_false, ht, hb1, hl] at h2
                unfold skipListItems at hsk
                by_cases hfx : 0 < fixedWidth et
                · simp only [hfx, if_true] at hsk h2
                  cases hd : Wire.discard true (fixedWidth et * n) s2 with
                  | none => simp [hd] at hsk
                  | some x => simp [hd] at hsk h2; rw [← hsk, ← h2]
                · simp only [hfx, if_false] at hsk h2
                  exact skipN_agree h2 hsk
    · intro s fs s' hw h1
      unfold decFieldsL at h1
      cases hb : stByte s with
      | none => simp [hb] at h1
      | some p =>
        obtain ⟨t, s0⟩ := p
        simp only [hb] at h1
        have hw0 := (stByte_wf hb hw).1
        by_cases ht : t = 0
        · simp only [ht, if_true] at h1
          cases h1
          refine ⟨hw0, ?_⟩
          intro f' s'' h2
          cases f' with
          | zero => simp [skipStruct] at h2
          | succ f' =>
            unfold skipStruct at h2
            simp only [hb, ht, if_true] at h2
            cases h2; rfl
        · simp only [ht, if_false] at h1
          cases hid : stRdN 2 s0 with
          | none => simp [hid] at h1
          | some q =>
            obtain ⟨id, s1⟩ := q
            simp only [hid] at h1
            have hd := stRdN_discard (seek := true) (by decide) hid hw0
            have hw1 := (stRdN_wf (by decide) hid hw0).1
            cases hv : decL f t s1 with
            | error e => simp [hv] at h1
            | ok r =>
              obtain ⟨v, s2⟩ := r
              simp only [hv] at h1
              obtain ⟨hw2, hag⟩ := ihV t s1 v s2 hw1 hv
              cases hrest : decFieldsL f s2 with
              | error e => simp [hrest] at h1
              | ok rr =>
                obtain ⟨fs', s3⟩ := rr
                simp only [hrest] at h1
                cases h1
                obtain ⟨hw3, hag3⟩ := ihF s2 fs' _ hw2 hrest
                refine ⟨hw3, ?_⟩
                intro f' s'' h2
                cases f' with
                | zero => simp [skipStruct] at h2
                | succ f' =>
                  unfold skipStruct at h2
                  simp only [hb, ht, if_false, hd] at h2
                  cases hsk : skip true f' t s1 with
                  | error e => simp [hsk] at h2
                  | ok s2' =>
                    simp only [hsk] at h2
                    have := hag f' s2' hsk
                    subst this
                    exact hag3 f' s'' h2

/-- a successful lazy decode ends exactly where any successful seeking skip of that type ends,
and leaves a well-formed position. -/
theorem decL_skip_agree {f f' : Nat} {t : UInt8} {s s' s'' : St} {lv : LVal} (hw : WFSt s)
    (h1 : decL f t s = .ok (lv, s')) (h2 : skip true f' t s = .ok s'') : s'' = s' :=
  ((dsAt f).1 t s lv s' hw h1).2 f' s'' h2

theorem decL_wf {f : Nat} {t : UInt8} {s s' : St} {lv : LVal} (hw : WFSt s)
    (h1 : decL f t s = .ok (lv, s')) : WFSt s' :=
  ((dsAt f).1 t s lv s' hw h1).1

end ThriftVerif.Schema
