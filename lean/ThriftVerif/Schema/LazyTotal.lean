/-
M-Schema proofs: totality of the random-access decoder as `binary.Decode` runs it (`decL`:
containers validated by the seeking skip, nothing forced): with the drivers' fuel it never
runs out, on any bytes.

Core-only.
-/
import ThriftVerif.Schema.LazyExtent
import ThriftVerif.Wire.LazyTotal

set_option linter.unusedSimpArgs false

namespace ThriftVerif.Schema
open ThriftVerif.Wire

/-- the position after an unforced decode is never further from the end than its start. -/
theorem decL_len {f : Nat} {t : UInt8} {s s' : St} {lv : LVal} (hw : WFSt s)
    (h : decL f t s = .ok (lv, s')) : s'.1.length ≤ s.1.length := by
  have hwa := decL_wf hw h
  by_cases ha : s'.2 = 0
  · exact ((extAt f).1 t s lv s' h ha).2.1
  · have hae : s'.1 = [] := hwa (by omega)
    simp [hae]

def DecLFuelAt (f : Nat) : Prop :=
  (∀ t s, WFSt s → 3 * s.1.length + 2 ≤ f → decL f t s ≠ .error .fuel) ∧
  (∀ s, WFSt s → 3 * s.1.length + 1 ≤ f → decFieldsL f s ≠ .error .fuel)

theorem decLFuelAt (f : Nat) : DecLFuelAt f := by
  induction f with
  | zero =>
    refine ⟨?_, ?_⟩
    · intro t s _ h; omega
    · intro s _ h; omega
  | succ f ih =>
    obtain ⟨ihV, ihF⟩ := ih
    refine ⟨?_, ?_⟩
    · intro t s hw hf h
      unfold decL at h
      split at h
      · cases h
      · split at h
        · split at h
          · cases h
          · split at h <;> cases h
        · cases h
      · split at h <;> cases h
      · split at h <;> cases h
      · split at h <;> cases h
      · split at h <;> cases h
      · split at h <;> cases h
      · split at h
        · split at h <;> cases h
        · cases h
      · -- struct
        split at h
        · cases h
        · rename_i e he; cases h
          exact ihF s hw (by omega) he
      · -- map
        split at h
        · rename_i kt s1 hb1
          split at h
          · rename_i vt s2 hb2
            split at h
            · rename_i n s3 hr
              have w1 := (stByte_wf hb1 hw).1
              have w2 := (stByte_wf hb2 w1).1
              have w3 := (stRdLen_wf hr w2).1
              split at h
              · rename_i e he
                cases h
                exact skipMapItems_total true kt vt n s3 w3 he
              · cases h
            · cases h
          · cases h
        · cases h
      · -- set
        split at h
        · rename_i et s1 hb1
          split at h
          · rename_i n s2 hr
            have w1 := (stByte_wf hb1 hw).1
            have w3 := (stRdLen_wf hr w1).1
            split at h
            · rename_i e he
              cases h
              exact skipListItems_total true et n s2 w3 he
            · cases h
          · cases h
        · cases h
      · -- list
        split at h
        · rename_i et s1 hb1
          split at h
          · rename_i n s2 hr
            have w1 := (stByte_wf hb1 hw).1
            have w3 := (stRdLen_wf hr w1).1
            split at h
            · rename_i e he
              cases h
              exact skipListItems_total true et n s2 w3 he
            · cases h
          · cases h
        · cases h
    · intro s hw hf h
      unfold decFieldsL at h
      split at h
      · cases h
      · rename_i t s0 hb
        have l0 := (stByte_progress hb).2
        have w0 := (stByte_wf hb hw).1
        split at h
        · cases h
        · split at h
          · cases h
          · rename_i id s1 hid
            have l1 := (stRdN_progress hid).2
            have w1 := (stRdN_wf (by omega) hid w0).1
            split at h
            · rename_i e he; cases h
              exact ihV t s1 w1 (by omega) he
            · rename_i v s2 hv
              have l2 := decL_len w1 hv
              have w2 := decL_wf w1 hv
              split at h
              · rename_i e he; cases h
                exact ihF s2 w2 (by omega) he
              · cases h

/-- **`binary.Decode` (lazy containers, nothing forced) is total** (C03). -/
theorem decL_total (t : UInt8) (bs : Bytes) : decL (fuelFor bs) t (bs, 0) ≠ .error .fuel :=
  (decLFuelAt (fuelFor bs)).1 t (bs, 0) (wf_zero bs) (by simp [fuelFor])

/-- re-reading an item of a lazy container with the fuel computed at the container's start is
total wherever inside that container the read starts. -/
theorem decL_reread_total (t : UInt8) (src s : St) (hw : WFSt s) (hl : s.1.length ≤ src.1.length) :
    decL (fuelFor src.1) t s ≠ .error .fuel :=
  (decLFuelAt (fuelFor src.1)).1 t s hw (by simp [fuelFor]; omega)

end ThriftVerif.Schema
