/-
M-Schema proofs (C14, second clause): on values in decoded form, generated `Equals` holds
exactly when `wire.ValuesAreEqual` holds of the two `ToWire` images.

Core-only.
-/
import ThriftVerif.Schema.EqualsProofs
import ThriftVerif.Schema.WireEq
import ThriftVerif.Schema.RoundTripProofs

set_option linter.unusedSimpArgs false
set_option linter.unusedVariables false

namespace ThriftVerif.Schema
open ThriftVerif.Wire

/-! ### transfer of the list-level loops through `mapRes` -/

section transfer
variable (tw : GVal → Res WValue) (r : GVal → GVal → Bool) (wr : WValue → WValue → Bool)

theorem mapRes_cons_ok {x : GVal} {xs : List GVal} {ws : List WValue}
    (h : mapRes tw (x :: xs) = .ok ws) :
    ∃ w ws', tw x = .ok w ∧ mapRes tw xs = .ok ws' ∧ ws = w :: ws' := by
  simp only [mapRes] at h
  cases hx : tw x with
  | error e => simp [hx] at h
  | ok w =>
    simp only [hx] at h
    cases hr : mapRes tw xs with
    | error e => simp [hr] at h
    | ok ws' =>
      simp only [hr, Except.ok.injEq] at h
      exact ⟨w, ws', rfl, rfl, h.symm⟩

theorem any_transfer (y : GVal) (wy : WValue) :
    ∀ (xs : List GVal) (wxs : List WValue), mapRes tw xs = .ok wxs →
      (∀ x ∈ xs, ∀ wx, tw x = .ok wx → r x y = wr wx wy) →
      (xs.any fun x => r x y) = (wxs.any fun wx => wr wx wy) := by
  intro xs
  induction xs with
  | nil => intro wxs h _; simp [mapRes] at h; subst h; rfl
  | cons x xs ih =>
    intro wxs h hr
    obtain ⟨w, ws', hx, hrest, rfl⟩ := mapRes_cons_ok tw h
    simp only [List.any_cons]
    rw [hr x (by simp) w hx, ih ws' hrest (fun x' hx' => hr x' (by simp [hx']))]

/-- `ys.all (fun y => xs.any (r · y))` through `mapRes`. -/
theorem allAny_transfer :
    ∀ (ys : List GVal) (wys : List WValue) (xs : List GVal) (wxs : List WValue),
      mapRes tw ys = .ok wys → mapRes tw xs = .ok wxs →
      (∀ x ∈ xs, ∀ y ∈ ys, ∀ wx wy, tw x = .ok wx → tw y = .ok wy → r x y = wr wx wy) →
      (ys.all fun y => xs.any fun x => r x y) = (wys.all fun wy => wxs.any fun wx => wr wx wy) := by
  intro ys
  induction ys with
  | nil => intro wys xs wxs h _ _; simp [mapRes] at h; subst h; rfl
  | cons y ys ih =>
    intro wys xs wxs h hx hr
    obtain ⟨w, ws', hy, hrest, rfl⟩ := mapRes_cons_ok tw h
    simp only [List.all_cons]
    rw [any_transfer tw r wr y w xs wxs hx (fun x hxm wx hwx => hr x hxm y (by simp) wx w hwx hy),
      ih ws' xs wxs hrest hx (fun x hxm y' hy' => hr x hxm y' (by simp [hy']))]

theorem mapRes_len' {xs : List GVal} {ws : List WValue} (h : mapRes tw xs = .ok ws) :
    ws.length = xs.length := by
  induction xs generalizing ws with
  | nil => simp [mapRes] at h; subst h; rfl
  | cons x xs ih =>
    obtain ⟨w, ws', _, hrest, rfl⟩ := mapRes_cons_ok tw h
    simp [ih hrest]

/-- the pairwise list comparison through `mapRes`. -/
theorem allPairwise_transfer :
    ∀ (xs ys : List GVal) (wxs wys : List WValue), mapRes tw xs = .ok wxs → mapRes tw ys = .ok wys →
      (∀ x ∈ xs, ∀ y ∈ ys, ∀ wx wy, tw x = .ok wx → tw y = .ok wy → r x y = wr wx wy) →
      allPairwise r xs ys = (wxs.length == wys.length && (List.zip wxs wys).all fun p => wr p.1 p.2) := by
  intro xs
  induction xs with
  | nil =>
    intro ys wxs wys hx hy _
    simp [mapRes] at hx; subst hx
    cases ys with
    | nil => simp [mapRes] at hy; subst hy; simp [allPairwise]
    | cons y ys =>
      obtain ⟨w, ws', _, _, rfl⟩ := mapRes_cons_ok tw hy
      simp [allPairwise]
  | cons x xs ih =>
    intro ys wxs wys hx hy hr
    obtain ⟨w, ws', hxw, hrest, rfl⟩ := mapRes_cons_ok tw hx
    cases ys with
    | nil => simp [mapRes] at hy; subst hy; simp [allPairwise]
    | cons y ys =>
      obtain ⟨v, vs', hyv, hresty, rfl⟩ := mapRes_cons_ok tw hy
      simp only [allPairwise, List.length_cons, List.zip_cons_cons, List.all_cons]
      rw [hr x (by simp) y (by simp) w v hxw hyv,
        ih ys ws' vs' hrest hresty (fun x' hx' y' hy' => hr x' (by simp [hx']) y' (by simp [hy']))]
      have hlen : (ws'.length + 1 == vs'.length + 1) = (ws'.length == vs'.length) := by
        cases h1 : (ws'.length == vs'.length)
        · simp only [beq_eq_false_iff_ne, ne_eq] at h1 ⊢; omega
        · simp only [beq_iff_eq] at h1 ⊢; omega
      rw [hlen]
      cases (ws'.length == vs'.length) <;> cases (wr w v) <;> simp

end transfer


/-! ### the set loops in one canonical form -/

/-- canonical form: every element of `bs` has a partner in `as` (partner first). -/
def allHave {α : Type} (r : α → α → Bool) (as bs : List α) : Bool := bs.all fun y => as.any fun x => r x y

theorem allHave_iff {α : Type} (r : α → α → Bool) (as bs : List α) :
    allHave r as bs = true ↔ ∀ b ∈ bs, ∃ a ∈ as, r a b = true := by
  simp [allHave, List.all_eq_true, List.any_eq_true]

/-- the map-backed set loop `subR keyEqFlip bs as` is the canonical form for `keyEq`. -/
theorem subR_keyEqFlip (as bs : List GVal) : subR keyEqFlip bs as = allHave keyEq as bs := by
  unfold subR allHave
  congr 1

/-- the slice-backed set loop agrees with the canonical form on duplicate-free lists of equal length. -/
theorem subR_eq_allHave (D : GVal → Prop) (r : GVal → GVal → Bool) (he : EquivOn D r) (as bs : List GVal)
    (hDa : ∀ a ∈ as, D a) (hDb : ∀ b ∈ bs, D b)
    (hna : pairwiseNot r as = true) (hnb : pairwiseNot r bs = true) (hl : as.length = bs.length) :
    subR r as bs = allHave r as bs := by
  apply Bool.eq_iff_iff.mpr
  rw [subR_iff, allHave_iff]
  constructor
  · intro h
    exact surj_of_inj D r he as bs hDa hDb hna hnb hl h
  · intro h
    -- flip with symmetry, apply the pigeonhole step the other way round, flip back
    have h' : ∀ b ∈ bs, ∃ a ∈ as, r b a = true := by
      intro b hb
      obtain ⟨a, ha, hab⟩ := h b hb
      exact ⟨a, ha, he.symm a b (hDa a ha) (hDb b hb) hab⟩
    have := surj_of_inj D r he bs as hDb hDa hnb hna hl.symm h'
    intro a ha
    obtain ⟨b, hb, hba⟩ := this a ha
    exact ⟨b, hb, he.symm b a (hDb b hb) (hDa a ha) hba⟩

/-- on a primitive type (with fuel left) `Equals` is Go `==`. -/
theorem equalsG_prim (env : Env) (f : Nat) (e : Ty) (hp : e.isPrim = true) (x y : GVal) :
    equalsG env (f + 1) e x y = keyEq x y := by
  unfold equalsG
  unfold Ty.isPrim at hp
  generalize e.root = r at hp ⊢
  cases r <;> simp_all [primEq]

theorem decodedV_fuel_pos {env : Env} {fuel : Nat} {t : Ty} {g : GVal} (h : decodedV env fuel t g = true) :
    ∃ f, fuel = f + 1 := by
  cases fuel with
  | zero => simp [decodedV] at h
  | succ f => exact ⟨f, rfl⟩

theorem decodedV_not_nil {env : Env} {fuel : Nat} {t : Ty} {g : GVal} (h : decodedV env fuel t g = true) :
    g.isNil = false := by
  cases fuel with
  | zero => simp [decodedV] at h
  | succ f =>
    unfold decodedV at h
    generalize t.root = r at h
    cases g <;> first | rfl | (cases r <;> simp at h)

/-- the element serialiser of the container loops, on a decoded element, is plain `toWire`. -/
theorem elemTw_decoded (env : Env) (fuel : Nat) (e : Ty) (x : GVal) (hx : decodedV env fuel e x = true) :
    (if elemNilBad e x then Except.error Err.bad else toWire env fuel e x) = toWire env fuel e x := by
  simp [elemNilBad, decodedV_not_nil hx]


/-! ### the map loops in one canonical form -/

/-- canonical form: every entry of `b` has a partner in `a` with related key and related value. -/
def allHaveKV {K V : Type} (rk : K → K → Bool) (rv : V → V → Bool) (a b : List (K × V)) : Bool :=
  b.all fun y => a.any fun x => rk x.1 y.1 && rv x.2 y.2

theorem allHaveKV_iff {K V : Type} (rk : K → K → Bool) (rv : V → V → Bool) (a b : List (K × V)) :
    allHaveKV rk rv a b = true ↔ ∀ y ∈ b, ∃ x ∈ a, rk x.1 y.1 = true ∧ rv x.2 y.2 = true := by
  simp [allHaveKV, List.all_eq_true, List.any_eq_true]

/-- the one-directional map loop of generated `Equals` agrees with the canonical form on
key-distinct maps of equal length. -/
theorem mapSub_eq_allHaveKV {K V : Type} (DK : K → Prop) (DV : V → Prop) (r : K → K → Bool) (eqv : V → V → Bool)
    (hk : EquivOn DK r) (hv : EquivOn DV eqv) (a b : List (K × V))
    (ha : MapDom DK DV r a) (hb : MapDom DK DV r b) (hl : a.length = b.length) :
    mapSub r eqv a b = allHaveKV r eqv a b := by
  apply Bool.eq_iff_iff.mpr
  constructor
  · intro h
    have h2 := mapSub_symm DK DV r eqv hk hv a b ha hb hl h
    rw [mapSub_iff] at h2
    rw [allHaveKV_iff]
    intro y hy
    obtain ⟨va, hl1, he1⟩ := h2 y hy
    obtain ⟨k', hm, hr⟩ := lookupR_some hl1
    refine ⟨(k', va), hm, ?_, ?_⟩
    · exact hk.symm y.1 k' (hb.keys y hy) (ha.keys (k', va) hm) hr
    · exact hv.symm y.2 va (hb.vals y hy) (ha.vals (k', va) hm) he1
  · intro h
    rw [allHaveKV_iff] at h
    apply mapSub_symm DK DV r eqv hk hv b a hb ha hl.symm
    rw [mapSub_iff]
    intro y hy
    obtain ⟨x, hx, h1, h2⟩ := h y hy
    refine ⟨x.2, ?_, ?_⟩
    · exact lookupR_of_mem DK r hk a y.1 x.1 x.2 (hb.keys y hy) ha.keys ha.nodup (by simpa using hx)
        (hk.symm x.1 y.1 (ha.keys x hx) (hb.keys y hy) h1)
    · exact hv.symm x.2 y.2 (ha.vals x hx) (hb.vals y hy) h2

section transfer2
variable (fk fv : GVal → Res WValue)

theorem mapRes2_cons_ok {x : GVal × GVal} {xs : List (GVal × GVal)} {ws : List (WValue × WValue)}
    (h : mapRes2 fk fv (x :: xs) = .ok ws) :
    ∃ wk wv ws', fk x.1 = .ok wk ∧ fv x.2 = .ok wv ∧ mapRes2 fk fv xs = .ok ws' ∧ ws = (wk, wv) :: ws' := by
  obtain ⟨a, b⟩ := x
  simp only [mapRes2] at h
  cases ha : fk a with
  | error e => simp [ha] at h
  | ok wk =>
    simp only [ha] at h
    cases hb : fv b with
    | error e => simp [hb] at h
    | ok wv =>
      simp only [hb] at h
      cases hr : mapRes2 fk fv xs with
      | error e => simp [hr] at h
      | ok ws' =>
        simp only [hr, Except.ok.injEq] at h
        exact ⟨wk, wv, ws', rfl, rfl, rfl, h.symm⟩

theorem mapRes2_len' {xs : List (GVal × GVal)} {ws : List (WValue × WValue)}
    (h : mapRes2 fk fv xs = .ok ws) : ws.length = xs.length := by
  induction xs generalizing ws with
  | nil => simp [mapRes2] at h; subst h; rfl
  | cons x xs ih =>
    obtain ⟨wk, wv, ws', _, _, hrest, rfl⟩ := mapRes2_cons_ok fk fv h
    simp [ih hrest]

theorem mapRes2_mem {xs : List (GVal × GVal)} {ws : List (WValue × WValue)}
    (h : mapRes2 fk fv xs = .ok ws) {w : WValue × WValue} (hw : w ∈ ws) :
    ∃ x ∈ xs, fk x.1 = .ok w.1 ∧ fv x.2 = .ok w.2 := by
  induction xs generalizing ws with
  | nil => simp [mapRes2] at h; subst h; cases hw
  | cons x xs ih =>
    obtain ⟨wk, wv, ws', h1, h2, hrest, rfl⟩ := mapRes2_cons_ok fk fv h
    simp only [List.mem_cons] at hw
    rcases hw with rfl | hw
    · exact ⟨x, by simp, h1, h2⟩
    · obtain ⟨x', hx', h3, h4⟩ := ih hrest hw
      exact ⟨x', by simp [hx'], h3, h4⟩

variable (rk rv : GVal → GVal → Bool) (wr : WValue → WValue → Bool)

/-- the unhashable-key loop of `wire.ValuesAreEqual`, for one right-hand entry. -/
theorem anyKV_transfer (y : GVal × GVal) (wy : WValue × WValue) :
    ∀ (xs : List (GVal × GVal)) (wxs : List (WValue × WValue)), mapRes2 fk fv xs = .ok wxs →
      (∀ x ∈ xs, ∀ wk wv, fk x.1 = .ok wk → fv x.2 = .ok wv →
        rk x.1 y.1 = wr wk wy.1 ∧ rv x.2 y.2 = wr wv wy.2) →
      (xs.any fun x => rk x.1 y.1 && rv x.2 y.2) = (wxs.any fun wx => wr wx.1 wy.1 && wr wx.2 wy.2) := by
  intro xs
  induction xs with
  | nil => intro wxs h _; simp [mapRes2] at h; subst h; rfl
  | cons x xs ih =>
    intro wxs h hr
    obtain ⟨wk, wv, ws', h1, h2, hrest, rfl⟩ := mapRes2_cons_ok fk fv h
    simp only [List.any_cons]
    obtain ⟨e1, e2⟩ := hr x (by simp) wk wv h1 h2
    rw [e1, e2, ih ws' hrest (fun x' hx' => hr x' (by simp [hx']))]

/-- the hashable-key loop of `wire.ValuesAreEqual` (`m[key]`, last entry wins), for one
right-hand entry: with distinct keys on the left it is the canonical "some entry matches". -/
theorem lastMatch_transfer (DK : GVal → Prop) (hk : EquivOn DK rk) (y : GVal × GVal) (wy : WValue × WValue)
    (hDy : DK y.1) :
    ∀ (xs : List (GVal × GVal)) (wxs : List (WValue × WValue)), mapRes2 fk fv xs = .ok wxs →
      (∀ x ∈ xs, DK x.1) → pairwiseNot rk (xs.map (·.1)) = true →
      (∀ x ∈ xs, ∀ wk wv, fk x.1 = .ok wk → fv x.2 = .ok wv →
        rk x.1 y.1 = wr wk wy.1 ∧ rv x.2 y.2 = wr wv wy.2) →
      (match wxs.reverse.find? (fun wx => wr wx.1 wy.1) with
       | some wx => wr wx.2 wy.2
       | none => false) = (xs.any fun x => rk x.1 y.1 && rv x.2 y.2) := by
  intro xs
  induction xs with
  | nil => intro wxs h _ _ _; simp [mapRes2] at h; subst h; rfl
  | cons x xs ih =>
    intro wxs h hD hnd hr
    obtain ⟨wk, wv, ws', h1, h2, hrest, rfl⟩ := mapRes2_cons_ok fk fv h
    simp only [List.map_cons] at hnd
    rw [pairwiseNot_iff] at hnd
    have ihr := ih ws' hrest (fun x' hx' => hD x' (by simp [hx'])) hnd.2
      (fun x' hx' => hr x' (by simp [hx']))
    obtain ⟨e1, e2⟩ := hr x (by simp) wk wv h1 h2
    simp only [List.reverse_cons, List.find?_append, List.any_cons]
    cases hf : ws'.reverse.find? (fun wx => wr wx.1 wy.1) with
    | some w' =>
      simp only [hf, Option.or_some] at ihr ⊢
      -- a later entry has the key: the head entry cannot have it too
      have hp : wr w'.1 wy.1 = true := by simpa using List.find?_some hf
      have hmem : w' ∈ ws' := by
        have := List.mem_of_find?_eq_some hf
        simpa using this
      obtain ⟨x', hx', h3, h4⟩ := mapRes2_mem fk fv hrest hmem
      have hk' : rk x'.1 y.1 = true := by
        rw [(hr x' (by simp [hx']) w'.1 w'.2 h3 h4).1]; exact hp
      have hhead : rk x.1 y.1 = false := by
        cases hh : rk x.1 y.1 with
        | false => rfl
        | true =>
          exfalso
          have hDx := hD x (by simp)
          have hDx' := hD x' (by simp [hx'])
          have := hk.trans x.1 y.1 x'.1 hDx hDy hDx' hh (hk.symm x'.1 y.1 hDx' hDy hk')
          have hne := hnd.1 x'.1 (by simp only [List.mem_map]; exact ⟨x', hx', rfl⟩)
          rw [this] at hne; cases hne
      rw [hhead, ← ihr]; simp [Option.or]
    | none =>
      simp only [hf, Option.none_or] at ihr ⊢
      rw [← ihr]
      simp only [List.find?_cons, List.find?_nil, Bool.or_false]
      rw [e1, e2]
      cases wr wk wy.1 <;> simp

end transfer2


/-! ### structs -/

theorem all_congr' {α : Type} {l : List α} {f g : α → Bool} (h : ∀ x ∈ l, f x = g x) : l.all f = l.all g := by
  induction l with
  | nil => rfl
  | cons x xs ih =>
    simp only [List.all_cons]
    rw [h x (by simp), ih (fun y hy => h y (by simp [hy]))]

theorem lookupLast_cons_ne (id i : UInt16) (v : WValue) (rest : List (UInt16 × WValue)) (h : i ≠ id) :
    lookupLast id ((i, v) :: rest) = lookupLast id rest := by
  simp only [lookupLast]
  cases lookupLast id rest with
  | some w => rfl
  | none => simp [h]

theorem lookupLast_none (id : UInt16) (l : List (UInt16 × WValue)) (h : ∀ p ∈ l, p.1 ≠ id) :
    lookupLast id l = none := by
  induction l with
  | nil => rfl
  | cons p l ih =>
    obtain ⟨i, v⟩ := p
    rw [lookupLast_cons_ne id i v l (h (i, v) (by simp))]
    exact ih (fun q hq => h q (by simp [hq]))

theorem lookupLast_cons_self (id : UInt16) (v : WValue) (rest : List (UInt16 × WValue))
    (h : ∀ p ∈ rest, p.1 ≠ id) : lookupLast id ((id, v) :: rest) = some v := by
  simp [lookupLast, lookupLast_none id rest h]

/-- emission of a decoded field: nothing for nil, the value otherwise. -/
theorem fieldEmit_decoded (dv : Ty → GVal → Bool) (f : Field) (g : GVal)
    (h : (if g.isNil then !f.req && f.dflt.isNone else dv f.ty g) = true) :
    fieldEmit f g = .ok (if g.isNil then none else some g) := by
  unfold fieldEmit
  cases hn : g.isNil with
  | true =>
    simp only [hn, if_true, Bool.and_eq_true, Bool.not_eq_true', Option.isNone_iff_eq_none] at h
    simp [h.1, h.2, hn]
  | false =>
    by_cases hr : f.req = true
    · simp [hr, hn]
    · cases hd : f.dflt <;> simp [hr, hd, hn]

section structs
variable (tw : Ty → GVal → Res WValue) (dv : Ty → GVal → Bool)

/-- every emitted entry carries the identifier of a schema field. -/
theorem toWireFields_ids : ∀ (fs : List Field) (gs : List GVal) (ws : List (UInt16 × WValue)),
    toWireFields tw fs gs = .ok ws → ∀ p ∈ ws, ∃ f ∈ fs, f.id = p.1 := by
  intro fs
  induction fs with
  | nil => intro gs ws h p hp; cases gs <;> simp [toWireFields] at h <;> subst h <;> cases hp
  | cons f fs ih =>
    intro gs ws h p hp
    cases gs with
    | nil => simp [toWireFields] at h; subst h; cases hp
    | cons g gs =>
      simp only [toWireFields] at h
      cases he : fieldEmit f g with
      | error e => simp [he] at h
      | ok o =>
        cases o with
        | none =>
          simp only [he] at h
          obtain ⟨f', hf', hid⟩ := ih gs ws h p hp
          exact ⟨f', by simp [hf'], hid⟩
        | some g' =>
          simp only [he] at h
          cases ht : tw f.ty g' with
          | error e => simp [ht] at h
          | ok w =>
            simp only [ht] at h
            cases hr : toWireFields tw fs gs with
            | error e => simp [hr] at h
            | ok rest =>
              simp only [hr, Except.ok.injEq] at h
              subst h
              simp only [List.mem_cons] at hp
              rcases hp with rfl | hp
              · exact ⟨f, by simp, rfl⟩
              · obtain ⟨f', hf', hid⟩ := ih gs rest hr p hp
                exact ⟨f', by simp [hf'], hid⟩

/-- positionwise: a set field on the left has a set, equal field on the right. -/
def relLe (eq : Ty → GVal → GVal → Bool) : List Field → List GVal → List GVal → Bool
  | f :: fs, a :: as, b :: bs => (a.isNil || (!b.isNil && eq f.ty a b)) && relLe eq fs as bs
  | _, _, _ => true

def countSetG (gs : List GVal) : Nat := (gs.filter (!·.isNil)).length

/-- the struct comparison of `wire.ValuesAreEqual`, without the length test. -/
def wireFieldsLe (wr : WValue → WValue → Bool) (wa wb : List (UInt16 × WValue)) : Bool :=
  wa.all fun f =>
    match lookupLast f.1 wa, lookupLast f.1 wb with
    | some lv, some rv => wr lv rv
    | _, _ => false

theorem toWireFields_len' : ∀ (fs : List Field) (gs : List GVal) (ws : List (UInt16 × WValue)),
    decodedFields dv fs gs = true → toWireFields tw fs gs = .ok ws → ws.length = countSetG gs := by
  intro fs
  induction fs with
  | nil => intro gs ws hd h; cases gs <;> simp [toWireFields] at h <;> subst h <;> simp [countSetG, decodedFields] at *
  | cons f fs ih =>
    intro gs ws hd h
    cases gs with
    | nil => simp [decodedFields] at hd
    | cons g gs =>
      simp only [decodedFields, Bool.and_eq_true] at hd
      simp only [toWireFields, fieldEmit_decoded dv f g hd.1] at h
      cases hn : g.isNil with
      | true =>
        simp only [hn, ↓reduceIte] at h
        have := ih gs ws hd.2 h
        simp only [countSetG, List.filter_cons, hn, Bool.not_true] at this ⊢
        simpa using this
      | false =>
        simp only [hn, Bool.false_eq_true, ↓reduceIte] at h
        cases ht : tw f.ty g with
        | error e => simp [ht] at h
        | ok w =>
          simp only [ht] at h
          cases hr : toWireFields tw fs gs with
          | error e => simp [hr] at h
          | ok rest =>
            simp only [hr, Except.ok.injEq] at h
            subst h
            have := ih gs rest hd.2 hr
            simp only [countSetG, List.filter_cons, hn, Bool.not_false, if_true, List.length_cons] at this ⊢
            omega

/-- how the field loop unfolds on a decoded field. -/
theorem toWireFields_cons_decoded (f : Field) (fs : List Field) (g : GVal) (gs : List GVal)
    (ws : List (UInt16 × WValue))
    (hd : (if g.isNil then !f.req && f.dflt.isNone else dv f.ty g) = true)
    (h : toWireFields tw (f :: fs) (g :: gs) = .ok ws) :
    (g.isNil = true ∧ toWireFields tw fs gs = .ok ws) ∨
    (g.isNil = false ∧ ∃ w rest, tw f.ty g = .ok w ∧ toWireFields tw fs gs = .ok rest ∧ ws = (f.id, w) :: rest) := by
  simp only [toWireFields, fieldEmit_decoded dv f g hd] at h
  cases hn : g.isNil with
  | true =>
    simp only [hn, ↓reduceIte] at h
    exact Or.inl ⟨rfl, h⟩
  | false =>
    simp only [hn, Bool.false_eq_true, ↓reduceIte] at h
    cases ht : tw f.ty g with
    | error e => simp [ht] at h
    | ok w =>
      simp only [ht] at h
      cases hr : toWireFields tw fs gs with
      | error e => simp [hr] at h
      | ok rest =>
        simp only [hr, Except.ok.injEq] at h
        exact Or.inr ⟨rfl, w, rest, rfl, rfl, h.symm⟩

theorem wireFieldsLe_cons_left (wr : WValue → WValue → Bool) (id : UInt16) (w : WValue)
    (wa wb : List (UInt16 × WValue)) (hfa : ∀ p ∈ wa, p.1 ≠ id) :
    wireFieldsLe wr ((id, w) :: wa) wb =
      ((match lookupLast id wb with | some rv => wr w rv | none => false) &&
        wa.all fun f => match lookupLast f.1 wa, lookupLast f.1 wb with
          | some lv, some rv => wr lv rv
          | _, _ => false) := by
  unfold wireFieldsLe
  simp only [List.all_cons, lookupLast_cons_self id w wa hfa]
  congr 1
  · cases lookupLast id wb <;> rfl
  · apply all_congr'
    intro p hp
    rw [lookupLast_cons_ne p.1 id w wa (fun h => hfa p hp h.symm)]

theorem wireFieldsLe_cons_right (wr : WValue → WValue → Bool) (id : UInt16) (w : WValue)
    (wa wb : List (UInt16 × WValue)) (hfa : ∀ p ∈ wa, p.1 ≠ id) :
    wireFieldsLe wr wa ((id, w) :: wb) = wireFieldsLe wr wa wb := by
  unfold wireFieldsLe
  apply all_congr'
  intro p hp
  rw [lookupLast_cons_ne p.1 id w wb (fun h => hfa p hp h.symm)]

/-- the struct loop of `wire.ValuesAreEqual` on two `ToWire` images says: every field set on the
left is set on the right to an equal value. -/
theorem wireFieldsLe_eq_relLe (eq : Ty → GVal → GVal → Bool) (wr : WValue → WValue → Bool) :
    ∀ (fs : List Field) (as bs : List GVal) (wa wb : List (UInt16 × WValue)),
      idsDistinct fs = true → decodedFields dv fs as = true → decodedFields dv fs bs = true →
      toWireFields tw fs as = .ok wa → toWireFields tw fs bs = .ok wb →
      (∀ f ∈ fs, ∀ a b va vb, dv f.ty a = true → dv f.ty b = true → tw f.ty a = .ok va → tw f.ty b = .ok vb →
        eq f.ty a b = wr va vb) →
      wireFieldsLe wr wa wb = relLe eq fs as bs := by
  intro fs
  induction fs with
  | nil =>
    intro as bs wa wb _ hda hdb ha hb _
    cases as <;> simp [toWireFields] at ha <;> subst ha <;> simp [wireFieldsLe, relLe]
  | cons f fs ih =>
    intro as bs wa wb hids hda hdb ha hb H
    cases as with
    | nil => simp [decodedFields] at hda
    | cons a as =>
      cases bs with
      | nil => simp [decodedFields] at hdb
      | cons b bs =>
        simp only [decodedFields, Bool.and_eq_true] at hda hdb
        simp only [idsDistinct] at hids
        rw [pairwiseNot_iff] at hids
        have hfresh : ∀ (gs : List GVal) (ws : List (UInt16 × WValue)), toWireFields tw fs gs = .ok ws →
            ∀ p ∈ ws, p.1 ≠ f.id := by
          intro gs ws hws p hp
          obtain ⟨f', hf', hid⟩ := toWireFields_ids tw fs gs ws hws p hp
          have := hids.1 f' hf'
          intro heq
          rw [← hid] at heq
          simp [heq] at this
        have H' : ∀ f' ∈ fs, ∀ a b va vb, dv f'.ty a = true → dv f'.ty b = true → tw f'.ty a = .ok va →
            tw f'.ty b = .ok vb → eq f'.ty a b = wr va vb := fun f' hf' => H f' (by simp [hf'])
        rcases toWireFields_cons_decoded tw dv f fs a as wa hda.1 ha with ⟨hna, hta⟩ | ⟨hna, va, ra, htva, hta, rfl⟩
        · -- left field unset
          rcases toWireFields_cons_decoded tw dv f fs b bs wb hdb.1 hb with ⟨hnb, htb⟩ | ⟨hnb, vb, rb, htvb, htb, rfl⟩
          · simp only [relLe, hna, Bool.true_or, Bool.true_and]
            exact ih as bs wa wb hids.2 hda.2 hdb.2 hta htb H'
          · simp only [relLe, hna, Bool.true_or, Bool.true_and]
            rw [wireFieldsLe_cons_right wr f.id vb wa rb (hfresh as wa hta)]
            exact ih as bs wa rb hids.2 hda.2 hdb.2 hta htb H'
        · -- left field set
          rw [wireFieldsLe_cons_left wr f.id va ra wb (hfresh as ra hta)]
          rcases toWireFields_cons_decoded tw dv f fs b bs wb hdb.1 hb with ⟨hnb, htb⟩ | ⟨hnb, vb, rb, htvb, htb, rfl⟩
          · -- right field unset: the identifier is not on the right at all
            rw [lookupLast_none f.id wb (hfresh bs wb htb)]
            simp [relLe, hna, hnb]
          · rw [lookupLast_cons_self f.id vb rb (hfresh bs rb htb)]
            have hda1 : dv f.ty a = true := by simpa [hna] using hda.1
            have hdb1 : dv f.ty b = true := by simpa [hnb] using hdb.1
            have hhead := H f (by simp) a b va vb hda1 hdb1 htva htvb
            have htail := ih as bs ra rb hids.2 hda.2 hdb.2 hta htb H'
            have hcongr : (ra.all fun p => match lookupLast p.1 ra, lookupLast p.1 ((f.id, vb) :: rb) with
                | some lv, some rv => wr lv rv
                | _, _ => false) = wireFieldsLe wr ra rb := by
              unfold wireFieldsLe
              apply all_congr'
              intro p hp
              rw [lookupLast_cons_ne p.1 f.id vb rb (fun h => hfresh as ra hta p hp h.symm)]
            simp only [relLe, hna, hnb, Bool.false_or, Bool.not_false, Bool.true_and]
            rw [hcongr, htail, hhead]

/-- the identifiers `ToWire` emits for a struct with pairwise different field identifiers are
pairwise different: the size of the field map is the number of entries. -/
theorem toWireFields_distinct : ∀ (fs : List Field) (gs : List GVal) (ws : List (UInt16 × WValue)),
    idsDistinct fs = true → decodedFields dv fs gs = true → toWireFields tw fs gs = .ok ws →
    distinctIds ws = ws.length := by
  intro fs
  induction fs with
  | nil => intro gs ws _ hd h; cases gs <;> simp [toWireFields] at h <;> subst h <;> rfl
  | cons f fs ih =>
    intro gs ws hids hd h
    cases gs with
    | nil => simp [decodedFields] at hd
    | cons g gs =>
      simp only [decodedFields, Bool.and_eq_true] at hd
      simp only [idsDistinct] at hids
      rw [pairwiseNot_iff] at hids
      rcases toWireFields_cons_decoded tw dv f fs g gs ws hd.1 h with ⟨_, ht⟩ | ⟨_, w, rest, _, ht, rfl⟩
      · exact ih gs ws hids.2 hd.2 ht
      · have hfresh : rest.any (fun p => p.1 == f.id) = false := by
          rw [List.any_eq_false]
          intro p hp
          obtain ⟨f', hf', hid⟩ := toWireFields_ids tw fs gs rest ht p hp
          have := hids.1 f' hf'
          intro heq
          simp only [beq_iff_eq] at heq
          rw [← hid] at heq
          simp [heq] at this
        simp only [distinctIds, hfresh, Bool.false_eq_true, ↓reduceIte, List.length_cons]
        rw [ih gs rest hids.2 hd.2 ht]; omega

/-- "set on the left ⇒ set and equal on the right" plus equally many set fields is the generated
field-by-field comparison. -/
theorem countSetG_cons (a : GVal) (as : List GVal) :
    countSetG (a :: as) = (if a.isNil then 0 else 1) + countSetG as := by
  cases h : a.isNil <;> simp [countSetG, List.filter_cons, h] <;> omega

theorem relLe_count (eq : Ty → GVal → GVal → Bool) :
    ∀ (fs : List Field) (as bs : List GVal),
      decodedFields dv fs as = true → decodedFields dv fs bs = true →
      relLe eq fs as bs = true → countSetG as ≤ countSetG bs ∧
        (countSetG as = countSetG bs → fieldsEq eq fs as bs = true) := by
  intro fs
  induction fs with
  | nil => intro as bs hda hdb _; cases as <;> cases bs <;> simp [decodedFields, countSetG, fieldsEq] at *
  | cons f fs ih =>
    intro as bs hda hdb h
    cases as with
    | nil => simp [decodedFields] at hda
    | cons a as =>
      cases bs with
      | nil => simp [decodedFields] at hdb
      | cons b bs =>
        simp only [decodedFields, Bool.and_eq_true] at hda hdb
        simp only [relLe, Bool.and_eq_true] at h
        obtain ⟨ih1, ih2⟩ := ih as bs hda.2 hdb.2 h.2
        rw [countSetG_cons a as, countSetG_cons b bs]
        cases hna : a.isNil <;> cases hnb : b.isNil
        · -- both set
          have heq : eq f.ty a b = true := by simpa [hna, hnb] using h.1
          refine ⟨by simp; omega, fun hc => ?_⟩
          have hc' : countSetG as = countSetG bs := by simp at hc; omega
          simp only [fieldsEq, fieldEq, hna, hnb, heq, Bool.and_eq_true]
          exact ⟨by cases f.req <;> simp, ih2 hc'⟩
        · -- left set, right unset: excluded by relLe
          simp [hna, hnb] at h
        · -- left unset, right set: counts differ
          refine ⟨by simp; omega, fun hc => ?_⟩
          simp at hc
          omega
        · -- both unset
          refine ⟨by simpa using ih1, fun hc => ?_⟩
          have hreq : f.req = false := by
            have := hda.1
            simp only [hna, if_true, Bool.and_eq_true, Bool.not_eq_true'] at this
            exact this.1
          simp only [fieldsEq, fieldEq, hna, hnb, hreq, Bool.and_eq_true]
          exact ⟨by simp, ih2 (by simpa using hc)⟩

theorem fieldsEq_relLe (eq : Ty → GVal → GVal → Bool) :
    ∀ (fs : List Field) (as bs : List GVal),
      decodedFields dv fs as = true → decodedFields dv fs bs = true →
      fieldsEq eq fs as bs = true → relLe eq fs as bs = true ∧ countSetG as = countSetG bs := by
  intro fs
  induction fs with
  | nil => intro as bs hda hdb _; cases as <;> cases bs <;> simp [decodedFields, countSetG, relLe] at *
  | cons f fs ih =>
    intro as bs hda hdb h
    cases as with
    | nil => simp [decodedFields] at hda
    | cons a as =>
      cases bs with
      | nil => simp [decodedFields] at hdb
      | cons b bs =>
        simp only [decodedFields, Bool.and_eq_true] at hda hdb
        simp only [fieldsEq, Bool.and_eq_true] at h
        obtain ⟨ih1, ih2⟩ := ih as bs hda.2 hdb.2 h.2
        have hfe := h.1
        cases hna : a.isNil <;> cases hnb : b.isNil
        · have heq : eq f.ty a b = true := by
            unfold fieldEq at hfe
            cases hr : f.req <;> simpa [hr, hna, hnb] using hfe
          refine ⟨by simp [relLe, hna, hnb, heq, ih1], ?_⟩
          rw [countSetG_cons, countSetG_cons]; simp [hna, hnb, ih2]
        · exfalso
          have hreq : f.req = false := by
            have := hdb.1
            simp only [hnb, if_true, Bool.and_eq_true, Bool.not_eq_true'] at this
            exact this.1
          unfold fieldEq at hfe
          simp [hreq, hna, hnb] at hfe
        · exfalso
          have hreq : f.req = false := by
            have := hda.1
            simp only [hna, if_true, Bool.and_eq_true, Bool.not_eq_true'] at this
            exact this.1
          unfold fieldEq at hfe
          simp [hreq, hna, hnb] at hfe
        · refine ⟨by simp [relLe, hna, ih1], ?_⟩
          rw [countSetG_cons, countSetG_cons]; simp [hna, hnb, ih2]

end structs


/-! ### the container cases -/

section cases
variable (env : Env) (fuel : Nat)

/-- the element serialiser used inside container loops. -/
abbrev etw (e : Ty) : GVal → Res WValue :=
  fun x => if elemNilBad e x = true then Except.error Err.bad else toWire env fuel e x

variable (ih : ∀ (t : Ty) (a b : GVal) (wa wb : WValue),
      decodedV env fuel t a = true → decodedV env fuel t b = true →
      toWire env fuel t a = .ok wa → toWire env fuel t b = .ok wb →
      equalsG env fuel t a b = wireEq fuel wa wb)

include ih in
theorem elem_pointwise (e : Ty) (x y : GVal) (wx wy : WValue)
    (hx : decodedV env fuel e x = true) (hy : decodedV env fuel e y = true)
    (h1 : etw env fuel e x = .ok wx) (h2 : etw env fuel e y = .ok wy) :
    equalsG env fuel e x y = wireEq fuel wx wy := by
  simp only [etw, elemTw_decoded env fuel e x hx] at h1
  simp only [etw, elemTw_decoded env fuel e y hy] at h2
  exact ih e x y wx wy hx hy h1 h2

include ih in
theorem list_case (e : Ty) (xs ys : List GVal) (wxs wys : List WValue)
    (hdx : ∀ x ∈ xs, decodedV env fuel e x = true) (hdy : ∀ y ∈ ys, decodedV env fuel e y = true)
    (hx : mapRes (etw env fuel e) xs = .ok wxs) (hy : mapRes (etw env fuel e) ys = .ok wys) :
    allPairwise (equalsG env fuel e) xs ys =
      (wxs.length == wys.length && (List.zip wxs wys).all fun p => wireEq fuel p.1 p.2) :=
  allPairwise_transfer (etw env fuel e) (equalsG env fuel e) (wireEq fuel) xs ys wxs wys hx hy
    (fun x hxm y hym wx wy h1 h2 => elem_pointwise env fuel ih e x y wx wy (hdx x hxm) (hdy y hym) h1 h2)

include ih in
theorem setPrim_case (e : Ty) (hp : e.isPrim = true) (xs ys : List GVal) (wxs wys : List WValue)
    (hdx : ∀ x ∈ xs, decodedV env fuel e x = true) (hdy : ∀ y ∈ ys, decodedV env fuel e y = true)
    (hx : mapRes (etw env fuel e) xs = .ok wxs) (hy : mapRes (etw env fuel e) ys = .ok wys) :
    (xs.length == ys.length && subR keyEqFlip ys xs) =
      (wxs.length == wys.length && wys.all fun y => wxs.any fun x => wireEq fuel x y) := by
  rw [subR_keyEqFlip, mapRes_len' _ hx, mapRes_len' _ hy]
  congr 1
  unfold allHave
  apply allAny_transfer (etw env fuel e) keyEq (wireEq fuel) ys wys xs wxs hy hx
  intro x hxm y hym wx wy h1 h2
  obtain ⟨f, rfl⟩ := decodedV_fuel_pos (hdx x hxm)
  rw [← equalsG_prim env f e hp x y]
  exact elem_pointwise env (f + 1) ih e x y wx wy (hdx x hxm) (hdy y hym) h1 h2

include ih in
theorem setSlice_case (e : Ty) (xs ys : List GVal) (wxs wys : List WValue)
    (hdx : ∀ x ∈ xs, decodedV env fuel e x = true) (hdy : ∀ y ∈ ys, decodedV env fuel e y = true)
    (hnx : pairwiseNot (equalsG env fuel e) xs = true) (hny : pairwiseNot (equalsG env fuel e) ys = true)
    (hx : mapRes (etw env fuel e) xs = .ok wxs) (hy : mapRes (etw env fuel e) ys = .ok wys) :
    (xs.length == ys.length && subR (equalsG env fuel e) xs ys) =
      (wxs.length == wys.length && wys.all fun y => wxs.any fun x => wireEq fuel x y) := by
  rw [mapRes_len' _ hx, mapRes_len' _ hy]
  cases hl : (xs.length == ys.length) with
  | false => simp
  | true =>
    simp only [Bool.true_and]
    rw [subR_eq_allHave (Dom env fuel e) (equalsG env fuel e) (equalsG_equivOn env fuel e) xs ys hdx hdy hnx hny
      (by simpa using hl)]
    unfold allHave
    apply allAny_transfer (etw env fuel e) (equalsG env fuel e) (wireEq fuel) ys wys xs wxs hy hx
    intro x hxm y hym wx wy h1 h2
    exact elem_pointwise env fuel ih e x y wx wy (hdx x hxm) (hdy y hym) h1 h2

theorem all2_transfer (fk fv : GVal → Res WValue) (P : GVal × GVal → Bool) (Q : WValue × WValue → Bool) :
    ∀ (ys : List (GVal × GVal)) (wys : List (WValue × WValue)), mapRes2 fk fv ys = .ok wys →
      (∀ y ∈ ys, ∀ wk wv, fk y.1 = .ok wk → fv y.2 = .ok wv → P y = Q (wk, wv)) →
      ys.all P = wys.all Q := by
  intro ys
  induction ys with
  | nil => intro wys h _; simp [mapRes2] at h; subst h; rfl
  | cons y ys ih2 =>
    intro wys h hr
    obtain ⟨wk, wv, ws', h1, h2, hrest, rfl⟩ := mapRes2_cons_ok fk fv h
    simp only [List.all_cons]
    rw [hr y (by simp) wk wv h1 h2, ih2 ws' hrest (fun y' hy' => hr y' (by simp [hy']))]

theorem wHashable_of_isPrim (k : Ty) (hp : k.isPrim = true) : wHashable k.code = true := by
  unfold Ty.isPrim at hp
  unfold Ty.code
  generalize k.root = r at hp ⊢
  cases r <;> simp_all [wHashable]

/-- the map comparison of `wire.ValuesAreEqual` on two images, in canonical form — whichever of
its two loops the key type selects. -/
theorem wireMap_canonical (k v : Ty) (rk : GVal → GVal → Bool) (hk : EquivOn (Dom env fuel k) rk)
    (a b : List (GVal × GVal)) (wa wb : List (WValue × WValue))
    (hda : ∀ x ∈ a, decodedV env fuel k x.1 = true ∧ decodedV env fuel v x.2 = true)
    (hdb : ∀ y ∈ b, decodedV env fuel k y.1 = true ∧ decodedV env fuel v y.2 = true)
    (hna : pairwiseNot rk (a.map (·.1)) = true)
    (hrk : ∀ x ∈ a, ∀ y ∈ b, ∀ wx wy, etw env fuel k x.1 = .ok wx → etw env fuel k y.1 = .ok wy →
      rk x.1 y.1 = wireEq fuel wx wy)
    (hrv : ∀ x ∈ a, ∀ y ∈ b, ∀ wx wy, etw env fuel v x.2 = .ok wx → etw env fuel v y.2 = .ok wy →
      equalsG env fuel v x.2 y.2 = wireEq fuel wx wy)
    (hx : mapRes2 (etw env fuel k) (etw env fuel v) a = .ok wa)
    (hy : mapRes2 (etw env fuel k) (etw env fuel v) b = .ok wb) :
    (if wHashable k.code then
        wb.all fun y =>
          match (wa.reverse.find? fun x => wireEq fuel x.1 y.1) with
          | some x => wireEq fuel x.2 y.2
          | none => false
      else
        wb.all fun y => wa.any fun x => wireEq fuel x.1 y.1 && wireEq fuel x.2 y.2) =
    allHaveKV rk (equalsG env fuel v) a b := by
  unfold allHaveKV
  cases wHashable k.code with
  | true =>
    simp only [if_true]
    symm
    apply all2_transfer (etw env fuel k) (etw env fuel v) _ _ b wb hy
    intro y hym wk wv h1 h2
    symm
    exact lastMatch_transfer (etw env fuel k) (etw env fuel v) rk (equalsG env fuel v) (wireEq fuel)
      (Dom env fuel k) hk y (wk, wv) (hdb y hym).1 a wa hx (fun x hxm => (hda x hxm).1) hna
      (fun x hxm wk' wv' h3 h4 => ⟨hrk x hxm y hym wk' wk h3 h1, hrv x hxm y hym wv' wv h4 h2⟩)
  | false =>
    simp only [Bool.false_eq_true, if_false]
    symm
    apply all2_transfer (etw env fuel k) (etw env fuel v) _ _ b wb hy
    intro y hym wk wv h1 h2
    exact anyKV_transfer (etw env fuel k) (etw env fuel v) rk (equalsG env fuel v) (wireEq fuel) y (wk, wv) a wa hx
      (fun x hxm wk' wv' h3 h4 => ⟨hrk x hxm y hym wk' wk h3 h1, hrv x hxm y hym wv' wv h4 h2⟩)


include ih in
theorem map_case (k v : Ty) (hprim : Bool) (hh : hprim = k.isPrim)
    (a b : List (GVal × GVal)) (wa wb : List (WValue × WValue))
    (hda : ∀ x ∈ a, decodedV env fuel k x.1 = true ∧ decodedV env fuel v x.2 = true)
    (hdb : ∀ y ∈ b, decodedV env fuel k y.1 = true ∧ decodedV env fuel v y.2 = true)
    (hna : (if hprim then pairwiseNot keyEq (a.map (·.1)) else pairwiseNot (equalsG env fuel k) (a.map (·.1))) = true)
    (hnb : (if hprim then pairwiseNot keyEq (b.map (·.1)) else pairwiseNot (equalsG env fuel k) (b.map (·.1))) = true)
    (hx : mapRes2 (etw env fuel k) (etw env fuel v) a = .ok wa)
    (hy : mapRes2 (etw env fuel k) (etw env fuel v) b = .ok wb) :
    (if k.isPrim then
        a.length == b.length && mapSub keyEqFlip (equalsG env fuel v) a b
      else
        a.length == b.length && mapSub (equalsG env fuel k) (equalsG env fuel v) a b) =
    (wa.length == wb.length &&
      if wHashable k.code then
        wb.all fun y =>
          match (wa.reverse.find? fun x => wireEq fuel x.1 y.1) with
          | some x => wireEq fuel x.2 y.2
          | none => false
      else
        wb.all fun y => wa.any fun x => wireEq fuel x.1 y.1 && wireEq fuel x.2 y.2) := by
  rw [mapRes2_len' _ _ hx, mapRes2_len' _ _ hy]
  have hv := equalsG_equivOn env fuel v
  have hrv : ∀ x ∈ a, ∀ y ∈ b, ∀ wx wy, etw env fuel v x.2 = .ok wx → etw env fuel v y.2 = .ok wy →
      equalsG env fuel v x.2 y.2 = wireEq fuel wx wy :=
    fun x hxm y hym wx wy h1 h2 => elem_pointwise env fuel ih v x.2 y.2 wx wy (hda x hxm).2 (hdb y hym).2 h1 h2
  cases hp : k.isPrim with
  | true =>
    rw [hp] at hh; subst hh
    simp only [if_true] at hna hnb ⊢
    rw [keyEqFlip_eq]
    have hk := keyEq_equivOn_decoded env fuel k hp
    have hrk : ∀ x ∈ a, ∀ y ∈ b, ∀ wx wy, etw env fuel k x.1 = .ok wx → etw env fuel k y.1 = .ok wy →
        keyEq x.1 y.1 = wireEq fuel wx wy := by
      intro x hxm y hym wx wy h1 h2
      obtain ⟨f, rfl⟩ := decodedV_fuel_pos (hda x hxm).1
      rw [← equalsG_prim env f k hp x.1 y.1]
      exact elem_pointwise env (f + 1) ih k x.1 y.1 wx wy (hda x hxm).1 (hdb y hym).1 h1 h2
    rw [wireMap_canonical env fuel k v keyEq hk a b wa wb hda hdb hna hrk hrv hx hy]
    cases hl : (a.length == b.length) with
    | false => simp
    | true =>
      simp only [Bool.true_and]
      exact mapSub_eq_allHaveKV (Dom env fuel k) (Dom env fuel v) keyEq (equalsG env fuel v) hk hv a b
        ⟨fun x hxm => (hda x hxm).1, fun x hxm => (hda x hxm).2, hna⟩
        ⟨fun y hym => (hdb y hym).1, fun y hym => (hdb y hym).2, hnb⟩ (by simpa using hl)
  | false =>
    rw [hp] at hh; subst hh
    simp only [Bool.false_eq_true, if_false] at hna hnb ⊢
    have hk := equalsG_equivOn env fuel k
    have hrk : ∀ x ∈ a, ∀ y ∈ b, ∀ wx wy, etw env fuel k x.1 = .ok wx → etw env fuel k y.1 = .ok wy →
        equalsG env fuel k x.1 y.1 = wireEq fuel wx wy :=
      fun x hxm y hym wx wy h1 h2 => elem_pointwise env fuel ih k x.1 y.1 wx wy (hda x hxm).1 (hdb y hym).1 h1 h2
    rw [wireMap_canonical env fuel k v (equalsG env fuel k) hk a b wa wb hda hdb hna hrk hrv hx hy]
    cases hl : (a.length == b.length) with
    | false => simp
    | true =>
      simp only [Bool.true_and]
      exact mapSub_eq_allHaveKV (Dom env fuel k) (Dom env fuel v) (equalsG env fuel k) (equalsG env fuel v) hk hv a b
        ⟨fun x hxm => (hda x hxm).1, fun x hxm => (hda x hxm).2, hna⟩
        ⟨fun y hym => (hdb y hym).1, fun y hym => (hdb y hym).2, hnb⟩ (by simpa using hl)

include ih in
theorem struct_case (fs : List Field) (hids : idsDistinct fs = true) (as bs : List GVal)
    (wa wb : List (UInt16 × WValue))
    (hda : decodedFields (decodedV env fuel) fs as = true) (hdb : decodedFields (decodedV env fuel) fs bs = true)
    (ha : toWireFields (toWire env fuel) fs as = .ok wa) (hb : toWireFields (toWire env fuel) fs bs = .ok wb) :
    fieldsEq (equalsG env fuel) fs as bs =
      (distinctIds wa == distinctIds wb &&
        wa.all fun f =>
          match lookupLast f.1 wa, lookupLast f.1 wb with
          | some lv, some rv => wireEq fuel lv rv
          | _, _ => false) := by
  have hle := wireFieldsLe_eq_relLe (toWire env fuel) (decodedV env fuel) (equalsG env fuel) (wireEq fuel)
    fs as bs wa wb hids hda hdb ha hb
    (fun f _ a b va vb h1 h2 h3 h4 => ih f.ty a b va vb h1 h2 h3 h4)
  unfold wireFieldsLe at hle
  rw [hle, toWireFields_distinct (toWire env fuel) (decodedV env fuel) fs as wa hids hda ha,
    toWireFields_distinct (toWire env fuel) (decodedV env fuel) fs bs wb hids hdb hb,
    toWireFields_len' (toWire env fuel) (decodedV env fuel) fs as wa hda ha,
    toWireFields_len' (toWire env fuel) (decodedV env fuel) fs bs wb hdb hb]
  apply Bool.eq_iff_iff.mpr
  constructor
  · intro h
    obtain ⟨h1, h2⟩ := fieldsEq_relLe (decodedV env fuel) (equalsG env fuel) fs as bs hda hdb h
    simp [h1, h2]
  · intro h
    simp only [Bool.and_eq_true, beq_iff_eq] at h
    exact (relLe_count (decodedV env fuel) (equalsG env fuel) fs as bs hda hdb h.2).2 h.1

end cases

/-! ### the theorem -/

/-- **C14, second clause**: on values in decoded form (NaN-free, duplicate-free sets and map keys),
generated `Equals` holds exactly when `wire.ValuesAreEqual` holds of the two `ToWire` images —
for every schema with pairwise different field identifiers, every type and every pair of values. -/
theorem equals_eq_wireEq (env : Env) (hids : WFIds env) (fuel : Nat) :
    ∀ (t : Ty) (a b : GVal) (wa wb : WValue),
      decodedV env fuel t a = true → decodedV env fuel t b = true →
      toWire env fuel t a = .ok wa → toWire env fuel t b = .ok wb →
      equalsG env fuel t a b = wireEq fuel wa wb := by
  induction fuel with
  | zero => intro t a b wa wb ha; simp [decodedV] at ha
  | succ fuel ih =>
    intro t a b wa wb ha hb hwa hwb
    unfold decodedV at ha hb
    unfold toWire at hwa hwb
    unfold equalsG
    generalize t.root = r at ha hb hwa hwb ⊢
    cases r <;> cases a <;> simp only [] at ha <;> (try (cases ha; done)) <;>
      cases b <;> simp only [] at hb <;> (try (cases hb; done))
    all_goals (try simp only [] at hwa hwb ⊢)
    case bool.bool.bool => cases hwa; cases hwb; simp [primEq, keyEq, wireEq]
    case i8.i8.i8 => cases hwa; cases hwb; simp [primEq, keyEq, wireEq]
    case i16.i16.i16 => cases hwa; cases hwb; simp [primEq, keyEq, wireEq]
    case i32.i32.i32 => cases hwa; cases hwb; simp [primEq, keyEq, wireEq]
    case i64.i64.i64 => cases hwa; cases hwb; simp [primEq, keyEq, wireEq]
    case double.double.double => cases hwa; cases hwb; simp [primEq, keyEq, wireEq, dblEq]
    case enum.i32.i32 => cases hwa; cases hwb; simp [primEq, keyEq, wireEq]
    case string.str.str => cases hwa; cases hwb; simp [primEq, keyEq, wireEq]
    case binary.bin.bin => cases hwa; cases hwb; simp [bytesOf, wireEq]
    case list.list.list e xs ys =>
      simp only [Bool.and_eq_true, List.all_eq_true] at ha hb
      cases hma : mapRes (fun x => if elemNilBad e x = true then Except.error Err.bad else toWire env fuel e x) xs with
      | error er => simp [hma] at hwa
      | ok wxs =>
        cases hmb : mapRes (fun x => if elemNilBad e x = true then Except.error Err.bad else toWire env fuel e x) ys with
        | error er => simp [hmb] at hwb
        | ok wys =>
          simp only [hma, Except.ok.injEq] at hwa
          simp only [hmb, Except.ok.injEq] at hwb
          subst hwa; subst hwb
          simp only [listOf, wireEq, beq_self_eq_true, Bool.true_and]
          exact list_case env fuel ih e xs ys wxs wys ha.2 hb.2 hma hmb
    case set.set.set e h1 xs h2 ys =>
      simp only [Bool.and_eq_true, List.all_eq_true, beq_iff_eq] at ha hb
      cases hma : mapRes (fun x => if elemNilBad e x = true then Except.error Err.bad else toWire env fuel e x) xs with
      | error er => simp [hma] at hwa
      | ok wxs =>
        cases hmb : mapRes (fun x => if elemNilBad e x = true then Except.error Err.bad else toWire env fuel e x) ys with
        | error er => simp [hmb] at hwb
        | ok wys =>
          simp only [hma, Except.ok.injEq] at hwa
          simp only [hmb, Except.ok.injEq] at hwb
          subst hwa; subst hwb
          simp only [listOf, wireEq, beq_self_eq_true, Bool.true_and]
          cases hp : e.isPrim with
          | true =>
            simp only [if_true]
            exact setPrim_case env fuel ih e hp xs ys wxs wys ha.1.2 hb.1.2 hma hmb
          | false =>
            simp only [Bool.false_eq_true, if_false]
            have h1f : h1 = false := by rw [ha.1.1.2, hp]
            have h2f : h2 = false := by rw [hb.1.1.2, hp]
            have hnx := ha.2; have hny := hb.2
            simp only [h1f, h2f, Bool.false_eq_true, if_false] at hnx hny
            exact setSlice_case env fuel ih e xs ys wxs wys ha.1.2 hb.1.2 hnx hny hma hmb
    case sset.set.set e h1 xs h2 ys =>
      simp only [Bool.and_eq_true, List.all_eq_true, beq_iff_eq] at ha hb
      cases hma : mapRes (fun x => if elemNilBad e x = true then Except.error Err.bad else toWire env fuel e x) xs with
      | error er => simp [hma] at hwa
      | ok wxs =>
        cases hmb : mapRes (fun x => if elemNilBad e x = true then Except.error Err.bad else toWire env fuel e x) ys with
        | error er => simp [hmb] at hwb
        | ok wys =>
          simp only [hma, Except.ok.injEq] at hwa
          simp only [hmb, Except.ok.injEq] at hwb
          subst hwa; subst hwb
          simp only [listOf, wireEq, beq_self_eq_true, Bool.true_and]
          exact setSlice_case env fuel ih e xs ys wxs wys ha.1.2 hb.1.2 ha.2 hb.2 hma hmb
    case map.map.map k v h1 a h2 b =>
      simp only [Bool.and_eq_true, List.all_eq_true, beq_iff_eq] at ha hb
      cases hma : mapRes2 (fun x => if elemNilBad k x = true then Except.error Err.bad else toWire env fuel k x) (fun x => if elemNilBad v x = true then Except.error Err.bad else toWire env fuel v x) a with
      | error er => simp [hma] at hwa
      | ok wa' =>
        cases hmb : mapRes2 (fun x => if elemNilBad k x = true then Except.error Err.bad else toWire env fuel k x) (fun x => if elemNilBad v x = true then Except.error Err.bad else toWire env fuel v x) b with
        | error er => simp [hmb] at hwb
        | ok wb' =>
          simp only [hma, Except.ok.injEq] at hwa
          simp only [hmb, Except.ok.injEq] at hwb
          subst hwa; subst hwb
          simp only [pairsOf, wireEq, beq_self_eq_true, Bool.true_and]
          have e12 : h2 = h1 := by rw [hb.1.1.2, ha.1.1.2]
          subst e12
          exact map_case env fuel ih k v h2 ha.1.1.2 a b wa' wb' ha.1.2 hb.1.2 ha.2 hb.2 hma hmb
    case struct.struct.struct n as bs =>
      cases hf : env.find n with
      | none => simp [hf] at ha
      | some sd =>
        simp only [hf] at ha hb hwa hwb ⊢
        cases hta : toWireFields (toWire env fuel) sd.fields as with
        | error er => simp [hta] at hwa
        | ok wa' =>
          cases htb : toWireFields (toWire env fuel) sd.fields bs with
          | error er => simp [htb] at hwb
          | ok wb' =>
            simp only [hta] at hwa
            simp only [htb] at hwb
            split at hwa
            · split at hwb
              · cases hwa; cases hwb
                simp only [wireEq]
                exact struct_case env fuel ih sd.fields (hids n sd hf) as bs wa' wb' ha hb hta htb
              · cases hwb
            · cases hwa

end ThriftVerif.Schema
