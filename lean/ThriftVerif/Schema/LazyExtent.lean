/-
M-Schema / M-Wire proofs for C13: when an UNFORCED random-access decode succeeds and ends
inside the input, every lazy container it produced declares at most as many elements as the
input has bytes — so pre-sizing from `Size()` in generated `FromWire` is bounded by N.
-/
import ThriftVerif.Schema.LazyAgree
import ThriftVerif.Wire.SkipProgress

set_option linter.unusedSimpArgs false

namespace ThriftVerif.Schema
open ThriftVerif.Wire

mutual
  /-- declared counts of the lazy containers reachable without forcing anything. -/
  def lazyCounts : LVal → List Nat
    | .struct fs => lazyCountsFields fs
    | .map _ _ n _ => [n]
    | .set _ n _ => [n]
    | .list _ n _ => [n]
    | _ => []
  def lazyCountsFields : List (UInt16 × LVal) → List Nat
    | [] => []
    | (_, v) :: fs => lazyCounts v ++ lazyCountsFields fs
end

def ExtAt (f : Nat) : Prop :=
  (∀ t s lv s', decL f t s = .ok (lv, s') → s'.2 = 0 →
      s.2 = 0 ∧ s'.1.length ≤ s.1.length ∧ ∀ c ∈ lazyCounts lv, c ≤ s.1.length) ∧
  (∀ s fs s', decFieldsL f s = .ok (fs, s') → s'.2 = 0 →
      s.2 = 0 ∧ s'.1.length ≤ s.1.length ∧ ∀ c ∈ lazyCountsFields fs, c ≤ s.1.length)

theorem stRdN_progress {k : Nat} {s a : St} {n : Nat} (h : stRdN k s = some (n, a)) :
    a.2 = s.2 ∧ a.1.length + k = s.1.length := by
  unfold stRdN at h
  split at h
  · rename_i n' r hr
    cases h
    exact ⟨rfl, (rdN_some hr).2.2⟩
  · cases h

theorem extAt (f : Nat) : ExtAt f := by
  induction f with
  | zero =>
    refine ⟨?_, ?_⟩
    · intro t s lv s' h; simp [decL] at h
    · intro s fs s' h; simp [decFieldsL] at h
  | succ f ih =>
    obtain ⟨ihV, ihF⟩ := ih
    refine ⟨?_, ?_⟩
    · intro t s lv s' h1 h0
      unfold decL at h1
      cases ht : TType.ofByte t with
      | none => simp [ht] at h1
      | some tt =>
        simp only [ht] at h1
        cases tt <;> simp only [] at h1
        case bool =>
          cases hb : stByte s with
          | none => simp [hb] at h1
          | some p =>
            obtain ⟨b, r⟩ := p
            simp only [hb] at h1
            obtain ⟨q1, q2⟩ := stByte_progress hb
            have hs' : s' = r ∧ lazyCounts lv = [] := by
              split at h1
              · cases h1; exact ⟨rfl, rfl⟩
              · split at h1
                · cases h1; exact ⟨rfl, rfl⟩
                · cases h1
            obtain ⟨rfl, hc⟩ := hs'
            exact ⟨by omega, by omega, by simp [hc]⟩
        case i8 =>
          cases hb : stByte s with
          | none => simp [hb] at h1
          | some p =>
            obtain ⟨b, r⟩ := p
            simp only [hb] at h1
            obtain ⟨q1, q2⟩ := stByte_progress hb
            cases h1
            exact ⟨by omega, by omega, by simp [lazyCounts]⟩
        case double =>
          cases hr : stRdN 8 s with
          | none => simp [hr] at h1
          | some p =>
            obtain ⟨n, r⟩ := p
            simp only [hr] at h1
            obtain ⟨q1, q2⟩ := stRdN_progress hr
            cases h1
            exact ⟨by omega, by omega, by simp [lazyCounts]⟩
        case i16 =>
          cases hr : stRdN 2 s with
          | none => simp [hr] at h1
          | some p =>
            obtain ⟨n, r⟩ := p
            simp only [hr] at h1
            obtain ⟨q1, q2⟩ := stRdN_progress hr
            cases h1
            exact ⟨by omega, by omega, by simp [lazyCounts]⟩
        case i32 =>
          cases hr : stRdN 4 s with
          | none => simp [hr] at h1
          | some p =>
            obtain ⟨n, r⟩ := p
            simp only [hr] at h1
            obtain ⟨q1, q2⟩ := stRdN_progress hr
            cases h1
            exact ⟨by omega, by omega, by simp [lazyCounts]⟩
        case i64 =>
          cases hr : stRdN 8 s with
          | none => simp [hr] at h1
          | some p =>
            obtain ⟨n, r⟩ := p
            simp only [hr] at h1
            obtain ⟨q1, q2⟩ := stRdN_progress hr
            cases h1
            exact ⟨by omega, by omega, by simp [lazyCounts]⟩
        case binary =>
          cases hl : stRdLen s with
          | none => simp [hl] at h1
          | some p =>
            obtain ⟨n, r⟩ := p
            simp only [hl] at h1
            obtain ⟨q1, q2⟩ := stRdLen_progress hl
            split at h1
            · cases h1
              simp only at h0
              refine ⟨by omega, by simp; omega, by simp [lazyCounts]⟩
            · cases h1
        case struct =>
          cases hf : decFieldsL f s with
          | error e => simp [hf] at h1
          | ok p =>
            obtain ⟨fs, r⟩ := p
            simp only [hf] at h1
            cases h1
            simpa [lazyCounts] using ihF s fs s' hf h0
        case map =>
          cases hb1 : stByte s with
          | none => simp [hb1] at h1
          | some p1 =>
            obtain ⟨kt, s1⟩ := p1
            simp only [hb1] at h1
            obtain ⟨b1, b2⟩ := stByte_progress hb1
            cases hb2 : stByte s1 with
            | none => simp [hb2] at h1
            | some p2 =>
              obtain ⟨vt, s2⟩ := p2
              simp only [hb2] at h1
              obtain ⟨c1, c2⟩ := stByte_progress hb2
              cases hl : stRdLen s2 with
              | none => simp [hl] at h1
              | some p3 =>
                obtain ⟨n, s3⟩ := p3
                simp only [hl] at h1
                obtain ⟨d1, d2⟩ := stRdLen_progress hl
                cases hsk : skipMapItems true (fuelFor s3.1) kt vt n s3 with
                | error e => simp [hsk] at h1
                | ok sEnd =>
                  simp only [hsk] at h1
                  cases h1
                  obtain ⟨e1, e2⟩ := skipMapItems_count hsk h0
                  exact ⟨by omega, by omega, by simp [lazyCounts]; omega⟩
        case set =>
          cases hb1 : stByte s with
          | none => simp [hb1] at h1
          | some p1 =>
            obtain ⟨et, s1⟩ := p1
            simp only [hb1] at h1
            obtain ⟨b1, b2⟩ := stByte_progress hb1
            cases hl : stRdLen s1 with
            | none => simp [hl] at h1
            | some p3 =>
              obtain ⟨n, s2⟩ := p3
              simp only [hl] at h1
              obtain ⟨d1, d2⟩ := stRdLen_progress hl
              cases hsk : skipListItems true (fuelFor s2.1) et n s2 with
              | error e => simp [hsk] at h1
              | ok sEnd =>
                simp only [hsk] at h1
                cases h1
                obtain ⟨e1, e2⟩ := skipListItems_count hsk h0
                exact ⟨by omega, by omega, by simp [lazyCounts]; omega⟩
        case list =>
          cases hb1 : stByte s with
          | none => simp [hb1] at h1
          | some p1 =>
            obtain ⟨et, s1⟩ := p1
            simp only [hb1] at h1
            obtain ⟨b1, b2⟩ := stByte_progress hb1
            cases hl : stRdLen s1 with
            | none => simp [hl] at h1
            | some p3 =>
              obtain ⟨n, s2⟩ := p3
              simp only [hl] at h1
              obtain ⟨d1, d2⟩ := stRdLen_progress hl
              cases hsk : skipListItems true (fuelFor s2.1) et n s2 with
              | error e => simp [hsk] at h1
              | ok sEnd =>
                simp only [hsk] at h1
                cases h1
                obtain ⟨e1, e2⟩ := skipListItems_count hsk h0
                exact ⟨by omega, by omega, by simp [lazyCounts]; omega⟩
    · intro s fs s' h1 h0
      unfold decFieldsL at h1
      cases hb : stByte s with
      | none => simp [hb] at h1
      | some p =>
        obtain ⟨t, s0⟩ := p
        simp only [hb] at h1
        obtain ⟨b1, b2⟩ := stByte_progress hb
        by_cases ht : t = 0
        · simp only [ht, if_true] at h1
          cases h1
          exact ⟨by omega, by omega, by simp [lazyCountsFields]⟩
        · simp only [ht, if_false] at h1
          cases hid : stRdN 2 s0 with
          | none => simp [hid] at h1
          | some q =>
            obtain ⟨id, s1⟩ := q
            simp only [hid] at h1
            obtain ⟨c1, c2⟩ := stRdN_progress hid
            cases hv : decL f t s1 with
            | error e => simp [hv] at h1
            | ok r =>
              obtain ⟨v, s2⟩ := r
              simp only [hv] at h1
              cases hrest : decFieldsL f s2 with
              | error e => simp [hrest] at h1
              | ok rr =>
                obtain ⟨fs', s3⟩ := rr
                simp only [hrest] at h1
                cases h1
                obtain ⟨g1, g2, g3⟩ := ihF s2 fs' _ hrest h0
                obtain ⟨k1, k2, k3⟩ := ihV t s1 v s2 hv g1
                refine ⟨by omega, by omega, ?_⟩
                intro c hc
                simp only [lazyCountsFields, List.mem_append] at hc
                rcases hc with hc | hc
                · have := k3 c hc; omega
                · have := g3 c hc; omega

/-- C13 (random-access decoder, unforced): if decoding a struct message succeeds, every lazy
container in it declares at most N elements (N = message size), however the lengths were chosen —
the struct's stop byte is always read after the unchecked seeks. -/
theorem lazy_counts_le_input (f : Nat) (bs : Bytes) (lv : LVal) (s' : St)
    (h : decL f TType.struct.code (bs, 0) = .ok (lv, s')) : ∀ c ∈ lazyCounts lv, c ≤ bs.length := by
  -- a struct decode ends by reading the stop byte, hence inside the input
  have hw := decL_wf (wf_zero bs) h
  have h0 : s'.2 = 0 := by
    cases f with
    | zero => simp [decL] at h
    | succ f =>
      unfold decL at h
      simp only [TType.ofByte_code] at h
      cases hf : decFieldsL f (bs, 0) with
      | error e => simp [hf] at h
      | ok p =>
        obtain ⟨fs, r⟩ := p
        simp only [hf] at h
        cases h
        -- decFieldsL ends with a successful stByte
        have : ∀ (k : Nat) (s : St) (fs : List (UInt16 × LVal)) (r : St),
            WFSt s → decFieldsL k s = .ok (fs, r) → r.2 = 0 := by
          intro k
          induction k with
          | zero => intro s fs r _ hh; simp [decFieldsL] at hh
          | succ k ihk =>
            intro s fs r hws hh
            unfold decFieldsL at hh
            cases hb : stByte s with
            | none => simp [hb] at hh
            | some p =>
              obtain ⟨t, s0⟩ := p
              simp only [hb] at hh
              have hwf0 := stByte_wf hb hws
              by_cases ht : t = 0
              · simp only [ht, if_true] at hh; cases hh; exact hwf0.2.2
              · simp only [ht, if_false] at hh
                cases hid : stRdN 2 s0 with
                | none => simp [hid] at hh
                | some q =>
                  obtain ⟨id, s1⟩ := q
                  simp only [hid] at hh
                  have hw1 := (stRdN_wf (by decide) hid hwf0.1).1
                  cases hv : decL k t s1 with
                  | error e => simp [hv] at hh
                  | ok rr =>
                    obtain ⟨v, s2⟩ := rr
                    simp only [hv] at hh
                    have hw2 := decL_wf hw1 hv
                    cases hrest : decFieldsL k s2 with
                    | error e => simp [hrest] at hh
                    | ok r3 =>
                      obtain ⟨fs', s3⟩ := r3
                      simp only [hrest] at hh
                      cases hh
                      exact ihk s2 fs' _ hw2 hrest
        exact this f (bs, 0) fs _ (wf_zero bs) hf
  exact ((extAt f).1 _ _ _ _ h h0).2.2

end ThriftVerif.Schema
