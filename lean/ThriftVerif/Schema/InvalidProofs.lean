/-
M-Schema proofs for C01: schema-violating values are rejected by both serialisers.
-/
import ThriftVerif.Schema.EncodeProofs
import ThriftVerif.Schema.Methods

set_option linter.unusedSimpArgs false

namespace ThriftVerif.Schema
open ThriftVerif.Wire

/-- a required reference-typed (non-list) field that is nil is reported as an error by both field loops. -/
theorem required_unset_rejected (tw : Ty → GVal → Res WValue) (en : Ty → GVal → Res (List WriteOp))
    (f : Field) (fs : List Field) (gs : List GVal)
    (hr : f.req = true) (hp : f.ty.isPrim = false) (hl : f.ty.isList = false) :
    toWireFields tw (f :: fs) (.nil :: gs) = .error .bad ∧
    encodeFields en (f :: fs) (.nil :: gs) = .error .bad := by
  simp [toWireFields, encodeFields, fieldEmit, hr, hp, hl, GVal.isNil]

theorem mapRes_error_of_mem {α β : Type} (f : α → Res β) (xs : List α) (x : α) (hx : x ∈ xs)
    (h : ∃ e, f x = .error e) : ∃ e, mapRes f xs = .error e := by
  induction xs with
  | nil => simp at hx
  | cons y ys ih =>
    simp only [List.mem_cons] at hx
    simp only [mapRes]
    cases hy : f y with
    | error e => exact ⟨e, rfl⟩
    | ok v =>
      cases hx with
      | inl hx => subst hx; obtain ⟨e, he⟩ := h; rw [he] at hy; cases hy
      | inr hx =>
        obtain ⟨e, he⟩ := ih hx
        exact ⟨e, by simp [he]⟩

/-- a nil element inside a list of reference-typed elements is rejected by `ToWire` (when the
lazily wrapped list is forced) … -/
theorem nil_element_rejected (env : Env) (fuel : Nat) (e : Ty) (xs : List GVal)
    (hp : e.isPrim = false) (hx : GVal.nil ∈ xs) :
    ∃ er, toWire env (fuel + 1) (.list e) (.list xs) = .error er := by
  have := mapRes_error_of_mem (fun x => if elemNilBad e x then Except.error Err.bad else toWire env fuel e x)
    xs .nil hx ⟨.bad, by simp [elemNilBad, hp, GVal.isNil]⟩
  obtain ⟨er, her⟩ := this
  exact ⟨er, by simp [toWire, Ty.root, her]⟩

/-- … and therefore by `Encode` as well. -/
theorem nil_element_rejected_stream (env : Env) (hwf : WFEnv env) (fuel : Nat) (e : Ty) (xs : List GVal)
    (hp : e.isPrim = false) (hx : GVal.nil ∈ xs) :
    ∃ er, encodeS env (fuel + 1) (.list e) (.list xs) = .error er := by
  obtain ⟨er, her⟩ := nil_element_rejected env fuel e xs hp hx
  exact ⟨er, by rw [encodeS_eq_toWire env hwf, her]; rfl⟩

/-- a union whose number of set members is not exactly one is rejected by both serialisers. -/
theorem union_arity_rejected (env : Env) (hwf : WFEnv env) (fuel : Nat) (n : String) (sd : StructDef)
    (gs : List GVal) (ws : List (UInt16 × WValue)) (hfind : env.find n = some sd)
    (hk : sd.kind.arity = some true) (hnonempty : sd.fields.isEmpty = false)
    (hws : toWireFields (toWire env fuel) sd.fields gs = .ok ws) (hne : ws.length ≠ 1) :
    toWire env (fuel + 1) (.struct n) (.struct gs) = .error .bad ∧
    encodeS env (fuel + 1) (.struct n) (.struct gs) = .error .bad := by
  have h1 : toWire env (fuel + 1) (.struct n) (.struct gs) = .error .bad := by
    simp [toWire, Ty.root, hfind, hws, arityOkS, hnonempty, arityOk, hk, hne]
  exact ⟨h1, by rw [encodeS_eq_toWire env hwf, h1]; rfl⟩

/-- accessors: an unset optional field reads as its declared default, else the zero value;
a set field reads as its value. -/
theorem accessor_unset (sd : StructDef) (idx : Nat) (f : Field) (gs : List GVal)
    (hf : sd.fields[idx]? = some f) (hreq : f.req = false) (hnil : (gs.getD idx .nil).isNil = true) :
    getField sd idx (.struct gs) = some (match f.dflt with | some d => d | none => zeroOf f.ty) := by
  simp only [List.getD_eq_getElem?_getD] at hnil
  simp [getField, hf, hreq, hnil]
  cases f.dflt <;> rfl

theorem accessor_set (sd : StructDef) (idx : Nat) (f : Field) (gs : List GVal)
    (hf : sd.fields[idx]? = some f) (hreq : f.req = false) (hnil : (gs.getD idx .nil).isNil = false) :
    getField sd idx (.struct gs) = some (gs.getD idx .nil) := by
  simp only [List.getD_eq_getElem?_getD] at hnil
  simp [getField, hf, hreq, hnil]

/-- the default constructor pre-populates exactly the fields that declare a default. -/
theorem default_ctor_fields (sd : StructDef) (h : sd.fields.any (·.dflt.isSome) = true) :
    defaultCtor sd = some (.struct (sd.fields.map fun f =>
      f.dflt.getD (if f.req && f.ty.isPrim then zeroOf f.ty else .nil))) := by
  simp [defaultCtor, h]

end ThriftVerif.Schema
