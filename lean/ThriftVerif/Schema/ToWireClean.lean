/-
C14: the `ToWire` image of a value in decoded form is `wclean` — the join between `equals_eq_wireEq` (generated
Equals ⇔ wire.ValuesAreEqual of the images) and the wire-level theorems of WireEquivProofs. Core-only.
-/
import ThriftVerif.Schema.EqWireProofs
import ThriftVerif.Schema.WireEquivProofs

set_option linter.unusedSimpArgs false
set_option linter.unusedVariables false

namespace ThriftVerif.Schema
open ThriftVerif.Wire

section transfer
variable (tw : GVal → Res WValue)

theorem mapRes_mem {xs : List GVal} {ws : List WValue} (h : mapRes tw xs = .ok ws) {w : WValue} (hw : w ∈ ws) :
    ∃ x ∈ xs, tw x = .ok w := by
  induction xs generalizing ws with
  | nil => simp [mapRes] at h; subst h; cases hw
  | cons x xs ih =>
    obtain ⟨w0, ws', h1, hrest, rfl⟩ := mapRes_cons_ok tw h
    simp only [List.mem_cons] at hw
    rcases hw with rfl | hw
    · exact ⟨x, by simp, h1⟩
    · obtain ⟨x', hx', h3⟩ := ih hrest hw
      exact ⟨x', by simp [hx'], h3⟩

/-- duplicate-freeness goes through `mapRes` when the relation does. -/
theorem pairwiseNot_transfer (r : GVal → GVal → Bool) (wr : WValue → WValue → Bool) :
    ∀ (xs : List GVal) (ws : List WValue), mapRes tw xs = .ok ws →
      (∀ x ∈ xs, ∀ y ∈ xs, ∀ wx wy, tw x = .ok wx → tw y = .ok wy → r x y = wr wx wy) →
      pairwiseNot r xs = true → pairwiseNot wr ws = true := by
  intro xs
  induction xs with
  | nil => intro ws h _ _; simp [mapRes] at h; subst h; rfl
  | cons x xs ih =>
    intro ws h hr hnd
    obtain ⟨w, ws', hx, hrest, rfl⟩ := mapRes_cons_ok tw h
    rw [pairwiseNot_iff] at hnd ⊢
    refine ⟨?_, ih ws' hrest (fun a ha b hb => hr a (by simp [ha]) b (by simp [hb])) hnd.2⟩
    intro wy hwy
    obtain ⟨y, hy, hty⟩ := mapRes_mem tw hrest hwy
    rw [← hr x (by simp) y (by simp [hy]) w wy hx hty]
    exact hnd.1 y hy

end transfer

section transfer2
variable (fk fv : GVal → Res WValue)

theorem pairwiseNot_transfer2 (r : GVal → GVal → Bool) (wr : WValue → WValue → Bool) :
    ∀ (xs : List (GVal × GVal)) (ws : List (WValue × WValue)), mapRes2 fk fv xs = .ok ws →
      (∀ x ∈ xs, ∀ y ∈ xs, ∀ wx wy, fk x.1 = .ok wx → fk y.1 = .ok wy → r x.1 y.1 = wr wx wy) →
      pairwiseNot r (xs.map (·.1)) = true → pairwiseNot wr (ws.map (·.1)) = true := by
  intro xs
  induction xs with
  | nil => intro ws h _ _; simp [mapRes2] at h; subst h; rfl
  | cons x xs ih =>
    intro ws h hr hnd
    obtain ⟨wk, wv, ws', hk, hv, hrest, rfl⟩ := mapRes2_cons_ok fk fv h
    simp only [List.map_cons] at hnd ⊢
    rw [pairwiseNot_iff] at hnd ⊢
    refine ⟨?_, ih ws' hrest (fun a ha b hb => hr a (by simp [ha]) b (by simp [hb])) hnd.2⟩
    intro wy hwy
    simp only [List.mem_map] at hwy
    obtain ⟨wkv, hwkv, rfl⟩ := hwy
    obtain ⟨y, hy, hty, _⟩ := mapRes2_mem fk fv hrest hwkv
    rw [← hr x (by simp) y (by simp [hy]) wk wkv.1 hk hty]
    exact hnd.1 y.1 (by simp only [List.mem_map]; exact ⟨y, hy, rfl⟩)

end transfer2

/-- every entry `ToWire` emits for a struct in decoded form is the image of a decoded field value. -/
theorem toWireFields_mem (tw : Ty → GVal → Res WValue) (dv : Ty → GVal → Bool) :
    ∀ (fs : List Field) (gs : List GVal) (ws : List (UInt16 × WValue)),
      decodedFields dv fs gs = true → toWireFields tw fs gs = .ok ws →
      ∀ p ∈ ws, ∃ f ∈ fs, ∃ g, dv f.ty g = true ∧ tw f.ty g = .ok p.2 := by
  intro fs
  induction fs with
  | nil => intro gs ws _ h p hp; cases gs <;> simp [toWireFields] at h <;> subst h <;> cases hp
  | cons f fs ih =>
    intro gs ws hd h p hp
    cases gs with
    | nil => simp [decodedFields] at hd
    | cons g gs =>
      simp only [decodedFields, Bool.and_eq_true] at hd
      rcases toWireFields_cons_decoded tw dv f fs g gs ws hd.1 h with ⟨_, ht⟩ | ⟨hn, w, rest, htw, ht, rfl⟩
      · obtain ⟨f', hf', g', h1, h2⟩ := ih gs ws hd.2 ht p hp
        exact ⟨f', by simp [hf'], g', h1, h2⟩
      · simp only [List.mem_cons] at hp
        rcases hp with rfl | hp
        · exact ⟨f, by simp, g, by simpa [hn] using hd.1, htw⟩
        · obtain ⟨f', hf', g', h1, h2⟩ := ih gs rest hd.2 ht p hp
          exact ⟨f', by simp [hf'], g', h1, h2⟩

/-- **The `ToWire` image of a value in decoded form is a clean wire value** (no NaN, no repeated set
items or map keys — at the same fuel), so the wire-level theorems about `wire.ValuesAreEqual`
(`wireEq_equivOn`, `wireEq_eq_specEq`) apply to everything generated code serialises. -/
theorem toWire_clean (env : Env) (hids : WFIds env) (fuel : Nat) :
    ∀ (t : Ty) (g : GVal) (w : WValue),
      decodedV env fuel t g = true → toWire env fuel t g = .ok w → wclean fuel w = true := by
  induction fuel with
  | zero => intro t g w h; simp [decodedV] at h
  | succ fuel ih =>
    intro t g w hd hw
    have heq := equals_eq_wireEq env hids fuel
    unfold decodedV at hd
    unfold toWire at hw
    generalize t.root = r at hd hw
    cases r <;> cases g <;> simp only [] at hd <;> (try (cases hd; done))
    all_goals (try simp only [] at hw)
    case bool.bool => cases hw; simp [wclean]
    case i8.i8 => cases hw; simp [wclean]
    case i16.i16 => cases hw; simp [wclean]
    case i32.i32 => cases hw; simp [wclean]
    case i64.i64 => cases hw; simp [wclean]
    case double.double => cases hw; simpa [wclean] using hd
    case enum.i32 => cases hw; simp [wclean]
    case string.str => cases hw; simp [wclean]
    case binary.bin => cases hw; simp [wclean]
    case list.list e xs =>
      simp only [Bool.and_eq_true, List.all_eq_true] at hd
      cases hm : mapRes (fun x => if elemNilBad e x = true then Except.error Err.bad else toWire env fuel e x) xs with
      | error er => simp [hm] at hw
      | ok ws =>
        simp only [hm, Except.ok.injEq] at hw
        subst hw
        simp only [wclean, List.all_eq_true]
        intro w hwm
        obtain ⟨x, hx, htx⟩ := mapRes_mem _ hm hwm
        rw [elemTw_decoded env fuel e x (hd.2 x hx)] at htx
        exact ih e x w (hd.2 x hx) htx
    case set.set e h xs =>
      simp only [Bool.and_eq_true, List.all_eq_true, beq_iff_eq] at hd
      cases hm : mapRes (fun x => if elemNilBad e x = true then Except.error Err.bad else toWire env fuel e x) xs with
      | error er => simp [hm] at hw
      | ok ws =>
        simp only [hm, Except.ok.injEq] at hw
        subst hw
        have hrel : ∀ x ∈ xs, ∀ y ∈ xs, ∀ wx wy,
            (if elemNilBad e x = true then Except.error Err.bad else toWire env fuel e x) = .ok wx →
            (if elemNilBad e y = true then Except.error Err.bad else toWire env fuel e y) = .ok wy →
            equalsG env fuel e x y = wireEq fuel wx wy := by
          intro x hx y hy wx wy h1 h2
          rw [elemTw_decoded env fuel e x (hd.1.2 x hx)] at h1
          rw [elemTw_decoded env fuel e y (hd.1.2 y hy)] at h2
          exact heq e x y wx wy (hd.1.2 x hx) (hd.1.2 y hy) h1 h2
        simp only [wclean, Bool.and_eq_true, List.all_eq_true]
        refine ⟨?_, ?_⟩
        · intro w hwm
          obtain ⟨x, hx, htx⟩ := mapRes_mem _ hm hwm
          rw [elemTw_decoded env fuel e x (hd.1.2 x hx)] at htx
          exact ih e x w (hd.1.2 x hx) htx
        · cases hh : h with
          | false =>
            have hnd := hd.2
            simp only [hh, Bool.false_eq_true, if_false] at hnd
            exact pairwiseNot_transfer _ (equalsG env fuel e) (wireEq fuel) xs ws hm hrel hnd
          | true =>
            have hnd := hd.2
            simp only [hh, if_true] at hnd
            have hp : e.isPrim = true := by rw [← hd.1.1.2, hh]
            refine pairwiseNot_transfer _ keyEq (wireEq fuel) xs ws hm ?_ hnd
            intro x hx y hy wx wy h1 h2
            rw [← hrel x hx y hy wx wy h1 h2]
            obtain ⟨f, hf⟩ := decodedV_fuel_pos (hd.1.2 x hx)
            rw [hf, equalsG_prim env f e hp]
    case sset.set e h xs =>
      simp only [Bool.and_eq_true, List.all_eq_true, beq_iff_eq] at hd
      cases hm : mapRes (fun x => if elemNilBad e x = true then Except.error Err.bad else toWire env fuel e x) xs with
      | error er => simp [hm] at hw
      | ok ws =>
        simp only [hm, Except.ok.injEq] at hw
        subst hw
        simp only [wclean, Bool.and_eq_true, List.all_eq_true]
        refine ⟨?_, ?_⟩
        · intro w hwm
          obtain ⟨x, hx, htx⟩ := mapRes_mem _ hm hwm
          rw [elemTw_decoded env fuel e x (hd.1.2 x hx)] at htx
          exact ih e x w (hd.1.2 x hx) htx
        · refine pairwiseNot_transfer _ (equalsG env fuel e) (wireEq fuel) xs ws hm ?_ hd.2
          intro x hx y hy wx wy h1 h2
          rw [elemTw_decoded env fuel e x (hd.1.2 x hx)] at h1
          rw [elemTw_decoded env fuel e y (hd.1.2 y hy)] at h2
          exact heq e x y wx wy (hd.1.2 x hx) (hd.1.2 y hy) h1 h2
    case map.map k v h kvs =>
      simp only [Bool.and_eq_true, List.all_eq_true, beq_iff_eq] at hd
      cases hm : mapRes2 (fun x => if elemNilBad k x = true then Except.error Err.bad else toWire env fuel k x)
          (fun x => if elemNilBad v x = true then Except.error Err.bad else toWire env fuel v x) kvs with
      | error er => simp [hm] at hw
      | ok ws =>
        simp only [hm, Except.ok.injEq] at hw
        subst hw
        have hrel : ∀ x ∈ kvs, ∀ y ∈ kvs, ∀ wx wy,
            (if elemNilBad k x.1 = true then Except.error Err.bad else toWire env fuel k x.1) = .ok wx →
            (if elemNilBad k y.1 = true then Except.error Err.bad else toWire env fuel k y.1) = .ok wy →
            equalsG env fuel k x.1 y.1 = wireEq fuel wx wy := by
          intro x hx y hy wx wy h1 h2
          rw [elemTw_decoded env fuel k x.1 (hd.1.2 x hx).1] at h1
          rw [elemTw_decoded env fuel k y.1 (hd.1.2 y hy).1] at h2
          exact heq k x.1 y.1 wx wy (hd.1.2 x hx).1 (hd.1.2 y hy).1 h1 h2
        simp only [wclean, Bool.and_eq_true, List.all_eq_true]
        refine ⟨?_, ?_⟩
        · intro w hwm
          obtain ⟨x, hx, h1, h2⟩ := mapRes2_mem _ _ hm hwm
          rw [elemTw_decoded env fuel k x.1 (hd.1.2 x hx).1] at h1
          rw [elemTw_decoded env fuel v x.2 (hd.1.2 x hx).2] at h2
          exact ⟨ih k x.1 w.1 (hd.1.2 x hx).1 h1, ih v x.2 w.2 (hd.1.2 x hx).2 h2⟩
        · cases hh : h with
          | false =>
            have hnd := hd.2
            simp only [hh, Bool.false_eq_true, if_false] at hnd
            exact pairwiseNot_transfer2 _ _ (equalsG env fuel k) (wireEq fuel) kvs ws hm hrel hnd
          | true =>
            have hnd := hd.2
            simp only [hh, if_true] at hnd
            have hp : k.isPrim = true := by rw [← hd.1.1.2, hh]
            refine pairwiseNot_transfer2 _ _ keyEq (wireEq fuel) kvs ws hm ?_ hnd
            intro x hx y hy wx wy h1 h2
            rw [← hrel x hx y hy wx wy h1 h2]
            obtain ⟨f, hf⟩ := decodedV_fuel_pos (hd.1.2 x hx).1
            rw [hf, equalsG_prim env f k hp]
    case struct.struct n gs =>
      cases hf : env.find n with
      | none => simp [hf] at hd
      | some sd =>
        simp only [hf] at hd hw
        cases ht : toWireFields (toWire env fuel) sd.fields gs with
        | error er => simp [ht] at hw
        | ok ws =>
          simp only [ht] at hw
          split at hw
          · cases hw
            simp only [wclean, List.all_eq_true]
            intro p hp
            obtain ⟨f, _, g, h1, h2⟩ := toWireFields_mem (toWire env fuel) (decodedV env fuel) sd.fields gs ws hd ht p hp
            exact ih f.ty g p.2 h1 h2
          · cases hw

end ThriftVerif.Schema
