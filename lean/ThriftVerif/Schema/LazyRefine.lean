/-
M-Schema proofs: the value path as it really runs (`valuePath`: `binary.Decode` returning
lazy containers, then generated `FromWire` forcing what it reads) accepts everything the
strict reading of the value path accepts, with the same value and the same consumed length.

Route: a strict success pins the input down as `enc w ++ rest` for a well-typed `w`
(`dec_canonical`). On such an input
  * `decL` returns `lazyOf w rest` — the lazy picture of `w`: scalars and struct fields as
    they are, a container as (header, the input from its first item onwards);
  * `fromWireL` on `lazyOf w rest` re-reads exactly the items `w` holds, so it returns what
    `fromWire` returns on `w`.

Core-only.
-/
import ThriftVerif.Schema.Lazy
import ThriftVerif.Wire.LazyProofs

set_option linter.unusedSimpArgs false

namespace ThriftVerif.Schema
open ThriftVerif.Wire

mutual
  /-- the lazily decoded form of `v` when `rest` follows its encoding. -/
  def lazyOf : WValue → Bytes → LVal
    | .bool b, _ => .bool b
    | .i8 v, _ => .i8 v
    | .double v, _ => .double v
    | .i16 v, _ => .i16 v
    | .i32 v, _ => .i32 v
    | .i64 v, _ => .i64 v
    | .binary bs, _ => .binary bs
    | .struct fs, rest => .struct (lazyFields fs rest)
    | .map kt vt is, rest => .map kt vt is.length (encItems is ++ rest, 0)
    | .set et vs, rest => .set et vs.length (encList vs ++ rest, 0)
    | .list et vs, rest => .list et vs.length (encList vs ++ rest, 0)
  def lazyFields : List (UInt16 × WValue) → Bytes → List (UInt16 × LVal)
    | [], _ => []
    | (id, v) :: fs, rest => (id, lazyOf v (encFields fs ++ rest)) :: lazyFields fs rest
end

theorem lazyOf_tcode (v : WValue) (rest : Bytes) : (lazyOf v rest).tcode = v.tcode := by
  cases v <;> rfl

/-! ### `decL` on an encoding -/

def DecLEncAt (f : Nat) : Prop :=
  (∀ v rest, v.wt = true → v.size ≤ f →
      decL f v.tcode (enc v ++ rest, 0) = .ok (lazyOf v rest, (rest, 0))) ∧
  (∀ fs rest, wtFields fs = true → sizeFields fs ≤ f →
      decFieldsL f (encFields fs ++ rest, 0) = .ok (lazyFields fs rest, (rest, 0)))

theorem stRdLen_beN0 (n : Nat) (rest : Bytes) (h : n < 2 ^ 31) :
    stRdLen (beN 4 n ++ rest, 0) = some (n, (rest, 0)) := by
  simp [stRdLen, rdLen_beN _ _ h]

theorem decLEncAt (f : Nat) : DecLEncAt f := by
  induction f with
  | zero =>
    refine ⟨?_, ?_⟩
    · intro v rest _ hf; cases v <;> simp [WValue.size] at hf
    · intro fs rest _ hf; cases fs <;> simp [sizeFields] at hf
  | succ f ih =>
    obtain ⟨ihV, ihF⟩ := ih
    refine ⟨?_, ?_⟩
    · intro v rest hwt hf
      cases v with
      | bool b => cases b <;> simp [decL, enc, lazyOf, WValue.ttype, TType.ofByte_code, stByte]
      | i8 x => simp [decL, enc, lazyOf, WValue.ttype, TType.ofByte_code, stByte]
      | double x => simp [decL, enc, lazyOf, WValue.ttype, TType.ofByte_code, stRdN, rdN_beN, u64_rt]
      | i16 x => simp [decL, enc, lazyOf, WValue.ttype, TType.ofByte_code, stRdN, rdN_beN, u16_rt]
      | i32 x => simp [decL, enc, lazyOf, WValue.ttype, TType.ofByte_code, stRdN, rdN_beN, u32_rt]
      | i64 x => simp [decL, enc, lazyOf, WValue.ttype, TType.ofByte_code, stRdN, rdN_beN, u64_rt]
      | binary bs =>
        simp only [WValue.wt, decide_eq_true_eq] at hwt
        simp [decL, enc, lazyOf, WValue.ttype, TType.ofByte_code, List.append_assoc,
          stRdLen_beN0 _ _ hwt]
      | struct fs =>
        simp only [WValue.wt] at hwt
        simp only [WValue.size] at hf
        have := ihF fs rest hwt (by omega)
        simp [decL, enc, lazyOf, WValue.ttype, TType.ofByte_code, this]
      | map kt vt is =>
        simp only [WValue.wt, Bool.and_eq_true, decide_eq_true_eq] at hwt
        have hd := decItems_enc kt vt is rest (sizeItems is) hwt.2 (Nat.le_refl _)
        have hs := skipMapItems_of_decItems hd
        simp [decL, enc, lazyOf, WValue.ttype, TType.ofByte_code, List.append_assoc, stByte,
          stRdLen_beN0 _ _ hwt.1, hs]
      | set et vs =>
        simp only [WValue.wt, Bool.and_eq_true, decide_eq_true_eq] at hwt
        have hd := decList_enc et vs rest (sizeList vs) hwt.2 (Nat.le_refl _)
        have hs := skipListItems_of_decList hd
        simp [decL, enc, lazyOf, WValue.ttype, TType.ofByte_code, List.append_assoc, stByte,
          stRdLen_beN0 _ _ hwt.1, hs]
      | list et vs =>
        simp only [WValue.wt, Bool.and_eq_true, decide_eq_true_eq] at hwt
        have hd := decList_enc et vs rest (sizeList vs) hwt.2 (Nat.le_refl _)
        have hs := skipListItems_of_decList hd
        simp [decL, enc, lazyOf, WValue.ttype, TType.ofByte_code, List.append_assoc, stByte,
          stRdLen_beN0 _ _ hwt.1, hs]
    · intro fs rest hwt hf
      match fs with
      | [] => simp [decFieldsL, encFields, lazyFields, stByte]
      | (id, v) :: fs =>
        simp only [wtFields, Bool.and_eq_true] at hwt
        simp only [sizeFields] at hf
        have h1 := ihV v (encFields fs ++ rest) hwt.1 (by omega)
        have h2 := ihF fs rest hwt.2 (by omega)
        simp [decFieldsL, encFields, lazyFields, List.append_assoc, TType.code_ne_zero, stByte,
          stRdN, rdN_beN, h1, h2, u16_rt]

/-- `decL` with any fuel that covers the value. -/
theorem decL_enc (v : WValue) (rest : Bytes) (f : Nat) (hwt : v.wt = true) (hf : v.size ≤ f) :
    decL f v.tcode (enc v ++ rest, 0) = .ok (lazyOf v rest, (rest, 0)) :=
  (decLEncAt f).1 v rest hwt hf

/-! ### forcing re-reads the items -/

/-- `ForEach` over the items of an encoded list: the re-read hands `k` the lazy picture of
each item in turn. -/
theorem forEachL_enc (F : Nat) (et : UInt8) (k : LVal → Res GVal) (c : WValue → Res GVal)
    (vs : List WValue) (rest : Bytes) (gs : List GVal)
    (hwt : wtList et vs = true) (hF : ∀ v ∈ vs, v.size ≤ F)
    (hk : ∀ v ∈ vs, v.wt = true → ∀ r g, c v = .ok g → k (lazyOf v r) = .ok g)
    (hm : mapRes c vs = .ok gs) :
    forEachL (decL F et) k vs.length (encList vs ++ rest, 0) = .ok gs := by
  induction vs generalizing gs with
  | nil => simp [mapRes] at hm; subst hm; simp [forEachL]
  | cons v vs ih =>
    simp only [wtList, Bool.and_eq_true, beq_iff_eq] at hwt
    obtain ⟨⟨hc, hv⟩, hrest⟩ := hwt
    simp only [mapRes] at hm
    cases hcv : c v with
    | error e => simp [hcv] at hm
    | ok g =>
      simp only [hcv] at hm
      cases hmr : mapRes c vs with
      | error e => simp [hmr] at hm
      | ok gs' =>
        simp only [hmr, Except.ok.injEq] at hm
        subst hm
        have hd := decL_enc v (encList vs ++ rest) F hv (hF v (by simp))
        rw [hc] at hd
        have hkv := hk v (by simp) hv (encList vs ++ rest) g hcv
        have ihr := ih gs' hrest (fun x hx => hF x (by simp [hx]))
          (fun x hx => hk x (by simp [hx])) hmr
        simp [forEachL, encList, List.append_assoc, hd, hkv, ihr]

theorem forEachKV_enc (F : Nat) (kt vt : UInt8) (kk kv : LVal → Res GVal) (ck cv : WValue → Res GVal)
    (is : List (WValue × WValue)) (rest : Bytes) (gs : List (GVal × GVal))
    (hwt : wtItems kt vt is = true) (hF : ∀ p ∈ is, p.1.size ≤ F ∧ p.2.size ≤ F)
    (hk : ∀ p ∈ is, p.1.wt = true → ∀ r g, ck p.1 = .ok g → kk (lazyOf p.1 r) = .ok g)
    (hv : ∀ p ∈ is, p.2.wt = true → ∀ r g, cv p.2 = .ok g → kv (lazyOf p.2 r) = .ok g)
    (hm : mapRes2 ck cv is = .ok gs) :
    forEachKV (decL F kt) (decL F vt) kk kv is.length (encItems is ++ rest, 0) = .ok gs := by
  induction is generalizing gs with
  | nil => simp [mapRes2] at hm; subst hm; simp [forEachKV]
  | cons p is ih =>
    obtain ⟨a, b⟩ := p
    simp only [wtItems, Bool.and_eq_true, beq_iff_eq] at hwt
    obtain ⟨⟨⟨⟨hka, hwa⟩, hkb⟩, hwb⟩, hrest⟩ := hwt
    simp only [mapRes2] at hm
    cases hca : ck a with
    | error e => simp [hca] at hm
    | ok ga =>
      simp only [hca] at hm
      cases hcb : cv b with
      | error e => simp [hcb] at hm
      | ok gb =>
        simp only [hcb] at hm
        cases hmr : mapRes2 ck cv is with
        | error e => simp [hmr] at hm
        | ok gs' =>
          simp only [hmr, Except.ok.injEq] at hm
          subst hm
          have hFa := (hF (a, b) (by simp))
          have hda := decL_enc a (enc b ++ (encItems is ++ rest)) F hwa hFa.1
          have hdb := decL_enc b (encItems is ++ rest) F hwb hFa.2
          rw [hka] at hda
          rw [hkb] at hdb
          have hkka := hk (a, b) (by simp) hwa (enc b ++ (encItems is ++ rest)) ga hca
          have hkvb := hv (a, b) (by simp) hwb (encItems is ++ rest) gb hcb
          have ihr := ih gs' hrest (fun x hx => hF x (by simp [hx]))
            (fun x hx => hk x (by simp [hx])) (fun x hx => hv x (by simp [hx])) hmr
          simp [forEachKV, encItems, List.append_assoc, hda, hdb, hkka, hkvb, ihr]

/-- every item of an encoded list fits the fuel computed from the whole remaining input. -/
theorem items_fit (vs : List WValue) (rest : Bytes) :
    ∀ v ∈ vs, v.size ≤ fuelFor (encList vs ++ rest) := by
  induction vs with
  | nil => intro v hv; cases hv
  | cons x xs ih =>
    intro v hv
    simp only [List.mem_cons] at hv
    rcases hv with rfl | hv
    · have := size_bound v
      simp [fuelFor, encList]; omega
    · have := ih v hv
      simp [fuelFor, encList] at this ⊢; omega

theorem kv_fit (is : List (WValue × WValue)) (rest : Bytes) :
    ∀ p ∈ is, p.1.size ≤ fuelFor (encItems is ++ rest) ∧ p.2.size ≤ fuelFor (encItems is ++ rest) := by
  induction is with
  | nil => intro p hp; cases hp
  | cons x xs ih =>
    intro p hp
    obtain ⟨a, b⟩ := x
    simp only [List.mem_cons] at hp
    rcases hp with rfl | hp
    · have h1 := size_bound a
      have h2 := size_bound b
      simp [fuelFor, encItems]; omega
    · have := ih p hp
      simp [fuelFor, encItems] at this ⊢; omega

/-! ### `fromWireL` on the lazy picture = `fromWire` on the value -/

theorem fromWireFieldsL_lazy (rdL : Ty → LVal → Res GVal) (rd : Ty → WValue → Res GVal)
    (fields : List Field) (fs : List (UInt16 × WValue)) (rest : Bytes) (st st' : FState)
    (hwt : wtFields fs = true)
    (hrd : ∀ t v r g, v.wt = true → rd t v = .ok g → rdL t (lazyOf v r) = .ok g)
    (h : fromWireFields rd fields fs st = .ok st') :
    fromWireFieldsL rdL fields (lazyFields fs rest) st = .ok st' := by
  induction fs generalizing st with
  | nil => simpa [fromWireFields, fromWireFieldsL, lazyFields] using h
  | cons p fs ih =>
    obtain ⟨id, v⟩ := p
    simp only [wtFields, Bool.and_eq_true] at hwt
    simp only [fromWireFields] at h
    simp only [lazyFields, fromWireFieldsL, lazyOf_tcode]
    cases hfind : fields.find? (fun f => f.id == id && f.ty.code == v.tcode) with
    | none =>
      simp only [hfind] at h
      exact ih st hwt.2 h
    | some fd =>
      simp only [hfind] at h
      cases hr : rd fd.ty v with
      | error e => simp [hr] at h
      | ok g =>
        simp only [hr] at h
        simp only [hrd fd.ty v _ g hwt.1 hr]
        exact ih _ hwt.2 h

theorem fromWireL_lazy (env : Env) (fuel : Nat) :
    ∀ (t : Ty) (v : WValue) (rest : Bytes) (g : GVal), v.wt = true →
      fromWire env fuel t v = .ok g → fromWireL env fuel t (lazyOf v rest) = .ok g := by
  induction fuel with
  | zero => intro t v rest g _ h; simp [fromWire] at h
  | succ fuel ih =>
    intro t v rest g hwt h
    simp only [fromWire] at h
    simp only [fromWireL]
    generalize t.root = r at h ⊢
    cases r <;> cases v <;> simp only [lazyOf] at * <;> try (first | exact h | (simp at h; done))
    case list.list e et vs =>
      simp only [WValue.wt, Bool.and_eq_true, decide_eq_true_eq] at hwt
      cases hc : (et != e.code) with
      | true => simpa [hc] using h
      | false =>
        simp only [hc] at h ⊢
        cases hm : mapRes (fromWire env fuel e) vs with
        | error er => simp [hm] at h
        | ok gs =>
          have := forEachL_enc (fuelFor (encList vs ++ rest)) et (fromWireL env fuel e)
            (fromWire env fuel e) vs rest gs hwt.2 (items_fit vs rest)
            (fun v _ hv r g hg => ih e v r g hv hg) hm
          simpa [hm, this] using h
    case set.set e et vs =>
      simp only [WValue.wt, Bool.and_eq_true, decide_eq_true_eq] at hwt
      cases hc : (et != e.code) with
      | true => simpa [hc] using h
      | false =>
        simp only [hc] at h ⊢
        cases hm : mapRes (fromWire env fuel e) vs with
        | error er => simp [hm] at h
        | ok gs =>
          have := forEachL_enc (fuelFor (encList vs ++ rest)) et (fromWireL env fuel e)
            (fromWire env fuel e) vs rest gs hwt.2 (items_fit vs rest)
            (fun v _ hv r g hg => ih e v r g hv hg) hm
          simpa [hm, this] using h
    case sset.set e et vs =>
      simp only [WValue.wt, Bool.and_eq_true, decide_eq_true_eq] at hwt
      cases hc : (et != e.code) with
      | true => simpa [hc] using h
      | false =>
        simp only [hc] at h ⊢
        cases hm : mapRes (fromWire env fuel e) vs with
        | error er => simp [hm] at h
        | ok gs =>
          have := forEachL_enc (fuelFor (encList vs ++ rest)) et (fromWireL env fuel e)
            (fromWire env fuel e) vs rest gs hwt.2 (items_fit vs rest)
            (fun v _ hv r g hg => ih e v r g hv hg) hm
          simpa [hm, this] using h
    case map.map k v kt vt is =>
      simp only [WValue.wt, Bool.and_eq_true, decide_eq_true_eq] at hwt
      cases hc : (kt != k.code) with
      | true => simpa [hc] using h
      | false =>
        cases hc2 : (vt != v.code) with
        | true => simpa [hc, hc2] using h
        | false =>
          simp only [hc, hc2] at h ⊢
          cases hm : mapRes2 (fromWire env fuel k) (fromWire env fuel v) is with
          | error er => simp [hm] at h
          | ok gs =>
            have := forEachKV_enc (fuelFor (encItems is ++ rest)) kt vt (fromWireL env fuel k)
              (fromWireL env fuel v) (fromWire env fuel k) (fromWire env fuel v) is rest gs hwt.2
              (kv_fit is rest) (fun p _ hp r g hg => ih k p.1 r g hp hg)
              (fun p _ hp r g hg => ih v p.2 r g hp hg) hm
            simpa [hm, this] using h
    case struct.struct n fs =>
      simp only [WValue.wt] at hwt
      cases hf : env.find n with
      | none => simp [hf] at h
      | some sd =>
        simp only [hf] at h ⊢
        cases hff : fromWireFields (fromWire env fuel) sd.fields fs (initState sd.fields) with
        | error er => simp [hff] at h
        | ok st =>
          have := fromWireFieldsL_lazy (fromWireL env fuel) (fromWire env fuel) sd.fields fs rest
            (initState sd.fields) st hwt (fun t v r g hv hg => ih t v r g hv hg) hff
          simpa [hff, this] using h

/-- **The real value path accepts what the strict reading accepts**: if the strict decoder
reads `w` from `bs` and `FromWire` on `w` gives `g`, then `binary.Decode` with lazy
containers followed by `FromWire` gives `g` as well, having consumed the same bytes. -/
theorem lazy_refines_strict (env : Env) (fuel : Nat) (t : Ty) (bs : Bytes) (w : WValue)
    (rest : Bytes) (g : GVal)
    (hd : decode t.code bs = .ok (w, rest)) (hf : fromWire env fuel t w = .ok g) :
    valuePath env fuel t bs = .ok (g, (rest, 0)) := by
  obtain ⟨h1, h2, h3⟩ := dec_canonical hd
  subst h1
  have hdl := decL_enc w rest (fuelFor (enc w ++ rest)) h3 (size_le_fuelFor w rest)
  rw [h2] at hdl
  simp [valuePath, hdl, fromWireL_lazy env fuel t w rest g h3 hf]

end ThriftVerif.Schema
