/-
M-Schema proofs (C01): a generated `FromWire` does not depend on the order in which the fields
of a struct arrive on the wire, as long as no field identifier is repeated (a repeated identifier
is "last one wins", which is order-dependent by design).

Core-only.
-/
import ThriftVerif.Schema.Read

set_option linter.unusedSimpArgs false

namespace ThriftVerif.Schema
open ThriftVerif.Wire

/-- assignments to the slots of two different identifiers commute. -/
theorem assignField_comm (a b : UInt16) (hab : a ≠ b) (ga gb : GVal) :
    ∀ (fields : List Field) (st : FState),
      assignField (fun f => f.id == a) ga fields (assignField (fun f => f.id == b) gb fields st) =
      assignField (fun f => f.id == b) gb fields (assignField (fun f => f.id == a) ga fields st) := by
  intro fields
  induction fields with
  | nil => intro st; cases st <;> rfl
  | cons f fs ih =>
    intro st
    cases st with
    | nil => rfl
    | cons s ss =>
      by_cases h1 : f.id = a
      · have h2 : ¬ f.id = b := fun h => hab (h1.symm.trans h)
        simp [assignField, h1, h2, hab]
      · by_cases h2 : f.id = b
        · simp [assignField, h1, h2, Ne.symm hab]
        · simp [assignField, h1, h2, ih ss]

/-- one step of the field loop. -/
def fieldStep (rd : Ty → WValue → Res GVal) (fields : List Field) (p : UInt16 × WValue) (st : FState) :
    Res FState :=
  match fields.find? (fun f => f.id == p.1 && f.ty.code == p.2.tcode) with
  | none => .ok st
  | some f =>
    match rd f.ty p.2 with
    | .error e => .error e
    | .ok g => .ok (assignField (fun f' => f'.id == p.1) g fields st)

def andThen (r : Res FState) (k : FState → Res FState) : Res FState :=
  match r with
  | .error e => .error e
  | .ok s => k s

theorem fromWireFields_cons (rd : Ty → WValue → Res GVal) (fields : List Field)
    (p : UInt16 × WValue) (rest : List (UInt16 × WValue)) (st : FState) :
    fromWireFields rd fields (p :: rest) st =
      andThen (fieldStep rd fields p st) (fromWireFields rd fields rest) := by
  obtain ⟨id, w⟩ := p
  simp only [fromWireFields, fieldStep, andThen]
  cases fields.find? (fun f => f.id == id && f.ty.code == w.tcode) with
  | none => rfl
  | some f =>
    simp only
    cases rd f.ty w <;> rfl

/-- two steps for different identifiers commute (as far as successful outcomes go). -/
theorem fieldStep_swap (rd : Ty → WValue → Res GVal) (fields : List Field)
    (p q : UInt16 × WValue) (hpq : p.1 ≠ q.1) (st s2 : FState)
    (h : andThen (fieldStep rd fields p st) (fieldStep rd fields q) = .ok s2) :
    andThen (fieldStep rd fields q st) (fieldStep rd fields p) = .ok s2 := by
  unfold fieldStep andThen at h ⊢
  cases hp : fields.find? (fun f => f.id == p.1 && f.ty.code == p.2.tcode) with
  | none =>
    simp only [hp] at h ⊢
    cases hq : fields.find? (fun f => f.id == q.1 && f.ty.code == q.2.tcode) with
    | none => simpa [hq] using h
    | some fq =>
      simp only [hq] at h ⊢
      cases hr : rd fq.ty q.2 with
      | error e => simp [hr] at h
      | ok gq => simpa [hr] using h
  | some fp =>
    simp only [hp] at h ⊢
    cases hrp : rd fp.ty p.2 with
    | error e => simp [hrp] at h
    | ok gp =>
      simp only [hrp] at h
      cases hq : fields.find? (fun f => f.id == q.1 && f.ty.code == q.2.tcode) with
      | none => simpa [hq, hrp] using h
      | some fq =>
        simp only [hq] at h ⊢
        cases hrq : rd fq.ty q.2 with
        | error e => simp [hrq] at h
        | ok gq =>
          simp only [hrq, Except.ok.injEq] at h
          simp only [hrp, Except.ok.injEq]
          rw [← h]
          exact assignField_comm p.1 q.1 hpq gp gq fields st

/-- **Field order is irrelevant** for the field loop of `FromWire`: on any permutation of wire
fields with pairwise different identifiers, a successful outcome is the same. -/
theorem fromWireFields_perm (rd : Ty → WValue → Res GVal) (fields : List Field)
    {l1 l2 : List (UInt16 × WValue)} (hp : l1.Perm l2)
    (hd : l1.Pairwise (fun a b => a.1 ≠ b.1)) :
    ∀ (st st' : FState), fromWireFields rd fields l1 st = .ok st' →
      fromWireFields rd fields l2 st = .ok st' := by
  induction hp with
  | nil => intro st st' h; exact h
  | cons x _ ih =>
    intro st st' h
    rw [fromWireFields_cons] at h ⊢
    cases hs : fieldStep rd fields x st with
    | error e => simp [hs, andThen] at h
    | ok s1 =>
      simp only [hs, andThen] at h ⊢
      exact ih (List.Pairwise.of_cons hd) s1 st' h
  | swap x y l =>
    intro st st' h
    have hxy : y.1 ≠ x.1 := List.rel_of_pairwise_cons hd (by simp)
    rw [fromWireFields_cons] at h ⊢
    cases hy : fieldStep rd fields y st with
    | error e => simp [hy, andThen] at h
    | ok s1 =>
      simp only [hy, andThen] at h
      rw [fromWireFields_cons] at h
      cases hx : fieldStep rd fields x s1 with
      | error e => simp [hx, andThen] at h
      | ok s2 =>
        simp only [hx, andThen] at h
        have hsw := fieldStep_swap rd fields y x hxy st s2 (by simp [hy, hx, andThen])
        cases hx' : fieldStep rd fields x st with
        | error e => simp [hx', andThen] at hsw
        | ok t1 =>
          simp only [hx', andThen] at hsw ⊢
          rw [fromWireFields_cons, hsw]
          exact h
  | trans h1 _ ih1 ih2 =>
    intro st st' h
    have hd2 := (h1.pairwise_iff (fun {a b} (hab : a.1 ≠ b.1) => Ne.symm hab)).mp hd
    exact ih2 hd2 st st' (ih1 hd st st' h)

/-- **C01, field order**: `FromWire` of a struct returns the same value for every order of the
fields on the wire (identifiers pairwise different). -/
theorem fromWire_struct_field_order (env : Env) (fuel : Nat) (n : String)
    {l1 l2 : List (UInt16 × WValue)} (hp : l1.Perm l2)
    (hd : l1.Pairwise (fun a b => a.1 ≠ b.1)) (g : GVal)
    (h : fromWire env fuel (.struct n) (.struct l1) = .ok g) :
    fromWire env fuel (.struct n) (.struct l2) = .ok g := by
  cases fuel with
  | zero => simp [fromWire] at h
  | succ fuel =>
    simp only [fromWire, Ty.root] at h ⊢
    cases hf : env.find n with
    | none => simp [hf] at h
    | some sd =>
      simp only [hf] at h ⊢
      cases hw : fromWireFields (fromWire env fuel) sd.fields l1 (initState sd.fields) with
      | error e => simp [hw] at h
      | ok st =>
        simp only [hw] at h
        simp only [fromWireFields_perm (fromWire env fuel) sd.fields hp hd _ st hw]
        exact h

end ThriftVerif.Schema
