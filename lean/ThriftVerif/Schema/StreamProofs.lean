/-
M-Schema proofs for C04/C05 (deserialisers): whenever the value path
(decode the bytes to a wire value, then generated `FromWire`) succeeds, the streaming
path (generated `Decode` over the StreamReader primitives, skipping unknown fields)
succeeds on the same bytes with the same Go value and the same consumed length.
-/
import ThriftVerif.Schema.Read
import ThriftVerif.Wire.SkipProofs
import ThriftVerif.Wire.Totality

set_option linter.unusedSimpArgs false

namespace ThriftVerif.Schema
open ThriftVerif.Wire

theorem skipElems_enc (et : UInt8) (ws : List WValue) (rest : Bytes) (h : wtList et ws = true) :
    skipElems et ws.length (encList ws ++ rest) = .ok rest := by
  unfold skipElems
  have hb := sizeList_bound ws
  have := skipN_enc false et ws rest (fuelFor (encList ws ++ rest)) h (by simp [fuelFor]; omega)
  simp [this]

theorem skipPairs_enc (kt vt : UInt8) (is : List (WValue × WValue)) (rest : Bytes)
    (h : wtItems kt vt is = true) : skipPairs kt vt is.length (encItems is ++ rest) = .ok rest := by
  unfold skipPairs
  have hb := sizeItems_bound is
  have := skipKV_enc false kt vt is rest (fuelFor (encItems is ++ rest)) h (by simp [fuelFor]; omega)
  simp [this]

theorem skipOne_enc (w : WValue) (rest : Bytes) (h : w.wt = true) :
    skipOne w.tcode (enc w ++ rest) = .ok rest := by
  unfold skipOne
  have := skip_enc false w rest (fuelFor (enc w ++ rest)) h (size_le_fuelFor w rest)
  simp [this]

/-- element loop: if every element's value path agrees with its streaming path, so do the loops. -/
theorem readN_of_mapRes (rdW : WValue → Res GVal) (rdS : Bytes → Res (GVal × Bytes)) (et : UInt8)
    (ws : List WValue) (rest : Bytes) (gs : List GVal) (hwt : wtList et ws = true)
    (hel : ∀ w r g, w.wt = true → w.tcode = et → rdW w = .ok g → rdS (enc w ++ r) = .ok (g, r))
    (h : mapRes rdW ws = .ok gs) :
    readN rdS ws.length (encList ws ++ rest) = .ok (gs, rest) := by
  induction ws generalizing gs with
  | nil => simp [mapRes] at h; subst h; simp [readN, encList]
  | cons w ws ih =>
    simp only [wtList, Bool.and_eq_true, beq_iff_eq] at hwt
    simp only [mapRes] at h
    split at h
    · cases h
    · rename_i g hg
      split at h
      · cases h
      · rename_i gs' hgs; cases h
        have h1 := hel w (encList ws ++ rest) g hwt.1.2 hwt.1.1 hg
        have h2 := ih gs' hwt.2 hgs
        simp [readN, encList, List.append_assoc, h1, h2]

theorem readKV_of_mapRes2 (rkW rvW : WValue → Res GVal) (rkS rvS : Bytes → Res (GVal × Bytes))
    (kt vt : UInt8) (is : List (WValue × WValue)) (rest : Bytes) (kvs : List (GVal × GVal))
    (hwt : wtItems kt vt is = true)
    (hk : ∀ w r g, w.wt = true → w.tcode = kt → rkW w = .ok g → rkS (enc w ++ r) = .ok (g, r))
    (hv : ∀ w r g, w.wt = true → w.tcode = vt → rvW w = .ok g → rvS (enc w ++ r) = .ok (g, r))
    (h : mapRes2 rkW rvW is = .ok kvs) :
    readKV rkS rvS is.length (encItems is ++ rest) = .ok (kvs, rest) := by
  induction is generalizing kvs with
  | nil => simp [mapRes2] at h; subst h; simp [readKV, encItems]
  | cons kv is ih =>
    obtain ⟨k, v⟩ := kv
    simp only [wtItems, Bool.and_eq_true, beq_iff_eq] at hwt
    simp only [mapRes2] at h
    split at h
    · cases h
    · rename_i gk hgk
      split at h
      · cases h
      · rename_i gv hgv
        split at h
        · cases h
        · rename_i kvs' hkvs; cases h
          have h1 := hk k (enc v ++ (encItems is ++ rest)) gk hwt.1.1.1.2 hwt.1.1.1.1 hgk
          have h2 := hv v (encItems is ++ rest) gv hwt.1.2 hwt.1.1.2 hgv
          have h3 := ih kvs' hwt.2 hkvs
          simp [readKV, encItems, List.append_assoc, h1, h2, h3]

/-- field loop: the streaming loop (`switch` on id AND type, `default: Skip`) reaches the same
state as the value-path loop over the decoded field list. -/
theorem decodeFields_of_fromWireFields (rdW : Ty → WValue → Res GVal)
    (rdS : Ty → Bytes → Res (GVal × Bytes)) (fields : List Field)
    (hel : ∀ t w r g, w.wt = true → w.tcode = t.code → rdW t w = .ok g → rdS t (enc w ++ r) = .ok (g, r))
    (wfs : List (UInt16 × WValue)) (rest : Bytes) (st st' : FState) (fuel : Nat)
    (hwt : wtFields wfs = true) (hfuel : wfs.length + 1 ≤ fuel)
    (h : fromWireFields rdW fields wfs st = .ok st') :
    decodeFields rdS fields fuel st (encFields wfs ++ rest) = .ok (st', rest) := by
  induction wfs generalizing st fuel with
  | nil =>
    cases fuel with
    | zero => omega
    | succ fuel =>
      simp [fromWireFields] at h; subst h
      simp [decodeFields, encFields]
  | cons x wfs ih =>
    obtain ⟨id, w⟩ := x
    cases fuel with
    | zero => omega
    | succ fuel =>
      simp only [wtFields, Bool.and_eq_true] at hwt
      simp only [List.length_cons] at hfuel
      simp only [fromWireFields] at h
      have hne : w.tcode ≠ 0 := TType.code_ne_zero _
      simp only [decodeFields, encFields, List.cons_append, List.append_assoc, hne, if_false,
        rdN_beN, u16_rt]
      split at h
      · -- no declared field matches: the value path ignores it, the streaming path skips it
        rename_i hnone
        simp only [hnone, skipOne_enc w _ hwt.1]
        exact ih st fuel hwt.2 (by omega) h
      · rename_i f hsome
        simp only [hsome]
        split at h
        · cases h
        · rename_i g hg
          have hcode : w.tcode = f.ty.code := by
            have := List.find?_some hsome
            simp only [Bool.and_eq_true, beq_iff_eq] at this
            exact this.2.symm
          have h1 := hel f.ty w (encFields wfs ++ rest) g hwt.1 hcode hg
          simp only [h1]
          exact ih _ fuel hwt.2 (by omega) h

theorem encFields_length_ge (wfs : List (UInt16 × WValue)) : wfs.length + 1 ≤ (encFields wfs).length := by
  induction wfs with
  | nil => simp [encFields]
  | cons x wfs ih => obtain ⟨id, w⟩ := x; simp [encFields]; omega

/-- the central statement, by induction on the (common) fuel. -/
theorem decodeS_of_fromWire (env : Env) (fuel : Nat) :
    ∀ (t : Ty) (w : WValue) (rest : Bytes) (g : GVal), w.wt = true → w.tcode = t.code →
      fromWire env fuel t w = .ok g → decodeS env fuel t (enc w ++ rest) = .ok (g, rest) := by
  induction fuel with
  | zero => intro t w rest g _ _ h; simp [fromWire] at h
  | succ fuel ih =>
    intro t w rest g hwt hcode h
    unfold fromWire at h
    unfold decodeS
    unfold Ty.code at hcode
    generalize t.root = r at h hcode ⊢
    cases r <;> cases w <;> simp only [] at h <;> try (cases h; done)
    case bool.bool b => cases h; cases b <;> simp [enc]
    case i8.i8 v => cases h; simp [enc]
    case i16.i16 v => cases h; simp [enc, rdN_beN, u16_rt]
    case i32.i32 v => cases h; simp [enc, rdN_beN, u32_rt]
    case i64.i64 v => cases h; simp [enc, rdN_beN, u64_rt]
    case double.double v => cases h; simp [enc, rdN_beN, u64_rt]
    case enum.i32 n v => cases h; simp [enc, rdN_beN, u32_rt]
    case string.binary bs =>
      cases h
      simp only [WValue.wt, decide_eq_true_eq] at hwt
      simp [enc, List.append_assoc, rdLen_beN _ _ hwt]
    case binary.binary bs =>
      cases h
      simp only [WValue.wt, decide_eq_true_eq] at hwt
      simp [enc, List.append_assoc, rdLen_beN _ _ hwt]
    case list.list e et ws =>
      simp only [WValue.wt, Bool.and_eq_true, decide_eq_true_eq] at hwt
      simp only [enc, List.cons_append, List.append_assoc, rdLen_beN _ _ hwt.1]
      split at h
      · rename_i hne
        cases h
        simp [hne, skipElems_enc et ws rest hwt.2]
      · rename_i heq
        simp only [bne_iff_ne, ne_eq, Decidable.not_not] at heq
        split at h
        · rename_i gs hgs; cases h
          have := readN_of_mapRes (fromWire env fuel e) (decodeS env fuel e) et ws rest gs hwt.2
            (fun w r g h1 h2 h3 => ih e w r g h1 (by rw [h2, heq]) h3) hgs
          simp [heq, this]
        · cases h
    case set.set e et ws =>
      simp only [WValue.wt, Bool.and_eq_true, decide_eq_true_eq] at hwt
      simp only [enc, List.cons_append, List.append_assoc, rdLen_beN _ _ hwt.1]
      split at h
      · rename_i hne
        cases h
        simp [hne, skipElems_enc et ws rest hwt.2]
      · rename_i heq
        simp only [bne_iff_ne, ne_eq, Decidable.not_not] at heq
        split at h
        · rename_i gs hgs; cases h
          have := readN_of_mapRes (fromWire env fuel e) (decodeS env fuel e) et ws rest gs hwt.2
            (fun w r g h1 h2 h3 => ih e w r g h1 (by rw [h2, heq]) h3) hgs
          simp [heq, this]
        · cases h
    case sset.set e et ws =>
      simp only [WValue.wt, Bool.and_eq_true, decide_eq_true_eq] at hwt
      simp only [enc, List.cons_append, List.append_assoc, rdLen_beN _ _ hwt.1]
      split at h
      · rename_i hne
        cases h
        simp [hne, skipElems_enc et ws rest hwt.2]
      · rename_i heq
        simp only [bne_iff_ne, ne_eq, Decidable.not_not] at heq
        split at h
        · rename_i gs hgs; cases h
          have := readN_of_mapRes (fromWire env fuel e) (decodeS env fuel e) et ws rest gs hwt.2
            (fun w r g h1 h2 h3 => ih e w r g h1 (by rw [h2, heq]) h3) hgs
          simp [heq, this]
        · cases h
    case map.map k v kt vt is =>
      simp only [WValue.wt, Bool.and_eq_true, decide_eq_true_eq] at hwt
      simp only [enc, List.cons_append, List.append_assoc, rdLen_beN _ _ hwt.1]
      split at h
      · rename_i hne
        cases h
        simp [hne, skipPairs_enc kt vt is rest hwt.2]
      · rename_i heqk
        simp only [bne_iff_ne, ne_eq, Decidable.not_not] at heqk
        split at h
        · rename_i hne
          cases h
          simp [hne, skipPairs_enc kt vt is rest hwt.2]
        · rename_i heqv
          simp only [bne_iff_ne, ne_eq, Decidable.not_not] at heqv
          split at h
          · rename_i kvs hkvs; cases h
            have := readKV_of_mapRes2 (fromWire env fuel k) (fromWire env fuel v)
              (decodeS env fuel k) (decodeS env fuel v) kt vt is rest kvs hwt.2
              (fun w r g h1 h2 h3 => ih k w r g h1 (by rw [h2, heqk]) h3)
              (fun w r g h1 h2 h3 => ih v w r g h1 (by rw [h2, heqv]) h3) hkvs
            simp [heqk, heqv, this]
          · cases h
    case struct.struct n wfs =>
      simp only [WValue.wt] at hwt
      simp only [enc]
      cases hfind : env.find n with
      | none => simp [hfind] at h
      | some sd =>
        simp only [hfind] at h ⊢
        split at h
        · cases h
        · rename_i st hst
          have hlen := encFields_length_ge wfs
          have := decodeFields_of_fromWireFields (fromWire env fuel) (decodeS env fuel) sd.fields
            (fun t w r g h1 h2 h3 => ih t w r g h1 h2 h3) wfs rest (initState sd.fields) st
            (fuelFor (encFields wfs ++ rest)) hwt (by simp [fuelFor]; omega) hst
          simp only [this, h]

/-- C04: every input accepted by the value-based path (`Decode` to a wire value with every
lazy container forced, then `FromWire`) is accepted by the streaming path with an equal result
and the same consumed length. -/
theorem stream_accepts_what_value_path_accepts (env : Env) (fuel f : Nat) (t : Ty) (bs : Bytes)
    (w : WValue) (rest : Bytes) (g : GVal)
    (hd : dec f t.code bs = .ok (w, rest)) (hf : fromWire env fuel t w = .ok g) :
    decodeS env fuel t bs = .ok (g, rest) := by
  obtain ⟨h1, h2, h3⟩ := dec_canonical hd
  subst h1
  exact decodeS_of_fromWire env fuel t w rest g h3 h2 hf

/-- … hence the two paths never produce different values. -/
theorem paths_never_differ (env : Env) (fuel f : Nat) (t : Ty) (bs : Bytes)
    (w : WValue) (rest rest' : Bytes) (g g' : GVal)
    (hd : dec f t.code bs = .ok (w, rest)) (hf : fromWire env fuel t w = .ok g)
    (hs : decodeS env fuel t bs = .ok (g', rest')) : g' = g ∧ rest' = rest := by
  have := stream_accepts_what_value_path_accepts env fuel f t bs w rest g hd hf
  rw [this] at hs
  cases hs; exact ⟨rfl, rfl⟩

end ThriftVerif.Schema
