/-
M-Schema proofs (C04): the two REAL deserialisation paths of generated code — `binary.Decode`
with lazy containers followed by `FromWire` (the value path as it runs), and the streaming
`Decode` — never return different values and never end at different places: on EVERY byte string,
valid encoding or not, whenever both succeed they agree.

(Which of the two accepts an input can differ outside the valid encodings — the unchecked seek on
one side, the checked skip and strict re-validation on the other; see the witnesses in
Properties/C04.lean.)

Core-only.
-/
import ThriftVerif.Schema.StreamSkip
import ThriftVerif.Schema.Lazy

set_option linter.unusedSimpArgs false

namespace ThriftVerif.Schema
open ThriftVerif.Wire

/-- positions: where the lazy decoder ends is where the stream decoder ends. -/
theorem lazy_stream_pos (env : Env) (fuel : Nat) (t : Ty) (f : Nat) (bs : Bytes) (lv : LVal) (s1 : St)
    (g' : GVal) (r' : Bytes)
    (h1 : decL f t.code (bs, 0) = .ok (lv, s1)) (h2 : decodeS env fuel t bs = .ok (g', r')) :
    s1 = (r', 0) := by
  obtain ⟨F, hF⟩ := decodeS_skips env fuel t bs g' r' h2
  exact (decL_skip_agree (wf_zero bs) h1 (skip_seek_of_stream hF)).symm

/-- the same for a field the reader skips. -/
theorem lazy_skip_pos (t : UInt8) (f : Nat) (r1 : Bytes) (lv : LVal) (s2 : St) (r2 : Bytes)
    (h1 : decL f t (r1, 0) = .ok (lv, s2)) (h2 : skipOne t r1 = .ok r2) : s2 = (r2, 0) :=
  (decL_skip_agree (wf_zero r1) h1 (skip_seek_of_stream (skipOne_ok h2))).symm

/-! ### what a successful `decL` looks like, by wire type -/

theorem decL_tcode {f : Nat} {t : UInt8} {s s' : St} {lv : LVal} (h : decL f t s = .ok (lv, s')) :
    lv.tcode = t := by
  cases f with
  | zero => simp [decL] at h
  | succ f =>
    unfold decL at h
    cases ht : TType.ofByte t with
    | none => simp [ht] at h
    | some tt =>
      have hc := TType.code_of_ofByte ht
      simp only [ht] at h
      cases tt <;> simp only [] at h
      case bool =>
        split at h
        · split at h
          · cases h; exact hc
          · split at h
            · cases h; exact hc
            · cases h
        · cases h
      case i8 => split at h <;> first | (cases h; exact hc) | cases h
      case double => split at h <;> first | (cases h; exact hc) | cases h
      case i16 => split at h <;> first | (cases h; exact hc) | cases h
      case i32 => split at h <;> first | (cases h; exact hc) | cases h
      case i64 => split at h <;> first | (cases h; exact hc) | cases h
      case binary =>
        split at h
        · split at h
          · cases h; exact hc
          · cases h
        · cases h
      case struct => split at h <;> first | (cases h; exact hc) | cases h
      case map =>
        split at h
        · split at h
          · split at h
            · split at h
              · cases h
              · cases h; exact hc
            · cases h
          · cases h
        · cases h
      case set =>
        split at h
        · split at h
          · split at h
            · cases h
            · cases h; exact hc
          · cases h
        · cases h
      case list =>
        split at h
        · split at h
          · split at h
            · cases h
            · cases h; exact hc
          · cases h
        · cases h

theorem decL_inv_bool {f : Nat} {bs : Bytes} {lv : LVal} {s1 : St} (h : decL f 2 (bs, 0) = .ok (lv, s1)) :
    ∃ b r, bs = b :: r ∧ s1 = (r, 0) ∧ ((b = 0 ∧ lv = .bool false) ∨ (b = 1 ∧ lv = .bool true)) := by
  cases f with
  | zero => simp [decL] at h
  | succ f =>
    unfold decL at h
    simp only [show TType.ofByte 2 = some TType.bool from rfl] at h
    cases bs with
    | nil => simp [stByte] at h
    | cons b r =>
      simp only [stByte] at h
      refine ⟨b, r, rfl, ?_⟩
      by_cases h0 : b = 0
      · simp [h0] at h; exact ⟨h.2.symm, Or.inl ⟨h0, h.1.symm⟩⟩
      · by_cases h1 : b = 1
        · simp [h1] at h; exact ⟨h.2.symm, Or.inr ⟨h1, h.1.symm⟩⟩
        · simp [h0, h1] at h

theorem decL_inv_i8 {f : Nat} {bs : Bytes} {lv : LVal} {s1 : St} (h : decL f 3 (bs, 0) = .ok (lv, s1)) :
    ∃ b r, bs = b :: r ∧ s1 = (r, 0) ∧ lv = .i8 b := by
  cases f with
  | zero => simp [decL] at h
  | succ f =>
    unfold decL at h
    simp only [show TType.ofByte 3 = some TType.i8 from rfl] at h
    cases bs with
    | nil => simp [stByte] at h
    | cons b r =>
      simp only [stByte, Except.ok.injEq, Prod.mk.injEq] at h
      exact ⟨b, r, rfl, h.2.symm, h.1.symm⟩

theorem stRdN_zero_inv {k : Nat} {bs : Bytes} {n : Nat} {s : St} (h : stRdN k (bs, 0) = some (n, s)) :
    ∃ r, rdN k bs = some (n, r) ∧ s = (r, 0) := by
  unfold stRdN at h
  cases hr : rdN k bs with
  | none => simp [hr] at h
  | some p =>
    obtain ⟨n', r⟩ := p
    simp only [hr, Option.some.injEq, Prod.mk.injEq] at h
    exact ⟨r, by rw [h.1], h.2.symm⟩

theorem stRdLen_zero_inv {bs : Bytes} {n : Nat} {s : St} (h : stRdLen (bs, 0) = some (n, s)) :
    ∃ r, rdLen bs = some (n, r) ∧ s = (r, 0) := by
  unfold stRdLen at h
  cases hr : rdLen bs with
  | none => simp [hr] at h
  | some p =>
    obtain ⟨n', r⟩ := p
    simp only [hr, Option.some.injEq, Prod.mk.injEq] at h
    exact ⟨r, by rw [h.1], h.2.symm⟩

/-- the four fixed-width multi-byte scalars. -/
theorem decL_inv_num {f : Nat} {bs : Bytes} {lv : LVal} {s1 : St} (c : UInt8) (tt : TType) (k : Nat)
    (mk : Nat → LVal) (hc : TType.ofByte c = some tt)
    (hshape : ∀ f s, decL (f + 1) c s =
      match stRdN k s with
      | some (n, r) => .ok (mk n, r)
      | none => .error .bad)
    (h : decL f c (bs, 0) = .ok (lv, s1)) :
    ∃ n r, rdN k bs = some (n, r) ∧ s1 = (r, 0) ∧ lv = mk n := by
  cases f with
  | zero => simp [decL] at h
  | succ f =>
    rw [hshape] at h
    cases hr : stRdN k (bs, 0) with
    | none => simp [hr] at h
    | some p =>
      obtain ⟨n, s⟩ := p
      simp only [hr, Except.ok.injEq, Prod.mk.injEq] at h
      obtain ⟨r, h1, h2⟩ := stRdN_zero_inv hr
      exact ⟨n, r, h1, by rw [← h.2, h2], h.1.symm⟩

theorem decL_inv_binary {f : Nat} {bs : Bytes} {lv : LVal} {s1 : St} (h : decL f 11 (bs, 0) = .ok (lv, s1)) :
    ∃ n r, rdLen bs = some (n, r) ∧ n ≤ r.length ∧ lv = .binary (r.take n) ∧ s1 = (r.drop n, 0) := by
  cases f with
  | zero => simp [decL] at h
  | succ f =>
    unfold decL at h
    simp only [show TType.ofByte 11 = some TType.binary from rfl] at h
    cases hr : stRdLen (bs, 0) with
    | none => simp [hr] at h
    | some p =>
      obtain ⟨n, s⟩ := p
      simp only [hr] at h
      obtain ⟨r, h1, h2⟩ := stRdLen_zero_inv hr
      subst h2
      by_cases hn : n ≤ r.length
      · simp only [hn, if_true, Except.ok.injEq, Prod.mk.injEq] at h
        exact ⟨n, r, h1, hn, h.1.symm, h.2.symm⟩
      · simp [hn] at h

theorem decL_inv_struct {f : Nat} {bs : Bytes} {lv : LVal} {s1 : St} (h : decL f 12 (bs, 0) = .ok (lv, s1)) :
    ∃ f' lfs, f = f' + 1 ∧ decFieldsL f' (bs, 0) = .ok (lfs, s1) ∧ lv = .struct lfs := by
  cases f with
  | zero => simp [decL] at h
  | succ f =>
    unfold decL at h
    simp only [show TType.ofByte 12 = some TType.struct from rfl] at h
    cases hd : decFieldsL f (bs, 0) with
    | error e => simp [hd] at h
    | ok p =>
      obtain ⟨lfs, r⟩ := p
      simp only [hd, Except.ok.injEq, Prod.mk.injEq] at h
      exact ⟨f, lfs, rfl, by rw [← h.2]; exact hd, h.1.symm⟩

theorem decL_inv_list {f : Nat} {bs : Bytes} {lv : LVal} {s1 : St} (h : decL f 15 (bs, 0) = .ok (lv, s1)) :
    ∃ et r0 n r, bs = et :: r0 ∧ rdLen r0 = some (n, r) ∧ lv = .list et n (r, 0) := by
  cases f with
  | zero => simp [decL] at h
  | succ f =>
    unfold decL at h
    simp only [show TType.ofByte 15 = some TType.list from rfl] at h
    cases bs with
    | nil => simp [stByte] at h
    | cons et r0 =>
      simp only [stByte] at h
      cases hr : stRdLen (r0, 0) with
      | none => simp [hr] at h
      | some p =>
        obtain ⟨n, s⟩ := p
        simp only [hr] at h
        obtain ⟨r, h1, h2⟩ := stRdLen_zero_inv hr
        subst h2
        cases hs : skipListItems true (fuelFor r) et n (r, 0) with
        | error e => simp [hs] at h
        | ok sEnd =>
          simp only [hs, Except.ok.injEq, Prod.mk.injEq] at h
          exact ⟨et, r0, n, r, rfl, h1, h.1.symm⟩

theorem decL_inv_set {f : Nat} {bs : Bytes} {lv : LVal} {s1 : St} (h : decL f 14 (bs, 0) = .ok (lv, s1)) :
    ∃ et r0 n r, bs = et :: r0 ∧ rdLen r0 = some (n, r) ∧ lv = .set et n (r, 0) := by
  cases f with
  | zero => simp [decL] at h
  | succ f =>
    unfold decL at h
    simp only [show TType.ofByte 14 = some TType.set from rfl] at h
    cases bs with
    | nil => simp [stByte] at h
    | cons et r0 =>
      simp only [stByte] at h
      cases hr : stRdLen (r0, 0) with
      | none => simp [hr] at h
      | some p =>
        obtain ⟨n, s⟩ := p
        simp only [hr] at h
        obtain ⟨r, h1, h2⟩ := stRdLen_zero_inv hr
        subst h2
        cases hs : skipListItems true (fuelFor r) et n (r, 0) with
        | error e => simp [hs] at h
        | ok sEnd =>
          simp only [hs, Except.ok.injEq, Prod.mk.injEq] at h
          exact ⟨et, r0, n, r, rfl, h1, h.1.symm⟩

theorem decL_inv_map {f : Nat} {bs : Bytes} {lv : LVal} {s1 : St} (h : decL f 13 (bs, 0) = .ok (lv, s1)) :
    ∃ kt vt r0 n r, bs = kt :: vt :: r0 ∧ rdLen r0 = some (n, r) ∧ lv = .map kt vt n (r, 0) := by
  cases f with
  | zero => simp [decL] at h
  | succ f =>
    unfold decL at h
    simp only [show TType.ofByte 13 = some TType.map from rfl] at h
    match bs with
    | [] => simp [stByte] at h
    | [_] => simp [stByte] at h
    | kt :: vt :: r0 =>
      simp only [stByte] at h
      cases hr : stRdLen (r0, 0) with
      | none => simp [hr] at h
      | some p =>
        obtain ⟨n, s⟩ := p
        simp only [hr] at h
        obtain ⟨r, h1, h2⟩ := stRdLen_zero_inv hr
        subst h2
        cases hs : skipMapItems true (fuelFor r) kt vt n (r, 0) with
        | error e => simp [hs] at h
        | ok sEnd =>
          simp only [hs, Except.ok.injEq, Prod.mk.injEq] at h
          exact ⟨kt, vt, r0, n, r, rfl, h1, h.1.symm⟩


/-! ### element loops -/

section loops
variable (env : Env) (fuel : Nat)

/-- hypothesis shape used by the loops: values and positions agree for type `e`. -/
def AgreeTy (e : Ty) : Prop :=
  ∀ (f : Nat) (bs : Bytes) (lv : LVal) (s1 : St) (g g' : GVal) (r' : Bytes),
    decL f e.code (bs, 0) = .ok (lv, s1) → fromWireL env fuel e lv = .ok g →
    decodeS env fuel e bs = .ok (g', r') → g = g'

theorem forEach_readN (e : Ty) (F : Nat) (he : AgreeTy env fuel e) :
    ∀ (n : Nat) (r : Bytes) (gs gs' : List GVal) (r' : Bytes),
      forEachL (decL F e.code) (fromWireL env fuel e) n (r, 0) = .ok gs →
      readN (decodeS env fuel e) n r = .ok (gs', r') → gs = gs' := by
  intro n
  induction n with
  | zero => intro r gs gs' r' h1 h2; simp [forEachL] at h1; simp [readN] at h2; rw [h1, h2.1]
  | succ n ih =>
    intro r gs gs' r' h1 h2
    simp only [forEachL] at h1
    simp only [readN] at h2
    cases hd : decL F e.code (r, 0) with
    | error er => simp [hd] at h1
    | ok p =>
      obtain ⟨lv, s'⟩ := p
      simp only [hd] at h1
      cases hk : fromWireL env fuel e lv with
      | error er => simp [hk] at h1
      | ok g1 =>
        simp only [hk] at h1
        cases hs : decodeS env fuel e r with
        | error er => simp [hs] at h2
        | ok q =>
          obtain ⟨x, r1⟩ := q
          simp only [hs] at h2
          have hpos := lazy_stream_pos env fuel e F r lv s' x r1 hd hs
          subst hpos
          have hval := he F r lv (r1, 0) g1 x r1 hd hk hs
          cases hf : forEachL (decL F e.code) (fromWireL env fuel e) n (r1, 0) with
          | error er => simp [hf] at h1
          | ok gs1 =>
            simp only [hf, Except.ok.injEq] at h1
            cases hr : readN (decodeS env fuel e) n r1 with
            | error er => simp [hr] at h2
            | ok q2 =>
              obtain ⟨xs, r2⟩ := q2
              simp only [hr, Except.ok.injEq, Prod.mk.injEq] at h2
              rw [← h1, ← h2.1, hval, ih r1 gs1 xs r2 hf hr]

theorem forEachKV_readKV (k v : Ty) (F : Nat) (hk : AgreeTy env fuel k) (hv : AgreeTy env fuel v) :
    ∀ (n : Nat) (r : Bytes) (kvs kvs' : List (GVal × GVal)) (r' : Bytes),
      forEachKV (decL F k.code) (decL F v.code) (fromWireL env fuel k) (fromWireL env fuel v) n (r, 0) = .ok kvs →
      readKV (decodeS env fuel k) (decodeS env fuel v) n r = .ok (kvs', r') → kvs = kvs' := by
  intro n
  induction n with
  | zero => intro r gs gs' r' h1 h2; simp [forEachKV] at h1; simp [readKV] at h2; rw [h1, h2.1]
  | succ n ih =>
    intro r gs gs' r' h1 h2
    simp only [forEachKV] at h1
    simp only [readKV] at h2
    cases hdk : decL F k.code (r, 0) with
    | error er => simp [hdk] at h1
    | ok p =>
      obtain ⟨lk, s1⟩ := p
      simp only [hdk] at h1
      cases hsk : decodeS env fuel k r with
      | error er => simp [hsk] at h2
      | ok q =>
        obtain ⟨xk, r1⟩ := q
        simp only [hsk] at h2
        have hp1 := lazy_stream_pos env fuel k F r lk s1 xk r1 hdk hsk
        subst hp1
        cases hdv : decL F v.code (r1, 0) with
        | error er => simp [hdv] at h1
        | ok p2 =>
          obtain ⟨lv, s2⟩ := p2
          simp only [hdv] at h1
          cases hsv : decodeS env fuel v r1 with
          | error er => simp [hsv] at h2
          | ok q2 =>
            obtain ⟨xv, r2⟩ := q2
            simp only [hsv] at h2
            have hp2 := lazy_stream_pos env fuel v F r1 lv s2 xv r2 hdv hsv
            subst hp2
            cases hkk : fromWireL env fuel k lk with
            | error er => simp [hkk] at h1
            | ok gk =>
              simp only [hkk] at h1
              cases hkv : fromWireL env fuel v lv with
              | error er => simp [hkv] at h1
              | ok gv =>
                simp only [hkv] at h1
                have e1 := hk F r lk (r1, 0) gk xk r1 hdk hkk hsk
                have e2 := hv F r1 lv (r2, 0) gv xv r2 hdv hkv hsv
                cases hf : forEachKV (decL F k.code) (decL F v.code) (fromWireL env fuel k)
                    (fromWireL env fuel v) n (r2, 0) with
                | error er => simp [hf] at h1
                | ok gs1 =>
                  simp only [hf, Except.ok.injEq] at h1
                  cases hr : readKV (decodeS env fuel k) (decodeS env fuel v) n r2 with
                  | error er => simp [hr] at h2
                  | ok q3 =>
                    obtain ⟨xs, r3⟩ := q3
                    simp only [hr, Except.ok.injEq, Prod.mk.injEq] at h2
                    rw [← h1, ← h2.1, e1, e2, ih r2 gs1 xs r3 hf hr]

/-- the field loops of the two paths reach the same field state. -/
theorem fields_sim (fields : List Field) (hall : ∀ ft, AgreeTy env fuel ft) :
    ∀ (f : Nat) (bs : Bytes) (lfs : List (UInt16 × LVal)) (s1 : St) (st stL stS : FState)
      (fuelS : Nat) (r' : Bytes),
      decFieldsL f (bs, 0) = .ok (lfs, s1) →
      fromWireFieldsL (fromWireL env fuel) fields lfs st = .ok stL →
      decodeFields (decodeS env fuel) fields fuelS st bs = .ok (stS, r') → stL = stS := by
  intro f
  induction f with
  | zero => intro bs lfs s1 st stL stS fuelS r' h; simp [decFieldsL] at h
  | succ f ih =>
    intro bs lfs s1 st stL stS fuelS r' h1 h2 h3
    cases fuelS with
    | zero => simp [decodeFields] at h3
    | succ fuelS =>
      unfold decFieldsL at h1
      unfold decodeFields at h3
      cases bs with
      | nil => simp [stByte] at h1
      | cons t r0 =>
        simp only [stByte] at h1
        simp only at h3
        by_cases ht : t = 0
        · simp only [ht, if_true, Except.ok.injEq, Prod.mk.injEq] at h1 h3
          rw [← h1.1] at h2
          simp only [fromWireFieldsL, Except.ok.injEq] at h2
          rw [← h2, ← h3.1]
        · simp only [ht, if_false] at h1 h3
          cases hid : rdN 2 r0 with
          | none => simp [hid] at h3
          | some p =>
            obtain ⟨idn, r1⟩ := p
            simp only [hid] at h3
            simp only [stRdN_of_rdN hid] at h1
            cases hd : decL f t (r1, 0) with
            | error er => simp [hd] at h1
            | ok q =>
              obtain ⟨lv, s2⟩ := q
              simp only [hd] at h1
              cases hrest : decFieldsL f s2 with
              | error er => simp [hrest] at h1
              | ok q2 =>
                obtain ⟨rest, s3⟩ := q2
                simp only [hrest, Except.ok.injEq, Prod.mk.injEq] at h1
                rw [← h1.1] at h2
                simp only [fromWireFieldsL, decL_tcode hd] at h2
                cases hf : fields.find? (fun fd => fd.id == UInt16.ofNat idn && fd.ty.code == t) with
                | some fd =>
                  simp only [hf] at h2 h3
                  have hcode : fd.ty.code = t := by
                    have := List.find?_some hf
                    simp only [Bool.and_eq_true, beq_iff_eq] at this
                    exact this.2
                  cases hrl : fromWireL env fuel fd.ty lv with
                  | error er => simp [hrl] at h2
                  | ok gL =>
                    simp only [hrl] at h2
                    cases hrs : decodeS env fuel fd.ty r1 with
                    | error er => simp [hrs] at h3
                    | ok q3 =>
                      obtain ⟨gS, r2⟩ := q3
                      simp only [hrs] at h3
                      rw [← hcode] at hd
                      have hpos := lazy_stream_pos env fuel fd.ty f r1 lv s2 gS r2 hd hrs
                      have hval := hall fd.ty f r1 lv s2 gL gS r2 hd hrl hrs
                      subst hpos
                      rw [hval] at h2
                      exact ih r2 rest s3 _ stL stS fuelS r' hrest h2 h3
                | none =>
                  simp only [hf] at h2 h3
                  cases hso : skipOne t r1 with
                  | error er => simp [hso] at h3
                  | ok r2 =>
                    simp only [hso] at h3
                    have hpos := lazy_skip_pos t f r1 lv s2 r2 hd hso
                    subst hpos
                    exact ih r2 rest s3 st stL stS fuelS r' hrest h2 h3

end loops


/-! ### the theorem -/

theorem lazy_stream_value (env : Env) (fuel : Nat) : ∀ t, AgreeTy env fuel t := by
  induction fuel with
  | zero => intro t f bs lv s1 g g' r' _ hl; simp [fromWireL] at hl
  | succ fuel ih =>
    intro t f bs lv s1 g g' r' hd hl hs
    unfold fromWireL at hl
    unfold decodeS at hs
    unfold Ty.code at hd
    generalize t.root = rt at hd hl hs
    cases rt <;> simp only [] at hd hl hs
    case bool =>
      obtain ⟨b, r, rfl, _, hb⟩ := decL_inv_bool hd
      rcases hb with ⟨rfl, rfl⟩ | ⟨rfl, rfl⟩
      · simp at hl hs; rw [← hl, ← hs.1]
      · simp at hl hs; rw [← hl, ← hs.1]
    case i8 =>
      obtain ⟨b, r, rfl, _, rfl⟩ := decL_inv_i8 hd
      simp at hl hs; rw [← hl, ← hs.1]
    case i16 =>
      obtain ⟨n, r, hr, _, rfl⟩ := decL_inv_num 6 TType.i16 2 (fun n => LVal.i16 (UInt16.ofNat n)) rfl (by intro f s; rfl) hd
      simp only [hr, Except.ok.injEq, Prod.mk.injEq] at hs
      simp only [Except.ok.injEq] at hl
      rw [← hl, ← hs.1]
    case i32 =>
      obtain ⟨n, r, hr, _, rfl⟩ := decL_inv_num 8 TType.i32 4 (fun n => LVal.i32 (UInt32.ofNat n)) rfl (by intro f s; rfl) hd
      simp only [hr, Except.ok.injEq, Prod.mk.injEq] at hs
      simp only [Except.ok.injEq] at hl
      rw [← hl, ← hs.1]
    case enum =>
      obtain ⟨n, r, hr, _, rfl⟩ := decL_inv_num 8 TType.i32 4 (fun n => LVal.i32 (UInt32.ofNat n)) rfl (by intro f s; rfl) hd
      simp only [hr, Except.ok.injEq, Prod.mk.injEq] at hs
      simp only [Except.ok.injEq] at hl
      rw [← hl, ← hs.1]
    case i64 =>
      obtain ⟨n, r, hr, _, rfl⟩ := decL_inv_num 10 TType.i64 8 (fun n => LVal.i64 (UInt64.ofNat n)) rfl (by intro f s; rfl) hd
      simp only [hr, Except.ok.injEq, Prod.mk.injEq] at hs
      simp only [Except.ok.injEq] at hl
      rw [← hl, ← hs.1]
    case double =>
      obtain ⟨n, r, hr, _, rfl⟩ := decL_inv_num 4 TType.double 8 (fun n => LVal.double (UInt64.ofNat n)) rfl (by intro f s; rfl) hd
      simp only [hr, Except.ok.injEq, Prod.mk.injEq] at hs
      simp only [Except.ok.injEq] at hl
      rw [← hl, ← hs.1]
    case string =>
      obtain ⟨n, r, hr, hn, rfl, _⟩ := decL_inv_binary hd
      simp only [hr, hn, if_true, Except.ok.injEq, Prod.mk.injEq] at hs
      simp only [Except.ok.injEq] at hl
      rw [← hl, ← hs.1]
    case binary =>
      obtain ⟨n, r, hr, hn, rfl, _⟩ := decL_inv_binary hd
      simp only [hr, hn, if_true, Except.ok.injEq, Prod.mk.injEq] at hs
      simp only [Except.ok.injEq] at hl
      rw [← hl, ← hs.1]
    case list e =>
      obtain ⟨et, r0, n, r, rfl, hlen, rfl⟩ := decL_inv_list hd
      simp only [hlen] at hs
      simp only at hl
      by_cases hm : (et != e.code) = true
      · simp only [hm, if_true] at hl hs
        cases hsk : skipElems et n r with
        | error er => simp [hsk] at hs
        | ok r2 =>
          simp only [hsk, Except.ok.injEq, Prod.mk.injEq] at hs
          simp only [Except.ok.injEq] at hl
          rw [← hl, ← hs.1]
      · have het : et = e.code := by simpa using hm
        have hm' : (et != e.code) = false := by simp [het]
        simp only [hm', Bool.false_eq_true, if_false] at hl hs
        subst het
        cases hf : forEachL (decL (fuelFor r) e.code) (fromWireL env fuel e) n (r, 0) with
        | error er => simp [hf] at hl
        | ok gs =>
          simp only [hf, Except.ok.injEq] at hl
          cases hr : readN (decodeS env fuel e) n r with
          | error er => simp [hr] at hs
          | ok q =>
            obtain ⟨gs', r2⟩ := q
            simp only [hr, Except.ok.injEq, Prod.mk.injEq] at hs
            have := forEach_readN env fuel e (fuelFor r) (ih e) n r gs gs' r2 hf hr
            rw [← hl, ← hs.1, this]
    case set e =>
      obtain ⟨et, r0, n, r, rfl, hlen, rfl⟩ := decL_inv_set hd
      simp only [hlen] at hs
      simp only at hl
      by_cases hm : (et != e.code) = true
      · simp only [hm, if_true] at hl hs
        cases hsk : skipElems et n r with
        | error er => simp [hsk] at hs
        | ok r2 =>
          simp only [hsk, Except.ok.injEq, Prod.mk.injEq] at hs
          simp only [Except.ok.injEq] at hl
          rw [← hl, ← hs.1]
      · have het : et = e.code := by simpa using hm
        have hm' : (et != e.code) = false := by simp [het]
        simp only [hm', Bool.false_eq_true, if_false] at hl hs
        subst het
        cases hf : forEachL (decL (fuelFor r) e.code) (fromWireL env fuel e) n (r, 0) with
        | error er => simp [hf] at hl
        | ok gs =>
          simp only [hf, Except.ok.injEq] at hl
          cases hr : readN (decodeS env fuel e) n r with
          | error er => simp [hr] at hs
          | ok q =>
            obtain ⟨gs', r2⟩ := q
            simp only [hr, Except.ok.injEq, Prod.mk.injEq] at hs
            have := forEach_readN env fuel e (fuelFor r) (ih e) n r gs gs' r2 hf hr
            rw [← hl, ← hs.1, this]
    case sset e =>
      obtain ⟨et, r0, n, r, rfl, hlen, rfl⟩ := decL_inv_set hd
      simp only [hlen] at hs
      simp only at hl
      by_cases hm : (et != e.code) = true
      · simp only [hm, if_true] at hl hs
        cases hsk : skipElems et n r with
        | error er => simp [hsk] at hs
        | ok r2 =>
          simp only [hsk, Except.ok.injEq, Prod.mk.injEq] at hs
          simp only [Except.ok.injEq] at hl
          rw [← hl, ← hs.1]
      · have het : et = e.code := by simpa using hm
        have hm' : (et != e.code) = false := by simp [het]
        simp only [hm', Bool.false_eq_true, if_false] at hl hs
        subst het
        cases hf : forEachL (decL (fuelFor r) e.code) (fromWireL env fuel e) n (r, 0) with
        | error er => simp [hf] at hl
        | ok gs =>
          simp only [hf, Except.ok.injEq] at hl
          cases hr : readN (decodeS env fuel e) n r with
          | error er => simp [hr] at hs
          | ok q =>
            obtain ⟨gs', r2⟩ := q
            simp only [hr, Except.ok.injEq, Prod.mk.injEq] at hs
            have := forEach_readN env fuel e (fuelFor r) (ih e) n r gs gs' r2 hf hr
            rw [← hl, ← hs.1, this]
    case map k v =>
      obtain ⟨kt, vt, r0, n, r, rfl, hlen, rfl⟩ := decL_inv_map hd
      simp only [hlen] at hs
      simp only at hl
      by_cases hmk : (kt != k.code) = true
      · have hm : (kt != k.code || vt != v.code) = true := by simp [hmk]
        simp only [hmk, if_true] at hl
        simp only [hm, if_true] at hs
        cases hsk : skipPairs kt vt n r with
        | error er => simp [hsk] at hs
        | ok r2 =>
          simp only [hsk, Except.ok.injEq, Prod.mk.injEq] at hs
          simp only [Except.ok.injEq] at hl
          rw [← hl, ← hs.1]
      · have hek : kt = k.code := by simpa using hmk
        have hmk' : (kt != k.code) = false := by simp [hek]
        simp only [hmk', Bool.false_eq_true, if_false] at hl
        by_cases hmv : (vt != v.code) = true
        · have hm : (kt != k.code || vt != v.code) = true := by simp [hmv]
          simp only [hmv, if_true] at hl
          simp only [hm, if_true] at hs
          cases hsk : skipPairs kt vt n r with
          | error er => simp [hsk] at hs
          | ok r2 =>
            simp only [hsk, Except.ok.injEq, Prod.mk.injEq] at hs
            simp only [Except.ok.injEq] at hl
            rw [← hl, ← hs.1]
        · have hev : vt = v.code := by simpa using hmv
          have hmv' : (vt != v.code) = false := by simp [hev]
          have hm' : (kt != k.code || vt != v.code) = false := by simp [hek, hev]
          simp only [hmv', Bool.false_eq_true, if_false] at hl
          simp only [hm', Bool.false_eq_true, if_false] at hs
          subst hek; subst hev
          cases hf : forEachKV (decL (fuelFor r) k.code) (decL (fuelFor r) v.code) (fromWireL env fuel k)
              (fromWireL env fuel v) n (r, 0) with
          | error er => simp [hf] at hl
          | ok kvs =>
            simp only [hf, Except.ok.injEq] at hl
            cases hr : readKV (decodeS env fuel k) (decodeS env fuel v) n r with
            | error er => simp [hr] at hs
            | ok q =>
              obtain ⟨kvs', r2⟩ := q
              simp only [hr, Except.ok.injEq, Prod.mk.injEq] at hs
              have := forEachKV_readKV env fuel k v (fuelFor r) (ih k) (ih v) n r kvs kvs' r2 hf hr
              rw [← hl, ← hs.1, this]
    case struct name =>
      obtain ⟨f', lfs, _, hdf, rfl⟩ := decL_inv_struct hd
      simp only at hl
      cases hfind : env.find name with
      | none => simp [hfind] at hl
      | some sd =>
        simp only [hfind] at hl hs
        cases hfl : fromWireFieldsL (fromWireL env fuel) sd.fields lfs (initState sd.fields) with
        | error er => simp [hfl] at hl
        | ok stL =>
          simp only [hfl] at hl
          cases hds : decodeFields (decodeS env fuel) sd.fields (fuelFor bs) (initState sd.fields) bs with
          | error er => simp [hds] at hs
          | ok q =>
            obtain ⟨stS, r⟩ := q
            simp only [hds] at hs
            have hst := fields_sim env fuel sd.fields ih f' bs lfs s1 (initState sd.fields) stL stS
              (fuelFor bs) r hdf hfl hds
            subst hst
            cases hfin : finishStruct sd stL with
            | error er => simp [hfin] at hs
            | ok g2 =>
              simp only [hfin, Except.ok.injEq, Prod.mk.injEq] at hs
              rw [hfin, Except.ok.injEq] at hl
              rw [← hl, ← hs.1]
    case typedef => cases hs

/-- **C04 on every input**: the value path as it really runs (lazy `Decode`, then `FromWire`) and
the streaming `Decode` never return different values and never end at different places — on ANY
byte string, whenever both succeed. -/
theorem real_paths_never_differ (env : Env) (fuel : Nat) (t : Ty) (bs : Bytes) (g g' : GVal) (s1 : St)
    (r' : Bytes) (h1 : valuePath env fuel t bs = .ok (g, s1)) (h2 : decodeS env fuel t bs = .ok (g', r')) :
    g = g' ∧ s1 = (r', 0) := by
  unfold valuePath at h1
  cases hd : decL (fuelFor bs) t.code (bs, 0) with
  | error e => simp [hd] at h1
  | ok p =>
    obtain ⟨lv, s'⟩ := p
    simp only [hd] at h1
    cases hl : fromWireL env fuel t lv with
    | error e => simp [hl] at h1
    | ok g0 =>
      simp only [hl, Except.ok.injEq, Prod.mk.injEq] at h1
      refine ⟨?_, ?_⟩
      · rw [← h1.1]; exact lazy_stream_value env fuel t (fuelFor bs) bs lv s' g0 g' r' hd hl h2
      · rw [← h1.2]; exact lazy_stream_pos env fuel t (fuelFor bs) bs lv s' g' r' hd h2

end ThriftVerif.Schema
