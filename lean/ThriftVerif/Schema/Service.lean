/-
M-Schema, part 6 (C19): the generated response helpers `WrapResponse` / `UnwrapResponse` /
`IsException` (gen/service.go), over an abstract result struct
(`success` slot + one slot per declared exception). Core-only.
-/
import ThriftVerif.Schema.Basic

namespace ThriftVerif.Schema

/-- shape of a function's result: does it return a value, how many exceptions it declares. -/
structure ResultShape where
  hasReturn : Bool
  nExc : Nat
  deriving Repr

/-- what a handler produced: a return value, nothing (void), a declared exception (index, value —
the value may be a typed nil pointer), or an error the function does not declare. -/
inductive Resp where
  | ok (v : GVal)
  | void
  | exc (i : Nat) (v : GVal)
  | other
  deriving Repr, BEq

/-- the generated result struct: success slot (nil when unset) and exception slots. -/
structure ResultVal where
  success : GVal
  excs : List GVal
  deriving Repr, BEq

def setAt (xs : List GVal) (i : Nat) (v : GVal) : List GVal := xs.set i v

/-- `WrapResponse`: `none` = an error is returned instead of a result. -/
def wrapResponse (sh : ResultShape) : Resp → Option ResultVal
  | .ok v => if sh.hasReturn then some ⟨v, List.replicate sh.nExc .nil⟩ else none
  | .void => if sh.hasReturn then none else some ⟨.nil, List.replicate sh.nExc .nil⟩
  | .exc i v =>
    if i < sh.nExc then (if v.isNil then none else some ⟨.nil, setAt (List.replicate sh.nExc .nil) i v⟩)
    else none
  | .other => none

/-- `IsException`. -/
def isException (sh : ResultShape) : Resp → Bool
  | .exc i _ => i < sh.nExc
  | _ => false

def firstSet : List GVal → Nat → Option (Nat × GVal)
  | [], _ => none
  | x :: xs, i => if x.isNil then firstSet xs (i + 1) else some (i, x)

/-- `UnwrapResponse`: `none` = "expected a non-void result". -/
def unwrapResponse (sh : ResultShape) (r : ResultVal) : Option Resp :=
  match firstSet r.excs 0 with
  | some (i, v) => some (.exc i v)
  | none =>
    if sh.hasReturn then (if r.success.isNil then none else some (.ok r.success))
    else some .void

theorem firstSet_replicate_nil (n i : Nat) : firstSet (List.replicate n .nil) i = none := by
  induction n generalizing i with
  | zero => rfl
  | succ n ih => simp [List.replicate, firstSet, GVal.isNil, ih]

theorem firstSet_setAt (n i j : Nat) (v : GVal) (hi : i < n) (hv : v.isNil = false) :
    firstSet (setAt (List.replicate n .nil) i v) j = some (j + i, v) := by
  induction n generalizing i j with
  | zero => omega
  | succ n ih =>
    cases i with
    | zero => simp [setAt, List.replicate, firstSet, hv]
    | succ i =>
      have := ih i (j + 1) (by omega)
      simp only [setAt] at this
      simp [setAt, List.replicate, firstSet, GVal.isNil, this]
      omega

/-- a return value survives wrap → unwrap (non-nil value: a nil slice/map return is the
documented boundary `wrap_nil_return`). -/
theorem wrap_unwrap_ok (sh : ResultShape) (v : GVal) (hr : sh.hasReturn = true) (hv : v.isNil = false) :
    (wrapResponse sh (.ok v)).bind (unwrapResponse sh) = some (.ok v) := by
  simp [wrapResponse, hr, unwrapResponse, firstSet_replicate_nil, hv]

theorem wrap_unwrap_void (sh : ResultShape) (hr : sh.hasReturn = false) :
    (wrapResponse sh .void).bind (unwrapResponse sh) = some .void := by
  simp [wrapResponse, hr, unwrapResponse, firstSet_replicate_nil]

/-- any declared exception survives wrap → unwrap. -/
theorem wrap_unwrap_exc (sh : ResultShape) (i : Nat) (v : GVal) (hi : i < sh.nExc) (hv : v.isNil = false) :
    (wrapResponse sh (.exc i v)).bind (unwrapResponse sh) = some (.exc i v) := by
  simp [wrapResponse, hi, hv, unwrapResponse, firstSet_setAt _ _ 0 _ hi hv]

/-- errors the function does not declare are refused. -/
theorem wrap_rejects_undeclared (sh : ResultShape) : wrapResponse sh .other = none ∧
    (∀ i v, sh.nExc ≤ i → wrapResponse sh (.exc i v) = none) := by
  refine ⟨rfl, ?_⟩
  intro i v h
  have : ¬ i < sh.nExc := by omega
  simp [wrapResponse, this]

/-- boundary: a nil (slice/map/struct) return value is wrapped but cannot be unwrapped. -/
theorem wrap_nil_return (sh : ResultShape) (hr : sh.hasReturn = true) :
    (wrapResponse sh (.ok .nil)).bind (unwrapResponse sh) = none := by
  simp [wrapResponse, hr, unwrapResponse, firstSet_replicate_nil, GVal.isNil]

end ThriftVerif.Schema
