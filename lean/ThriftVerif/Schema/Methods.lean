/-
M-Schema, part 3: the other generated methods — `Equals`, `Default_*`, `Get*`/`IsSet*`,
and what `String()`/`Error()`/`MarshalLogObject` may show (C14, C01 accessors, C15).

Core-only.
-/
import ThriftVerif.Schema.Read
import ThriftVerif.Wire.Text

namespace ThriftVerif.Schema
open ThriftVerif.Wire

/-! ### Equals (gen/equals.go, list.go, set.go, map.go, field.go) -/

/-- Go `==` on primitive values (numeric comparison for doubles): same as on map keys. -/
def primEq : GVal → GVal → Bool := keyEq

def bytesOf : GVal → Bytes
  | .bin bs => bs
  | .str bs => bs
  | _ => []

def listOf : GVal → List GVal
  | .list xs => xs
  | .set _ xs => xs
  | _ => []

def pairsOf : GVal → List (GVal × GVal)
  | .map _ kvs => kvs
  | _ => []

/-- `<equals .Type lhs rhs>`; `eq` compares nested values of a given type. -/
def allPairwise (eq : GVal → GVal → Bool) : List GVal → List GVal → Bool
  | [], [] => true
  | a :: as, b :: bs => eq a b && allPairwise eq as bs
  | _, _ => false

/-- every element of `as` is related to some element of `bs` (the generated O(n²) loop;
for Go-map-backed sets it is the membership loop). -/
def subR {α : Type} (r : α → α → Bool) (as bs : List α) : Bool := as.all fun a => bs.any (r a)

/-- value of the first entry whose key is related to `k` (`rhs[k]` for Go maps, the inner
loop of `equalsUnhashable` for key/value slices). -/
def lookupR {K V : Type} (r : K → K → Bool) (k : K) : List (K × V) → Option V
  | [] => none
  | (k', v) :: rest => if r k k' then some v else lookupR r k rest

/-- every entry of `a` finds its key in `b` with an equal value. -/
def mapSub {K V : Type} (r : K → K → Bool) (eqv : V → V → Bool) (a b : List (K × V)) : Bool :=
  a.all fun kv => match lookupR r kv.1 b with
    | some rv => eqv kv.2 rv
    | none => false

/-- Go's map lookup compares the stored key with the probe: `keyEq stored probe`. -/
def keyEqFlip (probe stored : GVal) : Bool := keyEq stored probe

/-- per-field rule of the struct `Equals` template: `equals` for required fields, `equalsPtr` otherwise. -/
def fieldEq (eq : Ty → GVal → GVal → Bool) (f : Field) (a b : GVal) : Bool :=
  if f.req then eq f.ty a b
  else if a.isNil && b.isNil then true
  else if a.isNil || b.isNil then false
  else eq f.ty a b

def fieldsEq (eq : Ty → GVal → GVal → Bool) : List Field → List GVal → List GVal → Bool
  | f :: fs, a :: as, b :: bs => fieldEq eq f a b && fieldsEq eq fs as bs
  | _, _, _ => true

/-- generated `Equals` on values of type `t` (value representation; structs may be nil). -/
def equalsG (env : Env) : Nat → Ty → GVal → GVal → Bool
  | 0, _, _, _ => false
  | fuel + 1, t, a, b =>
    match t.root with
    | .bool | .i8 | .i16 | .i32 | .i64 | .double | .string | .enum _ => primEq a b
    | .binary => bytesOf a == bytesOf b                      -- bytes.Equal: nil = empty
    | .list e => allPairwise (equalsG env fuel e) (listOf a) (listOf b)
    | .set e =>
      if e.isPrim then
        (listOf a).length == (listOf b).length && subR keyEqFlip (listOf b) (listOf a)
      else
        (listOf a).length == (listOf b).length && subR (equalsG env fuel e) (listOf a) (listOf b)
    | .sset e =>
      (listOf a).length == (listOf b).length && subR (equalsG env fuel e) (listOf a) (listOf b)
    | .map k v =>
      if k.isPrim then
        (pairsOf a).length == (pairsOf b).length &&
          mapSub keyEqFlip (equalsG env fuel v) (pairsOf a) (pairsOf b)
      else
        (pairsOf a).length == (pairsOf b).length &&
          mapSub (equalsG env fuel k) (equalsG env fuel v) (pairsOf a) (pairsOf b)
    | .struct n =>
      match a, b with
      | .nil, .nil => true
      | .nil, _ => false
      | _, .nil => false
      | .struct as, .struct bs =>
        match env.find n with
        | some sd => fieldsEq (equalsG env fuel) sd.fields as bs
        | none => false
      | _, _ => false
    | .typedef .. => false

/-! ### Default constructor and accessors (gen/field.go) -/

/-- zero value of a type in value representation (what an accessor's named result holds). -/
def zeroOf (t : Ty) : GVal :=
  match t.root with
  | .bool => .bool false | .i8 => .i8 0 | .i16 => .i16 0 | .i32 => .i32 0 | .i64 => .i64 0
  | .double => .double 0 | .string => .str [] | .enum _ => .i32 0
  | _ => .nil

/-- `Default_<Name>()`: only generated when some field has a default. Fields without a
default keep Go's zero value: nil for pointers/slices/maps, the zero for required primitives. -/
def defaultCtor (sd : StructDef) : Option GVal :=
  if sd.fields.any (·.dflt.isSome) then
    some (.struct (sd.fields.map fun f =>
      f.dflt.getD (if f.req && f.ty.isPrim then zeroOf f.ty else .nil)))
  else none

/-- `Get<Field>()` on receiver `recv` (nil allowed). -/
def getField (sd : StructDef) (idx : Nat) (recv : GVal) : Option GVal :=
  match sd.fields[idx]? with
  | none => none
  | some f =>
    let cur : GVal := match recv with
      | .struct gs => gs.getD idx .nil
      | _ => .nil
    if f.req then
      match recv with
      | .struct _ => some (if cur.isNil then zeroOf f.ty else cur)
      | _ => some (zeroOf f.ty)
    else if !cur.isNil then some cur
    else match f.dflt with
      | some d => some d
      | none => some (zeroOf f.ty)

/-- `IsSet<Field>()`. -/
def isSetField (idx : Nat) (recv : GVal) : Bool :=
  match recv with
  | .struct gs => !(gs.getD idx .nil).isNil
  | _ => false

/-! ### What String()/Error()/zap show (C15)

The observable is a list of tokens: `L:<name>` for a field that is shown with its value,
`RED:<name>` for a set redacted field (shown as `<redacted>`), `V:<leaf>` for every leaf
value that is shown. `zap = false` is String()/Error() (names are Go field names),
`zap = true` is MarshalLogObject (names are labels; `go.nolog` fields are absent). -/

def natToInt (bits : Nat) (n : Nat) : Int :=
  if n < 2 ^ (bits - 1) then (n : Int) else (n : Int) - (2 ^ bits : Nat)

def isMarker (bs : Bytes) : Bool :=
  match bs with
  | 0x6d :: 0x6b :: d :: ds => (d :: ds).all fun c => 0x30 ≤ c.toNat && c.toNat ≤ 0x39   -- "mk<digits>"
  | _ => false

def leafToken : GVal → Option String
  | .bool b => some (if b then "V:b:true" else "V:b:false")
  | .i8 v => some s!"V:n:{natToInt 8 v.toNat}"
  | .i16 v => some s!"V:n:{natToInt 16 v.toNat}"
  | .i32 v => some s!"V:n:{natToInt 32 v.toNat}"
  | .i64 v => some s!"V:n:{natToInt 64 v.toNat}"
  | .double v => some s!"V:d:{v.toNat}"
  | .str bs => some (if isMarker bs then "V:" ++ String.ofList (bs.map fun b => Char.ofNat b.toNat) else "V:x:" ++ hexOfBytes bs)
  | .bin bs => some (if isMarker bs then "V:" ++ String.ofList (bs.map fun b => Char.ofNat b.toNat) else "V:x:" ++ hexOfBytes bs)
  | _ => none

def visibleFields (vis : Ty → GVal → List String) (zap : Bool) : List Field → List GVal → List String
  | f :: fs, g :: gs =>
    let rest := visibleFields vis zap fs gs
    if zap && f.nolog then rest
    else if !f.req && g.isNil then rest
    else
      let name := if zap then f.label else f.goName
      if f.redact then ("RED:" ++ name) :: rest
      else (("L:" ++ name) :: vis f.ty g) ++ rest
  | _, _ => []

/-- tokens visible in the rendering of a value of type `t`. -/
def visible (env : Env) (zap : Bool) : Nat → Ty → GVal → List String
  | 0, _, _ => []
  | fuel + 1, t, g =>
    match t.root, g with
    | .list e, .list xs => xs.flatMap (visible env zap fuel e)
    | .set e, .set _ xs => xs.flatMap (visible env zap fuel e)
    | .sset e, .set _ xs => xs.flatMap (visible env zap fuel e)
    | .map k v, .map _ kvs => kvs.flatMap fun kv => visible env zap fuel k kv.1 ++ visible env zap fuel v kv.2
    | .struct n, .struct gs =>
      match env.find n with
      | some sd => visibleFields (visible env zap fuel) zap sd.fields gs
      | none => []
    | _, g => (leafToken g).toList

/-- a value with every redacted field's content replaced by a constant (keeping set/unset),
and for zap every no-log field removed. -/
def eraseFields (er : Ty → GVal → GVal) (zap : Bool) : List Field → List GVal → List GVal
  | f :: fs, g :: gs =>
    (if (f.redact || (zap && f.nolog)) then (if g.isNil then .nil else .bool true) else er f.ty g)
      :: eraseFields er zap fs gs
  | _, _ => []

def eraseRedacted (env : Env) (zap : Bool) : Nat → Ty → GVal → GVal
  | 0, _, g => g
  | fuel + 1, t, g =>
    match t.root, g with
    | .list e, .list xs => .list (xs.map (eraseRedacted env zap fuel e))
    | .set e, .set h xs => .set h (xs.map (eraseRedacted env zap fuel e))
    | .sset e, .set h xs => .set h (xs.map (eraseRedacted env zap fuel e))
    | .map k v, .map h kvs =>
      .map h (kvs.map fun kv => (eraseRedacted env zap fuel k kv.1, eraseRedacted env zap fuel v kv.2))
    | .struct n, .struct gs =>
      match env.find n with
      | some sd => .struct (eraseFields (eraseRedacted env zap fuel) zap sd.fields gs)
      | none => g
    | _, g => g

end ThriftVerif.Schema
