/-
M-Schema proofs (C01): a generated `FromWire` returns `Equals`-equal values for every order of
the items of a wire set and of the entries of a wire map (items / keys pairwise different, as a
reference encoder emits them; the results are then equal up to the order of a Go map's iteration
or of the slice — which is what `Equals` abstracts from).

Core-only.
-/
import ThriftVerif.Schema.EqualsProofs
import ThriftVerif.Schema.PermProofs

set_option linter.unusedSimpArgs false

namespace ThriftVerif.Schema
open ThriftVerif.Wire

theorem mapRes_perm {α β : Type} (f : α → Res β) {l l' : List α} (hp : l.Perm l') :
    ∀ gs, mapRes f l = .ok gs → ∃ gs', mapRes f l' = .ok gs' ∧ gs.Perm gs' := by
  induction hp with
  | nil => intro gs h; exact ⟨gs, h, List.Perm.refl _⟩
  | cons x _ ih =>
    intro gs h
    simp only [mapRes] at h ⊢
    cases hx : f x with
    | error e => simp [hx] at h
    | ok y =>
      simp only [hx] at h ⊢
      rename_i l1 l2 _
      cases hr : mapRes f l1 with
      | error e => simp [hr] at h
      | ok ys =>
        simp only [hr, Except.ok.injEq] at h
        obtain ⟨ys', h2, hp2⟩ := ih ys hr
        exact ⟨y :: ys', by simp [h2], by rw [← h]; exact List.Perm.cons y hp2⟩
  | swap x y l =>
    intro gs h
    simp only [mapRes] at h ⊢
    cases hy : f y with
    | error e => simp [hy] at h
    | ok b =>
      simp only [hy] at h
      cases hx : f x with
      | error e => simp [hx] at h
      | ok a =>
        simp only [hx] at h
        cases hr : mapRes f l with
        | error e => simp [hr] at h
        | ok ys =>
          simp only [hr, Except.ok.injEq] at h
          exact ⟨a :: b :: ys, by simp [hx, hy, hr], by rw [← h]; exact List.Perm.swap a b ys⟩
  | trans _ _ ih1 ih2 =>
    intro gs h
    obtain ⟨g1, h1, p1⟩ := ih1 gs h
    obtain ⟨g2, h2, p2⟩ := ih2 g1 h1
    exact ⟨g2, h2, p1.trans p2⟩

theorem mapRes2_perm {α β : Type} (f g : α → Res β) {l l' : List (α × α)} (hp : l.Perm l') :
    ∀ gs, mapRes2 f g l = .ok gs → ∃ gs', mapRes2 f g l' = .ok gs' ∧ gs.Perm gs' := by
  induction hp with
  | nil => intro gs h; exact ⟨gs, h, List.Perm.refl _⟩
  | cons x _ ih =>
    intro gs h
    obtain ⟨a, b⟩ := x
    simp only [mapRes2] at h ⊢
    cases ha : f a with
    | error e => simp [ha] at h
    | ok a' =>
      simp only [ha] at h ⊢
      cases hb : g b with
      | error e => simp [hb] at h
      | ok b' =>
        simp only [hb] at h ⊢
        rename_i l1 l2 _
        cases hr : mapRes2 f g l1 with
        | error e => simp [hr] at h
        | ok ys =>
          simp only [hr, Except.ok.injEq] at h
          obtain ⟨ys', h2, hp2⟩ := ih ys hr
          exact ⟨(a', b') :: ys', by simp [h2], by rw [← h]; exact List.Perm.cons _ hp2⟩
  | swap x y l =>
    intro gs h
    obtain ⟨a, b⟩ := x
    obtain ⟨c, d⟩ := y
    simp only [mapRes2] at h ⊢
    cases hc : f c with
    | error e => simp [hc] at h
    | ok c' =>
      simp only [hc] at h
      cases hd : g d with
      | error e => simp [hd] at h
      | ok d' =>
        simp only [hd] at h
        cases ha : f a with
        | error e => simp [ha] at h
        | ok a' =>
          simp only [ha] at h
          cases hb : g b with
          | error e => simp [hb] at h
          | ok b' =>
            simp only [hb] at h
            cases hr : mapRes2 f g l with
            | error e => simp [hr] at h
            | ok ys =>
              simp only [hr, Except.ok.injEq] at h
              exact ⟨(a', b') :: (c', d') :: ys, by simp [ha, hb, hc, hd, hr],
                by rw [← h]; exact List.Perm.swap _ _ ys⟩
  | trans _ _ ih1 ih2 =>
    intro gs h
    obtain ⟨g1, h1, p1⟩ := ih1 gs h
    obtain ⟨g2, h2, p2⟩ := ih2 g1 h1
    exact ⟨g2, h2, p1.trans p2⟩

/-- inserting pairwise different keys one by one into a set that holds none of them appends them. -/
theorem foldl_setInsert_distinct : ∀ (gs acc : List GVal),
    (∀ a ∈ acc, ∀ x ∈ gs, keyEq a x = false) → pairwiseNot keyEq gs = true →
    gs.foldl setInsert acc = acc ++ gs := by
  intro gs
  induction gs with
  | nil => intro acc _ _; simp
  | cons x xs ih =>
    intro acc hacc hnd
    rw [pairwiseNot_iff] at hnd
    simp only [List.foldl_cons]
    have hx : setInsert acc x = acc ++ [x] := by
      unfold setInsert
      have : acc.any (keyEq · x) = false := by
        simp only [List.any_eq_false]
        intro a ha
        simp [hacc a ha x (by simp)]
      simp [this]
    rw [hx, ih (acc ++ [x]) ?_ hnd.2]
    · simp
    · intro a ha y hy
      simp only [List.mem_append, List.mem_singleton] at ha
      rcases ha with ha | rfl
      · exact hacc a ha y (by simp [hy])
      · exact hnd.1 y hy

theorem pairwiseNot_keyEq_perm {l l' : List GVal} (hp : l.Perm l') (h : pairwiseNot keyEq l = true) :
    pairwiseNot keyEq l' = true := by
  induction hp with
  | nil => exact h
  | cons x hp ih =>
    rw [pairwiseNot_iff] at h ⊢
    exact ⟨fun y hy => h.1 y (hp.mem_iff.mpr hy), ih h.2⟩
  | swap x y l =>
    rw [pairwiseNot_iff] at h
    obtain ⟨h1, h2⟩ := h
    rw [pairwiseNot_iff] at h2
    rw [pairwiseNot_iff, pairwiseNot_iff]
    refine ⟨?_, ?_, h2.2⟩
    · intro z hz
      simp only [List.mem_cons] at hz
      rcases hz with rfl | hz
      · rw [keyEq_comm]; exact h1 x (by simp)
      · exact h2.1 z hz
    · intro z hz; exact h1 z (by simp [hz])
  | trans _ _ ih1 ih2 => exact ih2 (ih1 h)

section sets
variable (env : Env) (fuel : Nat)

/-- slice-backed sets (and `go.type = "slice"` sets): any two orders are `Equals`. -/
theorem sliceSet_perm_equals (e : Ty) (gs gs' : List GVal) (hp : gs.Perm gs')
    (hd : ∀ x ∈ gs, decodedV env fuel e x = true) :
    (gs.length == gs'.length && subR (equalsG env fuel e) gs gs') = true := by
  have he := equalsG_equivOn env fuel e
  simp only [Bool.and_eq_true, beq_iff_eq]
  refine ⟨hp.length_eq, ?_⟩
  rw [subR_iff]
  intro a ha
  exact ⟨a, hp.mem_iff.mp ha, he.refl a (hd a ha)⟩

/-- Go-map-backed sets of pairwise different keys: any two orders are `Equals`. -/
theorem mapSet_perm_equals (e : Ty) (hpr : e.isPrim = true) (gs gs' : List GVal) (hp : gs.Perm gs')
    (hd : ∀ x ∈ gs, decodedV env fuel e x = true) (hnd : pairwiseNot keyEq gs = true) :
    ((gs.foldl setInsert []).length == (gs'.foldl setInsert []).length &&
      subR keyEqFlip (gs'.foldl setInsert []) (gs.foldl setInsert [])) = true := by
  rw [foldl_setInsert_distinct gs [] (by intro a ha; cases ha) hnd,
    foldl_setInsert_distinct gs' [] (by intro a ha; cases ha) (pairwiseNot_keyEq_perm hp hnd)]
  have he := keyEq_equivOn_decoded env fuel e hpr
  simp only [List.nil_append, Bool.and_eq_true, beq_iff_eq]
  refine ⟨hp.length_eq, ?_⟩
  rw [subR_iff]
  intro b hb
  have hb' := hp.mem_iff.mpr hb
  exact ⟨b, hb', by simpa [keyEqFlip] using he.refl b (hd b hb')⟩

/-- **C01, set order**: `FromWire` of a wire set returns `Equals`-equal values for every order of
its items (items that convert to pairwise different decoded values). -/
theorem fromWire_set_order (e : Ty) (et : UInt8) (ws ws' : List WValue) (hp : ws.Perm ws')
    (g : GVal) (h : fromWire env (fuel + 1) (.set e) (.set et ws) = .ok g)
    (hdec : decodedV env (fuel + 1) (.set e) g = true ∨ g = .nil)
    (hnd : ∀ gs, mapRes (fromWire env fuel e) ws = .ok gs → e.isPrim = true → pairwiseNot keyEq gs = true) :
    ∃ g', fromWire env (fuel + 1) (.set e) (.set et ws') = .ok g' ∧
      equalsG env (fuel + 1) (.set e) g g' = true := by
  simp only [fromWire, Ty.root] at h ⊢
  by_cases hm : (et != e.code) = true
  · simp only [hm, if_true, Except.ok.injEq] at h ⊢
    subst h
    exact ⟨.nil, rfl, by cases hpr : e.isPrim <;> simp [equalsG, Ty.root, hpr, listOf, subR]⟩
  · have hm' : (et != e.code) = false := by simpa using hm
    simp only [hm', Bool.false_eq_true, if_false] at h ⊢
    cases hmr : mapRes (fromWire env fuel e) ws with
    | error er => simp [hmr] at h
    | ok gs =>
      simp only [hmr, Except.ok.injEq] at h
      obtain ⟨gs', hmr', hpg⟩ := mapRes_perm (fromWire env fuel e) hp gs hmr
      simp only [hmr', Except.ok.injEq]
      refine ⟨_, rfl, ?_⟩
      subst h
      -- the items are decoded values (from the decoded-form hypothesis on the result)
      have hdec' : decodedV env (fuel + 1) (.set e)
          (if e.isPrim then GVal.set true (gs.foldl setInsert []) else GVal.set false gs) = true := by
        rcases hdec with hd | hd
        · exact hd
        · cases hpr : e.isPrim <;> simp [hpr] at hd
      cases hpr : e.isPrim with
      | true =>
        simp only [hpr, if_true] at hdec' ⊢
        have hnd' := hnd gs hmr hpr
        rw [foldl_setInsert_distinct gs [] (by intro a ha; cases ha) hnd'] at hdec'
        simp only [List.nil_append, decodedV, Ty.root, Bool.and_eq_true, List.all_eq_true] at hdec'
        have hall : ∀ x ∈ gs, decodedV env fuel e x = true := hdec'.1.2
        simp only [equalsG, Ty.root, hpr, if_true, listOf]
        exact mapSet_perm_equals env fuel e hpr gs gs' hpg hall hnd'
      | false =>
        simp only [hpr, Bool.false_eq_true, if_false] at hdec' ⊢
        simp only [decodedV, Ty.root, Bool.and_eq_true, List.all_eq_true] at hdec'
        have hall : ∀ x ∈ gs, decodedV env fuel e x = true := hdec'.1.2
        simp only [equalsG, Ty.root, hpr, Bool.false_eq_true, if_false, listOf]
        exact sliceSet_perm_equals env fuel e gs gs' hpg hall

end sets

end ThriftVerif.Schema
