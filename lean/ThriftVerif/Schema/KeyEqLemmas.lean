/-
Lemmas about Go's `==` on primitive values (`keyEq`) for C14.
-/
import ThriftVerif.Schema.RelLemmas

set_option linter.unusedSimpArgs false

namespace ThriftVerif.Schema
open ThriftVerif.Wire

theorem beq_comm' {α : Type} [BEq α] [LawfulBEq α] (a b : α) : (a == b) = (b == a) := by
  rw [Bool.eq_iff_iff]; simp only [beq_iff_eq]; exact eq_comm

theorem keyEq_comm (a b : GVal) : keyEq a b = keyEq b a := by
  cases a <;> cases b <;> simp only [keyEq]
  case bool.bool x y => exact beq_comm' x y
  case i8.i8 x y => exact beq_comm' x y
  case i16.i16 x y => exact beq_comm' x y
  case i32.i32 x y => exact beq_comm' x y
  case i64.i64 x y => exact beq_comm' x y
  case str.str x y => exact beq_comm' x y
  case double.double x y =>
    rw [beq_comm' x y, Bool.or_comm (isNaNBits x), Bool.and_comm (isZeroBits x)]

/-- primitive values of one primitive type, without NaN. -/
def PrimDom (t : Ty) (g : GVal) : Prop :=
  match t.root, g with
  | .bool, .bool _ => True
  | .i8, .i8 _ => True
  | .i16, .i16 _ => True
  | .i32, .i32 _ => True
  | .i64, .i64 _ => True
  | .double, .double v => isNaNBits v = false
  | .enum _, .i32 _ => True
  | .string, .str _ => True
  | _, _ => False

theorem nan_of_primDom (t : Ty) (a : UInt64) (h : PrimDom t (.double a)) : isNaNBits a = false := by
  unfold PrimDom at h
  generalize t.root = r at h
  cases r <;> simp at h
  exact h

theorem keyEq_double_trans (a b c : UInt64)
    (h1 : keyEq (.double a) (.double b) = true) (h2 : keyEq (.double b) (.double c) = true) :
    keyEq (.double a) (.double c) = true := by
  simp only [keyEq] at h1 h2 ⊢
  by_cases na : isNaNBits a = true
  · simp [na] at h1
  by_cases nb : isNaNBits b = true
  · simp [nb] at h1
  by_cases nc : isNaNBits c = true
  · simp [nc] at h2
  simp only [na, nb, nc, Bool.or_self, Bool.false_eq_true, if_false] at h1 h2 ⊢
  by_cases za : isZeroBits a = true <;> by_cases zb : isZeroBits b = true <;>
    by_cases zc : isZeroBits c = true <;> simp only [za, zb, zc, Bool.and_self, Bool.and_true, Bool.true_and,
      Bool.and_false, Bool.false_and, if_true, if_false, Bool.false_eq_true] at h1 h2 ⊢
  all_goals first
    | rfl
    | (have e1 : a = b := by simpa using h1
       have e2 : b = c := by simpa using h2
       subst e1 e2; simp_all)
    | (have e1 : a = b := by simpa using h1
       subst e1; simp_all)
    | (have e2 : b = c := by simpa using h2
       subst e2; simp_all)

theorem keyEq_refl_prim (t : Ty) (x : GVal) (hx : PrimDom t x) : keyEq x x = true := by
  unfold PrimDom at hx
  generalize t.root = r at hx
  cases x <;> cases r <;> simp at hx <;> simp [keyEq, hx]

theorem keyEq_trans_any (x y z : GVal) (h1 : keyEq x y = true) (h2 : keyEq y z = true) :
    keyEq x z = true := by
  cases x <;> cases y <;> simp only [keyEq] at h1 <;> try (cases h1; done)
  case double.double a b =>
    cases z <;> simp only [keyEq] at h2 <;> try (cases h2; done)
    case double c =>
      exact keyEq_double_trans a b c (by simpa [keyEq] using h1) (by simpa [keyEq] using h2)
  all_goals
    have e := eq_of_beq h1
    subst e
    exact h2

theorem keyEq_equivOn_prim (t : Ty) : EquivOn (PrimDom t) keyEq :=
  ⟨keyEq_refl_prim t, fun x y _ _ h => by rw [keyEq_comm]; exact h,
   fun x y z _ _ _ h1 h2 => keyEq_trans_any x y z h1 h2⟩

/-- decoded values of a primitive type lie in `PrimDom`. -/
theorem primDom_of_decoded (env : Env) (fuel : Nat) (t : Ty) (g : GVal) (hp : t.isPrim = true)
    (h : decodedV env fuel t g = true) : PrimDom t g := by
  cases fuel with
  | zero => simp [decodedV] at h
  | succ fuel =>
    unfold decodedV at h
    unfold PrimDom
    unfold Ty.isPrim at hp
    generalize t.root = r at h hp ⊢
    cases r <;> cases g <;> simp_all

theorem keyEq_equivOn_decoded (env : Env) (fuel : Nat) (t : Ty) (hp : t.isPrim = true) :
    EquivOn (fun g => decodedV env fuel t g = true) keyEq := by
  have he := keyEq_equivOn_prim t
  refine ⟨?_, ?_, ?_⟩
  · intro x hx; exact he.refl x (primDom_of_decoded env fuel t x hp hx)
  · intro x y hx hy h
    exact he.symm x y (primDom_of_decoded env fuel t x hp hx) (primDom_of_decoded env fuel t y hp hy) h
  · intro x y z hx hy hz h1 h2
    exact he.trans x y z (primDom_of_decoded env fuel t x hp hx) (primDom_of_decoded env fuel t y hp hy)
      (primDom_of_decoded env fuel t z hp hz) h1 h2

end ThriftVerif.Schema
