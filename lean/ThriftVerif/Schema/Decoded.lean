/-
M-Schema, part 7: "values obtained by decoding" (C01, C14) — the decidable predicate
`decodedV`: free of NaN, lengths below 2^31 (they came off the wire), Go-map-backed sets/maps have pairwise different keys, slice-backed
sets/maps have pairwise non-`Equals` elements/keys, no nil inside containers, absent fields
only where the schema allows it (optional without default), defaults filled.

Core-only.
-/
import ThriftVerif.Schema.Methods

namespace ThriftVerif.Schema
open ThriftVerif.Wire

/-- no two elements related by `r`. -/
def pairwiseNot {α : Type} (r : α → α → Bool) : List α → Bool
  | [] => true
  | x :: xs => xs.all (fun y => !r x y) && pairwiseNot r xs

def decodedFields (dv : Ty → GVal → Bool) : List Field → List GVal → Bool
  | f :: fs, g :: gs =>
    (if g.isNil then !f.req && f.dflt.isNone else dv f.ty g) && decodedFields dv fs gs
  | [], [] => true
  | _, _ => false

def decodedV (env : Env) : Nat → Ty → GVal → Bool
  | 0, _, _ => false
  | fuel + 1, t, g =>
    match t.root, g with
    | .bool, .bool _ => true
    | .i8, .i8 _ => true
    | .i16, .i16 _ => true
    | .i32, .i32 _ => true
    | .i64, .i64 _ => true
    | .double, .double v => !isNaNBits v
    | .enum _, .i32 _ => true
    | .string, .str bs => bs.length < 2 ^ 31
    | .binary, .bin bs => bs.length < 2 ^ 31
    | .list e, .list xs => xs.length < 2 ^ 31 && xs.all (decodedV env fuel e)
    | .set e, .set h xs =>
      xs.length < 2 ^ 31 && h == e.isPrim && xs.all (decodedV env fuel e) &&
        (if h then pairwiseNot keyEq xs else pairwiseNot (equalsG env fuel e) xs)
    | .sset e, .set h xs =>
      xs.length < 2 ^ 31 && h == false && xs.all (decodedV env fuel e) && pairwiseNot (equalsG env fuel e) xs
    | .map k v, .map h kvs =>
      kvs.length < 2 ^ 31 && h == k.isPrim && kvs.all (fun kv => decodedV env fuel k kv.1 && decodedV env fuel v kv.2) &&
        (if h then pairwiseNot keyEq (kvs.map (·.1)) else pairwiseNot (equalsG env fuel k) (kvs.map (·.1)))
    | .struct n, .struct gs =>
      match env.find n with
      | some sd => decodedFields (decodedV env fuel) sd.fields gs
      | none => false
    | _, _ => false

/-- schema well-formedness used by the round trip: field ids are distinct within a struct. -/
def idsDistinct (fields : List Field) : Bool := pairwiseNot (fun a b : Field => a.id == b.id) fields

end ThriftVerif.Schema
