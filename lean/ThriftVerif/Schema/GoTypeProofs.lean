/-
M-Schema proofs for C19: formatting the plugin type description yields exactly the core
generator's Go type, for every type shape and both requiredness rules.
-/
import ThriftVerif.Schema.GoType

set_option linter.unusedSimpArgs false

namespace ThriftVerif.Schema

theorem typeReference_eq (t : Ty) : typeReference t = if t.isStruct then "*" ++ typeName t else typeName t := rfl

theorem refOf_typeName (t : Ty) : refOf t (typeName t) = typeReference t := rfl

/-- elements of containers (always built with required = true). -/
theorem format_build_req (t : Ty) : formatType (buildType t true) = typeReference t := by
  induction t with
  | typedef n t ih =>
    simp only [buildType, typeReference_eq]
    by_cases hs : (Ty.typedef n t).isStruct <;> simp [hs, formatType, typeName, refOf_typeName]
  | map k v ihk ihv =>
    simp only [buildType, typeReference_eq]
    by_cases hp : k.isPrim <;> simp [hp, formatType, typeName, refOf_typeName, ihk, ihv, Ty.isStruct, Ty.root]
  | list e ih => simp [buildType, typeReference_eq, formatType, typeName, refOf_typeName, ih, Ty.isStruct, Ty.root]
  | set e ih =>
    simp only [buildType, typeReference_eq]
    by_cases hp : e.isPrim <;> simp [hp, formatType, typeName, refOf_typeName, ih, Ty.isStruct, Ty.root]
  | sset e ih =>
    simp only [buildType, typeReference_eq]
    by_cases hp : e.isPrim <;> simp [hp, formatType, typeName, refOf_typeName, ih, Ty.isStruct, Ty.root]
  | _ => simp [buildType, typeReference_eq, formatType, typeName, refOf_typeName, Ty.isStruct, Ty.root]

/-- C19: for every type and both requiredness rules, format(build t) is the field's Go type. -/
theorem format_build_eq_core (t : Ty) (req : Bool) : formatType (buildType t req) = goType t req := by
  cases req with
  | true => simp [goType, format_build_req]
  | false =>
    simp only [goType, Bool.false_eq_true, if_false, typeReferencePtr]
    cases t with
    | typedef n t =>
      simp only [buildType]
      by_cases hs : (Ty.typedef n t).isStruct
      · have hr : (Ty.typedef n t).isRef = false := by
          simp only [Ty.isStruct, Ty.isRef] at hs ⊢
          generalize (Ty.typedef n t).root = r at hs ⊢
          cases r <;> simp_all
        simp [hs, hr, formatType, typeName, refOf_typeName]
      · by_cases hr : (Ty.typedef n t).isRef <;> simp [hs, hr, formatType, typeName, refOf_typeName]
    | map k v =>
      have hk := format_build_req k
      have hv := format_build_req v
      simp only [buildType]
      by_cases hp : k.isPrim <;> simp [hp, formatType, typeName, refOf_typeName, hk, hv, Ty.isRef, Ty.root]
    | list e => simp [buildType, formatType, typeName, refOf_typeName, format_build_req e, Ty.isRef, Ty.root]
    | set e =>
      simp only [buildType]
      by_cases hp : e.isPrim <;> simp [hp, formatType, typeName, refOf_typeName, format_build_req e, Ty.isRef, Ty.root]
    | sset e =>
      simp only [buildType]
      by_cases hp : e.isPrim <;> simp [hp, formatType, typeName, refOf_typeName, format_build_req e, Ty.isRef, Ty.root]
    | _ => simp [buildType, formatType, typeName, refOf_typeName, Ty.isRef, Ty.root]

end ThriftVerif.Schema
