/-
M-Schema, part 1: resolved schemas, Go-level values, and the four (de)serialisation
methods of thriftrw-generated code as the templates structure them
(gen/field.go, list.go, set.go, map.go, typedef.go, enum.go, wire.go, stream.go).

Core-only.
-/
import ThriftVerif.Wire.Writer
import ThriftVerif.Wire.Skip

namespace ThriftVerif.Schema
open ThriftVerif.Wire

/-- a resolved Thrift type (SCHEMA_PROTOCOL.md). -/
inductive Ty where
  | bool | i8 | i16 | i32 | i64 | double | string | binary
  | enum (name : String)
  | list (e : Ty)
  | set (e : Ty)
  | sset (e : Ty)              -- set annotated go.type = "slice"
  | map (k v : Ty)
  | struct (name : String)
  | typedef (name : String) (t : Ty)
  deriving Repr, Inhabited, BEq

/-- `compile.RootTypeSpec`. -/
def Ty.root : Ty → Ty
  | .typedef _ t => t.root
  | t => t

/-- `typeCode` (gen/wire.go): the wire type of the root. -/
def Ty.code (t : Ty) : UInt8 :=
  match t.root with
  | .bool => 2 | .i8 => 3 | .double => 4 | .i16 => 6 | .i32 => 8 | .i64 => 10
  | .string => 11 | .binary => 11 | .enum _ => 8
  | .struct _ => 12 | .map .. => 13 | .set _ => 14 | .sset _ => 14 | .list _ => 15
  | .typedef .. => 0

/-- `isPrimitiveType` (gen/type.go): primitives, strings, enums and typedefs of those. -/
def Ty.isPrim (t : Ty) : Bool :=
  match t.root with
  | .bool | .i8 | .i16 | .i32 | .i64 | .double | .string | .enum _ => true
  | _ => false

def Ty.isList (t : Ty) : Bool :=
  match t.root with
  | .list _ => true
  | _ => false

/-- Go-level values (SCHEMA_PROTOCOL.md "G"). -/
inductive GVal where
  | nil
  | bool (b : Bool) | i8 (v : UInt8) | i16 (v : UInt16) | i32 (v : UInt32) | i64 (v : UInt64)
  | double (bits : UInt64)
  | str (bs : Bytes)
  | bin (bs : Bytes)
  | list (xs : List GVal)
  | set (h : Bool) (xs : List GVal)
  | map (h : Bool) (kvs : List (GVal × GVal))
  | struct (fs : List GVal)
  deriving Repr, Inhabited, BEq

def GVal.isNil : GVal → Bool
  | .nil => true
  | _ => false

inductive Kind where
  | struct | union | uniona | exception | args | result | resultv
  deriving Repr, DecidableEq, Inhabited

/-- does the kind carry the "exactly / at most one field" rule, and which. -/
def Kind.arity : Kind → Option Bool    -- some true = exactly one, some false = at most one
  | .union => some true
  | .result => some true
  | .uniona => some false
  | .resultv => some false
  | _ => none

structure Field where
  id : UInt16
  goName : String
  label : String
  req : Bool
  redact : Bool
  nolog : Bool
  dflt : Option GVal
  ty : Ty
  deriving Repr, Inhabited

structure StructDef where
  name : String
  kind : Kind
  fields : List Field
  deriving Repr, Inhabited

structure Env where
  structs : List StructDef := []
  enums : List (String × List (String × UInt32)) := []
  deriving Repr, Inhabited

def Env.find (env : Env) (n : String) : Option StructDef :=
  env.structs.find? (·.name == n)

/-! ### small helpers over `Res` -/

def mapRes {α β : Type} (f : α → Res β) : List α → Res (List β)
  | [] => .ok []
  | x :: xs =>
    match f x with
    | .error e => .error e
    | .ok y =>
      match mapRes f xs with
      | .error e => .error e
      | .ok ys => .ok (y :: ys)

def mapRes2 {α β : Type} (f g : α → Res β) : List (α × α) → Res (List (β × β))
  | [] => .ok []
  | (a, b) :: xs =>
    match f a with
    | .error e => .error e
    | .ok a' =>
      match g b with
      | .error e => .error e
      | .ok b' =>
        match mapRes2 f g xs with
        | .error e => .error e
        | .ok ys => .ok ((a', b') :: ys)

/-! ### ToWire (value path serialiser) -/

/-- the nil check applied to elements/keys/values of containers: reference-typed
(non-primitive) elements must not be nil (gen/list.go, set.go, map.go ValueList.ForEach). -/
def elemNilBad (t : Ty) (g : GVal) : Bool := !t.isPrim && g.isNil

/-- field-level emission rule shared by ToWire and Encode: which value (if any) is written
for a field holding `g`; `none` = nothing written; error = "field … is required". -/
def fieldEmit (f : Field) (g : GVal) : Res (Option GVal) :=
  if f.req then
    if !f.ty.isPrim && !f.ty.isList && g.isNil then .error .bad else .ok (some g)
  else
    match f.dflt with
    | some d => .ok (some (if g.isNil then d else g))
    | none => if g.isNil then .ok none else .ok (some g)

/-- union arity rule on a count. -/
def arityOk (k : Kind) (n : Nat) : Bool :=
  match k.arity with
  | some true => n == 1
  | some false => n ≤ 1
  | none => true

/-- the field loop of a generated struct `ToWire`, given the serialiser for field values. -/
def toWireFields (tw : Ty → GVal → Res WValue) : List Field → List GVal → Res (List (UInt16 × WValue))
  | f :: fs, g :: gs =>
    match fieldEmit f g with
    | .error er => .error er
    | .ok none => toWireFields tw fs gs
    | .ok (some g') =>
      match tw f.ty g' with
      | .error er => .error er
      | .ok w =>
        match toWireFields tw fs gs with
        | .error er => .error er
        | .ok rest => .ok ((f.id, w) :: rest)
  | _, _ => .ok []

/-- the arity rule as generated: the templates emit it only for union-like structs that have
at least one field (`<if and .IsUnion (len .Fields)>`), so an empty union has no check. -/
def arityOkS (sd : StructDef) (n : Nat) : Bool := sd.fields.isEmpty || arityOk sd.kind n

/-- generated `ToWire`, with every lazily wrapped container forced. -/
def toWire (env : Env) : Nat → Ty → GVal → Res WValue
  | 0, _, _ => .error .fuel
  | fuel + 1, t, g =>
    match t.root, g with
    | .bool, .bool b => .ok (.bool b)
    | .i8, .i8 v => .ok (.i8 v)
    | .i16, .i16 v => .ok (.i16 v)
    | .i32, .i32 v => .ok (.i32 v)
    | .i64, .i64 v => .ok (.i64 v)
    | .double, .double v => .ok (.double v)
    | .enum _, .i32 v => .ok (.i32 v)
    | .string, .str bs => .ok (.binary bs)
    | .binary, .bin bs => .ok (.binary bs)
    | .list e, .nil => .ok (.list e.code [])       -- a nil slice is an empty list
    | .list e, .list xs =>
      match mapRes (fun x => if elemNilBad e x then .error .bad else toWire env fuel e x) xs with
      | .ok ws => .ok (.list e.code ws)
      | .error er => .error er
    | .set e, .nil => .ok (.set e.code [])        -- ranging over a nil Go map/slice: empty
    | .sset e, .nil => .ok (.set e.code [])
    | .map k v, .nil => .ok (.map k.code v.code [])
    | .set e, .set _ xs =>
      match mapRes (fun x => if elemNilBad e x then .error .bad else toWire env fuel e x) xs with
      | .ok ws => .ok (.set e.code ws)
      | .error er => .error er
    | .sset e, .set _ xs =>
      match mapRes (fun x => if elemNilBad e x then .error .bad else toWire env fuel e x) xs with
      | .ok ws => .ok (.set e.code ws)
      | .error er => .error er
    | .map k v, .map _ kvs =>
      match mapRes2 (fun x => if elemNilBad k x then .error .bad else toWire env fuel k x)
                    (fun x => if elemNilBad v x then .error .bad else toWire env fuel v x) kvs with
      | .ok ws => .ok (.map k.code v.code ws)
      | .error er => .error er
    | .struct n, .struct gs =>
      match env.find n with
      | none => .error .bad
      | some sd =>
        match toWireFields (toWire env fuel) sd.fields gs with
        | .error er => .error er
        | .ok ws => if arityOkS sd ws.length then .ok (.struct ws) else .error .bad
    | _, _ => .error .bad

end ThriftVerif.Schema
