/-
M-Schema proofs for C04 (serialisers): the streaming serialiser `Encode` performs exactly
the stream.Writer call sequence that `Writer.WriteValue` performs on the result of the
value-based serialiser `ToWire`, and fails exactly when `ToWire` fails. Hence both paths
emit the same bytes.
-/
import ThriftVerif.Schema.Read

set_option linter.unusedSimpArgs false

namespace ThriftVerif.Schema
open ThriftVerif.Wire

/-- schema well-formedness the compiler guarantees (compile/struct.go): union-like kinds have
neither required fields nor defaults. -/
def WFStruct (sd : StructDef) : Prop :=
  sd.kind.arity.isSome → ∀ f ∈ sd.fields, f.req = false ∧ f.dflt = none

def WFEnv (env : Env) : Prop := ∀ n sd, env.find n = some sd → WFStruct sd

/-- lift of "ops of the wire value" over results. -/
def liftOps : Res WValue → Res (List WriteOp)
  | .ok w => .ok (opsOfValue w)
  | .error e => .error e

theorem toWire_tcode (env : Env) (fuel : Nat) (t : Ty) (g : GVal) (w : WValue)
    (h : toWire env fuel t g = .ok w) : w.tcode = t.code := by
  cases fuel with
  | zero => simp [toWire] at h
  | succ fuel =>
    unfold toWire at h
    unfold Ty.code
    generalize t.root = r at h ⊢
    cases r <;> cases g <;> simp only [] at h <;>
      first
        | (cases h; rfl)
        | (split at h <;> first | (cases h; rfl) | cases h)
        | (split at h
           · cases h
           · split at h
             · cases h
             · split at h <;> first | (cases h; rfl) | cases h)
        | cases h

theorem concat_map_lift (F : GVal → Res (List WriteOp)) (G : GVal → Res WValue)
    (h : ∀ x, F x = liftOps (G x)) (xs : List GVal) :
    concatRes (xs.map F) =
      match mapRes G xs with
      | .ok ws => .ok (opsOfList ws)
      | .error e => .error e := by
  induction xs with
  | nil => simp [concatRes, mapRes, opsOfList]
  | cons x xs ih =>
    simp only [List.map_cons, concatRes, mapRes, h x]
    cases hG : G x with
    | error e => simp [liftOps]
    | ok w =>
      simp only [liftOps, ih]
      cases mapRes G xs with
      | error e => simp
      | ok ws => simp [opsOfList]

theorem concat_map_lift2 (Fk Fv : GVal → Res (List WriteOp)) (Gk Gv : GVal → Res WValue)
    (hk : ∀ x, Fk x = liftOps (Gk x)) (hv : ∀ x, Fv x = liftOps (Gv x)) (kvs : List (GVal × GVal)) :
    concatRes (kvs.map fun kv => seqOps (Fk kv.1) (Fv kv.2)) =
      match mapRes2 Gk Gv kvs with
      | .ok ws => .ok (opsOfItems ws)
      | .error e => .error e := by
  induction kvs with
  | nil => simp [concatRes, mapRes2, opsOfItems]
  | cons kv kvs ih =>
    obtain ⟨k, v⟩ := kv
    simp only [List.map_cons, concatRes, mapRes2]
    rw [hk k, hv v]
    cases hGk : Gk k with
    | error e => simp [liftOps, seqOps]
    | ok wk =>
      cases hGv : Gv v with
      | error e => simp [liftOps, seqOps]
      | ok wv =>
        rw [show seqOps (liftOps (Except.ok wk)) (liftOps (Except.ok wv)) =
          Except.ok (opsOfValue wk ++ opsOfValue wv) from rfl]
        simp only [ih]
        cases mapRes2 Gk Gv kvs with
        | error e => simp
        | ok ws => simp [opsOfItems, List.append_assoc]

theorem mapRes_length {α β : Type} (f : α → Res β) (xs : List α) (ys : List β)
    (h : mapRes f xs = .ok ys) : ys.length = xs.length := by
  induction xs generalizing ys with
  | nil => simp [mapRes] at h; subst h; rfl
  | cons x xs ih =>
    simp only [mapRes] at h
    split at h
    · cases h
    · split at h
      · cases h
      · rename_i ys' hys; cases h; simp [ih _ hys]

theorem mapRes2_length {α β : Type} (f g : α → Res β) (xs : List (α × α)) (ys : List (β × β))
    (h : mapRes2 f g xs = .ok ys) : ys.length = xs.length := by
  induction xs generalizing ys with
  | nil => simp [mapRes2] at h; subst h; rfl
  | cons x xs ih =>
    obtain ⟨a, b⟩ := x
    simp only [mapRes2] at h
    split at h
    · cases h
    · split at h
      · cases h
      · split at h
        · cases h
        · rename_i ys' hys; cases h; simp [ih _ hys]

/-- field loops agree, given agreement on field values and the type-code lemma. -/
theorem encodeFields_eq (en : Ty → GVal → Res (List WriteOp)) (tw : Ty → GVal → Res WValue)
    (h : ∀ t g, en t g = liftOps (tw t g))
    (hc : ∀ t g w, tw t g = .ok w → w.tcode = t.code)
    (fields : List Field) (gs : List GVal) :
    encodeFields en fields gs =
      match toWireFields tw fields gs with
      | .ok ws => .ok (opsOfFields ws)
      | .error e => .error e := by
  induction fields generalizing gs with
  | nil => simp [encodeFields, toWireFields, opsOfFields]
  | cons f fs ih =>
    cases gs with
    | nil => simp [encodeFields, toWireFields, opsOfFields]
    | cons g gs =>
      simp only [encodeFields, toWireFields]
      cases hfe : fieldEmit f g with
      | error e => simp
      | ok og =>
        cases og with
        | none => simp [ih]
        | some g' =>
          simp only [h f.ty g']
          cases htw : tw f.ty g' with
          | error e => simp [liftOps]
          | ok w =>
            simp only [liftOps, ih gs]
            cases toWireFields tw fs gs with
            | error e => simp
            | ok ws => simp [opsOfFields, hc _ _ _ htw]

/-- with no required fields and no defaults, the emitted fields are exactly the non-nil ones. -/
theorem toWireFields_length (tw : Ty → GVal → Res WValue) (fields : List Field) (gs : List GVal)
    (hf : ∀ f ∈ fields, f.req = false ∧ f.dflt = none) (ws : List (UInt16 × WValue))
    (h : toWireFields tw fields gs = .ok ws) : ws.length = countSet (gs.take fields.length) := by
  induction fields generalizing gs ws with
  | nil => simp [toWireFields] at h; subst h; simp [countSet]
  | cons f fs ih =>
    cases gs with
    | nil => simp [toWireFields] at h; subst h; simp [countSet]
    | cons g gs =>
      have hf' := hf f (by simp)
      have ihf := fun gs ws => ih gs (fun f' hm => hf f' (by simp [hm])) ws
      simp only [toWireFields, fieldEmit, hf'.1, hf'.2] at h
      by_cases hn : g.isNil
      · simp [hn] at h
        simp [countSet, hn, List.take]
        simpa [countSet] using ihf gs ws h
      · simp [hn] at h
        split at h
        · cases h
        · split at h
          · cases h
          · rename_i rest hrest; cases h
            have := ihf gs rest hrest
            simp [countSet, hn, List.take] at this ⊢
            omega

/-- C04 (serialisers): `Encode` = `WriteValue ∘ ToWire`, call for call, error for error. -/
theorem encodeS_eq_toWire (env : Env) (hwf : WFEnv env) (fuel : Nat) (t : Ty) (g : GVal) :
    encodeS env fuel t g = liftOps (toWire env fuel t g) := by
  induction fuel generalizing t g with
  | zero => simp [encodeS, toWire, liftOps]
  | succ fuel ih =>
    have ihe : ∀ (e : Ty), (fun x => if elemNilBad e x then Except.error Err.bad else encodeS env fuel e x) =
        fun x => liftOps (if elemNilBad e x then Except.error Err.bad else toWire env fuel e x) := by
      intro e; funext x; by_cases hb : elemNilBad e x <;> simp [hb, liftOps, ih]
    unfold encodeS toWire
    generalize t.root = r
    cases r <;> cases g <;> try (simp [liftOps, opsOfValue, opsOfList, opsOfItems]; done)
    case list.list e xs =>
      simp only []
      have := concat_map_lift _ (fun x => if elemNilBad e x then Except.error Err.bad else toWire env fuel e x)
        (fun x => congrFun (ihe e) x) xs
      rw [this]
      cases hm : mapRes (fun x => if elemNilBad e x then Except.error Err.bad else toWire env fuel e x) xs with
      | error er => simp [liftOps]
      | ok ws => simp [liftOps, opsOfValue, mapRes_length _ _ _ hm]
    case set.set e h xs =>
      simp only []
      have := concat_map_lift _ (fun x => if elemNilBad e x then Except.error Err.bad else toWire env fuel e x)
        (fun x => congrFun (ihe e) x) xs
      rw [this]
      cases hm : mapRes (fun x => if elemNilBad e x then Except.error Err.bad else toWire env fuel e x) xs with
      | error er => simp [liftOps]
      | ok ws => simp [liftOps, opsOfValue, mapRes_length _ _ _ hm]
    case sset.set e h xs =>
      simp only []
      have := concat_map_lift _ (fun x => if elemNilBad e x then Except.error Err.bad else toWire env fuel e x)
        (fun x => congrFun (ihe e) x) xs
      rw [this]
      cases hm : mapRes (fun x => if elemNilBad e x then Except.error Err.bad else toWire env fuel e x) xs with
      | error er => simp [liftOps]
      | ok ws => simp [liftOps, opsOfValue, mapRes_length _ _ _ hm]
    case map.map k v h kvs =>
      simp only []
      have := concat_map_lift2 _ _
        (fun x => if elemNilBad k x then Except.error Err.bad else toWire env fuel k x)
        (fun x => if elemNilBad v x then Except.error Err.bad else toWire env fuel v x)
        (fun x => congrFun (ihe k) x) (fun x => congrFun (ihe v) x) kvs
      rw [this]
      cases hm : mapRes2 (fun x => if elemNilBad k x then Except.error Err.bad else toWire env fuel k x)
        (fun x => if elemNilBad v x then Except.error Err.bad else toWire env fuel v x) kvs with
      | error er => simp [liftOps]
      | ok ws => simp [liftOps, opsOfValue, mapRes2_length _ _ _ _ hm]
    case struct.struct n gs =>
      simp only []
      cases hfind : env.find n with
      | none => simp [liftOps]
      | some sd =>
        simp only []
        rw [encodeFields_eq (encodeS env fuel) (toWire env fuel) (fun t g => ih t g)
          (fun t g w h => toWire_tcode env fuel t g w h)]
        cases htf : toWireFields (toWire env fuel) sd.fields gs with
        | error er => simp [liftOps]
        | ok ws =>
          simp only []
          have hlen : arityOkS sd ws.length = arityOkS sd (countSet (gs.take sd.fields.length)) := by
            unfold arityOkS
            cases ha : sd.kind.arity with
            | none => simp [arityOk, ha]
            | some b =>
              have := hwf n sd hfind (by simp [ha])
              rw [toWireFields_length _ _ _ this _ htf]
          rw [← hlen]
          by_cases hok : arityOkS sd ws.length <;> simp [hok, liftOps, opsOfValue]

/-- both serialisers produce the same bytes, or both fail. -/
theorem encode_bytes_agree (env : Env) (hwf : WFEnv env) (fuel : Nat) (t : Ty) (g : GVal) :
    (match encodeS env fuel t g with | .ok ops => some (runOps ops) | .error _ => none) =
    (match toWire env fuel t g with | .ok w => some (enc w) | .error _ => none) := by
  rw [encodeS_eq_toWire env hwf]
  cases toWire env fuel t g with
  | error e => simp [liftOps]
  | ok w => simp [liftOps, runOps_opsOfValue]

end ThriftVerif.Schema
