/-
M-Schema proofs: what `ToWire` produces for a decoded-form value is a well-typed wire value
(so the binary writer accepts it and the M-Wire round-trip theorems apply), and the
full circle through bytes and the streaming path.
-/
import ThriftVerif.Schema.RoundTripProofs
import ThriftVerif.Schema.StreamProofs

set_option linter.unusedSimpArgs false

namespace ThriftVerif.Schema
open ThriftVerif.Wire

theorem mapRes_forall {α β : Type} (f : α → Res β) (P : β → Prop) (xs : List α) (ys : List β)
    (h : mapRes f xs = .ok ys) (hp : ∀ x ∈ xs, ∀ y, f x = .ok y → P y) : ∀ y ∈ ys, P y := by
  induction xs generalizing ys with
  | nil => simp [mapRes] at h; subst h; simp
  | cons x xs ih =>
    simp only [mapRes] at h
    split at h
    · cases h
    · rename_i y hy
      split at h
      · cases h
      · rename_i ys' hys; cases h
        intro z hz
        simp only [List.mem_cons] at hz
        cases hz with
        | inl hz => subst hz; exact hp x (by simp) _ hy
        | inr hz => exact ih ys' hys (fun x' hx' => hp x' (by simp [hx'])) z hz

theorem mapRes2_forall {α β : Type} (f g : α → Res β) (P Q : β → Prop) (xs : List (α × α))
    (ys : List (β × β)) (h : mapRes2 f g xs = .ok ys)
    (hp : ∀ x ∈ xs, ∀ y, f x.1 = .ok y → P y) (hq : ∀ x ∈ xs, ∀ y, g x.2 = .ok y → Q y) :
    ∀ y ∈ ys, P y.1 ∧ Q y.2 := by
  induction xs generalizing ys with
  | nil => simp [mapRes2] at h; subst h; simp
  | cons x xs ih =>
    obtain ⟨a, b⟩ := x
    simp only [mapRes2] at h
    split at h
    · cases h
    · rename_i a' ha
      split at h
      · cases h
      · rename_i b' hb
        split at h
        · cases h
        · rename_i ys' hys; cases h
          intro z hz
          simp only [List.mem_cons] at hz
          cases hz with
          | inl hz => subst hz; exact ⟨hp (a, b) (by simp) _ ha, hq (a, b) (by simp) _ hb⟩
          | inr hz =>
            exact ih ys' hys (fun x' hx' => hp x' (by simp [hx'])) (fun x' hx' => hq x' (by simp [hx'])) z hz

theorem wtList_of_forall (et : UInt8) (ws : List WValue)
    (h : ∀ w ∈ ws, w.tcode = et ∧ w.wt = true) : wtList et ws = true := by
  induction ws with
  | nil => rfl
  | cons w ws ih =>
    have := h w (by simp)
    simp [wtList, this.1, this.2, ih (fun w' hw' => h w' (by simp [hw']))]

theorem wtItems_of_forall (kt vt : UInt8) (ws : List (WValue × WValue))
    (h : ∀ w ∈ ws, (w.1.tcode = kt ∧ w.1.wt = true) ∧ (w.2.tcode = vt ∧ w.2.wt = true)) :
    wtItems kt vt ws = true := by
  induction ws with
  | nil => rfl
  | cons w ws ih =>
    obtain ⟨k, v⟩ := w
    have := h (k, v) (by simp)
    simp only at this
    simp [wtItems, this.1.1, this.1.2, this.2.1, this.2.2, ih (fun w' hw' => h w' (by simp [hw']))]

theorem toWireFields_wt (tw : Ty → GVal → Res WValue) (dv : Ty → GVal → Bool)
    (hval : ∀ t g w, dv t g = true → tw t g = .ok w → w.wt = true)
    (fields : List Field) (gs : List GVal) (ws : List (UInt16 × WValue))
    (hdec : decodedFields dv fields gs = true) (h : toWireFields tw fields gs = .ok ws) :
    wtFields ws = true := by
  induction fields generalizing gs ws with
  | nil =>
    cases gs with
    | nil => simp [toWireFields] at h; subst h; rfl
    | cons _ _ => simp [decodedFields] at hdec
  | cons f fs ih =>
    cases gs with
    | nil => simp [decodedFields] at hdec
    | cons g gs =>
      simp only [decodedFields, Bool.and_eq_true] at hdec
      simp only [toWireFields] at h
      by_cases hn : g.isNil = true
      · simp only [hn, if_true, Bool.and_eq_true, Bool.not_eq_true', Option.isNone_iff_eq_none] at hdec
        have he : fieldEmit f g = .ok none := by simp [fieldEmit, hdec.1.1, hdec.1.2, hn]
        simp only [he] at h
        exact ih gs ws hdec.2 h
      · have hn' : g.isNil = false := by simpa using hn
        simp only [hn', Bool.false_eq_true, if_false] at hdec
        have he : fieldEmit f g = .ok (some g) := by
          unfold fieldEmit
          by_cases hr : f.req = true
          · simp [hr, hn']
          · cases hdf : f.dflt <;> simp [hr, hdf, hn']
        simp only [he] at h
        split at h
        · cases h
        · rename_i w hw
          split at h
          · cases h
          · rename_i rest hrest; cases h
            simp [wtFields, hval f.ty g w hdec.1 hw, ih gs rest hdec.2 hrest]

/-- `ToWire` of a decoded-form value is well-typed. -/
theorem toWire_wt (env : Env) (fuel : Nat) :
    ∀ (t : Ty) (g : GVal) (w : WValue), decodedV env fuel t g = true →
      toWire env fuel t g = .ok w → w.wt = true := by
  induction fuel with
  | zero => intro t g w h; simp [decodedV] at h
  | succ fuel ih =>
    intro t g w hdec htw
    unfold decodedV at hdec
    unfold toWire at htw
    generalize t.root = r at hdec htw
    cases r <;> cases g <;> simp only [] at hdec htw <;>
      first | (cases hdec; done) | (cases htw; simpa [WValue.wt] using hdec) | (cases htw; rfl) | skip
    case list.list e xs =>
      simp only [Bool.and_eq_true, List.all_eq_true, decide_eq_true_eq] at hdec
      split at htw
      · rename_i ws hws; cases htw
        have hall := mapRes_forall _ (fun w => w.tcode = e.code ∧ w.wt = true) xs ws hws (by
          intro x hx y hy
          split at hy
          · cases hy
          · exact ⟨toWire_tcode env fuel e x y hy, ih e x y (hdec.2 x hx) hy⟩)
        have hlen := mapRes_length _ _ _ hws
        simp [WValue.wt, wtList_of_forall _ _ hall, hlen, hdec.1]
      · cases htw
    case set.set e h xs =>
      simp only [Bool.and_eq_true, List.all_eq_true, decide_eq_true_eq] at hdec
      split at htw
      · rename_i ws hws; cases htw
        have hall := mapRes_forall _ (fun w => w.tcode = e.code ∧ w.wt = true) xs ws hws (by
          intro x hx y hy
          split at hy
          · cases hy
          · exact ⟨toWire_tcode env fuel e x y hy, ih e x y (hdec.1.2 x hx) hy⟩)
        have hlen := mapRes_length _ _ _ hws
        simp [WValue.wt, wtList_of_forall _ _ hall, hlen, hdec.1.1.1]
      · cases htw
    case sset.set e h xs =>
      simp only [Bool.and_eq_true, List.all_eq_true, decide_eq_true_eq] at hdec
      split at htw
      · rename_i ws hws; cases htw
        have hall := mapRes_forall _ (fun w => w.tcode = e.code ∧ w.wt = true) xs ws hws (by
          intro x hx y hy
          split at hy
          · cases hy
          · exact ⟨toWire_tcode env fuel e x y hy, ih e x y (hdec.1.2 x hx) hy⟩)
        have hlen := mapRes_length _ _ _ hws
        simp [WValue.wt, wtList_of_forall _ _ hall, hlen, hdec.1.1.1]
      · cases htw
    case map.map k v h kvs =>
      simp only [Bool.and_eq_true, List.all_eq_true, decide_eq_true_eq] at hdec
      split at htw
      · rename_i ws hws; cases htw
        have hall := mapRes2_forall _ _ (fun w => w.tcode = k.code ∧ w.wt = true)
          (fun w => w.tcode = v.code ∧ w.wt = true) kvs ws hws
          (by
            intro x hx y hy
            split at hy
            · cases hy
            · exact ⟨toWire_tcode env fuel k x.1 y hy, ih k x.1 y (hdec.1.2 x hx).1 hy⟩)
          (by
            intro x hx y hy
            split at hy
            · cases hy
            · exact ⟨toWire_tcode env fuel v x.2 y hy, ih v x.2 y (hdec.1.2 x hx).2 hy⟩)
        have hlen := mapRes2_length _ _ _ _ hws
        simp [WValue.wt, wtItems_of_forall _ _ _ hall, hlen, hdec.1.1.1]
      · cases htw
    case struct.struct n gs =>
      cases hfind : env.find n with
      | none => simp [hfind] at hdec
      | some sd =>
        simp only [hfind] at hdec htw
        split at htw
        · cases htw
        · rename_i ws hws
          split at htw
          · cases htw
            simp [WValue.wt, toWireFields_wt (toWire env fuel) (decodedV env fuel)
              (fun t g w h1 h2 => ih t g w h1 h2) sd.fields gs ws hdec hws]
          · cases htw

/-- C01, full circle: for a decoded-form value, both serialisers emit the same bytes — the
format's encoding of `ToWire`'s result — and both deserialisers turn those bytes back into the
value (the value path through the strict wire decoder, the streaming path directly). -/
theorem roundtrip_all_paths (env : Env) (hwf : WFEnv env) (hids : WFIds env) (fuel : Nat) (t : Ty)
    (g : GVal) (w : WValue) (rest : Bytes)
    (hdec : decodedV env fuel t g = true) (htw : toWire env fuel t g = .ok w) :
    encodeS env fuel t g = .ok (opsOfValue w) ∧
    runOps (opsOfValue w) = enc w ∧
    dec (fuelFor (enc w ++ rest)) t.code (enc w ++ rest) = .ok (w, rest) ∧
    fromWire env fuel t w = .ok g ∧
    decodeS env fuel t (enc w ++ rest) = .ok (g, rest) := by
  have hwt := toWire_wt env fuel t g w hdec htw
  have hcode := toWire_tcode env fuel t g w htw
  have hfw := fromWire_toWire env hids fuel t g w hdec htw
  refine ⟨?_, runOps_opsOfValue w, ?_, hfw, ?_⟩
  · rw [encodeS_eq_toWire env hwf, htw]; rfl
  · have := dec_enc w rest (fuelFor (enc w ++ rest)) hwt (size_le_fuelFor w rest)
    rwa [hcode] at this
  · exact decodeS_of_fromWire env fuel t w rest g hwt hcode hfw

end ThriftVerif.Schema
