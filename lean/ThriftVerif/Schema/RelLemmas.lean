/-
Generic lemmas for C14: one-directional containment loops (the shape of the generated
set/map `Equals` helpers) are symmetric and transitive when the element relation is an
equivalence on the elements involved and both sides are duplicate-free with equal lengths.
-/
import ThriftVerif.Schema.Decoded

set_option linter.unusedSimpArgs false

namespace ThriftVerif.Schema

variable {α : Type}

/-- `r` behaves like an equivalence relation on the elements satisfying `D`. -/
structure EquivOn (D : α → Prop) (r : α → α → Bool) : Prop where
  refl : ∀ x, D x → r x x = true
  symm : ∀ x y, D x → D y → r x y = true → r y x = true
  trans : ∀ x y z, D x → D y → D z → r x y = true → r y z = true → r x z = true

theorem subR_iff (r : α → α → Bool) (as bs : List α) :
    subR r as bs = true ↔ ∀ a ∈ as, ∃ b ∈ bs, r a b = true := by
  simp [subR, List.all_eq_true, List.any_eq_true]

theorem pairwiseNot_iff (r : α → α → Bool) (x : α) (xs : List α) :
    pairwiseNot r (x :: xs) = true ↔ (∀ y ∈ xs, r x y = false) ∧ pairwiseNot r xs = true := by
  simp [pairwiseNot, List.all_eq_true]

theorem pairwiseNot_remove (r : α → α → Bool) (p q : List α) (b : α)
    (h : pairwiseNot r (p ++ b :: q) = true) : pairwiseNot r (p ++ q) = true := by
  induction p with
  | nil => simp only [List.nil_append] at h ⊢; exact ((pairwiseNot_iff r b q).mp h).2
  | cons x p ih =>
    simp only [List.cons_append] at h ⊢
    rw [pairwiseNot_iff] at h ⊢
    refine ⟨fun y hy => h.1 y ?_, ih h.2⟩
    simp only [List.mem_append, List.mem_cons] at hy ⊢
    cases hy with
    | inl hy => exact Or.inl hy
    | inr hy => exact Or.inr (Or.inr hy)

/-- in a duplicate-free list, the head is unrelated to every later element, in both directions. -/
theorem pairwiseNot_head (D : α → Prop) (r : α → α → Bool) (he : EquivOn D r) (x : α) (xs : List α)
    (hD : ∀ y ∈ x :: xs, D y) (h : pairwiseNot r (x :: xs) = true) :
    ∀ y ∈ xs, r x y = false ∧ r y x = false := by
  intro y hy
  have h1 := ((pairwiseNot_iff r x xs).mp h).1 y hy
  refine ⟨h1, ?_⟩
  cases h2 : r y x with
  | false => rfl
  | true =>
    have := he.symm y x (hD y (by simp [hy])) (hD x (by simp)) h2
    rw [h1] at this; cases this

/-- The pigeonhole step: an injection (up to `r`) between two duplicate-free lists of the same
length is onto. This is why the one-directional loops of the generated `Equals` are correct. -/
theorem surj_of_inj (D : α → Prop) (r : α → α → Bool) (he : EquivOn D r) :
    ∀ (as bs : List α), (∀ a ∈ as, D a) → (∀ b ∈ bs, D b) →
      pairwiseNot r as = true → pairwiseNot r bs = true → as.length = bs.length →
      (∀ a ∈ as, ∃ b ∈ bs, r a b = true) → ∀ b ∈ bs, ∃ a ∈ as, r a b = true := by
  intro as
  induction as with
  | nil =>
    intro bs _ _ _ _ hl _ b hb
    cases bs with
    | nil => simp at hb
    | cons _ _ => simp at hl
  | cons a as ih =>
    intro bs hDa hDb hna hnb hl hinj y hy
    obtain ⟨b, hb, hab⟩ := hinj a (by simp)
    obtain ⟨p, q, hpq⟩ := List.append_of_mem hb
    subst hpq
    have hDa' : ∀ a' ∈ as, D a' := fun a' h => hDa a' (by simp [h])
    have hDb' : ∀ b' ∈ p ++ q, D b' := by
      intro b' h
      apply hDb
      simp only [List.mem_append, List.mem_cons] at h ⊢
      cases h with
      | inl h => exact Or.inl h
      | inr h => exact Or.inr (Or.inr h)
    have hDbb : D b := hDb b (by simp)
    have hDaa : D a := hDa a (by simp)
    have hhead := pairwiseNot_head D r he a as hDa hna
    have hinj' : ∀ a' ∈ as, ∃ b' ∈ p ++ q, r a' b' = true := by
      intro a' ha'
      obtain ⟨b', hb', hab'⟩ := hinj a' (by simp [ha'])
      simp only [List.mem_append, List.mem_cons] at hb'
      have hnotb : b' = b → False := by
        intro hbb
        subst hbb
        -- r a b', r a' b' ⇒ r a a', contradiction
        have h1 := he.symm a' b' (hDa' a' ha') hDbb hab'
        have h2 := he.trans a b' a' hDaa hDbb (hDa' a' ha') hab h1
        rw [(hhead a' ha').1] at h2; cases h2
      refine ⟨b', ?_, hab'⟩
      simp only [List.mem_append]
      cases hb' with
      | inl h => exact Or.inl h
      | inr h =>
        cases h with
        | inl h => exact absurd h (fun e => hnotb e)
        | inr h => exact Or.inr h
    have hl' : as.length = (p ++ q).length := by
      simp only [List.length_append, List.length_cons] at hl ⊢; omega
    have ihres := ih (p ++ q) hDa' hDb' ((pairwiseNot_iff r a as).mp hna).2
      (pairwiseNot_remove r p q b hnb) hl' hinj'
    simp only [List.mem_append, List.mem_cons] at hy
    have hyb : y = b ∨ y ∈ p ++ q := by
      simp only [List.mem_append]
      cases hy with
      | inl h => exact Or.inr (Or.inl h)
      | inr h =>
        cases h with
        | inl h => exact Or.inl h
        | inr h => exact Or.inr (Or.inr h)
    cases hyb with
    | inl h => subst h; exact ⟨a, by simp, hab⟩
    | inr h =>
      obtain ⟨a', ha', hr⟩ := ihres y h
      exact ⟨a', by simp [ha'], hr⟩

/-- symmetry of the slice-set comparison. -/
theorem subR_symm (D : α → Prop) (r : α → α → Bool) (he : EquivOn D r) (as bs : List α)
    (hDa : ∀ a ∈ as, D a) (hDb : ∀ b ∈ bs, D b)
    (hna : pairwiseNot r as = true) (hnb : pairwiseNot r bs = true) (hl : as.length = bs.length)
    (h : subR r as bs = true) : subR r bs as = true := by
  rw [subR_iff] at h ⊢
  intro b hb
  obtain ⟨a, ha, hab⟩ := surj_of_inj D r he as bs hDa hDb hna hnb hl h b hb
  exact ⟨a, ha, he.symm a b (hDa a ha) (hDb b hb) hab⟩

theorem subR_trans (D : α → Prop) (r : α → α → Bool) (he : EquivOn D r) (as bs cs : List α)
    (hDa : ∀ a ∈ as, D a) (hDb : ∀ b ∈ bs, D b) (hDc : ∀ c ∈ cs, D c)
    (h1 : subR r as bs = true) (h2 : subR r bs cs = true) : subR r as cs = true := by
  rw [subR_iff] at h1 h2 ⊢
  intro a ha
  obtain ⟨b, hb, hab⟩ := h1 a ha
  obtain ⟨c, hc, hbc⟩ := h2 b hb
  exact ⟨c, hc, he.trans a b c (hDa a ha) (hDb b hb) (hDc c hc) hab hbc⟩

theorem subR_refl (D : α → Prop) (r : α → α → Bool) (he : EquivOn D r) (as : List α)
    (hDa : ∀ a ∈ as, D a) : subR r as as = true := by
  rw [subR_iff]
  intro a ha
  exact ⟨a, ha, he.refl a (hDa a ha)⟩

/-! ### element-wise list comparison -/

theorem allPairwise_refl (D : GVal → Prop) (r : GVal → GVal → Bool) (he : EquivOn D r) (xs : List GVal)
    (hD : ∀ x ∈ xs, D x) : allPairwise r xs xs = true := by
  induction xs with
  | nil => rfl
  | cons x xs ih =>
    simp [allPairwise, he.refl x (hD x (by simp)), ih (fun y hy => hD y (by simp [hy]))]

theorem allPairwise_symm (D : GVal → Prop) (r : GVal → GVal → Bool) (he : EquivOn D r) (xs ys : List GVal)
    (hDx : ∀ x ∈ xs, D x) (hDy : ∀ y ∈ ys, D y) (h : allPairwise r xs ys = true) :
    allPairwise r ys xs = true := by
  induction xs generalizing ys with
  | nil => cases ys <;> simp [allPairwise] at h ⊢
  | cons x xs ih =>
    cases ys with
    | nil => simp [allPairwise] at h
    | cons y ys =>
      simp only [allPairwise, Bool.and_eq_true] at h ⊢
      exact ⟨he.symm x y (hDx x (by simp)) (hDy y (by simp)) h.1,
        ih ys (fun a ha => hDx a (by simp [ha])) (fun a ha => hDy a (by simp [ha])) h.2⟩

theorem allPairwise_trans (D : GVal → Prop) (r : GVal → GVal → Bool) (he : EquivOn D r)
    (xs ys zs : List GVal) (hDx : ∀ x ∈ xs, D x) (hDy : ∀ y ∈ ys, D y) (hDz : ∀ z ∈ zs, D z)
    (h1 : allPairwise r xs ys = true) (h2 : allPairwise r ys zs = true) :
    allPairwise r xs zs = true := by
  induction xs generalizing ys zs with
  | nil =>
    cases ys with
    | nil => exact h2
    | cons _ _ => simp [allPairwise] at h1
  | cons x xs ih =>
    cases ys with
    | nil => simp [allPairwise] at h1
    | cons y ys =>
      cases zs with
      | nil => simp [allPairwise] at h2
      | cons z zs =>
        simp only [allPairwise, Bool.and_eq_true] at h1 h2 ⊢
        exact ⟨he.trans x y z (hDx x (by simp)) (hDy y (by simp)) (hDz z (by simp)) h1.1 h2.1,
          ih ys zs (fun a ha => hDx a (by simp [ha])) (fun a ha => hDy a (by simp [ha]))
            (fun a ha => hDz a (by simp [ha])) h1.2 h2.2⟩

end ThriftVerif.Schema
