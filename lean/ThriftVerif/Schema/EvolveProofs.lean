/-
M-Schema proofs for C05 (schema evolution, value path): a wire field whose (id, wire type)
matches no declared field is ignored by the generated `FromWire`, whatever its value,
wherever it stands.
-/
import ThriftVerif.Schema.Read

namespace ThriftVerif.Schema
open ThriftVerif.Wire

/-- "foreign" to a struct: no declared field has this id with this wire type. -/
def Foreign (fields : List Field) (id : UInt16) (w : WValue) : Prop :=
  fields.find? (fun f => f.id == id && f.ty.code == w.tcode) = none

theorem fromWireFields_append (rd : Ty → WValue → Res GVal) (fields : List Field)
    (a b : List (UInt16 × WValue)) (st : FState) :
    fromWireFields rd fields (a ++ b) st =
      match fromWireFields rd fields a st with
      | .error e => .error e
      | .ok st' => fromWireFields rd fields b st' := by
  induction a generalizing st with
  | nil => simp [fromWireFields]
  | cons x xs ih =>
    obtain ⟨id, w⟩ := x
    simp only [List.cons_append, fromWireFields]
    split
    · exact ih st
    · split
      · rfl
      · exact ih _

theorem fromWireFields_foreign (rd : Ty → WValue → Res GVal) (fields : List Field)
    (id : UInt16) (w : WValue) (rest : List (UInt16 × WValue)) (st : FState)
    (h : Foreign fields id w) :
    fromWireFields rd fields ((id, w) :: rest) st = fromWireFields rd fields rest st := by
  unfold Foreign at h
  simp [fromWireFields, h]

/-- inserting a foreign field anywhere in the field list does not change the field loop. -/
theorem fromWireFields_insert_foreign (rd : Ty → WValue → Res GVal) (fields : List Field)
    (fs₁ fs₂ : List (UInt16 × WValue)) (id : UInt16) (w : WValue) (st : FState)
    (h : Foreign fields id w) :
    fromWireFields rd fields (fs₁ ++ (id, w) :: fs₂) st = fromWireFields rd fields (fs₁ ++ fs₂) st := by
  rw [fromWireFields_append, fromWireFields_append]
  split
  · rfl
  · exact fromWireFields_foreign rd fields id w fs₂ _ h

/-- C05 (value path): a field with an unknown id, or a known id but another wire type, of
ANY value (any type, size, depth), at ANY position, is ignored by `FromWire`. -/
theorem fromWire_unknown_field_ignored (env : Env) (fuel : Nat) (n : String) (sd : StructDef)
    (hsd : env.find n = some sd) (fs₁ fs₂ : List (UInt16 × WValue)) (id : UInt16) (w : WValue)
    (h : Foreign sd.fields id w) :
    fromWire env (fuel + 1) (.struct n) (.struct (fs₁ ++ (id, w) :: fs₂)) =
    fromWire env (fuel + 1) (.struct n) (.struct (fs₁ ++ fs₂)) := by
  simp only [fromWire, Ty.root, hsd]
  rw [fromWireFields_insert_foreign _ _ _ _ _ _ _ h]

/-- absent optional fields stay unset or take their declared default; a missing required
field (without default) makes decoding fail. -/
theorem finishFields_absent (f : Field) (fs : List Field) (ss : FState) :
    finishFields (f :: fs) ((.nil, false) :: ss) =
      match f.dflt with
      | some d => (match finishFields fs ss with | .error e => .error e | .ok rest => .ok (d :: rest))
      | none => if f.req then .error .bad else
          (match finishFields fs ss with | .error e => .error e | .ok rest => .ok (.nil :: rest)) := by
  cases hd : f.dflt with
  | some d => simp [finishFields, GVal.isNil, hd]; cases finishFields fs ss <;> rfl
  | none =>
    by_cases hr : f.req
    · simp [finishFields, hd, hr]
    · simp [finishFields, hd, hr]; cases finishFields fs ss <;> rfl

/-- the post-loop pass fails exactly when some required field without default was never set. -/
theorem finishFields_error_iff (fields : List Field) (st : FState) (hl : st.length = fields.length) :
    (∃ e, finishFields fields st = .error e) ↔
      ∃ (i : Nat) (f : Field) (s : GVal × Bool), fields[i]? = some f ∧ st[i]? = some s ∧ f.dflt = none ∧ f.req = true ∧ s.2 = false := by
  induction fields generalizing st with
  | nil =>
    cases st with
    | nil => simp [finishFields]
    | cons _ _ => simp at hl
  | cons f fs ih =>
    cases st with
    | nil => simp at hl
    | cons s ss =>
      obtain ⟨g, isSet⟩ := s
      have hl' : ss.length = fs.length := by simpa using hl
      have ih' := ih ss hl'
      simp only [finishFields]
      constructor
      · intro h
        cases hd : f.dflt with
        | some d =>
          simp only [hd] at h
          have : ∃ e, finishFields fs ss = .error e := by
            obtain ⟨e, he⟩ := h
            cases hf : finishFields fs ss with
            | error e' => exact ⟨e', rfl⟩
            | ok r => simp [hf] at he
          obtain ⟨i, f', s', h1, h2, h3⟩ := ih'.mp this
          exact ⟨i + 1, f', s', by simp [h1], by simp [h2], h3⟩
        | none =>
          simp only [hd] at h
          by_cases hreq : (f.req && !isSet) = true
          · simp only [Bool.and_eq_true, Bool.not_eq_true'] at hreq
            exact ⟨0, f, (g, isSet), by simp, by simp, hd, hreq.1, hreq.2⟩
          · simp only [hreq, Bool.false_eq_true, if_false] at h
            have : ∃ e, finishFields fs ss = .error e := by
              obtain ⟨e, he⟩ := h
              cases hf : finishFields fs ss with
              | error e' => exact ⟨e', rfl⟩
              | ok r => simp [hf] at he
            obtain ⟨i, f', s', h1, h2, h3⟩ := ih'.mp this
            exact ⟨i + 1, f', s', by simp [h1], by simp [h2], h3⟩
      · rintro ⟨i, f', s', h1, h2, h3, h4, h5⟩
        cases i with
        | zero =>
          simp at h1 h2
          subst h1; subst h2
          simp only at h5
          simp [h3, h4, h5]
        | succ i =>
          have : ∃ e, finishFields fs ss = .error e :=
            ih'.mpr ⟨i, f', s', by simpa using h1, by simpa using h2, h3, h4, h5⟩
          obtain ⟨e, he⟩ := this
          cases hd : f.dflt with
          | some d => exact ⟨e, by simp [he]⟩
          | none =>
            by_cases hreq : (f.req && !isSet) = true
            · exact ⟨.bad, by simp [hreq]⟩
            · exact ⟨e, by simp [hreq, he]⟩

/-- C05: on a struct, the value-path decoder fails iff a nested field value fails to decode, or a
required field without default was not received (absent, or present only with another wire type),
or the union arity rule is violated. -/
theorem fromWire_struct_fails_iff (env : Env) (fuel : Nat) (n : String) (sd : StructDef)
    (hsd : env.find n = some sd) (wfs : List (UInt16 × WValue)) :
    (∃ e, fromWire env (fuel + 1) (.struct n) (.struct wfs) = .error e) ↔
      (∃ e, fromWireFields (fromWire env fuel) sd.fields wfs (initState sd.fields) = .error e) ∨
      (∃ st, fromWireFields (fromWire env fuel) sd.fields wfs (initState sd.fields) = .ok st ∧
        ((∃ e, finishFields sd.fields st = .error e) ∨
         (∃ gs, finishFields sd.fields st = .ok gs ∧ arityOkS sd (countSet gs) = false))) := by
  simp only [fromWire, Ty.root, hsd]
  cases hf : fromWireFields (fromWire env fuel) sd.fields wfs (initState sd.fields) with
  | error e => simp
  | ok st =>
    simp only [finishStruct]
    cases hfin : finishFields sd.fields st with
    | error e => simp [hfin]
    | ok gs =>
      by_cases ha : arityOkS sd (countSet gs) = true
      · simp [ha, hfin]
      · have ha' : arityOkS sd (countSet gs) = false := by simpa using ha
        simp [ha', hfin]

end ThriftVerif.Schema
