/-
M-Schema proofs for C05 (schema evolution, value path): a wire field whose (id, wire type)
matches no declared field is ignored by the generated `FromWire`, whatever its value,
wherever it stands.
-/
import ThriftVerif.Schema.Read

namespace ThriftVerif.Schema
open ThriftVerif.Wire

/-- "foreign" to a struct: no declared field has this id with this wire type. -/
def Foreign (fields : List Field) (id : UInt16) (w : WValue) : Prop :=
  fields.find? (fun f => f.id == id && f.ty.code == w.tcode) = none

theorem fromWireFields_append (rd : Ty → WValue → Res GVal) (fields : List Field)
    (a b : List (UInt16 × WValue)) (st : FState) :
    fromWireFields rd fields (a ++ b) st =
      match fromWireFields rd fields a st with
      | .error e => .error e
      | .ok st' => fromWireFields rd fields b st' := by
  induction a generalizing st with
  | nil => simp [fromWireFields]
  | cons x xs ih =>
    obtain ⟨id, w⟩ := x
    simp only [List.cons_append, fromWireFields]
    split
    · exact ih st
    · split
      · rfl
      · exact ih _

theorem fromWireFields_foreign (rd : Ty → WValue → Res GVal) (fields : List Field)
    (id : UInt16) (w : WValue) (rest : List (UInt16 × WValue)) (st : FState)
    (h : Foreign fields id w) :
    fromWireFields rd fields ((id, w) :: rest) st = fromWireFields rd fields rest st := by
  unfold Foreign at h
  simp [fromWireFields, h]

/-- inserting a foreign field anywhere in the field list does not change the field loop. -/
theorem fromWireFields_insert_foreign (rd : Ty → WValue → Res GVal) (fields : List Field)
    (fs₁ fs₂ : List (UInt16 × WValue)) (id : UInt16) (w : WValue) (st : FState)
    (h : Foreign fields id w) :
    fromWireFields rd fields (fs₁ ++ (id, w) :: fs₂) st = fromWireFields rd fields (fs₁ ++ fs₂) st := by
  rw [fromWireFields_append, fromWireFields_append]
  split
  · rfl
  · exact fromWireFields_foreign rd fields id w fs₂ _ h

/-- C05 (value path): a field with an unknown id, or a known id but another wire type, of
ANY value (any type, size, depth), at ANY position, is ignored by `FromWire`. -/
theorem fromWire_unknown_field_ignored (env : Env) (fuel : Nat) (n : String) (sd : StructDef)
    (hsd : env.find n = some sd) (fs₁ fs₂ : List (UInt16 × WValue)) (id : UInt16) (w : WValue)
    (h : Foreign sd.fields id w) :
    fromWire env (fuel + 1) (.struct n) (.struct (fs₁ ++ (id, w) :: fs₂)) =
    fromWire env (fuel + 1) (.struct n) (.struct (fs₁ ++ fs₂)) := by
  simp only [fromWire, Ty.root, hsd]
  rw [fromWireFields_insert_foreign _ _ _ _ _ _ _ h]

/-- absent optional fields stay unset or take their declared default; a missing required
field (without default) makes decoding fail. -/
theorem finishFields_absent (f : Field) (fs : List Field) (ss : FState) :
    finishFields (f :: fs) ((.nil, false) :: ss) =
      match f.dflt with
      | some d => (match finishFields fs ss with | .error e => .error e | .ok rest => .ok (d :: rest))
      | none => if f.req then .error .bad else
          (match finishFields fs ss with | .error e => .error e | .ok rest => .ok (.nil :: rest)) := by
  cases hd : f.dflt with
  | some d => simp [finishFields, GVal.isNil, hd]; cases finishFields fs ss <;> rfl
  | none =>
    by_cases hr : f.req
    · simp [finishFields, hd, hr]
    · simp [finishFields, hd, hr]; cases finishFields fs ss <;> rfl

end ThriftVerif.Schema
