/-
M-Schema proofs for C15: what `String()`/`Error()`/zap show is a function of the value with
every redacted field's content erased (non-interference), at any nesting depth.
-/
import ThriftVerif.Schema.Methods

set_option linter.unusedSimpArgs false

namespace ThriftVerif.Schema
open ThriftVerif.Wire

theorem visibleFields_erase (vis : Ty → GVal → List String) (er : Ty → GVal → GVal) (zap : Bool)
    (h : ∀ t g, vis t (er t g) = vis t g) (hn : ∀ t g, (er t g).isNil = g.isNil)
    (fields : List Field) (gs : List GVal) :
    visibleFields vis zap fields (eraseFields er zap fields gs) = visibleFields vis zap fields gs := by
  induction fields generalizing gs with
  | nil => cases gs <;> simp [visibleFields, eraseFields]
  | cons f fs ih =>
    cases gs with
    | nil => simp [visibleFields, eraseFields]
    | cons g gs =>
      simp only [eraseFields, visibleFields, ih]
      by_cases hz : (zap && f.nolog) = true
      · simp [hz]
      · by_cases hr : f.redact = true
        · have : (f.redact || zap && f.nolog) = true := by simp [hr]
          simp only [hz, this, if_true, hr]
          cases g <;> simp [GVal.isNil]
        · have : (f.redact || zap && f.nolog) = false := by
            cases hh : f.redact <;> simp_all
          simp only [this, hz, hr]
          simp [h, hn]

theorem eraseRedacted_isNil (env : Env) (zap : Bool) (fuel : Nat) (t : Ty) (g : GVal) :
    (eraseRedacted env zap fuel t g).isNil = g.isNil := by
  cases fuel with
  | zero => simp [eraseRedacted]
  | succ fuel =>
    unfold eraseRedacted
    generalize t.root = r
    cases r <;> cases g <;> simp [GVal.isNil]
    case struct.struct n gs =>
      cases env.find n <;> simp

theorem flatMap_congr' {α β : Type} (f g : α → List β) (xs : List α) (h : ∀ x, f x = g x) :
    xs.flatMap f = xs.flatMap g := by
  induction xs with
  | nil => rfl
  | cons x xs ih => simp [List.flatMap_cons, h x, ih]

/-- erasing redacted (and for zap: no-log) content does not change what is shown. -/
theorem visible_erase (env : Env) (zap : Bool) (fuel : Nat) (t : Ty) (g : GVal) :
    visible env zap fuel t (eraseRedacted env zap fuel t g) = visible env zap fuel t g := by
  induction fuel generalizing t g with
  | zero => simp [visible]
  | succ fuel ih =>
    unfold visible eraseRedacted
    generalize t.root = r
    cases r <;> cases g <;> simp only []
    case list.list e xs => simp [List.flatMap_map, ih]
    case set.set e h xs => simp [List.flatMap_map, ih]
    case sset.set e h xs => simp [List.flatMap_map, ih]
    case map.map k v h kvs => simp [List.flatMap_map, ih]
    case struct.struct n gs =>
      cases hfind : env.find n with
      | none => simp [hfind]
      | some sd =>
        simp only [hfind]
        exact visibleFields_erase _ _ zap (fun t g => ih t g) (fun t g => eraseRedacted_isNil env zap fuel t g) _ _

/-- C15 (non-interference): two values that agree after erasing the content of every
redacted field (for zap also every no-log field) — at any depth, through typedefs and
containers — show exactly the same labels and leaves. -/
theorem noninterference (env : Env) (zap : Bool) (fuel : Nat) (t : Ty) (g₁ g₂ : GVal)
    (h : eraseRedacted env zap fuel t g₁ = eraseRedacted env zap fuel t g₂) :
    visible env zap fuel t g₁ = visible env zap fuel t g₂ := by
  rw [← visible_erase env zap fuel t g₁, ← visible_erase env zap fuel t g₂, h]

/-- every other set field does appear, under its name. -/
theorem others_present (vis : Ty → GVal → List String) (zap : Bool) (f : Field) (fs : List Field)
    (g : GVal) (gs : List GVal) (hset : g.isNil = false) (hr : f.redact = false)
    (hl : (zap && f.nolog) = false) :
    ("L:" ++ (if zap then f.label else f.goName)) ∈ visibleFields vis zap (f :: fs) (g :: gs) := by
  simp [visibleFields, hset, hr, hl]

/-- a set redacted field shows only the redaction marker. -/
theorem redacted_shows_marker_only (vis : Ty → GVal → List String) (zap : Bool) (f : Field)
    (fs : List Field) (g : GVal) (gs : List GVal) (hset : g.isNil = false) (hr : f.redact = true)
    (hl : (zap && f.nolog) = false) :
    visibleFields vis zap (f :: fs) (g :: gs) =
      ("RED:" ++ (if zap then f.label else f.goName)) :: visibleFields vis zap fs gs := by
  simp [visibleFields, hset, hr, hl]

/-- no-log fields are absent from zap output. -/
theorem nolog_absent (vis : Ty → GVal → List String) (f : Field) (fs : List Field)
    (g : GVal) (gs : List GVal) (hl : f.nolog = true) :
    visibleFields vis true (f :: fs) (g :: gs) = visibleFields vis true fs gs := by
  simp [visibleFields, hl]

end ThriftVerif.Schema
