/-
M-Schema, part 8: the value path as it really runs — `binary.Decode` produces a wire value
whose containers are LAZY (validated by a seeking skip, contents re-read on `ForEach`), and
generated `FromWire` forces only what it reads: a container whose element type does not match
is never forced.

`LVal` keeps, for a lazy container, its header and the input from its first item onwards.
`decL` is `reader.ReadValue` (no forcing); `fromWireL` is generated `FromWire` on that value.

Core-only.
-/
import ThriftVerif.Schema.Read

namespace ThriftVerif.Schema
open ThriftVerif.Wire

inductive LVal where
  | bool (b : Bool) | i8 (v : UInt8) | double (v : UInt64) | i16 (v : UInt16) | i32 (v : UInt32)
  | i64 (v : UInt64) | binary (bs : Bytes)
  | struct (fields : List (UInt16 × LVal))
  | map (kt vt : UInt8) (n : Nat) (src : St)
  | set (et : UInt8) (n : Nat) (src : St)
  | list (et : UInt8) (n : Nat) (src : St)
  deriving Inhabited

def LVal.tcode : LVal → UInt8
  | .bool _ => 2 | .i8 _ => 3 | .double _ => 4 | .i16 _ => 6 | .i32 _ => 8 | .i64 _ => 10
  | .binary _ => 11 | .struct _ => 12 | .map .. => 13 | .set .. => 14 | .list .. => 15

mutual
  /-- `reader.ReadValue`: scalars and struct fields eagerly, containers lazily. -/
  def decL : Nat → UInt8 → St → Res (LVal × St)
    | 0, _, _ => .error .fuel
    | f + 1, t, s =>
      match TType.ofByte t with
      | none => .error .bad
      | some .bool =>
        match stByte s with
        | some (b, r) => if b = 0 then .ok (.bool false, r) else if b = 1 then .ok (.bool true, r)
                         else .error .bad
        | none => .error .bad
      | some .i8 =>
        match stByte s with
        | some (b, r) => .ok (.i8 b, r)
        | none => .error .bad
      | some .double =>
        match stRdN 8 s with
        | some (n, r) => .ok (.double (UInt64.ofNat n), r)
        | none => .error .bad
      | some .i16 =>
        match stRdN 2 s with
        | some (n, r) => .ok (.i16 (UInt16.ofNat n), r)
        | none => .error .bad
      | some .i32 =>
        match stRdN 4 s with
        | some (n, r) => .ok (.i32 (UInt32.ofNat n), r)
        | none => .error .bad
      | some .i64 =>
        match stRdN 8 s with
        | some (n, r) => .ok (.i64 (UInt64.ofNat n), r)
        | none => .error .bad
      | some .binary =>
        match stRdLen s with
        | some (n, r) =>
          if n ≤ r.1.length then .ok (.binary (r.1.take n), (r.1.drop n, r.2)) else .error .bad
        | none => .error .bad
      | some .struct =>
        match decFieldsL f s with
        | .ok (fs, r) => .ok (.struct fs, r)
        | .error e => .error e
      | some .map =>
        match stByte s with
        | some (kt, s1) =>
          match stByte s1 with
          | some (vt, s2) =>
            match stRdLen s2 with
            | some (n, s3) =>
              match skipMapItems true (fuelFor s3.1) kt vt n s3 with
              | .error e => .error e
              | .ok sEnd => .ok (.map kt vt n s3, sEnd)
            | none => .error .bad
          | none => .error .bad
        | none => .error .bad
      | some .set =>
        match stByte s with
        | some (et, s1) =>
          match stRdLen s1 with
          | some (n, s2) =>
            match skipListItems true (fuelFor s2.1) et n s2 with
            | .error e => .error e
            | .ok sEnd => .ok (.set et n s2, sEnd)
          | none => .error .bad
        | none => .error .bad
      | some .list =>
        match stByte s with
        | some (et, s1) =>
          match stRdLen s1 with
          | some (n, s2) =>
            match skipListItems true (fuelFor s2.1) et n s2 with
            | .error e => .error e
            | .ok sEnd => .ok (.list et n s2, sEnd)
          | none => .error .bad
        | none => .error .bad
  def decFieldsL : Nat → St → Res (List (UInt16 × LVal) × St)
    | 0, _ => .error .fuel
    | f + 1, s =>
      match stByte s with
      | none => .error .bad
      | some (t, s0) =>
        if t = 0 then .ok ([], s0) else
        match stRdN 2 s0 with
        | none => .error .bad
        | some (id, s1) =>
          match decL f t s1 with
          | .error e => .error e
          | .ok (v, s2) =>
            match decFieldsL f s2 with
            | .error e => .error e
            | .ok (fs, s3) => .ok ((UInt16.ofNat id, v) :: fs, s3)
end

/-- `ForEach` of a lazy list: re-read `n` values from the remembered position, handing each to `k`. -/
def forEachL (rd : St → Res (LVal × St)) (k : LVal → Res GVal) : Nat → St → Res (List GVal)
  | 0, _ => .ok []
  | n + 1, s =>
    match rd s with
    | .error e => .error e
    | .ok (lv, s') =>
      match k lv with
      | .error e => .error e
      | .ok g =>
        match forEachL rd k n s' with
        | .error e => .error e
        | .ok gs => .ok (g :: gs)

def forEachKV (rk rv : St → Res (LVal × St)) (kk kv : LVal → Res GVal) : Nat → St → Res (List (GVal × GVal))
  | 0, _ => .ok []
  | n + 1, s =>
    match rk s with
    | .error e => .error e
    | .ok (lk, s1) =>
      match rv s1 with
      | .error e => .error e
      | .ok (lv, s2) =>
        match kk lk with
        | .error e => .error e
        | .ok gk =>
          match kv lv with
          | .error e => .error e
          | .ok gv =>
            match forEachKV rk rv kk kv n s2 with
            | .error e => .error e
            | .ok gs => .ok ((gk, gv) :: gs)

/-- the field loop of `FromWire` over eagerly decoded (but lazily valued) fields. -/
def fromWireFieldsL (rd : Ty → LVal → Res GVal) (fields : List Field) :
    List (UInt16 × LVal) → FState → Res FState
  | [], st => .ok st
  | (id, w) :: rest, st =>
    match fields.find? (fun f => f.id == id && f.ty.code == w.tcode) with
    | none => fromWireFieldsL rd fields rest st
    | some f =>
      match rd f.ty w with
      | .error e => .error e
      | .ok g => fromWireFieldsL rd fields rest (assignField (fun f' => f'.id == id) g fields st)

/-- generated `FromWire` on a lazily decoded value. `rfuel` is the fuel for re-reading items. -/
def fromWireL (env : Env) : Nat → Ty → LVal → Res GVal
  | 0, _, _ => .error .fuel
  | fuel + 1, t, w =>
    match t.root, w with
    | .bool, .bool b => .ok (.bool b)
    | .i8, .i8 v => .ok (.i8 v)
    | .i16, .i16 v => .ok (.i16 v)
    | .i32, .i32 v => .ok (.i32 v)
    | .i64, .i64 v => .ok (.i64 v)
    | .double, .double v => .ok (.double v)
    | .enum _, .i32 v => .ok (.i32 v)
    | .string, .binary bs => .ok (.str bs)
    | .binary, .binary bs => .ok (.bin bs)
    | .list e, .list et n src =>
      if et != e.code then .ok .nil else
      match forEachL (decL (fuelFor src.1) et) (fromWireL env fuel e) n src with
      | .ok gs => .ok (.list gs)
      | .error er => .error er
    | .set e, .set et n src =>
      if et != e.code then .ok .nil else
      match forEachL (decL (fuelFor src.1) et) (fromWireL env fuel e) n src with
      | .ok gs => .ok (if e.isPrim then .set true (gs.foldl setInsert []) else .set false gs)
      | .error er => .error er
    | .sset e, .set et n src =>
      if et != e.code then .ok .nil else
      match forEachL (decL (fuelFor src.1) et) (fromWireL env fuel e) n src with
      | .ok gs => .ok (.set false gs)
      | .error er => .error er
    | .map k v, .map kt vt n src =>
      if kt != k.code then .ok .nil else
      if vt != v.code then .ok .nil else
      match forEachKV (decL (fuelFor src.1) kt) (decL (fuelFor src.1) vt)
          (fromWireL env fuel k) (fromWireL env fuel v) n src with
      | .ok kvs =>
        .ok (if k.isPrim then .map true (kvs.foldl (fun m kv => mapInsert m kv.1 kv.2) []) else .map false kvs)
      | .error er => .error er
    | .struct n, .struct wfs =>
      match env.find n with
      | none => .error .bad
      | some sd =>
        match fromWireFieldsL (fromWireL env fuel) sd.fields wfs (initState sd.fields) with
        | .error er => .error er
        | .ok st => finishStruct sd st
    | _, _ => .error .bad

/-- the real value path on bytes: lazy decode of the whole message, then `FromWire`. -/
def valuePath (env : Env) (fuel : Nat) (t : Ty) (bs : Bytes) : Res (GVal × St) :=
  match decL (fuelFor bs) t.code (bs, 0) with
  | .error e => .error e
  | .ok (lv, s') =>
    match fromWireL env fuel t lv with
    | .error e => .error e
    | .ok g => .ok (g, s')

end ThriftVerif.Schema
