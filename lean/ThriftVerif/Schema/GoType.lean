/-
M-Schema, part 5 (C19): the Go type of a field as the core generator writes it
(gen/type.go `typeReference` / `typeReferencePtr` / `typeName`), the type description sent
to plugins (gen/plugin.go `buildType`) and its formatting (plugin/template.go `FormatType`).
Named types are printed as their schema token.

Core-only.
-/
import ThriftVerif.Schema.Basic

namespace ThriftVerif.Schema

/-- `isReferenceType`: binary, map, list, set (by root). -/
def Ty.isRef (t : Ty) : Bool :=
  match t.root with
  | .binary | .map .. | .list _ | .set _ | .sset _ => true
  | _ => false

def Ty.isStruct (t : Ty) : Bool :=
  match t.root with
  | .struct _ => true
  | _ => false

/-- `*` prefix rule of `typeReference`. -/
def refOf (t : Ty) (name : String) : String := if t.isStruct then "*" ++ name else name

/-- `typeName` (its recursive calls go through `typeReference` = `refOf t (typeName t)`). -/
def typeName : Ty → String
  | .bool => "bool" | .i8 => "int8" | .i16 => "int16" | .i32 => "int32" | .i64 => "int64"
  | .double => "float64" | .string => "string" | .binary => "[]byte"
  | .map k v =>
    if k.isPrim then "map[" ++ refOf k (typeName k) ++ "]" ++ refOf v (typeName v)
    else "[]struct{Key " ++ refOf k (typeName k) ++ "; Value " ++ refOf v (typeName v) ++ "}"
  | .list e => "[]" ++ refOf e (typeName e)
  | .set e => if e.isPrim then "map[" ++ refOf e (typeName e) ++ "]" ++ "struct{}" else "[]" ++ refOf e (typeName e)
  | .sset e => "[]" ++ refOf e (typeName e)
  | .enum n => n
  | .struct n => n
  | .typedef n _ => n

/-- `typeReference`: the name, with `*` for struct-rooted types. -/
def typeReference (t : Ty) : String := refOf t (typeName t)

/-- `typeReferencePtr`: `*` for everything that is not already a reference type. -/
def typeReferencePtr (t : Ty) : String :=
  if !t.isRef then "*" ++ typeName t else typeName t

/-- the Go type of a struct field (gen/field.go DefineStruct). -/
def goType (t : Ty) (req : Bool) : String :=
  if req then typeReference t else typeReferencePtr t

/-- plugin/api `Type`. -/
inductive ApiType where
  | simple (name : String)
  | slice (t : ApiType)
  | kvslice (k v : ApiType)
  | map (k v : ApiType) (sliceAnnotated : Bool)
  | ref (name : String)
  | ptr (t : ApiType)
  deriving Repr, Inhabited

/-- `generateServiceBuilder.buildType`. -/
def buildType : Ty → Bool → ApiType
  | .bool, req => if req then .simple "bool" else .ptr (.simple "bool")
  | .i8, req => if req then .simple "int8" else .ptr (.simple "int8")
  | .i16, req => if req then .simple "int16" else .ptr (.simple "int16")
  | .i32, req => if req then .simple "int32" else .ptr (.simple "int32")
  | .i64, req => if req then .simple "int64" else .ptr (.simple "int64")
  | .double, req => if req then .simple "float64" else .ptr (.simple "float64")
  | .string, req => if req then .simple "string" else .ptr (.simple "string")
  | .enum n, req => if req then .ref n else .ptr (.ref n)
  | .binary, _ => .slice (.simple "byte")
  | .map k v, _ =>
    if k.isPrim then .map (buildType k true) (buildType v true) false
    else .kvslice (buildType k true) (buildType v true)
  | .list e, _ => .slice (buildType e true)
  | .set e, _ =>
    if e.isPrim then .map (buildType e true) (.simple "struct{}") false else .slice (buildType e true)
  | .sset e, _ =>
    if e.isPrim then .map (buildType e true) (.simple "struct{}") true else .slice (buildType e true)
  | .struct n, _ => .ptr (.ref n)
  | .typedef n t, req =>
    if (!req && !(Ty.typedef n t).isRef) || (Ty.typedef n t).isStruct then .ptr (.ref n) else .ref n

/-- `goFileGenerator.FormatType`. -/
def formatType : ApiType → String
  | .simple n => n
  | .slice t => "[]" ++ formatType t
  | .kvslice k v => "[]struct{Key " ++ formatType k ++ "; Value " ++ formatType v ++ "}"
  | .map k v ann => if ann then "[]" ++ formatType k else "map[" ++ formatType k ++ "]" ++ formatType v
  | .ref n => n
  | .ptr t => "*" ++ formatType t

end ThriftVerif.Schema
