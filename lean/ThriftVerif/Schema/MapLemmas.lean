/-
Generic lemmas for C14: the map comparison loops of generated `Equals`
(`for k, v := range lhs { rv, ok := rhs[k]; … }` and its O(n²) variant for unhashable keys).
-/
import ThriftVerif.Schema.RelLemmas

set_option linter.unusedSimpArgs false

namespace ThriftVerif.Schema

variable {K V : Type}

theorem lookupR_some {r : K → K → Bool} {k : K} {l : List (K × V)} {v : V}
    (h : lookupR r k l = some v) : ∃ k', (k', v) ∈ l ∧ r k k' = true := by
  induction l with
  | nil => simp [lookupR] at h
  | cons kv l ih =>
    obtain ⟨k', v'⟩ := kv
    simp only [lookupR] at h
    split at h
    · rename_i hr; cases h; exact ⟨k', by simp, hr⟩
    · obtain ⟨k'', hm, hr⟩ := ih h
      exact ⟨k'', by simp [hm], hr⟩

/-- in a key-distinct list, lookup of a key related to an entry's key returns that entry's value. -/
theorem lookupR_of_mem (D : K → Prop) (r : K → K → Bool) (he : EquivOn D r) (l : List (K × V))
    (k k0 : K) (v0 : V) (hDk : D k) (hDl : ∀ kv ∈ l, D kv.1)
    (hnd : pairwiseNot r (l.map (·.1)) = true) (hm : (k0, v0) ∈ l) (hr : r k k0 = true) :
    lookupR r k l = some v0 := by
  induction l with
  | nil => simp at hm
  | cons kv l ih =>
    obtain ⟨k', v'⟩ := kv
    simp only [List.map_cons] at hnd
    rw [pairwiseNot_iff] at hnd
    simp only [List.mem_cons, Prod.mk.injEq] at hm
    simp only [lookupR]
    have hDk' : D k' := hDl (k', v') (by simp)
    cases hm with
    | inl h => obtain ⟨h1, h2⟩ := h; subst h1 h2; simp [hr]
    | inr h =>
      have hDk0 : D k0 := hDl (k0, v0) (by simp [h])
      have hne : r k' k0 = false := hnd.1 k0 (by simp; exact ⟨v0, h⟩)
      have hnot : r k k' = false := by
        cases hkk : r k k' with
        | false => rfl
        | true =>
          have h1 := he.symm k k' hDk hDk' hkk
          have h2 := he.trans k' k k0 hDk' hDk hDk0 h1 hr
          rw [hne] at h2; cases h2
      simp only [hnot, Bool.false_eq_true, if_false]
      exact ih (fun kv hkv => hDl kv (by simp [hkv])) hnd.2 h

theorem mapSub_iff (r : K → K → Bool) (eqv : V → V → Bool) (a b : List (K × V)) :
    mapSub r eqv a b = true ↔ ∀ kv ∈ a, ∃ rv, lookupR r kv.1 b = some rv ∧ eqv kv.2 rv = true := by
  simp only [mapSub, List.all_eq_true]
  constructor
  · intro h kv hkv
    have := h kv hkv
    split at this
    · rename_i rv hrv; exact ⟨rv, hrv, this⟩
    · cases this
  · intro h kv hkv
    obtain ⟨rv, h1, h2⟩ := h kv hkv
    simp [h1, h2]

structure MapDom (DK : K → Prop) (DV : V → Prop) (r : K → K → Bool) (l : List (K × V)) : Prop where
  keys : ∀ kv ∈ l, DK kv.1
  vals : ∀ kv ∈ l, DV kv.2
  nodup : pairwiseNot r (l.map (·.1)) = true

theorem mapSub_refl (DK : K → Prop) (DV : V → Prop) (r : K → K → Bool) (eqv : V → V → Bool)
    (hk : EquivOn DK r) (hv : EquivOn DV eqv) (a : List (K × V)) (ha : MapDom DK DV r a) :
    mapSub r eqv a a = true := by
  rw [mapSub_iff]
  intro kv hkv
  refine ⟨kv.2, ?_, hv.refl kv.2 (ha.vals kv hkv)⟩
  exact lookupR_of_mem DK r hk a kv.1 kv.1 kv.2 (ha.keys kv hkv) ha.keys ha.nodup hkv
    (hk.refl kv.1 (ha.keys kv hkv))

theorem mapSub_trans (DK : K → Prop) (DV : V → Prop) (r : K → K → Bool) (eqv : V → V → Bool)
    (hk : EquivOn DK r) (hv : EquivOn DV eqv) (a b c : List (K × V))
    (ha : MapDom DK DV r a) (hb : MapDom DK DV r b) (hc : MapDom DK DV r c)
    (h1 : mapSub r eqv a b = true) (h2 : mapSub r eqv b c = true) : mapSub r eqv a c = true := by
  rw [mapSub_iff] at h1 h2 ⊢
  intro kv hkv
  obtain ⟨v1, hl1, he1⟩ := h1 kv hkv
  obtain ⟨k1, hm1, hr1⟩ := lookupR_some hl1
  obtain ⟨v2, hl2, he2⟩ := h2 (k1, v1) hm1
  obtain ⟨k2, hm2, hr2⟩ := lookupR_some hl2
  have hDk := ha.keys kv hkv
  have hDk1 := hb.keys (k1, v1) hm1
  have hDk2 := hc.keys (k2, v2) hm2
  refine ⟨v2, ?_, hv.trans kv.2 v1 v2 (ha.vals kv hkv) (hb.vals (k1, v1) hm1) (hc.vals (k2, v2) hm2) he1 he2⟩
  exact lookupR_of_mem DK r hk c kv.1 k2 v2 hDk hc.keys hc.nodup hm2
    (hk.trans kv.1 k1 k2 hDk hDk1 hDk2 hr1 hr2)

theorem mem_map_fst {l : List (K × V)} {k : K} (h : k ∈ l.map (·.1)) : ∃ v, (k, v) ∈ l := by
  simp only [List.mem_map] at h
  obtain ⟨kv, hkv, hk⟩ := h
  exact ⟨kv.2, by rw [← hk]; exact hkv⟩

theorem mapSub_symm (DK : K → Prop) (DV : V → Prop) (r : K → K → Bool) (eqv : V → V → Bool)
    (hk : EquivOn DK r) (hv : EquivOn DV eqv) (a b : List (K × V))
    (ha : MapDom DK DV r a) (hb : MapDom DK DV r b) (hl : a.length = b.length)
    (h : mapSub r eqv a b = true) : mapSub r eqv b a = true := by
  rw [mapSub_iff] at h ⊢
  -- every key of a is related to a key of b …
  have hinj : ∀ k ∈ a.map (·.1), ∃ k' ∈ b.map (·.1), r k k' = true := by
    intro k hkm
    obtain ⟨v, hm⟩ := mem_map_fst hkm
    obtain ⟨rv, hl1, _⟩ := h (k, v) hm
    obtain ⟨k', hm', hr⟩ := lookupR_some hl1
    exact ⟨k', by simp only [List.mem_map]; exact ⟨(k', rv), hm', rfl⟩, hr⟩
  -- … so, by pigeonhole, every key of b is related to a key of a
  have hsurj := surj_of_inj DK r hk (a.map (·.1)) (b.map (·.1))
    (by intro k hk'; obtain ⟨v, hm⟩ := mem_map_fst hk'; exact ha.keys (k, v) hm)
    (by intro k hk'; obtain ⟨v, hm⟩ := mem_map_fst hk'; exact hb.keys (k, v) hm)
    ha.nodup hb.nodup (by simpa using hl) hinj
  intro kv' hkv'
  obtain ⟨k, hkm, hr⟩ := hsurj kv'.1 (by simp only [List.mem_map]; exact ⟨kv', hkv', rfl⟩)
  obtain ⟨v, hm⟩ := mem_map_fst hkm
  have hDk := ha.keys (k, v) hm
  have hDk' := hb.keys kv' hkv'
  -- the entry (k, v) of a finds kv' in b
  obtain ⟨rv, hl1, he1⟩ := h (k, v) hm
  have hfound := lookupR_of_mem DK r hk b k kv'.1 kv'.2 hDk hb.keys hb.nodup (by simpa using hkv') hr
  simp only at hl1
  rw [hfound] at hl1
  cases hl1
  refine ⟨v, ?_, hv.symm v kv'.2 (ha.vals (k, v) hm) (hb.vals kv' hkv') he1⟩
  exact lookupR_of_mem DK r hk a kv'.1 k v hDk' ha.keys ha.nodup hm (hk.symm k kv'.1 hDk hDk' hr)

end ThriftVerif.Schema
