/-
Line-protocol text forms for M-Schema (SCHEMA_PROTOCOL.md). Drivers only.
-/
import ThriftVerif.Schema.Methods
import ThriftVerif.Wire.Text

namespace ThriftVerif.Schema
open ThriftVerif.Wire

def parseTy : Nat → List String → Option (Ty × List String)
  | 0, _ => none
  | f + 1, toks =>
    match toks with
    | [] => none
    | "bool" :: r => some (.bool, r)
    | "i8" :: r => some (.i8, r)
    | "i16" :: r => some (.i16, r)
    | "i32" :: r => some (.i32, r)
    | "i64" :: r => some (.i64, r)
    | "double" :: r => some (.double, r)
    | "string" :: r => some (.string, r)
    | "binary" :: r => some (.binary, r)
    | "list" :: r => (parseTy f r).map fun (e, r') => (.list e, r')
    | "set" :: r => (parseTy f r).map fun (e, r') => (.set e, r')
    | "sset" :: r => (parseTy f r).map fun (e, r') => (.sset e, r')
    | "map" :: r =>
      match parseTy f r with
      | some (k, r') => (parseTy f r').map fun (v, r'') => (.map k v, r'')
      | none => none
    | tok :: r =>
      match stripPrefix? "enum:" tok with
      | some n => some (.enum n, r)
      | none =>
      match stripPrefix? "struct:" tok with
      | some n => some (.struct n, r)
      | none =>
      match stripPrefix? "typedef:" tok with
      | some n => (parseTy f r).map fun (t, r') => (.typedef n t, r')
      | none => none

def parseGList (p : List String → Option (GVal × List String)) : Nat → List String → Option (List GVal × List String)
  | 0, r => some ([], r)
  | n + 1, toks =>
    match p toks with
    | some (g, r) => (parseGList p n r).map fun (gs, r') => (g :: gs, r')
    | none => none

def parseGPairs (p : List String → Option (GVal × List String)) : Nat → List String → Option (List (GVal × GVal) × List String)
  | 0, r => some ([], r)
  | n + 1, toks =>
    match p toks with
    | some (k, r) =>
      match p r with
      | some (v, r') => (parseGPairs p n r').map fun (kvs, r'') => ((k, v) :: kvs, r'')
      | none => none
    | none => none

def parseG : Nat → List String → Option (GVal × List String)
  | 0, _ => none
  | f + 1, toks =>
    match toks with
    | [] => none
    | "nil" :: r => some (.nil, r)
    | "b0" :: r => some (.bool false, r)
    | "b1" :: r => some (.bool true, r)
    | "L" :: n :: r =>
      match n.toNat? with
      | some n => (parseGList (parseG f) n r).map fun (gs, r') => (.list gs, r')
      | none => none
    | "R" :: n :: r =>
      match n.toNat? with
      | some n => (parseGList (parseG f) n r).map fun (gs, r') => (.struct gs, r')
      | none => none
    | "S" :: h :: n :: r =>
      match n.toNat? with
      | some n => (parseGList (parseG f) n r).map fun (gs, r') => (.set (h == "1") gs, r')
      | none => none
    | "M" :: h :: n :: r =>
      match n.toNat? with
      | some n => (parseGPairs (parseG f) n r).map fun (kvs, r') => (.map (h == "1") kvs, r')
      | none => none
    | tok :: r =>
      match stripPrefix? "i8:" tok with
      | some s => s.toNat?.map fun n => (.i8 (UInt8.ofNat n), r)
      | none =>
      match stripPrefix? "i16:" tok with
      | some s => s.toNat?.map fun n => (.i16 (UInt16.ofNat n), r)
      | none =>
      match stripPrefix? "i32:" tok with
      | some s => s.toNat?.map fun n => (.i32 (UInt32.ofNat n), r)
      | none =>
      match stripPrefix? "i64:" tok with
      | some s => s.toNat?.map fun n => (.i64 (UInt64.ofNat n), r)
      | none =>
      match stripPrefix? "d:" tok with
      | some s => s.toNat?.map fun n => (.double (UInt64.ofNat n), r)
      | none =>
      match stripPrefix? "s:" tok with
      | some s => (bytesOfHexChars s.toList).map fun bs => (.str bs, r)
      | none =>
      match stripPrefix? "x:" tok with
      | some s => (bytesOfHexChars s.toList).map fun bs => (.bin bs, r)
      | none => none

def sortStrings (xs : List String) : List String := (xs.toArray.qsort (· < ·)).toList

/-- G text; Go-map backed sets/maps (h = true) are printed sorted by token text. -/
def showG : Nat → GVal → String
  | 0, _ => "?"
  | f + 1, g =>
    match g with
    | .nil => "nil"
    | .bool b => if b then "b1" else "b0"
    | .i8 v => s!"i8:{v.toNat}"
    | .i16 v => s!"i16:{v.toNat}"
    | .i32 v => s!"i32:{v.toNat}"
    | .i64 v => s!"i64:{v.toNat}"
    | .double v => s!"d:{v.toNat}"
    | .str bs => "s:" ++ hexOfBytes bs
    | .bin bs => "x:" ++ hexOfBytes bs
    | .list xs => " ".intercalate (s!"L {xs.length}" :: xs.map (showG f))
    | .struct xs => " ".intercalate (s!"R {xs.length}" :: xs.map (showG f))
    | .set h xs =>
      let ts := xs.map (showG f)
      " ".intercalate (s!"S {if h then 1 else 0} {xs.length}" :: (if h then sortStrings ts else ts))
    | .map h kvs =>
      let ts := kvs.map fun kv => (showG f kv.1, showG f kv.2)
      let ts := if h then (ts.toArray.qsort (fun a b => a.1 < b.1)).toList else ts
      " ".intercalate (s!"M {if h then 1 else 0} {kvs.length}" :: ts.map fun kv => kv.1 ++ " " ++ kv.2)

def GVal.text (g : GVal) : String := showG 100000 g

def parseKind : String → Option Kind
  | "struct" => some .struct | "union" => some .union | "uniona" => some .uniona
  | "exception" => some .exception | "args" => some .args | "result" => some .result
  | "resultv" => some .resultv | _ => none

def parseFields : Nat → List String → Option (List Field × List String)
  | 0, r => some ([], r)
  | n + 1, toks =>
    match toks with
    | id :: goName :: label :: req :: redact :: nolog :: d :: r =>
      match id.toNat? with
      | none => none
      | some idn =>
        let parseRest (dflt : Option GVal) (r : List String) : Option (List Field × List String) :=
          match parseTy (r.length + 2) r with
          | some (t, r') =>
            (parseFields n r').map fun (fs, r'') =>
              (⟨UInt16.ofNat idn, goName, label, req == "1", redact == "1", nolog == "1", dflt, t⟩ :: fs, r'')
          | none => none
        if d == "nodef" then parseRest none r
        else if d == "def" then
          match parseG (2 * r.length + 2) r with
          | some (g, r') => parseRest (some g) r'
          | none => none
        else none
    | _ => none

end ThriftVerif.Schema
