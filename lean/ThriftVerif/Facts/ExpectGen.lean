/-
Tie 1 (regenerated facts), generator area. `GenGen` is rewritten by factgen on every run.
-/
import ThriftVerif.Facts.GenGen
import ThriftVerif.Gen.Naming

namespace ThriftVerif.Facts.ExpectGen
open ThriftVerif.Facts

/-- the annotations that drive redaction / log suppression, and the redaction text (C15): the
harness marks fields with exactly these annotations and the model's `redact`/`nolog` flags stand for them. -/
theorem redaction_facts_ok : GenGen.redactLabel = "go.redact" ∧ GenGen.noZapLabel = "go.nolog" ∧
    GenGen.redactContent = "<redacted>" := by decide

/-- identifiers the generator reserves in every struct (C06 naming model). -/
def reservedIdentifiers : List String := ["Decode", "Encode", "Equals", "FromWire", "String", "ToWire"]
theorem reservedIdentifiers_ok : GenGen.reservedIdentifiers = reservedIdentifiers := by decide

/-- initialisms kept upper-case by `goCase` (C06 naming model). -/
def commonInitialisms : List String :=
  ["API", "ASCII", "CPU", "CSS", "DNS", "EOF", "GUID", "HTML", "HTTP", "HTTPS", "ID", "IP", "JSON", "LHS",
   "QPS", "RAM", "RHS", "RPC", "SLA", "SMTP", "SQL", "SSH", "TCP", "TLS", "TTL", "UDP", "UI", "UID", "URI",
   "URL", "UTF8", "UUID", "VM", "XML", "XSRF", "XSS"]
theorem commonInitialisms_ok : GenGen.commonInitialisms = commonInitialisms := by decide

/-- the naming model (M-Gen) uses exactly the generator's initialisms. -/
theorem initialisms_model_ok : GenGen.commonInitialisms = ThriftVerif.Gen.commonInitialisms := by decide

end ThriftVerif.Facts.ExpectGen
