/-
Tie 1 (regenerated facts), IDL area: the tables and token patterns M-Idl's scanner and parser
were written against are the ones idl/internal/lex.rl and thrift.y state now. `GenIdl` is
rewritten by factgen on every run (from the *text* of lex.rl / thrift.y — ragel and goyacc are
not available, `lex.go` / `y.go` as checked in are the implementation and are tied to the model
by the correspondence check); each theorem here is one obligation. Used by C11.
-/
import ThriftVerif.Facts.GenIdl
import ThriftVerif.Idl.Parser

namespace ThriftVerif.Facts.ExpectIdl
open ThriftVerif.Idl ThriftVerif.Facts

/-- yacc token of a keyword. -/
def tokenName : Kw → String
  | .include_ => "INCLUDE" | .cppInclude => "CPP_INCLUDE" | .namespace_ => "NAMESPACE"
  | .void => "VOID" | .bool => "BOOL" | .byte => "BYTE" | .i8 => "I8" | .i16 => "I16"
  | .i32 => "I32" | .i64 => "I64" | .double => "DOUBLE" | .string => "STRING"
  | .binary => "BINARY" | .map => "MAP" | .list => "LIST" | .set => "SET" | .oneway => "ONEWAY"
  | .typedef => "TYPEDEF" | .struct => "STRUCT" | .union => "UNION" | .exception => "EXCEPTION"
  | .extends => "EXTENDS" | .throws => "THROWS" | .service => "SERVICE" | .enum => "ENUM"
  | .const => "CONST" | .required => "REQUIRED" | .optional => "OPTIONAL" | .true_ => "TRUE"
  | .false_ => "FALSE"

/-- The scanner's keyword alternatives are exactly the model's keywords, in order, each
producing its own token. -/
theorem keywords_ok : GenIdl.keywords = Kw.all.map (fun k => (k.name, tokenName k)) := by decide

/-- … and the byte strings the model's scanner compares against are those names. -/
theorem keywordText_ok : ∀ k : Kw, k.text = str k.name := by
  intro k; cases k <;> decide

/-- `reservedKeyword` of lex.rl is the model's reserved-word list. -/
theorem reserved_ok : GenIdl.reserved = reservedNames := by decide

theorem reservedText_ok : reservedWords = reservedNames.map str := by decide

/-- `symbol` of lex.rl is the model's symbol set. -/
theorem symbols_ok : GenIdl.symbols = symbolString ∧ symbolChars = str symbolString := by decide

/-- The token patterns the scanner model follows (whitespace-normalised text of lex.rl). -/
theorem patterns_ok : GenIdl.patterns =
    [("ws", "[ \\t\\r]"),
     ("newline", "'\\n' >{ lex.line++ lex.lineStart = lex.p + 1 lex.linesSinceDocstring++ }"),
     ("__", "(ws | newline)*"),
     ("line_comment", "('#'|'//') [^\\n]*"),
     ("multiline_comment", "'/*' (newline | any)* :>> '*/'"),
     ("docstring", "'/**' @{ lex.docstringStart = lex.p - 2 } (any* - (any* '*/' any*)) '*/' @{ lex.lastDocstring = string(lex.data[lex.docstringStart:lex.p + 1]) lex.linesSinceDocstring = 0 }"),
     ("literal", "('\"' ([^\"\\n\\\\] | '\\\\' any)* '\"') | (\"'\" ([^'\\n\\\\] | '\\\\' any)* \"'\")"),
     ("identifier", "[a-zA-Z_] ([a-zA-Z0-9_] | '.' [a-zA-Z0-9_])*"),
     ("integer", "('+' | '-')? digit+"),
     ("hex_integer", "'0x' xdigit+"),
     ("double", "integer ('.' digit*)? ([Ee] integer)?")] := by rfl

/-- Order and kind (token / skipped) of the scanner's non-keyword alternatives. -/
theorem alternatives_ok : GenIdl.alternatives =
    ["symbol : token", "ws : skip", "newline : skip", "docstring : skip", "line_comment : skip",
     "multiline_comment : skip", "(integer | hex_integer) : token", "double : token",
     "literal : token", "reservedKeyword __ : token", "identifier : token"] := by rfl

def baseIdName : BaseTypeID → String
  | .bool => "BoolTypeID" | .i8 => "I8TypeID" | .i16 => "I16TypeID" | .i32 => "I32TypeID"
  | .i64 => "I64TypeID" | .double => "DoubleTypeID" | .string => "StringTypeID"
  | .binary => "BinaryTypeID"

/-- `base_type_name` of thrift.y is the model's `baseTypeOf` (`byte` and `i8` are both I8). -/
theorem baseTypes_ok : GenIdl.baseTypeNames =
    (Kw.all.filterMap fun k => (baseTypeOf k).map fun id => (tokenName k, baseIdName id)) := by decide

end ThriftVerif.Facts.ExpectIdl
