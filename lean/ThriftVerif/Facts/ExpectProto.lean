/-
Tie 1 (regenerated facts), proto area: the constants and code shapes M-Proto is built
on are the ones the working tree has. `GenProto` is rewritten by factgen on every run;
each theorem here is one obligation. Used by C16 C17 C18.
-/
import ThriftVerif.Facts.GenProto
import ThriftVerif.Proto.Host

namespace ThriftVerif.Facts.ExpectProto
open ThriftVerif.Proto ThriftVerif.Facts

/-! ### C16 -/

/-- `api.APIVersion` and `api.FeatureServiceGenerator` are the model's. -/
theorem apiVersion_ok : GenProto.apiVersion = some apiVersion := by decide
theorem feature_ok : GenProto.featureServiceGenerator = some featureServiceGenerator := by decide
theorem fastPathFrameSize_ok : GenProto.fastPathFrameSize = some fastPathFrameSize := by decide

/-- the envelope names the host sends are `<multiplex service>:<client method>`. -/
theorem requestNames_ok : GenProto.requestNames =
    [(methodName .handshake).map (·.toNat), (methodName .generate).map (·.toNat),
     (methodName .goodbye).map (·.toNat)] := by decide

theorem pluginExecPrefix_ok : GenProto.pluginExecPrefix = "thriftrw-plugin-" := by decide

/-- `NewTransportHandle` fails on a transport error, a name mismatch, an API version mismatch —
and on nothing else (`handshakeAccepts`). -/
theorem handshakeChecks_ok : GenProto.handshakeChecks =
    ["err != nil", "handshake.Name != name", "handshake.APIVersion != api.APIVersion"] := by decide

/-- `transportHandle.ServiceGenerator` is gated on the advertised feature (`wantsGenerate`). -/
theorem featureGate_ok : GenProto.featureGate = ["h.Features[api.FeatureServiceGenerator]"] := by decide

/-- `transportHandle.Close`: once-flag, Goodbye, then close the transport (`closeHandle`);
`Flag.Handle` closes the transport when the handshake fails (`hsPhase`); `Flags.Handle` closes
the handles it obtained when another one failed (`phase2`); `process.Client.Close` closes both
pipes and waits (`closeTransport`). -/
theorem closeShape_ok : GenProto.closeShape = ["h.Running.Swap", "h.Client.Goodbye", "closer.Close"] := by decide
theorem flagHandleShape_ok : GenProto.flagHandleShape =
    ["process.NewClient", "NewTransportHandle", "transport.Close"] := by decide
theorem flagsHandleShape_ok : GenProto.flagsHandleShape =
    ["concurrent.Range", "f.Handle", "lock.Lock", "defer lock.Unlock", "multi.Close"] := by decide
theorem processCloseShape_ok : GenProto.processCloseShape =
    ["c.running.Swap", "c.stdout.Close", "c.stdin.Close", "c.cmd.Wait"] := by decide

/-- main.go: compile, resolve/verify the root, start plugins, (deferred) close, generate. -/
theorem mainShape_ok : GenProto.mainShape =
    ["compile.Compile", "findCommonAncestor", "verifyAncestry", "gopts.Plugins.Handle",
     "pluginHandle.Close", "pluginHandle.ServiceGenerator", "gen.Generate"] := by decide

/-! ### C12 (multiplexing glue) -/

/-- `multiplex.Handler.Handle` cuts the envelope name once, at the first colon, looks the service up under
the first part and hands the second part on (`splitColon`, `dispatch`). -/
theorem muxSplit_ok : GenProto.muxSplit =
    ["strings.SplitN(name, \":\", 2)", "h.services[parts[0]]", "parts[0]", "parts[1]"] := by decide

/-- `multiplex.client.Send` sends `<service>:<method>` (`muxName`). -/
theorem muxJoin_ok : GenProto.muxJoin = ["c.name + \":\" + name"] := by decide

/-! ### C17 -/

/-- the plugin path check is `strings.Contains(path, "..")` (`containsDotDot`). -/
theorem dotdotChecks_ok : GenProto.dotdotChecks = [".."] := by decide

/-- gen.Generate: modules, then plugins, then the merge, then the path check on the complete
map (`checkPaths`, the repair of D33), and only then Join/MkdirAll/WriteFile (`planFiles`
before `generatePlan`'s write list). -/
theorem generatePhases_ok : GenProto.generatePhases =
    ["generateModule", "addFile", "generate", "m.Walk", "plug.Generate", "mergeFiles",
     "checkFilePaths", "filepath.Join", "os.MkdirAll", "os.WriteFile"] := by decide

/-! ### C18 -/

/-- `frame.Client.Send` holds the client lock across the write and the read (`sendProg true`). -/
theorem sendShape_ok : GenProto.sendShape = ["c.Lock", "defer c.Unlock", "c.w.Write", "c.r.Read"] := by decide

/-- `MultiServiceGenerator.Generate` writes its two maps after taking the mutex. -/
theorem multiGenerateShape_ok : GenProto.multiGenerateShape =
    ["concurrent.Range", "sg.Generate", "lock.Lock", "defer lock.Unlock", "write usedPaths", "write files"] := by
  decide

/-- the five pools of protocol/binary, with the fields their `New` functions set for good. -/
theorem poolVars_ok : GenProto.poolVars =
    [["lazy_list.go", "lazyValueListPool"], ["lazy_list.go", "lazyMapItemListPool"],
     ["stream_reader.go", "streamReaderPool", "_discardSeek", "_discardStream"],
     ["stream_writer.go", "streamWriterPool"],
     ["writer.go", "writerPool", "writeValue", "writeMapItem"]] := by decide

/-- every Get site with the fields assigned right after it, every Put site with the fields
cleared right before it (file, function, pool, kind, fields…). -/
theorem poolSites_ok : GenProto.poolSites =
    [["lazy_list.go", "borrowLazyMapItemList", "lazyMapItemListPool", "get"],
     ["lazy_list.go", "borrowLazyValueList", "lazyValueListPool", "get"],
     ["lazy_list.go", "lazyMapItemList.Close", "lazyMapItemListPool", "put", "readerAt"],
     ["lazy_list.go", "lazyValueList.Close", "lazyValueListPool", "put", "readerAt"],
     ["reader.go", "reader.readListStream", "lazyValueListPool", "get-via-borrowLazyValueList", "count", "readerAt", "startOffset", "typ"],
     ["reader.go", "reader.readMapStream", "lazyMapItemListPool", "get-via-borrowLazyMapItemList", "count", "ktype", "readerAt", "startOffset", "vtype"],
     ["reader.go", "reader.readSetStream", "lazyValueListPool", "get-via-borrowLazyValueList", "count", "readerAt", "startOffset", "typ"],
     ["stream_reader.go", "NewStreamReader", "streamReaderPool", "get", "_seeker", "discard", "reader"],
     ["stream_reader.go", "returnStreamReader", "streamReaderPool", "put", "_seeker", "reader"],
     ["stream_writer.go", "NewStreamWriter", "streamWriterPool", "get", "writer"],
     ["stream_writer.go", "returnStreamWriter", "streamWriterPool", "put", "writer"],
     ["writer.go", "BorrowWriter", "writerPool", "get", "sw"],
     ["writer.go", "ReturnWriter", "writerPool", "put", "sw"]] := by decide

/-- fields that every method writes before reading (scratch space), by hand. -/
def scratchFields : List String := ["buffer"]

def seq (a b : String) : Bool := decide (a = b)
def has (xs : List String) (x : String) : Bool := xs.any (seq x)

/-- site kinds that take an object out of a pool and say which fields they assign. -/
def getKinds : List String := ["get", "get-via-borrowLazyValueList", "get-via-borrowLazyMapItemList"]

def rowsOf (pool : String) (kinds : List String) : List (List String) :=
  GenProto.poolSites.filter fun r => seq (r.getD 2 "") pool && has kinds (r.getD 3 "")

/-- a field of a pooled struct is *clean at hand-out* if `New` set it for good, or it is
scratch space, or every site that takes the object out assigns it, or every Put clears it. -/
def fieldCovered (pool f : String) : Bool :=
  let newFields := (GenProto.poolVars.filter fun r => seq (r.getD 1 "") pool).flatMap (·.drop 2)
  -- a bare `return pool.Get()` wrapper assigns nothing itself: its callers are the sites
  let gets := (rowsOf pool getKinds).filter fun r => r.length > 4 || !seq (r.getD 3 "") "get"
  let puts := rowsOf pool ["put"]
  has newFields f || has scratchFields f ||
    (!gets.isEmpty && gets.all fun r => has (r.drop 4) f) ||
    (!puts.isEmpty && puts.all fun r => has (r.drop 4) f)

def poolsCovered : Bool :=
  GenProto.poolStructs.all fun r => (r.drop 2).all (fieldCovered (r.getD 0 ""))

/-- every site is a plain Get or a plain last-statement Put (factgen marks anything else). -/
def noIrregularSites : Bool :=
  GenProto.poolSites.all fun r => has ("put" :: getKinds) (r.getD 3 "") &&
    (r.drop 4).all fun x => GenProto.poolStructs.any fun st => has (st.drop 2) x

/-- the assumption of the ownership model (`Conc.prog true`: an object is clean when handed
out, and is not touched after `put`): every field of every pooled type is covered, every Put is
a plain last-use statement. -/
theorem pool_sites_match : poolsCovered = true ∧ noIrregularSites = true := by decide

end ThriftVerif.Facts.ExpectProto
