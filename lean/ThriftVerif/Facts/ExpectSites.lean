/-
Tie 1 (regenerated facts), C10: every place where gen/ and internal/plugin range over a Go map
is one of the classified sites below — each with the reason the iteration order cannot reach
the output. A new unsorted map range (e.g. a dropped `sortStringKeys`) makes `GenSites` differ
and breaks `sites_classified`.
-/
import ThriftVerif.Facts.GenSites

namespace ThriftVerif.Facts.ExpectSites
open ThriftVerif.Facts

/-- (file, function, ranged expression, why the order is irrelevant). -/
def classifiedGen : List (String × String × String × String) := [
  ("embedidl.go", "embedIDL", "m.Includes", "collects import aliases into a slice that is sorted before use (renderSorted); include names are unique per file, so alias assignment cannot collide"),
  ("generate.go", "Generate", "files", "write loop: independent writes of distinct paths; contents were fixed before the loop"),
  ("generate.go", "mergeFiles", "src", "insertion with conflict detection folded over the entries (mergeConflict / merge_result order-irrelevant)")]

def classifiedPlugin : List (String × String × String × String) := [
  ("multi.go", "MultiServiceGenerator.Generate", "res.Files", "merge under a mutex with conflict detection (mergeConflict order-irrelevant); only the text of a conflict error can depend on the order"),
  ("transport.go", "serviceGenerator.Generate", "res.Files", "validation loop (rejects paths containing ..): a conjunction over entries")]

theorem sites_classified :
    GenSites.genMapRangeSites = classifiedGen.map (fun s => (s.1, s.2.1, s.2.2.1)) ∧
    GenSites.pluginMapRangeSites = classifiedPlugin.map (fun s => (s.1, s.2.1, s.2.2.1)) := by
  decide

end ThriftVerif.Facts.ExpectSites
