/-
Tie 1 (regenerated facts), C10: every place where gen/ and internal/plugin range over a Go map
is one of the classified sites below — each with the reason the iteration order cannot reach
the output. The fact includes the calls made in the loop body: what a loop collects may be sorted
afterwards and the order still be observable through a call with a side effect (finding D75:
`g.Import` handed out import names inside the range over `m.Includes`; the first classification
of that site, written before the calls were part of the fact, was wrong). A new unsorted map range
(e.g. a dropped `sortStringKeys`) or a new call inside a classified loop makes `GenSites` differ
and breaks `sites_classified`.
-/
import ThriftVerif.Facts.GenSites
import ThriftVerif.Facts.GenCompile

namespace ThriftVerif.Facts.ExpectSites
open ThriftVerif.Facts

/-- (file, function, ranged expression, why the order is irrelevant). -/
def classifiedGen : List (String × String × String × String) := [
  ("embedidl.go", "embedIDL", "m.Includes | body calls: append, i.Package, wrapGenerateError",
   "collects import PATHS (i.Package is a pure path computation; no import name is handed out inside the loop — finding D75, repaired) into a slice that is sorted before the packages are imported"),
  ("generate.go", "Generate", "files | body calls: filepath.Dir, filepath.Join, fmt.Errorf, os.MkdirAll, os.WriteFile",
   "write loop: independent writes of distinct, prefix-free paths; contents were fixed before the loop"),
  ("generate.go", "mergeFiles", "src | body calls: addFile, multierr.Append",
   "insertion with conflict detection folded over the entries (mergeConflict / merge_result order-irrelevant)")]

def classifiedPlugin : List (String × String × String × String) := [
  ("multi.go", "MultiServiceGenerator.Generate", "res.Files | body calls: filepath.Join, fmt.Errorf, string",
   "merge under a mutex with conflict detection (mergeConflict order-irrelevant); only the text of a conflict error can depend on the order"),
  ("transport.go", "serviceGenerator.Generate", "res.Files | body calls: fmt.Errorf, strings.Contains",
   "validation loop (rejects paths containing ..): a conjunction over entries")]

theorem sites_classified :
    GenSites.genMapRangeSites = classifiedGen.map (fun s => (s.1, s.2.1, s.2.2.1)) ∧
    GenSites.pluginMapRangeSites = classifiedPlugin.map (fun s => (s.1, s.2.1, s.2.2.1)) := by
  decide

/-- `Module.Walk` takes only the NAMES of a module's includes out of the map, sorts them, and visits the
modules in that order: the order in which code generation numbers modules and services and lists the
root services in the plugin request does not depend on map iteration (finding D93, repaired). A walk
that ranges over the map's values again, or drops the sort, makes the fact differ. -/
theorem walk_order_fixed :
    GenCompile.walkOrder = ["range name, - over m.Includes", "sort.Strings(names)", "range _, name over names"] := by
  decide

end ThriftVerif.Facts.ExpectSites
