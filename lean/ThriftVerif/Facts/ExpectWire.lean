/-
Tie 1 (regenerated facts), wire area: the constants M-Wire is built on are the
ones the working tree declares. `GenWire` is rewritten by factgen on every run;
each theorem here is one obligation. Used by C02 C03 C12 C13 (and C16 for the frame threshold).
-/
import ThriftVerif.Facts.GenWire
import ThriftVerif.Wire.Value
import ThriftVerif.Wire.Envelope

namespace ThriftVerif.Facts.ExpectWire
open ThriftVerif.Wire ThriftVerif.Facts

def codeOf (t : TType) : Int := t.code.toNat

/-- wire/type.go declares exactly the 11 type codes the model uses. -/
theorem typeCodes_ok : GenWire.typeCodes =
    [("TBinary", codeOf .binary), ("TBool", codeOf .bool), ("TDouble", codeOf .double),
     ("TI16", codeOf .i16), ("TI32", codeOf .i32), ("TI64", codeOf .i64), ("TI8", codeOf .i8),
     ("TList", codeOf .list), ("TMap", codeOf .map), ("TSet", codeOf .set),
     ("TStruct", codeOf .struct)] := by decide

theorem envelopeTypes_ok : GenWire.envelopeTypes =
    [("Call", 1), ("Reply", 2), ("Exception", 3), ("OneWay", 4)] := by decide

/-- `fixedWidth` in stream_reader.go is the model's `fixedWidth` (0 ≙ Go's -1). -/
theorem fixedWidth_ok : GenWire.fixedWidth =
    [("wire.TBool", (fixedWidth TType.bool.code : Int)), ("wire.TI8", fixedWidth TType.i8.code),
     ("wire.TDouble", fixedWidth TType.double.code), ("wire.TI16", fixedWidth TType.i16.code),
     ("wire.TI32", fixedWidth TType.i32.code), ("wire.TI64", fixedWidth TType.i64.code),
     ("default", (-1 : Int))] := by decide

/-- thresholds used by the cost model (C13). -/
def bytesAllocThreshold : Nat := 1048576
def fastPathFrameSize : Nat := 10485760
theorem bytesAllocThreshold_ok : GenWire.bytesAllocThreshold = some bytesAllocThreshold := by decide
theorem fastPathFrameSize_ok : GenWire.fastPathFrameSize = some fastPathFrameSize := by decide

/-- envelope version constants: `versionWord` and the `w / 65536 = 0x8001` test in
`decEnvHeader` are `version1`/`versionMask`. -/
theorem version_ok : GenWire.version1 = some (versionWord 0) ∧
    GenWire.versionMask = some (0xffff * 65536) ∧ versionWord 0 / 65536 = 0x8001 := by decide

end ThriftVerif.Facts.ExpectWire
