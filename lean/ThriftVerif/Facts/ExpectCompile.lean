/-
Tie 1 (regenerated facts), compile area: the map iterations, integer conversions and the
field-identifier bounds check M-Compile is built on are the ones compile/ contains now.
`GenCompile` is rewritten by factgen on every run; each theorem here is one obligation.
Used by C07 C08 C09 (and C10).
-/
import ThriftVerif.Facts.GenCompile
import ThriftVerif.Compile.Link

namespace ThriftVerif.Facts.ExpectCompile
open ThriftVerif.Compile ThriftVerif.Facts

/-- Every `for … range <map>` of package compile, with the parameter of the model that
stands for its iteration order. A new unsorted map range (or a removed one) breaks
`sites_covered`. -/
def sites : List ((String × String × String) × String) :=
  [(("compiler.go", "compiler.link", "m.Constants"), "ModOrder.consts (linkModule)"),
   (("compiler.go", "compiler.link", "m.Services"), "ModOrder.services (linkModule)"),
   (("compiler.go", "compiler.link", "m.Types"), "none: copies the map (order-free)"),
   (("compiler.go", "compiler.link", "types"), "ModOrder.types (linkModule)"),
   (("compiler.go", "compiler.link", "types"), "none: findTypeCycles per typedef; only error presence matters (moduleHasCycle)"),
   (("module.go", "Module.Walk", "m.Includes"), "ModOrder.includes (walk)"),
   (("service.go", "ServiceSpec.Link", "s.Functions"), "ModOrder.funcs (linkService)")]

/-- The model's visit-order parameters cover exactly the map-range sites of compile/. -/
theorem sites_covered : GenCompile.mapRangeSites = sites.map (·.1) := by decide

/-- The integer conversions in compile/ are the ones the model performs: `wrap16` in
`gatherFields`, `wrap32` in `gatherEnumItems`, `wrap32` and `doubleOfInt` in `castInt`
(`int64(c)` is the identity on an int64). -/
theorem conversions_ok : GenCompile.conversions =
    [("constant_value.go", "ConstantInt.Link", "float64(c)"),
     ("constant_value.go", "ConstantInt.Link", "int32(c)"),
     ("constant_value.go", "ConstantInt.Link", "int32(c)"),
     ("constant_value.go", "ConstantInt.Link", "int64(c)"),
     ("enum.go", "compileEnum", "int32(value)"),
     ("field.go", "compileField", "int16(src.ID)")] := by decide

/-- `compileField`'s bounds check is the model's `idRejected` (math.MaxInt16 = 32767). -/
theorem fieldIdCheck_ok :
    GenCompile.fieldIdCheck = "(src.ID < 1 && !options.allowNegativeIDs) || src.ID > math.MaxInt16" ∧
    ∀ allowNeg sid, idRejected allowNeg sid = ((decide (sid < 1) && !allowNeg) || decide (sid > 32767)) :=
  ⟨by decide, fun _ _ => rfl⟩

/-- `compileEnum` starts from `prev := -1` (`compileEnum` in the model). -/
theorem enumPrevInit_ok : GenCompile.enumPrevInit = "prev := -1" ∧
    ∀ items, compileEnum items = gatherEnumItems items [] (-1) :=
  ⟨by decide, fun _ => rfl⟩

end ThriftVerif.Facts.ExpectCompile
