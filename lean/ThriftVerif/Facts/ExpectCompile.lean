/-
Tie 1 (regenerated facts), compile area: the map iterations, integer conversions and the
field-identifier bounds check M-Compile is built on are the ones compile/ contains now.
`GenCompile` is rewritten by factgen on every run; each theorem here is one obligation.
Used by C07 C08 C09 (and C10).
-/
import ThriftVerif.Facts.GenCompile
import ThriftVerif.Compile.Link

namespace ThriftVerif.Facts.ExpectCompile
open ThriftVerif.Compile ThriftVerif.Facts

/-- Every `for … range <map>` of package compile, with the parameter of the model that
stands for its iteration order. A new unsorted map range (or a removed one) breaks
`sites_covered`. -/
def sites : List ((String × String × String) × String) :=
  [(("compiler.go", "compiler.link", "m.Constants"), "ModOrder.consts (linkModule)"),
   (("compiler.go", "compiler.link", "m.Services"), "ModOrder.services (linkModule)"),
   (("compiler.go", "compiler.link", "m.Types"), "none: copies the map (order-free)"),
   (("compiler.go", "compiler.link", "types"), "ModOrder.types (linkModule)"),
   (("compiler.go", "compiler.link", "types"), "none: findTypeCycles per typedef; only error presence matters (moduleHasCycle)"),
   (("constant_value.go", "ConstantStruct.Link", "c.Fields"), "none: copies the map (order-free; since the repair of D89 Link builds a new value)"),
   (("module.go", "Module.Walk", "m.Includes"), "ModOrder.includes (walk)"),
   (("service.go", "ServiceSpec.Link", "s.Functions"), "ModOrder.funcs (linkService)")]

/-- The model's visit-order parameters cover exactly the map-range sites of compile/. -/
theorem sites_covered : GenCompile.mapRangeSites = sites.map (·.1) := by decide

/-- The integer conversions in compile/ are the ones the model performs: `wrap16` in
`gatherFields` and `wrap32` in `gatherEnumItems` (both after a bounds check, so they are the
identity on what passes), `doubleOfInt` in `castInt`; the `int64(…)` conversions are widenings
used by the range checks and the enum lookup; those of `scalarKey` (the duplicate check of set and
map constants, finding D81) are identities / widenings into comparison keys (`SKey`). -/
theorem conversions_ok : GenCompile.conversions =
    [("constant_value.go", "ConstantInt.Link", "float64(c)"),
     ("constant_value.go", "ConstantInt.Link", "int64(c)"),
     ("constant_value.go", "ConstantInt.Link", "int64(c)"),
     ("constant_value.go", "ConstantInt.Link", "int64(c)"),
     ("constant_value.go", "ConstantInt.Link", "int64(item.Value)"),
     ("constant_value.go", "ConstantInt.inRange", "int64(c)"),
     ("constant_value.go", "ConstantInt.inRange", "int64(c)"),
     ("constant_value.go", "scalarKey", "float64(x)"),
     ("constant_value.go", "scalarKey", "int64(x)"),
     ("constant_value.go", "scalarKey", "int64(x.Item.Value)"),
     ("enum.go", "compileEnum", "int32(value)"),
     ("field.go", "compileField", "int16(src.ID)")] := by decide

/-- `compileField`'s bounds check is the model's `idRejected`
(math.MaxInt16 = 32767, math.MinInt16 = -32768). -/
theorem fieldIdCheck_ok :
    GenCompile.fieldIdCheck =
      "(src.ID < 1 && !options.allowNegativeIDs) || src.ID > math.MaxInt16 || src.ID < math.MinInt16" ∧
    ∀ allowNeg sid, idRejected allowNeg sid =
      ((decide (sid < 1) && !allowNeg) || decide (sid > 32767) || decide (sid < -32768)) :=
  ⟨by decide, fun _ _ => rfl⟩

/-- `compileEnum` starts from `prev := -1` and rejects values outside int32
(`enumValueRejected` in the model). -/
theorem enumPrevInit_ok : GenCompile.enumPrevInit = "prev := -1" ∧
    GenCompile.enumValueCheck = "value < math.MinInt32 || value > math.MaxInt32" ∧
    (∀ items, compileEnum items = gatherEnumItems items [] (-1)) ∧
    ∀ v, enumValueRejected v = (decide (v < -2147483648) || decide (v > 2147483647)) :=
  ⟨by decide, by decide, fun _ => rfl, fun _ => rfl⟩

/-- `ConstantInt.Link` checks i8, i16 and i32 constants against the bounds of their type
(`castInt`'s `inRange bits`). -/
theorem intRangeChecks_ok : GenCompile.intRangeChecks =
    ["c.inRange(t, math.MinInt8, math.MaxInt8)", "c.inRange(t, math.MinInt16, math.MaxInt16)",
     "c.inRange(t, math.MinInt32, math.MaxInt32)"] ∧
    (∀ n : Int, castInt (.int 8) n = if -128 ≤ n ∧ n < 128 then some (.int n) else none) :=
  ⟨by decide, fun _ => rfl⟩

end ThriftVerif.Facts.ExpectCompile
