/-
Tie 1 (regenerated facts), break area (C20). `GenBreak` is rewritten by factgen on every
run from /repo's working tree; each theorem here is one obligation.
-/
import ThriftVerif.Facts.GenBreak
import ThriftVerif.Break.Model
import ThriftVerif.Break.Text -- not used here: makes `bin/check` build everything Driver/BreakMain.lean imports

namespace ThriftVerif.Facts.ExpectBreak
open ThriftVerif.Break ThriftVerif.Facts

/-- The `for … range <map>` sites of internal/compare and internal/git are exactly the three
maps whose visit order is a parameter of the model (`Break.Orders`): a new unsorted map
iteration, or the loss of one, breaks this obligation. -/
theorem mapRangeSites_ok : GenBreak.mapRangeSites = orderSites := by decide

/-- The only ranged expression factgen cannot type without go-git's sources is
`objects` (`object.Changes`, a slice) in `findChangedThrift`; anything else that becomes
untypable could hide a map range. -/
theorem unresolvedRangeSites_ok : GenBreak.unresolvedRangeSites =
    [("internal/git/git.go", "findChangedThrift", "objects")] := by decide

/-- The five diagnostics compare.go can report, by reporting function, are the five classes of
`Break.Diag` (the harness classifies the real output by these templates). -/
theorem messageTemplates_ok : GenBreak.messageTemplates = messageTemplates := by decide

end ThriftVerif.Facts.ExpectBreak
