/-
M-Wire, part 3: `StreamReader.Skip` (stream_reader.go) for both discard
strategies, and the random-access ("lazy") decoder of reader.go + lazy_list.go
followed by forcing every lazy container.

A reader position is `St = (remaining bytes, over)`: `over > 0` means a seekable
reader was moved `over` bytes past the end of the input by an unchecked `Seek`
(then `remaining = []`, so every later read fails, as `ReadAt` past EOF does).

Core-only.
-/
import ThriftVerif.Wire.Value

namespace ThriftVerif.Wire

abbrev St := Bytes × Nat

/-- `sr.discard(n)`: `discardSeek` moves the offset blindly; `discardStream`
(`io.CopyN` into `io.Discard`) fails on a short input. -/
def discard (seek : Bool) (n : Nat) (s : St) : Option St :=
  if n ≤ s.1.length ∧ s.2 = 0 then some (s.1.drop n, 0)
  else if seek then some ([], s.2 + (n - s.1.length)) else none

/-- read `k` bytes at the current position. -/
def stRdN (k : Nat) (s : St) : Option (Nat × St) :=
  match rdN k s.1 with
  | some (n, r) => some (n, (r, s.2))
  | none => none

def stRdLen (s : St) : Option (Nat × St) :=
  match rdLen s.1 with
  | some (n, r) => some (n, (r, s.2))
  | none => none

def stByte (s : St) : Option (UInt8 × St) :=
  match s.1 with
  | b :: r => some (b, (r, s.2))
  | [] => none

mutual
  /-- `StreamReader.Skip`. -/
  def skip (seek : Bool) : Nat → UInt8 → St → Res St
    | 0, _, _ => .error .fuel
    | f + 1, t, s =>
      if 0 < fixedWidth t then
        match discard seek (fixedWidth t) s with
        | some s' => .ok s'
        | none => .error .bad
      else
      match TType.ofByte t with
      | some .binary =>
        match stRdLen s with
        | some (n, s') =>
          match discard seek n s' with
          | some s'' => .ok s''
          | none => .error .bad
        | none => .error .bad
      | some .struct => skipStruct seek f s
      | some .map =>
        match stByte s with
        | some (kt, s1) =>
          match stByte s1 with
          | some (vt, s2) =>
            match stRdLen s2 with
            | some (n, s3) =>
              if 0 < fixedWidth kt ∧ 0 < fixedWidth vt then
                match discard seek (n * (fixedWidth kt + fixedWidth vt)) s3 with
                | some s' => .ok s'
                | none => .error .bad
              else skipKV seek f kt vt n s3
            | none => .error .bad
          | none => .error .bad
        | none => .error .bad
      | some .set =>
        match stByte s with
        | some (et, s1) =>
          match stRdLen s1 with
          | some (n, s2) =>
            if 0 < fixedWidth et then
              match discard seek (fixedWidth et * n) s2 with
              | some s' => .ok s'
              | none => .error .bad
            else skipN seek f et n s2
          | none => .error .bad
        | none => .error .bad
      | some .list =>
        match stByte s with
        | some (et, s1) =>
          match stRdLen s1 with
          | some (n, s2) =>
            if 0 < fixedWidth et then
              match discard seek (fixedWidth et * n) s2 with
              | some s' => .ok s'
              | none => .error .bad
            else skipN seek f et n s2
          | none => .error .bad
        | none => .error .bad
      | _ => .error .bad
  /-- `skipStruct`: type byte, then (2 id bytes discarded, value skipped)*, until a 0 type byte. -/
  def skipStruct (seek : Bool) : Nat → St → Res St
    | 0, _ => .error .fuel
    | f + 1, s =>
      match stByte s with
      | none => .error .bad
      | some (t, s1) =>
        if t = 0 then .ok s1 else
        match discard seek 2 s1 with
        | none => .error .bad
        | some s2 =>
          match skip seek f t s2 with
          | .error e => .error e
          | .ok s3 => skipStruct seek f s3
  def skipN (seek : Bool) : Nat → UInt8 → Nat → St → Res St
    | _, _, 0, s => .ok s
    | 0, _, _ + 1, _ => .error .fuel
    | f + 1, et, n + 1, s =>
      match skip seek f et s with
      | .error e => .error e
      | .ok s' => skipN seek f et n s'
  def skipKV (seek : Bool) : Nat → UInt8 → UInt8 → Nat → St → Res St
    | _, _, _, 0, s => .ok s
    | 0, _, _, _ + 1, _ => .error .fuel
    | f + 1, kt, vt, n + 1, s =>
      match skip seek f kt s with
      | .error e => .error e
      | .ok s1 =>
        match skip seek f vt s1 with
        | .error e => .error e
        | .ok s2 => skipKV seek f kt vt n s2
end

/-- `skipListItems`: one discard for fixed-width elements, else a loop
(`skip` above inlines exactly this for the set/list cases). -/
def skipListItems (seek : Bool) (f : Nat) (et : UInt8) (n : Nat) (s : St) : Res St :=
  if 0 < fixedWidth et then
    match discard seek (fixedWidth et * n) s with
    | some s' => .ok s'
    | none => .error .bad
  else skipN seek f et n s

/-- `skipMapItems`. -/
def skipMapItems (seek : Bool) (f : Nat) (kt vt : UInt8) (n : Nat) (s : St) : Res St :=
  if 0 < fixedWidth kt ∧ 0 < fixedWidth vt then
    match discard seek (n * (fixedWidth kt + fixedWidth vt)) s with
    | some s' => .ok s'
    | none => .error .bad
  else skipKV seek f kt vt n s

/-- skip as the drivers run it. -/
def skipTop (seek : Bool) (t : UInt8) (bs : Bytes) : Res St := skip seek (fuelFor bs) t (bs, 0)

/-! ### Random-access decoder followed by forcing

`reader.ReadValue` reads scalars and struct fields eagerly; for a container it reads the
header, *skips* the items with the seeking discard, and returns a lazy list that
remembers the start offset. Forcing (`ForEach`) re-reads `count` values from that
offset with `ReadValue` again. `decF` is "ReadValue, then force everything": the
position after a container is the one `skip` computed, the items are the ones the
re-read produced.
-/

mutual
  def decF : Nat → UInt8 → St → Res (WValue × St)
    | 0, _, _ => .error .fuel
    | f + 1, t, s =>
      match TType.ofByte t with
      | none => .error .bad
      | some .bool =>
        match stByte s with
        | some (b, r) => if b = 0 then .ok (.bool false, r) else if b = 1 then .ok (.bool true, r)
                         else .error .bad
        | none => .error .bad
      | some .i8 =>
        match stByte s with
        | some (b, r) => .ok (.i8 b, r)
        | none => .error .bad
      | some .double =>
        match stRdN 8 s with
        | some (n, r) => .ok (.double (UInt64.ofNat n), r)
        | none => .error .bad
      | some .i16 =>
        match stRdN 2 s with
        | some (n, r) => .ok (.i16 (UInt16.ofNat n), r)
        | none => .error .bad
      | some .i32 =>
        match stRdN 4 s with
        | some (n, r) => .ok (.i32 (UInt32.ofNat n), r)
        | none => .error .bad
      | some .i64 =>
        match stRdN 8 s with
        | some (n, r) => .ok (.i64 (UInt64.ofNat n), r)
        | none => .error .bad
      | some .binary =>
        match stRdLen s with
        | some (n, r) =>
          if n ≤ r.1.length then .ok (.binary (r.1.take n), (r.1.drop n, r.2)) else .error .bad
        | none => .error .bad
      | some .struct =>
        match decFieldsF f s with
        | .ok (fs, r) => .ok (.struct fs, r)
        | .error e => .error e
      | some .map =>
        match stByte s with
        | some (kt, s1) =>
          match stByte s1 with
          | some (vt, s2) =>
            match stRdLen s2 with
            | some (n, s3) =>
              match skipMapItems true (fuelFor s3.1) kt vt n s3 with
              | .error e => .error e
              | .ok sEnd =>
                match decItemsF f kt vt n s3 with
                | .ok (is, _) => .ok (.map kt vt is, sEnd)
                | .error e => .error e
            | none => .error .bad
          | none => .error .bad
        | none => .error .bad
      | some .set =>
        match stByte s with
        | some (et, s1) =>
          match stRdLen s1 with
          | some (n, s2) =>
            match skipListItems true (fuelFor s2.1) et n s2 with
            | .error e => .error e
            | .ok sEnd =>
              match decListF f et n s2 with
              | .ok (vs, _) => .ok (.set et vs, sEnd)
              | .error e => .error e
          | none => .error .bad
        | none => .error .bad
      | some .list =>
        match stByte s with
        | some (et, s1) =>
          match stRdLen s1 with
          | some (n, s2) =>
            match skipListItems true (fuelFor s2.1) et n s2 with
            | .error e => .error e
            | .ok sEnd =>
              match decListF f et n s2 with
              | .ok (vs, _) => .ok (.list et vs, sEnd)
              | .error e => .error e
          | none => .error .bad
        | none => .error .bad
  def decFieldsF : Nat → St → Res (List (UInt16 × WValue) × St)
    | 0, _ => .error .fuel
    | f + 1, s =>
      match stByte s with
      | none => .error .bad
      | some (t, s0) =>
        if t = 0 then .ok ([], s0) else
        match stRdN 2 s0 with
        | none => .error .bad
        | some (id, s1) =>
          match decF f t s1 with
          | .error e => .error e
          | .ok (v, s2) =>
            match decFieldsF f s2 with
            | .error e => .error e
            | .ok (fs, s3) => .ok ((UInt16.ofNat id, v) :: fs, s3)
  def decListF : Nat → UInt8 → Nat → St → Res (List WValue × St)
    | _, _, 0, s => .ok ([], s)
    | 0, _, _ + 1, _ => .error .fuel
    | f + 1, et, n + 1, s =>
      match decF f et s with
      | .error e => .error e
      | .ok (v, r) =>
        match decListF f et n r with
        | .error e => .error e
        | .ok (vs, r') => .ok (v :: vs, r')
  def decItemsF : Nat → UInt8 → UInt8 → Nat → St → Res (List (WValue × WValue) × St)
    | _, _, _, 0, s => .ok ([], s)
    | 0, _, _, _ + 1, _ => .error .fuel
    | f + 1, kt, vt, n + 1, s =>
      match decF f kt s with
      | .error e => .error e
      | .ok (k, r) =>
        match decF f vt r with
        | .error e => .error e
        | .ok (v, r') =>
          match decItemsF f kt vt n r' with
          | .error e => .error e
          | .ok (is, r'') => .ok ((k, v) :: is, r'')
end

/-- the random-access decoder + forcing, as the drivers run it. -/
def decodeLazyForced (t : UInt8) (bs : Bytes) : Res (WValue × St) := decF (fuelFor bs) t (bs, 0)

end ThriftVerif.Wire
