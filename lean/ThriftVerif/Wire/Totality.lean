/-
M-Wire proofs: fuel `fuelFor bs` is always enough — the strict decoder never
reports `Err.fuel` on any input, so its verdict is always a value or a decode
error (the model-side statement of "terminates with a value or an error").
Also: `size v ≤ fuelFor (enc v ++ rest)`, connecting the round-trip theorems
(stated for any fuel ≥ size) to the drivers' fuel.
-/
import ThriftVerif.Wire.Canonical

set_option linter.unusedSimpArgs false

namespace ThriftVerif.Wire

mutual
  theorem size_bound (v : WValue) : v.size + 1 ≤ 3 * (enc v).length := by
    cases v with
    | struct fs => have := sizeFields_bound fs; simp [WValue.size, enc]; omega
    | map kt vt is => have := sizeItems_bound is; simp [WValue.size, enc]; omega
    | set et vs => have := sizeList_bound vs; simp [WValue.size, enc]; omega
    | list et vs => have := sizeList_bound vs; simp [WValue.size, enc]; omega
    | bool b => simp [WValue.size, enc]
    | i8 x => simp [WValue.size, enc]
    | double x => simp [WValue.size, enc]
    | i16 x => simp [WValue.size, enc]
    | i32 x => simp [WValue.size, enc]
    | i64 x => simp [WValue.size, enc]
    | binary bs => simp [WValue.size, enc]; omega
  theorem sizeFields_bound (fs : List (UInt16 × WValue)) :
      sizeFields fs + 2 ≤ 3 * (encFields fs).length := by
    match fs with
    | [] => simp [sizeFields, encFields]
    | (id, v) :: fs =>
      have h1 := size_bound v
      have h2 := sizeFields_bound fs
      simp [sizeFields, encFields]; omega
  theorem sizeList_bound (vs : List WValue) : sizeList vs ≤ 3 * (encList vs).length := by
    match vs with
    | [] => simp [sizeList, encList]
    | v :: vs =>
      have h1 := size_bound v
      have h2 := sizeList_bound vs
      simp [sizeList, encList]; omega
  theorem sizeItems_bound (is : List (WValue × WValue)) : sizeItems is ≤ 3 * (encItems is).length := by
    match is with
    | [] => simp [sizeItems, encItems]
    | (k, v) :: is =>
      have h1 := size_bound k
      have h2 := size_bound v
      have h3 := sizeItems_bound is
      simp [sizeItems, encItems]; omega
end

theorem size_le_fuelFor (v : WValue) (rest : Bytes) : v.size ≤ fuelFor (enc v ++ rest) := by
  have := size_bound v
  simp [fuelFor]; omega

theorem enc_length_pos (v : WValue) : 0 < (enc v).length := by
  have := size_bound v; omega

/-- success consumes at least one byte. -/
theorem dec_rest_lt {f : Nat} {t : UInt8} {bs : Bytes} {v : WValue} {rest : Bytes}
    (h : dec f t bs = .ok (v, rest)) : rest.length < bs.length := by
  obtain ⟨h1, _, _⟩ := dec_canonical h
  have := enc_length_pos v
  rw [← h1]; simp; omega

def FuelOkAt (f : Nat) : Prop :=
  (∀ t bs, 3 * bs.length + 2 ≤ f → dec f t bs ≠ .error .fuel) ∧
  (∀ bs, 3 * bs.length + 1 ≤ f → decFields f bs ≠ .error .fuel) ∧
  (∀ et n bs, 3 * bs.length + 3 ≤ f → decList f et n bs ≠ .error .fuel) ∧
  (∀ kt vt n bs, 3 * bs.length + 3 ≤ f → decItems f kt vt n bs ≠ .error .fuel)

theorem fuelOkAt (f : Nat) : FuelOkAt f := by
  induction f with
  | zero =>
    refine ⟨?_, ?_, ?_, ?_⟩
    · intro t bs h; omega
    · intro bs h; omega
    · intro et n bs h; omega
    · intro kt vt n bs h; omega
  | succ f ih =>
    obtain ⟨ihV, ihF, ihL, ihI⟩ := ih
    refine ⟨?_, ?_, ?_, ?_⟩
    · intro t bs hf h
      unfold dec at h
      split at h
      · cases h
      · split at h
        · split at h
          · cases h
          · split at h <;> cases h
        · cases h
      · split at h <;> cases h
      · split at h <;> cases h
      · split at h <;> cases h
      · split at h <;> cases h
      · split at h <;> cases h
      · split at h
        · split at h <;> cases h
        · cases h
      · -- struct
        split at h
        · cases h
        · rename_i e he; cases h
          exact ihF bs (by omega) he
      · -- map
        split at h
        · rename_i kt vt r0
          split at h
          · rename_i n r hr
            have hl := (rdLen_some hr).2.2
            split at h
            · cases h
            · rename_i e he; cases h
              exact ihI kt vt n r (by simp at hf; omega) he
          · cases h
        · cases h
      · -- set
        split at h
        · rename_i et r0
          split at h
          · rename_i n r hr
            have hl := (rdLen_some hr).2.2
            split at h
            · cases h
            · rename_i e he; cases h
              exact ihL et n r (by simp at hf; omega) he
          · cases h
        · cases h
      · -- list
        split at h
        · rename_i et r0
          split at h
          · rename_i n r hr
            have hl := (rdLen_some hr).2.2
            split at h
            · cases h
            · rename_i e he; cases h
              exact ihL et n r (by simp at hf; omega) he
          · cases h
        · cases h
    · intro bs hf h
      unfold decFields at h
      split at h
      · cases h
      · rename_i t r0
        split at h
        · cases h
        · split at h
          · cases h
          · rename_i id r1 hid
            have hl := (rdN_some hid).2.2
            split at h
            · rename_i e he; cases h
              exact ihV t r1 (by simp at hf; omega) he
            · rename_i v r2 hv
              have hlt := dec_rest_lt hv
              split at h
              · rename_i e he; cases h
                exact ihF r2 (by simp at hf; omega) he
              · cases h
    · intro et n bs hf h
      cases n with
      | zero => simp [decList] at h
      | succ n =>
        simp only [decList] at h
        split at h
        · rename_i e he; cases h
          exact ihV et bs (by omega) he
        · rename_i v r hv
          have hlt := dec_rest_lt hv
          split at h
          · rename_i e he; cases h
            exact ihL et n r (by omega) he
          · cases h
    · intro kt vt n bs hf h
      cases n with
      | zero => simp [decItems] at h
      | succ n =>
        simp only [decItems] at h
        split at h
        · rename_i e he; cases h
          exact ihV kt bs (by omega) he
        · rename_i k r hk
          have hlt := dec_rest_lt hk
          split at h
          · rename_i e he; cases h
            exact ihV vt r (by omega) he
          · rename_i v r' hv
            have hlt' := dec_rest_lt hv
            split at h
            · rename_i e he; cases h
              exact ihI kt vt n r' (by omega) he
            · cases h

/-- totality of the strict decoder: with the drivers' fuel it never runs out. -/
theorem decode_total (t : UInt8) (bs : Bytes) : decode t bs ≠ .error .fuel :=
  (fuelOkAt (fuelFor bs)).1 t bs (by simp [fuelFor])

/-- more fuel than `fuelFor` is never needed either. -/
theorem dec_fuel_enough {f : Nat} (t : UInt8) (bs : Bytes) (h : fuelFor bs ≤ f) :
    dec f t bs ≠ .error .fuel :=
  (fuelOkAt f).1 t bs (by simp [fuelFor] at h; omega)

end ThriftVerif.Wire
