/-
M-Wire proofs: the result of a successful `Skip` does not depend on the model's fuel
(two successful runs from the same position agree), and reader positions stay well-formed
(`over > 0` only with no bytes left).
-/
import ThriftVerif.Wire.Skip

set_option linter.unusedSimpArgs false

namespace ThriftVerif.Wire

/-- a position moved past the end has no bytes left. -/
def WFSt (s : St) : Prop := s.2 > 0 → s.1 = []

theorem wf_zero (bs : Bytes) : WFSt (bs, 0) := by intro h; simp at h

theorem discard_wf {seek : Bool} {n : Nat} {s s' : St} (h : discard seek n s = some s') (hw : WFSt s) :
    WFSt s' := by
  unfold discard at h
  split at h
  · cases h; exact wf_zero _
  · split at h
    · cases h; intro _; rfl
    · cases h

theorem stByte_wf {s s' : St} {b : UInt8} (h : stByte s = some (b, s')) (hw : WFSt s) :
    WFSt s' ∧ s.2 = 0 ∧ s'.2 = 0 := by
  unfold stByte at h
  split at h
  · rename_i b' r hs
    cases h
    have h0 : s.2 = 0 := by
      cases hz : s.2 with
      | zero => rfl
      | succ k => have := hw (by omega); rw [this] at hs; cases hs
    exact ⟨by intro h; simp [h0] at h, h0, h0⟩
  · cases h

theorem stRdN_wf {k : Nat} {s s' : St} {n : Nat} (hk : 0 < k) (h : stRdN k s = some (n, s')) (hw : WFSt s) :
    WFSt s' ∧ s.2 = 0 ∧ s'.2 = 0 := by
  unfold stRdN at h
  split at h
  · rename_i n' r hr
    cases h
    have h0 : s.2 = 0 := by
      cases hz : s.2 with
      | zero => rfl
      | succ j =>
        have := hw (by omega)
        unfold rdN at hr
        rw [this] at hr
        simp at hr
        omega
    exact ⟨by intro h; simp [h0] at h, h0, h0⟩
  · cases h

theorem stRdLen_wf {s s' : St} {n : Nat} (h : stRdLen s = some (n, s')) (hw : WFSt s) :
    WFSt s' ∧ s.2 = 0 ∧ s'.2 = 0 := by
  unfold stRdLen at h
  split at h
  · rename_i n' r hr
    cases h
    have h0 : s.2 = 0 := by
      cases hz : s.2 with
      | zero => rfl
      | succ j =>
        have := hw (by omega)
        unfold rdLen rdN at hr
        rw [this] at hr
        simp at hr
    exact ⟨by intro h; simp [h0] at h, h0, h0⟩
  · cases h

/-- statements proved together by induction on the first fuel. -/
def AgreeAt (seek : Bool) (f1 : Nat) : Prop :=
  (∀ f2 t s a b, skip seek f1 t s = .ok a → skip seek f2 t s = .ok b → a = b) ∧
  (∀ f2 s a b, skipStruct seek f1 s = .ok a → skipStruct seek f2 s = .ok b → a = b) ∧
  (∀ f2 et n s a b, skipN seek f1 et n s = .ok a → skipN seek f2 et n s = .ok b → a = b) ∧
  (∀ f2 kt vt n s a b, skipKV seek f1 kt vt n s = .ok a → skipKV seek f2 kt vt n s = .ok b → a = b)

theorem skipN_zero {seek : Bool} {f : Nat} {et : UInt8} {s a : St} (h : skipN seek f et 0 s = .ok a) : a = s := by
  cases f <;> simp [skipN] at h <;> exact h.symm

theorem skipKV_zero {seek : Bool} {f : Nat} {kt vt : UInt8} {s a : St}
    (h : skipKV seek f kt vt 0 s = .ok a) : a = s := by
  cases f <;> simp [skipKV] at h <;> exact h.symm

theorem agreeAt (seek : Bool) (f1 : Nat) : AgreeAt seek f1 := by
  induction f1 with
  | zero =>
    refine ⟨?_, ?_, ?_, ?_⟩
    · intro f2 t s a b h; simp [skip] at h
    · intro f2 s a b h; simp [skipStruct] at h
    · intro f2 et n s a b h1 h2
      cases n with
      | zero => rw [skipN_zero h1, skipN_zero h2]
      | succ n => simp [skipN] at h1
    · intro f2 kt vt n s a b h1 h2
      cases n with
      | zero => rw [skipKV_zero h1, skipKV_zero h2]
      | succ n => simp [skipKV] at h1
  | succ f1 ih =>
    obtain ⟨ihS, ihT, ihN, ihK⟩ := ih
    refine ⟨?_, ?_, ?_, ?_⟩
    · intro f2 t s a b h1 h2
      cases f2 with
      | zero => simp [skip] at h2
      | succ f2 =>
        unfold skip at h1 h2
        by_cases hw : 0 < fixedWidth t
        · simp only [hw, if_true] at h1 h2
          cases hd : discard seek (fixedWidth t) s with
          | none => simp [hd] at h1
          | some s' => simp [hd] at h1 h2; rw [← h1, ← h2]
        · simp only [hw, if_false] at h1 h2
          cases ht : TType.ofByte t with
          | none => simp [ht] at h1
          | some tt =>
            simp only [ht] at h1 h2
            cases tt <;> simp only [] at h1 h2 <;> try (cases h1; done)
            case binary =>
              cases hl : stRdLen s with
              | none => simp [hl] at h1
              | some p =>
                obtain ⟨n, s'⟩ := p
                simp only [hl] at h1 h2
                cases hd : discard seek n s' with
                | none => simp [hd] at h1
                | some s'' => simp [hd] at h1 h2; rw [← h1, ← h2]
            case struct => exact ihT f2 s a b h1 h2
            case map =>
              cases hb1 : stByte s with
              | none => simp [hb1] at h1
              | some p1 =>
                obtain ⟨kt, s1⟩ := p1
                simp only [hb1] at h1 h2
                cases hb2 : stByte s1 with
                | none => simp [hb2] at h1
                | some p2 =>
                  obtain ⟨vt, s2⟩ := p2
                  simp only [hb2] at h1 h2
                  cases hl : stRdLen s2 with
                  | none => simp [hl] at h1
                  | some p3 =>
                    obtain ⟨n, s3⟩ := p3
                    simp only [hl] at h1 h2
                    by_cases hfw : 0 < fixedWidth kt ∧ 0 < fixedWidth vt
                    · simp only [hfw, and_self, if_true] at h1 h2
                      cases hd : discard seek (n * (fixedWidth kt + fixedWidth vt)) s3 with
                      | none => simp [hd] at h1
                      | some s' => simp [hd] at h1 h2; rw [← h1, ← h2]
                    · simp only [hfw, if_false] at h1 h2
                      exact ihK f2 kt vt n s3 a b h1 h2
            case set =>
              cases hb1 : stByte s with
              | none => simp [hb1] at h1
              | some p1 =>
                obtain ⟨et, s1⟩ := p1
                simp only [hb1] at h1 h2
                cases hl : stRdLen s1 with
                | none => simp [hl] at h1
                | some p3 =>
                  obtain ⟨n, s2⟩ := p3
                  simp only [hl] at h1 h2
                  by_cases hfw : 0 < fixedWidth et
                  · simp only [hfw, if_true] at h1 h2
                    cases hd : discard seek (fixedWidth et * n) s2 with
                    | none => simp [hd] at h1
                    | some s' => simp [hd] at h1 h2; rw [← h1, ← h2]
                  · simp only [hfw, if_false] at h1 h2
                    exact ihN f2 et n s2 a b h1 h2
            case list =>
              cases hb1 : stByte s with
              | none => simp [hb1] at h1
              | some p1 =>
                obtain ⟨et, s1⟩ := p1
                simp only [hb1] at h1 h2
                cases hl : stRdLen s1 with
                | none => simp [hl] at h1
                | some p3 =>
                  obtain ⟨n, s2⟩ := p3
                  simp only [hl] at h1 h2
                  by_cases hfw : 0 < fixedWidth et
                  · simp only [hfw, if_true] at h1 h2
                    cases hd : discard seek (fixedWidth et * n) s2 with
                    | none => simp [hd] at h1
                    | some s' => simp [hd] at h1 h2; rw [← h1, ← h2]
                  · simp only [hfw, if_false] at h1 h2
                    exact ihN f2 et n s2 a b h1 h2
    · intro f2 s a b h1 h2
      cases f2 with
      | zero => simp [skipStruct] at h2
      | succ f2 =>
        unfold skipStruct at h1 h2
        cases hb : stByte s with
        | none => simp [hb] at h1
        | some p =>
          obtain ⟨t, s1⟩ := p
          simp only [hb] at h1 h2
          by_cases ht : t = 0
          · simp only [ht, if_true] at h1 h2; cases h1; cases h2; rfl
          · simp only [ht, if_false] at h1 h2
            cases hd : discard seek 2 s1 with
            | none => simp [hd] at h1
            | some s2 =>
              simp only [hd] at h1 h2
              cases hs1 : skip seek f1 t s2 with
              | error e => simp [hs1] at h1
              | ok s3 =>
                cases hs2 : skip seek f2 t s2 with
                | error e => simp [hs2] at h2
                | ok s3' =>
                  have := ihS f2 t s2 s3 s3' hs1 hs2
                  subst this
                  simp only [hs1] at h1
                  simp only [hs2] at h2
                  exact ihT f2 s3 a b h1 h2
    · intro f2 et n s a b h1 h2
      cases n with
      | zero => rw [skipN_zero h1, skipN_zero h2]
      | succ n =>
        cases f2 with
        | zero => simp [skipN] at h2
        | succ f2 =>
          simp only [skipN] at h1 h2
          cases hs1 : skip seek f1 et s with
          | error e => simp [hs1] at h1
          | ok s1 =>
            cases hs2 : skip seek f2 et s with
            | error e => simp [hs2] at h2
            | ok s1' =>
              have := ihS f2 et s s1 s1' hs1 hs2
              subst this
              simp only [hs1] at h1
              simp only [hs2] at h2
              exact ihN f2 et n s1 a b h1 h2
    · intro f2 kt vt n s a b h1 h2
      cases n with
      | zero => rw [skipKV_zero h1, skipKV_zero h2]
      | succ n =>
        cases f2 with
        | zero => simp [skipKV] at h2
        | succ f2 =>
          simp only [skipKV] at h1 h2
          cases hk1 : skip seek f1 kt s with
          | error e => simp [hk1] at h1
          | ok s1 =>
            cases hk2 : skip seek f2 kt s with
            | error e => simp [hk2] at h2
            | ok s1' =>
              have := ihS f2 kt s s1 s1' hk1 hk2
              subst this
              simp only [hk1] at h1
              simp only [hk2] at h2
              cases hv1 : skip seek f1 vt s1 with
              | error e => simp [hv1] at h1
              | ok s2 =>
                cases hv2 : skip seek f2 vt s1 with
                | error e => simp [hv2] at h2
                | ok s2' =>
                  have := ihS f2 vt s1 s2 s2' hv1 hv2
                  subst this
                  simp only [hv1] at h1
                  simp only [hv2] at h2
                  exact ihK f2 kt vt n s2 a b h1 h2

/-- two successful skips from the same position agree, whatever fuel each ran with. -/
theorem skip_agree {seek : Bool} {f1 f2 : Nat} {t : UInt8} {s a b : St}
    (h1 : skip seek f1 t s = .ok a) (h2 : skip seek f2 t s = .ok b) : a = b :=
  (agreeAt seek f1).1 f2 t s a b h1 h2

theorem skipN_agree {seek : Bool} {f1 f2 : Nat} {et : UInt8} {n : Nat} {s a b : St}
    (h1 : skipN seek f1 et n s = .ok a) (h2 : skipN seek f2 et n s = .ok b) : a = b :=
  (agreeAt seek f1).2.2.1 f2 et n s a b h1 h2

theorem skipKV_agree {seek : Bool} {f1 f2 : Nat} {kt vt : UInt8} {n : Nat} {s a b : St}
    (h1 : skipKV seek f1 kt vt n s = .ok a) (h2 : skipKV seek f2 kt vt n s = .ok b) : a = b :=
  (agreeAt seek f1).2.2.2 f2 kt vt n s a b h1 h2

/-! ### skipping preserves well-formedness of the position -/

def WfAt (seek : Bool) (f : Nat) : Prop :=
  (∀ t s a, WFSt s → skip seek f t s = .ok a → WFSt a) ∧
  (∀ s a, WFSt s → skipStruct seek f s = .ok a → WFSt a) ∧
  (∀ et n s a, WFSt s → skipN seek f et n s = .ok a → WFSt a) ∧
  (∀ kt vt n s a, WFSt s → skipKV seek f kt vt n s = .ok a → WFSt a)

theorem wfAt (seek : Bool) (f : Nat) : WfAt seek f := by
  induction f with
  | zero =>
    refine ⟨?_, ?_, ?_, ?_⟩
    · intro t s a _ h; simp [skip] at h
    · intro s a _ h; simp [skipStruct] at h
    · intro et n s a hw h
      cases n with
      | zero => rw [skipN_zero h]; exact hw
      | succ n => simp [skipN] at h
    · intro kt vt n s a hw h
      cases n with
      | zero => rw [skipKV_zero h]; exact hw
      | succ n => simp [skipKV] at h
  | succ f ih =>
    obtain ⟨ihS, ihT, ihN, ihK⟩ := ih
    refine ⟨?_, ?_, ?_, ?_⟩
    · intro t s a hw h
      unfold skip at h
      by_cases hfx : 0 < fixedWidth t
      · simp only [hfx, if_true] at h
        cases hd : discard seek (fixedWidth t) s with
        | none => simp [hd] at h
        | some s' => simp [hd] at h; subst h; exact discard_wf hd hw
      · simp only [hfx, if_false] at h
        cases ht : TType.ofByte t with
        | none => simp [ht] at h
        | some tt =>
          simp only [ht] at h
          cases tt <;> simp only [] at h <;> try (cases h; done)
          case binary =>
            cases hl : stRdLen s with
            | none => simp [hl] at h
            | some p =>
              obtain ⟨n, s'⟩ := p
              simp only [hl] at h
              have hw' := (stRdLen_wf hl hw).1
              cases hd : discard seek n s' with
              | none => simp [hd] at h
              | some s'' => simp [hd] at h; subst h; exact discard_wf hd hw'
          case struct => exact ihT s a hw h
          case map =>
            cases hb1 : stByte s with
            | none => simp [hb1] at h
            | some p1 =>
              obtain ⟨kt, s1⟩ := p1
              simp only [hb1] at h
              have hw1 := (stByte_wf hb1 hw).1
              cases hb2 : stByte s1 with
              | none => simp [hb2] at h
              | some p2 =>
                obtain ⟨vt, s2⟩ := p2
                simp only [hb2] at h
                have hw2 := (stByte_wf hb2 hw1).1
                cases hl : stRdLen s2 with
                | none => simp [hl] at h
                | some p3 =>
                  obtain ⟨n, s3⟩ := p3
                  simp only [hl] at h
                  have hw3 := (stRdLen_wf hl hw2).1
                  by_cases hfw : 0 < fixedWidth kt ∧ 0 < fixedWidth vt
                  · simp only [hfw, and_self, if_true] at h
                    cases hd : discard seek (n * (fixedWidth kt + fixedWidth vt)) s3 with
                    | none => simp [hd] at h
                    | some s' => simp [hd] at h; subst h; exact discard_wf hd hw3
                  · simp only [hfw, if_false] at h
                    exact ihK kt vt n s3 a hw3 h
          case set =>
            cases hb1 : stByte s with
            | none => simp [hb1] at h
            | some p1 =>
              obtain ⟨et, s1⟩ := p1
              simp only [hb1] at h
              have hw1 := (stByte_wf hb1 hw).1
              cases hl : stRdLen s1 with
              | none => simp [hl] at h
              | some p3 =>
                obtain ⟨n, s2⟩ := p3
                simp only [hl] at h
                have hw2 := (stRdLen_wf hl hw1).1
                by_cases hfw : 0 < fixedWidth et
                · simp only [hfw, if_true] at h
                  cases hd : discard seek (fixedWidth et * n) s2 with
                  | none => simp [hd] at h
                  | some s' => simp [hd] at h; subst h; exact discard_wf hd hw2
                · simp only [hfw, if_false] at h
                  exact ihN et n s2 a hw2 h
          case list =>
            cases hb1 : stByte s with
            | none => simp [hb1] at h
            | some p1 =>
              obtain ⟨et, s1⟩ := p1
              simp only [hb1] at h
              have hw1 := (stByte_wf hb1 hw).1
              cases hl : stRdLen s1 with
              | none => simp [hl] at h
              | some p3 =>
                obtain ⟨n, s2⟩ := p3
                simp only [hl] at h
                have hw2 := (stRdLen_wf hl hw1).1
                by_cases hfw : 0 < fixedWidth et
                · simp only [hfw, if_true] at h
                  cases hd : discard seek (fixedWidth et * n) s2 with
                  | none => simp [hd] at h
                  | some s' => simp [hd] at h; subst h; exact discard_wf hd hw2
                · simp only [hfw, if_false] at h
                  exact ihN et n s2 a hw2 h
    · intro s a hw h
      unfold skipStruct at h
      cases hb : stByte s with
      | none => simp [hb] at h
      | some p =>
        obtain ⟨t, s1⟩ := p
        simp only [hb] at h
        have hw1 := (stByte_wf hb hw).1
        by_cases ht : t = 0
        · simp only [ht, if_true] at h; cases h; exact hw1
        · simp only [ht, if_false] at h
          cases hd : discard seek 2 s1 with
          | none => simp [hd] at h
          | some s2 =>
            simp only [hd] at h
            have hw2 := discard_wf hd hw1
            cases hs : skip seek f t s2 with
            | error e => simp [hs] at h
            | ok s3 =>
              simp only [hs] at h
              exact ihT s3 a (ihS t s2 s3 hw2 hs) h
    · intro et n s a hw h
      cases n with
      | zero => rw [skipN_zero h]; exact hw
      | succ n =>
        simp only [skipN] at h
        cases hs : skip seek f et s with
        | error e => simp [hs] at h
        | ok s1 =>
          simp only [hs] at h
          exact ihN et n s1 a (ihS et s s1 hw hs) h
    · intro kt vt n s a hw h
      cases n with
      | zero => rw [skipKV_zero h]; exact hw
      | succ n =>
        simp only [skipKV] at h
        cases hk : skip seek f kt s with
        | error e => simp [hk] at h
        | ok s1 =>
          simp only [hk] at h
          cases hv : skip seek f vt s1 with
          | error e => simp [hv] at h
          | ok s2 =>
            simp only [hv] at h
            exact ihK kt vt n s2 a (ihS vt s1 s2 (ihS kt s s1 hw hk) hv) h

theorem skipListItems_wf {seek : Bool} {f : Nat} {et : UInt8} {n : Nat} {s a : St}
    (hw : WFSt s) (h : skipListItems seek f et n s = .ok a) : WFSt a := by
  unfold skipListItems at h
  by_cases hfw : 0 < fixedWidth et
  · simp only [hfw, if_true] at h
    cases hd : discard seek (fixedWidth et * n) s with
    | none => simp [hd] at h
    | some s' => simp [hd] at h; subst h; exact discard_wf hd hw
  · simp only [hfw, if_false] at h
    exact (wfAt seek f).2.2.1 et n s a hw h

theorem skipMapItems_wf {seek : Bool} {f : Nat} {kt vt : UInt8} {n : Nat} {s a : St}
    (hw : WFSt s) (h : skipMapItems seek f kt vt n s = .ok a) : WFSt a := by
  unfold skipMapItems at h
  by_cases hfw : 0 < fixedWidth kt ∧ 0 < fixedWidth vt
  · simp only [hfw, and_self, if_true] at h
    cases hd : discard seek (n * (fixedWidth kt + fixedWidth vt)) s with
    | none => simp [hd] at h
    | some s' => simp [hd] at h; subst h; exact discard_wf hd hw
  · simp only [hfw, if_false] at h
    exact (wfAt seek f).2.2.2 kt vt n s a hw h

end ThriftVerif.Wire
