/-
M-Wire, part 6: allocation driven by declared lengths (C13).

`readBytesAlloc` is what `StreamReader.readBytes(length)` allocates: up to
`bytesAllocThreshold` it is `make([]byte, length)` *before* reading; above it the data is
copied incrementally into a `bytes.Buffer`, whose total allocation is bounded by a small
multiple of the bytes actually present (modelled as `4 * present + 1024`; bytes.Buffer's
growth policy itself is not verified). `decAlloc` follows the control flow of the strict
decoder `dec` and adds up these allocations — including on the failing path.

Core-only.
-/
import ThriftVerif.Wire.Value

namespace ThriftVerif.Wire

def bytesAllocThreshold : Nat := 1048576

/-- allocation of `readBytes(len)` when `avail` bytes are available. -/
def readBytesAlloc (len avail : Nat) : Nat :=
  if len = 0 then 0
  else if len > bytesAllocThreshold then 4 * (min len avail) + 1024
  else len

/-- allocation (first component) and, on success, the remaining bytes. -/
abbrev CostRes := Nat × Option Bytes

mutual
  def decAlloc : Nat → UInt8 → Bytes → CostRes
    | 0, _, _ => (0, none)
    | f + 1, t, bs =>
      match TType.ofByte t with
      | none => (0, none)
      | some .bool =>
        match bs with
        | b :: r => if b = 0 ∨ b = 1 then (0, some r) else (0, none)
        | [] => (0, none)
      | some .i8 =>
        match bs with
        | _ :: r => (0, some r)
        | [] => (0, none)
      | some .double => match rdN 8 bs with | some (_, r) => (0, some r) | none => (0, none)
      | some .i16 => match rdN 2 bs with | some (_, r) => (0, some r) | none => (0, none)
      | some .i32 => match rdN 4 bs with | some (_, r) => (0, some r) | none => (0, none)
      | some .i64 => match rdN 8 bs with | some (_, r) => (0, some r) | none => (0, none)
      | some .binary =>
        match rdLen bs with
        | some (n, r) =>
          (readBytesAlloc n r.length, if n ≤ r.length then some (r.drop n) else none)
        | none => (0, none)
      | some .struct => decFieldsAlloc f bs
      | some .map =>
        match bs with
        | kt :: vt :: r0 =>
          match rdLen r0 with
          | some (n, r) => decItemsAlloc f kt vt n r
          | none => (0, none)
        | _ => (0, none)
      | some .set =>
        match bs with
        | et :: r0 =>
          match rdLen r0 with
          | some (n, r) => decListAlloc f et n r
          | none => (0, none)
        | [] => (0, none)
      | some .list =>
        match bs with
        | et :: r0 =>
          match rdLen r0 with
          | some (n, r) => decListAlloc f et n r
          | none => (0, none)
        | [] => (0, none)
  def decFieldsAlloc : Nat → Bytes → CostRes
    | 0, _ => (0, none)
    | f + 1, bs =>
      match bs with
      | [] => (0, none)
      | t :: r0 =>
        if t = 0 then (0, some r0) else
        match rdN 2 r0 with
        | none => (0, none)
        | some (_, r1) =>
          match decAlloc f t r1 with
          | (a, none) => (a, none)
          | (a, some r2) =>
            match decFieldsAlloc f r2 with
            | (b, r3) => (a + b, r3)
  def decListAlloc : Nat → UInt8 → Nat → Bytes → CostRes
    | _, _, 0, bs => (0, some bs)
    | 0, _, _ + 1, _ => (0, none)
    | f + 1, et, n + 1, bs =>
      match decAlloc f et bs with
      | (a, none) => (a, none)
      | (a, some r) =>
        match decListAlloc f et n r with
        | (b, r') => (a + b, r')
  def decItemsAlloc : Nat → UInt8 → UInt8 → Nat → Bytes → CostRes
    | _, _, _, 0, bs => (0, some bs)
    | 0, _, _, _ + 1, _ => (0, none)
    | f + 1, kt, vt, n + 1, bs =>
      match decAlloc f kt bs with
      | (a, none) => (a, none)
      | (a, some r) =>
        match decAlloc f vt r with
        | (b, none) => (a + b, none)
        | (b, some r') =>
          match decItemsAlloc f kt vt n r' with
          | (c, r'') => (a + b + c, r'')
end

/-- length-driven allocation of the streaming reader decoding one value (drivers' fuel). -/
def streamAlloc (t : UInt8) (bs : Bytes) : Nat := (decAlloc (fuelFor bs) t bs).1

/-- envelope header: the name is read through `readBytes` in both framings (after the D2 repair). -/
def envelopeAlloc (bs : Bytes) : Nat :=
  match rdN 4 bs with
  | none => 0
  | some (w, r) =>
    if 0 < w ∧ w < 2 ^ 31 then readBytesAlloc w r.length
    else if w / 65536 = 0x8001 then
      match rdLen r with
      | some (n, r1) => readBytesAlloc n r1.length
      | none => 0
    else 0

/-- the pre-repair legacy-name read (`make([]byte, length)` of the declared length): finding D2. -/
def envelopeAllocOld (bs : Bytes) : Nat :=
  match rdN 4 bs with
  | none => 0
  | some (w, _) => if 0 < w ∧ w < 2 ^ 31 then w else 0

def fastPathFrameSize : Nat := 10485760

/-- internal/frame/reader.go with the threshold as a parameter (the harness lowers it through the
verif hook so that short inputs reach the copying path): frames below it are pre-allocated, larger
ones copied. -/
def frameAllocT (thr : Nat) (bs : Bytes) : Nat :=
  match rdN 4 bs with
  | none => 0
  | some (n, r) => if n < thr then n else 4 * (min n r.length) + 1024

/-- internal/frame/reader.go: frames below `_fastPathFrameSize` are pre-allocated, larger ones copied. -/
def frameAlloc (bs : Bytes) : Nat := frameAllocT fastPathFrameSize bs

/-- generated `Decode` helpers pre-size from the header count (`make(T, 0, n)` / `make(map, n)`),
`elemSize` bytes per element, before reading any element: finding D3. -/
def genPreallocList (elemSize : Nat) (bs : Bytes) : Nat :=
  match bs with
  | _ :: r0 =>
    match rdLen r0 with
    | some (n, _) => n * elemSize
    | none => 0
  | [] => 0

end ThriftVerif.Wire
