/-
M-Wire proofs: decode ∘ encode = id (strict decoder), for every well-typed value.
-/
import ThriftVerif.Wire.Value

set_option linter.unusedSimpArgs false

namespace ThriftVerif.Wire

mutual
  def WValue.size : WValue → Nat
    | .struct fs => 1 + sizeFields fs
    | .map _ _ is => 1 + sizeItems is
    | .set _ vs => 1 + sizeList vs
    | .list _ vs => 1 + sizeList vs
    | _ => 1
  def sizeFields : List (UInt16 × WValue) → Nat
    | [] => 1
    | (_, v) :: fs => 1 + v.size + sizeFields fs
  def sizeList : List WValue → Nat
    | [] => 0
    | v :: vs => 1 + v.size + sizeList vs
  def sizeItems : List (WValue × WValue) → Nat
    | [] => 0
    | (k, v) :: is => 1 + k.size + v.size + sizeItems is
end

theorem rdN_append (k : Nat) (a rest : Bytes) (h : a.length = k) :
    rdN k (a ++ rest) = some (deN a, rest) := by
  unfold rdN
  have : k ≤ (a ++ rest).length := by simp [h]
  simp [this, ← h]

theorem rdN_beN (k n : Nat) (rest : Bytes) : rdN k (beN k n ++ rest) = some (n % 256 ^ k, rest) := by
  rw [rdN_append k _ _ (beN_length k n), deN_beN]

theorem rdLen_beN (n : Nat) (rest : Bytes) (h : n < 2 ^ 31) :
    rdLen (beN 4 n ++ rest) = some (n, rest) := by
  unfold rdLen
  rw [rdN_beN]
  have : n % 256 ^ 4 = n := Nat.mod_eq_of_lt (by omega)
  simp [this, h]

theorem u16_rt (v : UInt16) : UInt16.ofNat (v.toNat % 256 ^ 2) = v := by
  have : v.toNat % 256 ^ 2 = v.toNat := Nat.mod_eq_of_lt (by have := v.toNat_lt; omega)
  rw [this]; exact UInt16.ofNat_toNat
theorem u32_rt (v : UInt32) : UInt32.ofNat (v.toNat % 256 ^ 4) = v := by
  have : v.toNat % 256 ^ 4 = v.toNat := Nat.mod_eq_of_lt (by have := v.toNat_lt; omega)
  rw [this]; exact UInt32.ofNat_toNat
theorem u64_rt (v : UInt64) : UInt64.ofNat (v.toNat % 256 ^ 8) = v := by
  have : v.toNat % 256 ^ 8 = v.toNat := Nat.mod_eq_of_lt (by have := v.toNat_lt; omega)
  rw [this]; exact UInt64.ofNat_toNat

mutual
  theorem dec_enc (v : WValue) (rest : Bytes) (f : Nat) (hwt : v.wt = true) (hf : v.size ≤ f) :
      dec f v.tcode (enc v ++ rest) = .ok (v, rest) := by
    cases f with
    | zero => cases v <;> simp [WValue.size] at hf
    | succ f =>
      cases v with
      | bool b => cases b <;> simp [dec, enc, WValue.ttype, TType.ofByte_code]
      | i8 x => simp [dec, enc, WValue.ttype, TType.ofByte_code]
      | double x => simp [dec, enc, WValue.ttype, TType.ofByte_code, rdN_beN, u64_rt]
      | i16 x => simp [dec, enc, WValue.ttype, TType.ofByte_code, rdN_beN, u16_rt]
      | i32 x => simp [dec, enc, WValue.ttype, TType.ofByte_code, rdN_beN, u32_rt]
      | i64 x => simp [dec, enc, WValue.ttype, TType.ofByte_code, rdN_beN, u64_rt]
      | binary bs =>
        simp only [WValue.wt, decide_eq_true_eq] at hwt
        simp [dec, enc, WValue.ttype, TType.ofByte_code, List.append_assoc, rdLen_beN _ _ hwt]
      | struct fs =>
        simp only [WValue.wt] at hwt
        simp only [WValue.size] at hf
        have := decFields_enc fs rest f hwt (by omega)
        simp [dec, enc, WValue.ttype, TType.ofByte_code, this]
      | map kt vt is =>
        simp only [WValue.wt, Bool.and_eq_true, decide_eq_true_eq] at hwt
        simp only [WValue.size] at hf
        have := decItems_enc kt vt is rest f hwt.2 (by omega)
        simp [dec, enc, WValue.ttype, TType.ofByte_code, List.append_assoc, rdLen_beN _ _ hwt.1, this]
      | set et vs =>
        simp only [WValue.wt, Bool.and_eq_true, decide_eq_true_eq] at hwt
        simp only [WValue.size] at hf
        have := decList_enc et vs rest f hwt.2 (by omega)
        simp [dec, enc, WValue.ttype, TType.ofByte_code, List.append_assoc, rdLen_beN _ _ hwt.1, this]
      | list et vs =>
        simp only [WValue.wt, Bool.and_eq_true, decide_eq_true_eq] at hwt
        simp only [WValue.size] at hf
        have := decList_enc et vs rest f hwt.2 (by omega)
        simp [dec, enc, WValue.ttype, TType.ofByte_code, List.append_assoc, rdLen_beN _ _ hwt.1, this]
  theorem decFields_enc (fs : List (UInt16 × WValue)) (rest : Bytes) (f : Nat)
      (hwt : wtFields fs = true) (hf : sizeFields fs ≤ f) :
      decFields f (encFields fs ++ rest) = .ok (fs, rest) := by
    cases f with
    | zero => cases fs <;> simp [sizeFields] at hf
    | succ f =>
      match fs with
      | [] => simp [decFields, encFields]
      | (id, v) :: fs =>
        simp only [wtFields, Bool.and_eq_true] at hwt
        simp only [sizeFields] at hf
        have h1 := dec_enc v (encFields fs ++ rest) f hwt.1 (by omega)
        have h2 := decFields_enc fs rest f hwt.2 (by omega)
        simp [decFields, encFields, List.append_assoc, TType.code_ne_zero, rdN_beN, h1, h2, u16_rt]
  theorem decList_enc (et : UInt8) (vs : List WValue) (rest : Bytes) (f : Nat)
      (hwt : wtList et vs = true) (hf : sizeList vs ≤ f) :
      decList f et vs.length (encList vs ++ rest) = .ok (vs, rest) := by
    match vs with
    | [] => cases f <;> simp [decList, encList]
    | v :: vs =>
      cases f with
      | zero => simp [sizeList] at hf
      | succ f =>
        simp only [wtList, Bool.and_eq_true, beq_iff_eq] at hwt
        simp only [sizeList] at hf
        have h1 := dec_enc v (encList vs ++ rest) f hwt.1.2 (by omega)
        have h2 := decList_enc et vs rest f hwt.2 (by omega)
        rw [hwt.1.1] at h1
        simp [decList, encList, List.append_assoc, h1, h2]
  theorem decItems_enc (kt vt : UInt8) (is : List (WValue × WValue)) (rest : Bytes) (f : Nat)
      (hwt : wtItems kt vt is = true) (hf : sizeItems is ≤ f) :
      decItems f kt vt is.length (encItems is ++ rest) = .ok (is, rest) := by
    match is with
    | [] => cases f <;> simp [decItems, encItems]
    | (k, v) :: is =>
      cases f with
      | zero => simp [sizeItems] at hf
      | succ f =>
        simp only [wtItems, Bool.and_eq_true, beq_iff_eq] at hwt
        simp only [sizeItems] at hf
        have h1 := dec_enc k (enc v ++ (encItems is ++ rest)) f hwt.1.1.1.2 (by omega)
        have h2 := dec_enc v (encItems is ++ rest) f hwt.1.2 (by omega)
        have h3 := decItems_enc kt vt is rest f hwt.2 (by omega)
        rw [hwt.1.1.1.1] at h1
        rw [hwt.1.1.2] at h2
        simp [decItems, encItems, List.append_assoc, h1, h2, h3]
end

end ThriftVerif.Wire
