/-
M-Wire proofs: the random-access decoder followed by forcing (`decF`: validate
containers by skipping with unchecked seeks, re-read on demand) yields exactly
the strict decoder's successes: same value, same consumed length.
-/
import ThriftVerif.Wire.SkipProofs
import ThriftVerif.Wire.Totality

set_option linter.unusedSimpArgs false

namespace ThriftVerif.Wire

theorem stByte_zero (bs : Bytes) :
    stByte (bs, 0) = match bs with | b :: r => some (b, (r, 0)) | [] => none := by
  cases bs <;> rfl

theorem stRdN_zero (k : Nat) (bs : Bytes) :
    stRdN k (bs, 0) = match rdN k bs with | some (n, r) => some (n, (r, 0)) | none => none := rfl

theorem stRdLen_zero (bs : Bytes) :
    stRdLen (bs, 0) = match rdLen bs with | some (n, r) => some (n, (r, 0)) | none => none := rfl

/-- skipping the items of a successfully decoded list lands where decoding did. -/
theorem skipListItems_of_decList {f : Nat} {et : UInt8} {n : Nat} {r : Bytes} {vs : List WValue}
    {r' : Bytes} (h : decList f et n r = .ok (vs, r')) :
    skipListItems true (fuelFor r) et n (r, 0) = .ok (r', 0) := by
  obtain ⟨h1, h2, h3⟩ := (canonAt f).2.2.1 et n r vs r' h
  subst h1 h3
  apply skipListItems_of_skipN _ _ _ _ _ h2
  apply skipN_enc _ _ _ _ _ h2
  have := sizeList_bound vs
  simp [fuelFor]; omega

theorem skipMapItems_of_decItems {f : Nat} {kt vt : UInt8} {n : Nat} {r : Bytes}
    {is : List (WValue × WValue)} {r' : Bytes} (h : decItems f kt vt n r = .ok (is, r')) :
    skipMapItems true (fuelFor r) kt vt n (r, 0) = .ok (r', 0) := by
  obtain ⟨h1, h2, h3⟩ := (canonAt f).2.2.2 kt vt n r is r' h
  subst h1 h3
  apply skipMapItems_of_skipKV _ _ _ _ _ _ h2
  apply skipKV_enc _ _ _ _ _ _ h2
  have := sizeItems_bound is
  simp [fuelFor]; omega

/-! ### strict success ⇒ lazy+force success -/

def StrictToLazyAt (f : Nat) : Prop :=
  (∀ t bs v rest, dec f t bs = .ok (v, rest) → decF f t (bs, 0) = .ok (v, (rest, 0))) ∧
  (∀ bs fs rest, decFields f bs = .ok (fs, rest) → decFieldsF f (bs, 0) = .ok (fs, (rest, 0))) ∧
  (∀ et n bs vs rest, decList f et n bs = .ok (vs, rest) →
      decListF f et n (bs, 0) = .ok (vs, (rest, 0))) ∧
  (∀ kt vt n bs is rest, decItems f kt vt n bs = .ok (is, rest) →
      decItemsF f kt vt n (bs, 0) = .ok (is, (rest, 0)))

theorem strictToLazyAt (f : Nat) : StrictToLazyAt f := by
  induction f with
  | zero =>
    refine ⟨?_, ?_, ?_, ?_⟩
    · intro t bs v rest h; simp [dec] at h
    · intro bs fs rest h; simp [decFields] at h
    · intro et n bs vs rest h
      cases n with
      | zero => obtain ⟨rfl, rfl⟩ := decList_zero_n h; simp [decListF]
      | succ n => simp [decList] at h
    · intro kt vt n bs is rest h
      cases n with
      | zero => obtain ⟨rfl, rfl⟩ := decItems_zero_n h; simp [decItemsF]
      | succ n => simp [decItems] at h
  | succ f ih =>
    obtain ⟨ihV, ihF, ihL, ihI⟩ := ih
    refine ⟨?_, ?_, ?_, ?_⟩
    · intro t bs v rest h
      unfold dec at h
      unfold decF
      split at h
      · cases h
      · rename_i ht; simp only [ht]
        split at h
        · rename_i b r
          split at h
          · rename_i hb; cases h; simp [stByte_zero, hb]
          · split at h
            · rename_i hb0 hb; cases h; simp [stByte_zero, hb]
            · cases h
        · cases h
      · rename_i ht; simp only [ht]
        split at h
        · cases h; simp [stByte_zero]
        · cases h
      · rename_i ht; simp only [ht]
        split at h
        · rename_i n r hr; cases h; simp [stRdN_zero, hr]
        · cases h
      · rename_i ht; simp only [ht]
        split at h
        · rename_i n r hr; cases h; simp [stRdN_zero, hr]
        · cases h
      · rename_i ht; simp only [ht]
        split at h
        · rename_i n r hr; cases h; simp [stRdN_zero, hr]
        · cases h
      · rename_i ht; simp only [ht]
        split at h
        · rename_i n r hr; cases h; simp [stRdN_zero, hr]
        · cases h
      · rename_i ht; simp only [ht]
        split at h
        · rename_i n r hr
          split at h
          · rename_i hn; cases h; simp [stRdLen_zero, hr, hn]
          · cases h
        · cases h
      · rename_i ht; simp only [ht]
        split at h
        · rename_i fs r hfs; cases h
          simp [ihF _ _ _ hfs]
        · cases h
      · rename_i ht; simp only [ht]
        split at h
        · rename_i kt vt r0
          split at h
          · rename_i n r hr
            split at h
            · rename_i is r' his; cases h
              simp [stByte_zero, stRdLen_zero, hr, skipMapItems_of_decItems his, ihI _ _ _ _ _ _ his]
            · cases h
          · cases h
        · cases h
      · rename_i ht; simp only [ht]
        split at h
        · rename_i et r0
          split at h
          · rename_i n r hr
            split at h
            · rename_i vs r' hvs; cases h
              simp [stByte_zero, stRdLen_zero, hr, skipListItems_of_decList hvs, ihL _ _ _ _ _ hvs]
            · cases h
          · cases h
        · cases h
      · rename_i ht; simp only [ht]
        split at h
        · rename_i et r0
          split at h
          · rename_i n r hr
            split at h
            · rename_i vs r' hvs; cases h
              simp [stByte_zero, stRdLen_zero, hr, skipListItems_of_decList hvs, ihL _ _ _ _ _ hvs]
            · cases h
          · cases h
        · cases h
    · intro bs fs rest h
      unfold decFields at h
      unfold decFieldsF
      split at h
      · cases h
      · rename_i t r0
        split at h
        · rename_i ht; cases h; simp [stByte_zero, ht]
        · rename_i ht
          split at h
          · cases h
          · rename_i id r1 hid
            split at h
            · cases h
            · rename_i v r2 hv
              split at h
              · cases h
              · rename_i fs' r3 hfs; cases h
                simp [stByte_zero, ht, stRdN_zero, hid, ihV _ _ _ _ hv, ihF _ _ _ hfs]
    · intro et n bs vs rest h
      cases n with
      | zero => obtain ⟨rfl, rfl⟩ := decList_zero_n h; simp [decListF]
      | succ n =>
        simp only [decList] at h
        split at h
        · cases h
        · rename_i v r hv
          split at h
          · cases h
          · rename_i vs' r' hvs; cases h
            simp [decListF, ihV _ _ _ _ hv, ihL _ _ _ _ _ hvs]
    · intro kt vt n bs is rest h
      cases n with
      | zero => obtain ⟨rfl, rfl⟩ := decItems_zero_n h; simp [decItemsF]
      | succ n =>
        simp only [decItems] at h
        split at h
        · cases h
        · rename_i k r hk
          split at h
          · cases h
          · rename_i v r' hv
            split at h
            · cases h
            · rename_i is' r'' his; cases h
              simp [decItemsF, ihV _ _ _ _ hk, ihV _ _ _ _ hv, ihI _ _ _ _ _ _ his]

/-! ### lazy+force success ⇒ strict success -/

def LazyToStrictAt (f : Nat) : Prop :=
  (∀ t bs v s', decF f t (bs, 0) = .ok (v, s') → dec f t bs = .ok (v, s'.1) ∧ s'.2 = 0) ∧
  (∀ bs fs s', decFieldsF f (bs, 0) = .ok (fs, s') → decFields f bs = .ok (fs, s'.1) ∧ s'.2 = 0) ∧
  (∀ et n bs vs s', decListF f et n (bs, 0) = .ok (vs, s') →
      decList f et n bs = .ok (vs, s'.1) ∧ s'.2 = 0) ∧
  (∀ kt vt n bs is s', decItemsF f kt vt n (bs, 0) = .ok (is, s') →
      decItems f kt vt n bs = .ok (is, s'.1) ∧ s'.2 = 0)

theorem lazyToStrictAt (f : Nat) : LazyToStrictAt f := by
  induction f with
  | zero =>
    refine ⟨?_, ?_, ?_, ?_⟩
    · intro t bs v s' h; simp [decF] at h
    · intro bs fs s' h; simp [decFieldsF] at h
    · intro et n bs vs s' h
      cases n with
      | zero => simp [decListF] at h; obtain ⟨rfl, rfl⟩ := h; simp [decList]
      | succ n => simp [decListF] at h
    · intro kt vt n bs is s' h
      cases n with
      | zero => simp [decItemsF] at h; obtain ⟨rfl, rfl⟩ := h; simp [decItems]
      | succ n => simp [decItemsF] at h
  | succ f ih =>
    obtain ⟨ihV, ihF, ihL, ihI⟩ := ih
    refine ⟨?_, ?_, ?_, ?_⟩
    · intro t bs v s' h
      unfold decF at h
      unfold dec
      split at h
      · cases h
      · rename_i ht; simp only [ht]
        cases bs with
        | nil => simp [stByte] at h
        | cons b r =>
          simp only [stByte] at h
          split at h
          · rename_i hb; cases h; simp [hb]
          · split at h
            · rename_i hb0 hb; cases h; simp [hb]
            · cases h
      · rename_i ht; simp only [ht]
        cases bs with
        | nil => simp [stByte] at h
        | cons b r => simp only [stByte] at h; cases h; simp
      · rename_i ht; simp only [ht]
        cases hr : rdN 8 bs with
        | none => simp [stRdN, hr] at h
        | some p => obtain ⟨n, r⟩ := p; simp [stRdN, hr] at h; obtain ⟨rfl, rfl⟩ := h; simp
      · rename_i ht; simp only [ht]
        cases hr : rdN 2 bs with
        | none => simp [stRdN, hr] at h
        | some p => obtain ⟨n, r⟩ := p; simp [stRdN, hr] at h; obtain ⟨rfl, rfl⟩ := h; simp
      · rename_i ht; simp only [ht]
        cases hr : rdN 4 bs with
        | none => simp [stRdN, hr] at h
        | some p => obtain ⟨n, r⟩ := p; simp [stRdN, hr] at h; obtain ⟨rfl, rfl⟩ := h; simp
      · rename_i ht; simp only [ht]
        cases hr : rdN 8 bs with
        | none => simp [stRdN, hr] at h
        | some p => obtain ⟨n, r⟩ := p; simp [stRdN, hr] at h; obtain ⟨rfl, rfl⟩ := h; simp
      · rename_i ht; simp only [ht]
        cases hr : rdLen bs with
        | none => simp [stRdLen, hr] at h
        | some p =>
          obtain ⟨n, r⟩ := p
          simp only [stRdLen, hr] at h
          split at h
          · rename_i hn; cases h; (try simp at hn); simp [hn]
          · cases h
      · rename_i ht; simp only [ht]
        split at h
        · rename_i fs r hfs; cases h
          obtain ⟨g1, g2⟩ := ihF _ _ _ hfs
          simp [g1, g2]
        · cases h
      · -- map
        rename_i ht; simp only [ht]
        cases bs with
        | nil => simp [stByte] at h
        | cons kt r00 =>
          cases r00 with
          | nil => simp [stByte] at h
          | cons vt r0 =>
            simp only [stByte] at h
            cases hr : rdLen r0 with
            | none => simp [stRdLen, hr] at h
            | some p =>
              obtain ⟨n, r⟩ := p
              simp only [stRdLen, hr] at h
              split at h
              · cases h
              · rename_i sEnd hsk
                split at h
                · rename_i is s'' his; cases h
                  obtain ⟨g1, g2⟩ := ihI _ _ _ _ _ _ his
                  have := skipMapItems_of_decItems g1
                  (try simp only [] at hsk)
                  rw [this] at hsk
                  cases hsk
                  simp [hr, g1]
                · cases h
      · -- set
        rename_i ht; simp only [ht]
        cases bs with
        | nil => simp [stByte] at h
        | cons et r0 =>
          simp only [stByte] at h
          cases hr : rdLen r0 with
          | none => simp [stRdLen, hr] at h
          | some p =>
            obtain ⟨n, r⟩ := p
            simp only [stRdLen, hr] at h
            split at h
            · cases h
            · rename_i sEnd hsk
              split at h
              · rename_i vs s'' hvs; cases h
                obtain ⟨g1, g2⟩ := ihL _ _ _ _ _ hvs
                have := skipListItems_of_decList g1
                (try simp only [] at hsk)
                rw [this] at hsk
                cases hsk
                simp [hr, g1]
              · cases h
      · -- list
        rename_i ht; simp only [ht]
        cases bs with
        | nil => simp [stByte] at h
        | cons et r0 =>
          simp only [stByte] at h
          cases hr : rdLen r0 with
          | none => simp [stRdLen, hr] at h
          | some p =>
            obtain ⟨n, r⟩ := p
            simp only [stRdLen, hr] at h
            split at h
            · cases h
            · rename_i sEnd hsk
              split at h
              · rename_i vs s'' hvs; cases h
                obtain ⟨g1, g2⟩ := ihL _ _ _ _ _ hvs
                have := skipListItems_of_decList g1
                (try simp only [] at hsk)
                rw [this] at hsk
                cases hsk
                simp [hr, g1]
              · cases h
    · intro bs fs s' h
      unfold decFieldsF at h
      unfold decFields
      cases bs with
      | nil => simp [stByte] at h
      | cons t r0 =>
        simp only [stByte] at h
        split at h
        · rename_i ht; cases h; simp [ht]
        · rename_i ht
          cases hid : rdN 2 r0 with
          | none => simp [stRdN, hid] at h
          | some p =>
            obtain ⟨id, r1⟩ := p
            simp only [stRdN, hid] at h
            split at h
            · cases h
            · rename_i v s2 hv
              obtain ⟨a1, a2⟩ := ihV _ _ _ _ hv
              obtain ⟨r2, o2⟩ := s2
              simp only at a2; subst a2
              split at h
              · cases h
              · rename_i fs' s3 hfs; cases h
                obtain ⟨b1, b2⟩ := ihF _ _ _ hfs
                simp at a1
                simp [ht, hid, a1, b1, b2]
    · intro et n bs vs s' h
      cases n with
      | zero => simp [decListF] at h; obtain ⟨rfl, rfl⟩ := h; simp [decList]
      | succ n =>
        simp only [decListF] at h
        split at h
        · cases h
        · rename_i v s1 hv
          obtain ⟨a1, a2⟩ := ihV _ _ _ _ hv
          obtain ⟨r1, o1⟩ := s1
          simp only at a2; subst a2
          split at h
          · cases h
          · rename_i vs' s2 hvs; cases h
            obtain ⟨b1, b2⟩ := ihL _ _ _ _ _ hvs
            simp at a1
            simp [decList, a1, b1, b2]
    · intro kt vt n bs is s' h
      cases n with
      | zero => simp [decItemsF] at h; obtain ⟨rfl, rfl⟩ := h; simp [decItems]
      | succ n =>
        simp only [decItemsF] at h
        split at h
        · cases h
        · rename_i k s1 hk
          obtain ⟨a1, a2⟩ := ihV _ _ _ _ hk
          obtain ⟨r1, o1⟩ := s1
          simp only at a2; subst a2
          split at h
          · cases h
          · rename_i v s2 hv
            obtain ⟨c1, c2⟩ := ihV _ _ _ _ hv
            obtain ⟨r2, o2⟩ := s2
            simp only at c2; subst c2
            split at h
            · cases h
            · rename_i is' s3 his; cases h
              obtain ⟨b1, b2⟩ := ihI _ _ _ _ _ _ his
              simp at a1 c1
              simp [decItems, a1, c1, b1, b2]

/-- C02/C03: the random-access decoder with everything forced succeeds exactly when the
strict decoder does, with the same value and the same consumed length. -/
theorem decF_ok_iff_dec (f : Nat) (t : UInt8) (bs : Bytes) (v : WValue) (rest : Bytes) :
    decF f t (bs, 0) = .ok (v, (rest, 0)) ↔ dec f t bs = .ok (v, rest) :=
  ⟨fun h => by simpa using ((lazyToStrictAt f).1 t bs v (rest, 0) h).1,
   fun h => (strictToLazyAt f).1 t bs v rest h⟩

/-- a successful forced random-access decode never ends beyond the input. -/
theorem decF_ok_in_bounds {f : Nat} {t : UInt8} {bs : Bytes} {v : WValue} {s' : St}
    (h : decF f t (bs, 0) = .ok (v, s')) : s'.2 = 0 :=
  ((lazyToStrictAt f).1 t bs v s' h).2

end ThriftVerif.Wire
