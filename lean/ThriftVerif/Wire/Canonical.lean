/-
M-Wire proofs: the strict decoder is canonical — whenever it succeeds, re-encoding
the value reproduces exactly the consumed prefix, the value has the requested type
and is well-typed. Also: fuel `fuelFor bs` is always enough (totality).
-/
import ThriftVerif.Wire.RoundTrip

set_option linter.unusedSimpArgs false

namespace ThriftVerif.Wire

theorem rdN_some {k : Nat} {bs r : Bytes} {n : Nat} (h : rdN k bs = some (n, r)) :
    beN k n ++ r = bs ∧ n < 256 ^ k ∧ r.length + k = bs.length := by
  unfold rdN at h
  split at h
  · rename_i hk
    cases h
    have hl : (bs.take k).length = k := by simp [hk]
    refine ⟨?_, ?_, ?_⟩
    · have := beN_deN (bs.take k)
      rw [hl] at this
      rw [this, List.take_append_drop]
    · have := deN_lt (bs.take k); rwa [hl] at this
    · simp; omega
  · cases h

theorem rdLen_some {bs r : Bytes} {n : Nat} (h : rdLen bs = some (n, r)) :
    beN 4 n ++ r = bs ∧ n < 2 ^ 31 ∧ r.length + 4 = bs.length := by
  unfold rdLen at h
  split at h
  · rename_i n' r' h'
    split at h
    · cases h
      have := rdN_some h'
      exact ⟨this.1, by assumption, this.2.2⟩
    · cases h
  · cases h

theorem u16_toNat_ofNat {n : Nat} (h : n < 256 ^ 2) : (UInt16.ofNat n).toNat = n := by
  rw [UInt16.toNat_ofNat']; exact Nat.mod_eq_of_lt (by omega)
theorem u32_toNat_ofNat {n : Nat} (h : n < 256 ^ 4) : (UInt32.ofNat n).toNat = n := by
  rw [UInt32.toNat_ofNat']; exact Nat.mod_eq_of_lt (by omega)
theorem u64_toNat_ofNat {n : Nat} (h : n < 256 ^ 8) : (UInt64.ofNat n).toNat = n := by
  rw [UInt64.toNat_ofNat']; exact Nat.mod_eq_of_lt (by omega)

/-- the four statements proved together by induction on fuel. -/
def CanonAt (f : Nat) : Prop :=
  (∀ t bs v rest, dec f t bs = .ok (v, rest) →
      enc v ++ rest = bs ∧ v.tcode = t ∧ v.wt = true) ∧
  (∀ bs fs rest, decFields f bs = .ok (fs, rest) →
      encFields fs ++ rest = bs ∧ wtFields fs = true) ∧
  (∀ et n bs vs rest, decList f et n bs = .ok (vs, rest) →
      encList vs ++ rest = bs ∧ wtList et vs = true ∧ vs.length = n) ∧
  (∀ kt vt n bs is rest, decItems f kt vt n bs = .ok (is, rest) →
      encItems is ++ rest = bs ∧ wtItems kt vt is = true ∧ is.length = n)

theorem decList_zero_n {f : Nat} {et : UInt8} {bs : Bytes} {vs rest}
    (h : decList f et 0 bs = .ok (vs, rest)) : vs = [] ∧ rest = bs := by
  cases f <;> simp [decList] at h <;> exact ⟨h.1, h.2.symm⟩

theorem decItems_zero_n {f : Nat} {kt vt : UInt8} {bs : Bytes} {is rest}
    (h : decItems f kt vt 0 bs = .ok (is, rest)) : is = [] ∧ rest = bs := by
  cases f <;> simp [decItems] at h <;> exact ⟨h.1, h.2.symm⟩

theorem canonAt (f : Nat) : CanonAt f := by
  induction f with
  | zero =>
    refine ⟨?_, ?_, ?_, ?_⟩
    · intro t bs v rest h; simp [dec] at h
    · intro bs fs rest h; simp [decFields] at h
    · intro et n bs vs rest h
      cases n with
      | zero => obtain ⟨rfl, rfl⟩ := decList_zero_n h; simp [encList, wtList]
      | succ n => simp [decList] at h
    · intro kt vt n bs is rest h
      cases n with
      | zero => obtain ⟨rfl, rfl⟩ := decItems_zero_n h; simp [encItems, wtItems]
      | succ n => simp [decItems] at h
  | succ f ih =>
    obtain ⟨ihV, ihF, ihL, ihI⟩ := ih
    refine ⟨?_, ?_, ?_, ?_⟩
    · intro t bs v rest h
      unfold dec at h
      split at h
      · cases h
      · -- bool
        rename_i ht; have hc := TType.code_of_ofByte ht
        split at h
        · rename_i b r
          split at h
          · rename_i hb; cases h; subst hb; simp [enc, WValue.tcode, WValue.ttype, WValue.wt, hc]
          · split at h
            · rename_i hb; cases h; subst hb; simp [enc, WValue.tcode, WValue.ttype, WValue.wt, hc]
            · cases h
        · cases h
      · -- i8
        rename_i ht; have hc := TType.code_of_ofByte ht
        split at h
        · cases h; simp [enc, WValue.tcode, WValue.ttype, WValue.wt, hc]
        · cases h
      · -- double
        rename_i ht; have hc := TType.code_of_ofByte ht
        split at h
        · rename_i n r hr; cases h
          obtain ⟨h1, h2, _⟩ := rdN_some hr
          simp [enc, WValue.tcode, WValue.ttype, WValue.wt, hc, u64_toNat_ofNat h2, h1]
        · cases h
      · -- i16
        rename_i ht; have hc := TType.code_of_ofByte ht
        split at h
        · rename_i n r hr; cases h
          obtain ⟨h1, h2, _⟩ := rdN_some hr
          simp [enc, WValue.tcode, WValue.ttype, WValue.wt, hc, u16_toNat_ofNat h2, h1]
        · cases h
      · -- i32
        rename_i ht; have hc := TType.code_of_ofByte ht
        split at h
        · rename_i n r hr; cases h
          obtain ⟨h1, h2, _⟩ := rdN_some hr
          simp [enc, WValue.tcode, WValue.ttype, WValue.wt, hc, u32_toNat_ofNat h2, h1]
        · cases h
      · -- i64
        rename_i ht; have hc := TType.code_of_ofByte ht
        split at h
        · rename_i n r hr; cases h
          obtain ⟨h1, h2, _⟩ := rdN_some hr
          simp [enc, WValue.tcode, WValue.ttype, WValue.wt, hc, u64_toNat_ofNat h2, h1]
        · cases h
      · -- binary
        rename_i ht; have hc := TType.code_of_ofByte ht
        split at h
        · rename_i n r hr
          obtain ⟨h1, h2, _⟩ := rdLen_some hr
          split at h
          · rename_i hn; cases h
            have hl : (List.take n r).length = n := by simp [hn]
            simp only [enc, WValue.tcode, WValue.ttype, WValue.wt, hc, hl, List.append_assoc,
              List.take_append_drop, h1, decide_eq_true_eq, and_self, true_and]
            exact h2
          · cases h
        · cases h
      · -- struct
        rename_i ht; have hc := TType.code_of_ofByte ht
        split at h
        · rename_i fs r hfs; cases h
          obtain ⟨h1, h2⟩ := ihF _ _ _ hfs
          simp [enc, WValue.tcode, WValue.ttype, WValue.wt, hc, h1, h2]
        · cases h
      · -- map
        rename_i ht; have hc := TType.code_of_ofByte ht
        split at h
        · rename_i kt vt r0
          split at h
          · rename_i n r hr
            obtain ⟨h1, h2, _⟩ := rdLen_some hr
            split at h
            · rename_i is r' his; cases h
              obtain ⟨g1, g2, g3⟩ := ihI _ _ _ _ _ _ his
              simp [enc, WValue.tcode, WValue.ttype, WValue.wt, hc, g1, g2, g3, h1, h2, List.append_assoc]
            · cases h
          · cases h
        · cases h
      · -- set
        rename_i ht; have hc := TType.code_of_ofByte ht
        split at h
        · rename_i et r0
          split at h
          · rename_i n r hr
            obtain ⟨h1, h2, _⟩ := rdLen_some hr
            split at h
            · rename_i vs r' hvs; cases h
              obtain ⟨g1, g2, g3⟩ := ihL _ _ _ _ _ hvs
              simp [enc, WValue.tcode, WValue.ttype, WValue.wt, hc, g1, g2, g3, h1, h2, List.append_assoc]
            · cases h
          · cases h
        · cases h
      · -- list
        rename_i ht; have hc := TType.code_of_ofByte ht
        split at h
        · rename_i et r0
          split at h
          · rename_i n r hr
            obtain ⟨h1, h2, _⟩ := rdLen_some hr
            split at h
            · rename_i vs r' hvs; cases h
              obtain ⟨g1, g2, g3⟩ := ihL _ _ _ _ _ hvs
              simp [enc, WValue.tcode, WValue.ttype, WValue.wt, hc, g1, g2, g3, h1, h2, List.append_assoc]
            · cases h
          · cases h
        · cases h
    · intro bs fs rest h
      unfold decFields at h
      split at h
      · cases h
      · rename_i t r0
        split at h
        · rename_i ht; cases h; subst ht; simp [encFields, wtFields]
        · split at h
          · cases h
          · rename_i id r1 hid
            obtain ⟨h1, h2, _⟩ := rdN_some hid
            split at h
            · cases h
            · rename_i v r2 hv
              obtain ⟨a1, a2, a3⟩ := ihV _ _ _ _ hv
              split at h
              · cases h
              · rename_i fs' r3 hfs; cases h
                obtain ⟨b1, b2⟩ := ihF _ _ _ hfs
                simp [encFields, wtFields, a2, a3, b2, u16_toNat_ofNat h2, List.append_assoc,
                  b1, a1, h1]
    · intro et n bs vs rest h
      cases n with
      | zero => obtain ⟨rfl, rfl⟩ := decList_zero_n h; simp [encList, wtList]
      | succ n =>
        simp only [decList] at h
        split at h
        · cases h
        · rename_i v r hv
          obtain ⟨a1, a2, a3⟩ := ihV _ _ _ _ hv
          split at h
          · cases h
          · rename_i vs' r' hvs; cases h
            obtain ⟨b1, b2, b3⟩ := ihL _ _ _ _ _ hvs
            simp [encList, wtList, a2, a3, b2, b3, List.append_assoc, b1, a1]
    · intro kt vt n bs is rest h
      cases n with
      | zero => obtain ⟨rfl, rfl⟩ := decItems_zero_n h; simp [encItems, wtItems]
      | succ n =>
        simp only [decItems] at h
        split at h
        · cases h
        · rename_i k r hk
          obtain ⟨a1, a2, a3⟩ := ihV _ _ _ _ hk
          split at h
          · cases h
          · rename_i v r' hv
            obtain ⟨c1, c2, c3⟩ := ihV _ _ _ _ hv
            split at h
            · cases h
            · rename_i is' r'' his; cases h
              obtain ⟨b1, b2, b3⟩ := ihI _ _ _ _ _ _ his
              simp [encItems, wtItems, a2, a3, c2, c3, b2, b3, List.append_assoc, b1, c1, a1]

/-- C03 canonical form: success ⇒ re-encoding reproduces the consumed prefix. -/
theorem dec_canonical {f : Nat} {t : UInt8} {bs : Bytes} {v : WValue} {rest : Bytes}
    (h : dec f t bs = .ok (v, rest)) : enc v ++ rest = bs ∧ v.tcode = t ∧ v.wt = true :=
  (canonAt f).1 t bs v rest h

end ThriftVerif.Wire
