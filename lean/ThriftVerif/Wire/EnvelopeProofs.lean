/-
M-Wire proofs about envelopes and request classification (C12).
-/
import ThriftVerif.Wire.Envelope
import ThriftVerif.Wire.LazyProofs

set_option linter.unusedSimpArgs false

namespace ThriftVerif.Wire

/-- what a well-formed envelope is: a struct body that the writer accepts, a
name short enough for its 4-byte length, a non-negative message type. -/
structure EnvOK (e : Envelope) : Prop where
  body_struct : e.value.ttype = .struct
  body_wt : e.value.wt = true
  name_len : e.name.length < 2 ^ 31
  type_nonneg : e.etype.toNat < 128

theorem take_append_len {α} (a b : List α) : (a ++ b).take a.length = a := by simp
theorem drop_append_len {α} (a b : List α) : (a ++ b).drop a.length = b := by simp

theorem u8_ofNat_version (t : UInt8) (h : t.toNat < 128) : UInt8.ofNat (versionWord t) = t := by
  apply UInt8.toNat_inj.mp
  simp only [versionWord, h, if_true, UInt8.toNat_ofNat']
  have := t.toNat_lt
  omega

theorem decF_struct_enc (v : WValue) (hs : v.ttype = .struct) (hwt : v.wt = true) :
    decF (fuelFor (enc v)) TType.struct.code (enc v, 0) = .ok (v, ([], 0)) := by
  have h := dec_enc v [] (fuelFor (enc v)) hwt (by have := size_le_fuelFor v []; simpa using this)
  have hc : v.tcode = TType.struct.code := by simp [WValue.tcode, hs]
  rw [hc] at h
  simp only [List.append_nil] at h
  exact (strictToLazyAt _).1 _ _ _ _ h

theorem dec_struct_enc (v : WValue) (hs : v.ttype = .struct) (hwt : v.wt = true) :
    dec (fuelFor (enc v)) TType.struct.code (enc v) = .ok (v, []) := by
  have h := dec_enc v [] (fuelFor (enc v)) hwt (by have := size_le_fuelFor v []; simpa using this)
  have hc : v.tcode = TType.struct.code := by simp [WValue.tcode, hs]
  rw [hc] at h
  simpa using h

theorem decEnvHeader_strict (e : Envelope) (h : EnvOK e) :
    decEnvHeader (encEnvStrict e) = some (e.name, e.etype, e.seqid, enc e.value) := by
  have ht := h.type_nonneg
  have hw : versionWord e.etype % 256 ^ 4 = versionWord e.etype := by
    apply Nat.mod_eq_of_lt; simp only [versionWord, ht, if_true]; omega
  have hnot : ¬ (0 < versionWord e.etype ∧ versionWord e.etype < 2 ^ 31) := by
    simp only [versionWord, ht, if_true]; omega
  have hver : versionWord e.etype / 65536 = 0x8001 := by
    simp only [versionWord, ht, if_true]; omega
  unfold decEnvHeader encEnvStrict
  rw [rdN_beN, hw]
  simp only [hnot, if_false, hver, if_true]
  rw [rdLen_beN _ _ h.name_len]
  have hle : e.name.length ≤ (e.name ++ (beN 4 e.seqid.toNat ++ enc e.value)).length := by simp
  simp only [hle, if_true, take_append_len, drop_append_len, rdN_beN, u32_rt,
    u8_ofNat_version _ ht]

theorem decEnvHeader_legacy (e : Envelope) (h : EnvOK e) (hn : 0 < e.name.length) :
    decEnvHeader (encEnvLegacy e) = some (e.name, e.etype, e.seqid, enc e.value) := by
  have hl := h.name_len
  have hw : e.name.length % 256 ^ 4 = e.name.length := Nat.mod_eq_of_lt (by omega)
  unfold decEnvHeader encEnvLegacy
  rw [rdN_beN, hw]
  have hyes : 0 < e.name.length ∧ e.name.length < 2 ^ 31 := ⟨hn, hl⟩
  have hle : e.name.length ≤ (e.name ++ (e.etype :: (beN 4 e.seqid.toNat ++ enc e.value))).length := by
    simp
  simp only [hyes, and_self, if_true, hle, take_append_len, drop_append_len, rdN_beN, u32_rt]

/-- C12: strict (versioned) envelopes round-trip exactly. -/
theorem envelope_roundtrip_strict (e : Envelope) (h : EnvOK e) :
    decEnvelope (encEnvStrict e) = .ok e := by
  unfold decEnvelope
  rw [decEnvHeader_strict e h]
  simp only [decF_struct_enc e.value h.body_struct h.body_wt]

/-- C12: legacy envelopes round-trip exactly for every non-empty name. -/
theorem envelope_roundtrip_legacy (e : Envelope) (h : EnvOK e) (hn : 0 < e.name.length) :
    decEnvelope (encEnvLegacy e) = .ok e := by
  unfold decEnvelope
  rw [decEnvHeader_legacy e h hn]
  simp only [decF_struct_enc e.value h.body_struct h.body_wt]

/-- the documented boundary: a legacy envelope with an empty name starts with the
word 0, which is read as a (bad) version, and is rejected. -/
theorem legacy_empty_name_rejected (e : Envelope) (hn : e.name = []) :
    decEnvelope (encEnvLegacy e) = .error .bad := by
  unfold decEnvelope decEnvHeader encEnvLegacy
  rw [hn]
  simp only [List.length_nil, rdN_beN]
  simp

theorem beN4_head (w : Nat) (tail : Bytes) :
    beN 4 w ++ tail = UInt8.ofNat (w / 256 ^ 3) :: UInt8.ofNat (w / 256 ^ 2) ::
      (UInt8.ofNat (w / 256 ^ 1) :: UInt8.ofNat (w / 256 ^ 0) :: tail) := by
  simp [beN]

theorem encEnvStrict_head (e : Envelope) (h : e.etype.toNat < 128) :
    ∃ b1 rest, encEnvStrict e = 0x80 :: b1 :: rest := by
  have hb : UInt8.ofNat (versionWord e.etype / 256 ^ 3) = 0x80 := by
    apply UInt8.toNat_inj.mp
    simp only [versionWord, h, if_true, UInt8.toNat_ofNat']
    have := e.etype.toNat_lt
    have h128 : (128 : UInt8).toNat = 128 := rfl
    omega
  unfold encEnvStrict
  rw [beN4_head, hb]
  exact ⟨_, _, rfl⟩

theorem encEnvLegacy_head (e : Envelope) (h : e.name.length < 2 ^ 24) :
    ∃ b1 rest, encEnvLegacy e = 0 :: b1 :: rest := by
  have hb : UInt8.ofNat (e.name.length / 256 ^ 3) = 0 := by
    have : e.name.length / 256 ^ 3 = 0 := Nat.div_eq_of_lt h
    rw [this]; rfl
  unfold encEnvLegacy
  rw [beN4_head, hb]
  exact ⟨_, _, rfl⟩

/-- C12 classification, versioned framing: the body comes back and the responder
remembers framing, name and sequence id. -/
theorem decodeRequest_strict (e : Envelope) (h : EnvOK e) :
    decodeRequest e.etype (encEnvStrict e) = .ok (e.value, ⟨.strict, e.name, e.seqid⟩) := by
  obtain ⟨b1, rest, hd⟩ := encEnvStrict_head e h.type_nonneg
  have hr := envelope_roundtrip_strict e h
  unfold decodeRequest
  rw [hd] at hr ⊢
  simp [hr]

/-- C12 classification, legacy framing (names of 1 .. 2^24-1 bytes). -/
theorem decodeRequest_legacy (e : Envelope) (h : EnvOK e) (hn : 0 < e.name.length)
    (hn' : e.name.length < 2 ^ 24) :
    decodeRequest e.etype (encEnvLegacy e) = .ok (e.value, ⟨.legacy, e.name, e.seqid⟩) := by
  obtain ⟨b1, rest, hd⟩ := encEnvLegacy_head e hn'
  have hr := envelope_roundtrip_legacy e h hn
  unfold decodeRequest
  rw [hd] at hr ⊢
  simp [hr]

/-- C12: an envelope of another message type is rejected (both framings). -/
theorem decodeRequest_wrong_type_strict (e : Envelope) (h : EnvOK e) (et : UInt8) (hne : e.etype ≠ et) :
    decodeRequest et (encEnvStrict e) = .error .bad := by
  obtain ⟨b1, rest, hd⟩ := encEnvStrict_head e h.type_nonneg
  have hr := envelope_roundtrip_strict e h
  unfold decodeRequest
  rw [hd] at hr ⊢
  simp [hr, hne]

theorem decodeRequest_wrong_type_legacy (e : Envelope) (h : EnvOK e) (hn : 0 < e.name.length)
    (hn' : e.name.length < 2 ^ 24) (et : UInt8) (hne : e.etype ≠ et) :
    decodeRequest et (encEnvLegacy e) = .error .bad := by
  obtain ⟨b1, rest, hd⟩ := encEnvLegacy_head e hn'
  have hr := envelope_roundtrip_legacy e h hn
  unfold decodeRequest
  rw [hd] at hr ⊢
  simp [hr, hne]

/-- C12: the reply re-uses the request's framing and echoes name and sequence id. -/
theorem response_echo_strict (name : Bytes) (sq : UInt32) (v : WValue) (t : UInt8)
    (h : EnvOK ⟨name, t, sq, v⟩) :
    decEnvelope (encodeResponse ⟨.strict, name, sq⟩ v t) = .ok ⟨name, t, sq, v⟩ :=
  envelope_roundtrip_strict _ h

theorem response_echo_legacy (name : Bytes) (sq : UInt32) (v : WValue) (t : UInt8)
    (h : EnvOK ⟨name, t, sq, v⟩) (hn : 0 < name.length) :
    decEnvelope (encodeResponse ⟨.legacy, name, sq⟩ v t) = .ok ⟨name, t, sq, v⟩ :=
  envelope_roundtrip_legacy _ h hn

theorem response_bare (name : Bytes) (sq : UInt32) (v : WValue) (t : UInt8) :
    encodeResponse ⟨.bare, name, sq⟩ v t = enc v := rfl

/-! ### chunking -/

theorem readFull_fst (n : Nat) (cs : Chunks) : (readFull n cs).1 = cs.flatten.take n := by
  induction cs generalizing n with
  | nil => simp [readFull]
  | cons c cs ih =>
    unfold readFull
    split
    · rename_i h; simp [List.take_append_of_le_length h]
    · rename_i h
      simp only [List.flatten_cons, ih]
      have : c.length ≤ n := by omega
      rw [List.take_append]
      simp [List.take_of_length_le this]

theorem readFull_snd (n : Nat) (cs : Chunks) : (readFull n cs).2.flatten = cs.flatten.drop n := by
  induction cs generalizing n with
  | nil => simp [readFull]
  | cons c cs ih =>
    unfold readFull
    split
    · rename_i h; simp [List.drop_append_of_le_length h]
    · rename_i h
      simp only [List.flatten_cons, ih]
      have : c.length ≤ n := by omega
      rw [List.drop_append]
      simp [List.drop_of_length_le this]

/-- `io.ReadFull` makes the peek independent of how the stream is segmented. -/
theorem readFull_reassemble (n : Nat) (cs : Chunks) :
    (readFull n cs).1 ++ (readFull n cs).2.flatten = cs.flatten := by
  rw [readFull_fst, readFull_snd, List.take_append_drop]

theorem dec_of_decF {f : Nat} {t : UInt8} {bs : Bytes} {v : WValue} {s' : St}
    (h : decF f t (bs, 0) = .ok (v, s')) : dec f t bs = .ok (v, s'.1) :=
  ((lazyToStrictAt f).1 t bs v s' h).1

theorem decEnvelopeStream_of_decEnvelope {bs : Bytes} {e : Envelope}
    (h : decEnvelope bs = .ok e) : ∃ rest, decEnvelopeStream bs = .ok (e, rest) := by
  unfold decEnvelope at h
  unfold decEnvelopeStream
  split at h
  · cases h
  · rename_i name t sq r hh
    split at h
    · rename_i v s' hv
      cases h
      have := dec_of_decF hv
      exact ⟨s'.1, by simp [hh, this]⟩
    · cases h

/-- C12: the streaming request API accepts every input the random-access API
accepts, with the same body and the same responder, for EVERY segmentation of the
stream into reads (this needs the two-byte peek to be an `io.ReadFull`). -/
theorem apis_agree (et : UInt8) (cs : Chunks) (x : WValue × Responder)
    (h : decodeRequest et cs.flatten = .ok x) : readRequest true et cs = .ok x := by
  have hp := readFull_fst 2 cs
  have hq := readFull_snd 2 cs
  unfold readRequest peek2
  simp only [if_true]
  generalize readFull 2 cs = pr at hp hq
  obtain ⟨p, cs'⟩ := pr
  simp only at hp hq
  generalize cs.flatten = bs at h hp hq
  match bs, h, hp, hq with
  | [], h, hp, hq =>
    subst hp
    simp only [decodeRequest] at h
    split at h
    · rename_i v s' hv; cases h
      simp [dec_of_decF hv]
    · cases h
  | [b], h, hp, hq =>
    simp at hp; subst hp
    simp only [decodeRequest] at h
    split at h
    · rename_i v s' hv; cases h
      simp [dec_of_decF hv]
    · cases h
  | b0 :: b1 :: r, h, hp, hq =>
    simp at hp hq; subst hp
    simp only [hq]
    simp only [decodeRequest] at h
    split at h
    · rename_i hb0
      split at h
      · rename_i e he
        obtain ⟨rest, hs⟩ := decEnvelopeStream_of_decEnvelope he
        subst hb0
        simp only [if_true, hs]
        exact h
      · cases h
    · rename_i hb0
      split at h
      · rename_i hb
        split at h
        · rename_i e he
          obtain ⟨rest, hs⟩ := decEnvelopeStream_of_decEnvelope he
          simp only [hb0, if_false, hb, if_true, hs]
          exact h
        · cases h
      · rename_i hb
        split at h
        · rename_i v s' hv; cases h
          simp [hb0, hb, dec_of_decF hv]
        · cases h

/-- Regression witness for finding D1 (fixed): with a single `Read` for the peek, a
valid versioned request whose first read returns one byte is mis-classified and
fails, although the random-access API (and the `io.ReadFull` peek) accept it. -/
theorem readRequest_single_read_counterexample :
    (decodeRequest 1 [0x80, 1, 0, 1, 0, 0, 0, 1, 0x61, 0, 0, 0, 7, 0]).toBool = true ∧
    (readRequest false 1 [[0x80], [1, 0, 1, 0, 0, 0, 1, 0x61, 0, 0, 0, 7, 0]]).toBool = false ∧
    (readRequest true 1 [[0x80], [1, 0, 1, 0, 0, 0, 1, 0x61, 0, 0, 0, 7, 0]]).toBool = true := by
  decide

end ThriftVerif.Wire
