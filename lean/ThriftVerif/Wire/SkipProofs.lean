/-
M-Wire proofs: skipping a value consumes exactly its encoding (both discard
strategies), hence skip length = decode length whenever decoding succeeds.
-/
import ThriftVerif.Wire.Skip
import ThriftVerif.Wire.Canonical

set_option linter.unusedSimpArgs false

namespace ThriftVerif.Wire

theorem discard_append (seek : Bool) (a rest : Bytes) (n : Nat) (h : a.length = n) :
    discard seek n (a ++ rest, 0) = some (rest, 0) := by
  unfold discard
  have : n ≤ (a ++ rest).length := by simp [← h]
  simp [this, ← h]

theorem stByte_cons (b : UInt8) (r : Bytes) (o : Nat) : stByte (b :: r, o) = some (b, (r, o)) := rfl

theorem stRdLen_beN (n : Nat) (rest : Bytes) (o : Nat) (h : n < 2 ^ 31) :
    stRdLen (beN 4 n ++ rest, o) = some (n, (rest, o)) := by
  simp [stRdLen, rdLen_beN _ _ h]

theorem fixedWidth_code (t : TType) : fixedWidth t.code =
    match t with
    | .bool => 1 | .i8 => 1 | .double => 8 | .i16 => 2 | .i32 => 4 | .i64 => 8 | _ => 0 := by
  cases t <;> simp [fixedWidth, TType.ofByte_code]

theorem enc_len_fixed (v : WValue) (h : 0 < fixedWidth v.tcode) :
    (enc v).length = fixedWidth v.tcode := by
  cases v <;> simp [WValue.tcode, WValue.ttype, fixedWidth_code, enc] at h ⊢

theorem encList_len_fixed (et : UInt8) (vs : List WValue) (hw : 0 < fixedWidth et)
    (hwt : wtList et vs = true) : (encList vs).length = fixedWidth et * vs.length := by
  induction vs with
  | nil => simp [encList]
  | cons v vs ih =>
    simp only [wtList, Bool.and_eq_true, beq_iff_eq] at hwt
    have h1 : (enc v).length = fixedWidth et := by
      have := enc_len_fixed v (by rw [hwt.1.1]; exact hw)
      rw [this, hwt.1.1]
    simp [encList, h1, ih hwt.2, Nat.mul_succ, Nat.add_comm]

theorem encItems_len_fixed (kt vt : UInt8) (is : List (WValue × WValue))
    (hk : 0 < fixedWidth kt) (hv : 0 < fixedWidth vt) (hwt : wtItems kt vt is = true) :
    (encItems is).length = is.length * (fixedWidth kt + fixedWidth vt) := by
  induction is with
  | nil => simp [encItems]
  | cons kv is ih =>
    obtain ⟨k, v⟩ := kv
    simp only [wtItems, Bool.and_eq_true, beq_iff_eq] at hwt
    have h1 : (enc k).length = fixedWidth kt := by
      have := enc_len_fixed k (by rw [hwt.1.1.1.1]; exact hk)
      rw [this, hwt.1.1.1.1]
    have h2 : (enc v).length = fixedWidth vt := by
      have := enc_len_fixed v (by rw [hwt.1.1.2]; exact hv)
      rw [this, hwt.1.1.2]
    simp [encItems, h1, h2, ih hwt.2, Nat.succ_mul]
    omega

theorem skipListItems_of_skipN (seek : Bool) (et : UInt8) (vs : List WValue) (rest : Bytes) (f : Nat)
    (hwt : wtList et vs = true)
    (h : skipN seek f et vs.length (encList vs ++ rest, 0) = .ok (rest, 0)) :
    skipListItems seek f et vs.length (encList vs ++ rest, 0) = .ok (rest, 0) := by
  unfold skipListItems
  by_cases hw : 0 < fixedWidth et
  · have := discard_append seek (encList vs) rest _ (encList_len_fixed et vs hw hwt)
    simp [hw, this]
  · simp only [hw, if_false]
    exact h

theorem skipMapItems_of_skipKV (seek : Bool) (kt vt : UInt8) (is : List (WValue × WValue))
    (rest : Bytes) (f : Nat) (hwt : wtItems kt vt is = true)
    (h : skipKV seek f kt vt is.length (encItems is ++ rest, 0) = .ok (rest, 0)) :
    skipMapItems seek f kt vt is.length (encItems is ++ rest, 0) = .ok (rest, 0) := by
  unfold skipMapItems
  by_cases hw : 0 < fixedWidth kt ∧ 0 < fixedWidth vt
  · have := discard_append seek (encItems is) rest _ (encItems_len_fixed kt vt is hw.1 hw.2 hwt)
    simp [hw, this]
  · simp only [hw, if_false]
    exact h

mutual
  theorem skip_enc (seek : Bool) (v : WValue) (rest : Bytes) (f : Nat) (hwt : v.wt = true)
      (hf : v.size ≤ f) : skip seek f v.tcode (enc v ++ rest, 0) = .ok (rest, 0) := by
    cases f with
    | zero => cases v <;> simp [WValue.size] at hf
    | succ f =>
      cases v with
      | bool b =>
        simp [skip, WValue.tcode, WValue.ttype, fixedWidth_code, enc, discard]
      | i8 x =>
        simp [skip, WValue.tcode, WValue.ttype, fixedWidth_code, enc, discard]
      | double x =>
        have := discard_append seek (beN 8 x.toNat) rest 8 (by simp)
        simp [skip, WValue.tcode, WValue.ttype, fixedWidth_code, enc, this]
      | i16 x =>
        have := discard_append seek (beN 2 x.toNat) rest 2 (by simp)
        simp [skip, WValue.tcode, WValue.ttype, fixedWidth_code, enc, this]
      | i32 x =>
        have := discard_append seek (beN 4 x.toNat) rest 4 (by simp)
        simp [skip, WValue.tcode, WValue.ttype, fixedWidth_code, enc, this]
      | i64 x =>
        have := discard_append seek (beN 8 x.toNat) rest 8 (by simp)
        simp [skip, WValue.tcode, WValue.ttype, fixedWidth_code, enc, this]
      | binary bs =>
        simp only [WValue.wt, decide_eq_true_eq] at hwt
        have := discard_append seek bs rest bs.length rfl
        simp [skip, WValue.tcode, WValue.ttype, fixedWidth_code, enc, TType.ofByte_code,
          List.append_assoc, stRdLen_beN _ _ _ hwt, this]
      | struct fs =>
        simp only [WValue.wt] at hwt
        simp only [WValue.size] at hf
        have := skipStruct_enc seek fs rest f hwt (by omega)
        simp [skip, WValue.tcode, WValue.ttype, fixedWidth_code, enc, TType.ofByte_code, this]
      | map kt vt is =>
        simp only [WValue.wt, Bool.and_eq_true, decide_eq_true_eq] at hwt
        simp only [WValue.size] at hf
        have := skipMapItems_of_skipKV seek kt vt is rest f hwt.2 (skipKV_enc seek kt vt is rest f hwt.2 (by omega))
        unfold skipMapItems at this
        simp [skip, WValue.tcode, WValue.ttype, fixedWidth_code, enc, TType.ofByte_code,
          List.append_assoc, stByte_cons, stRdLen_beN _ _ _ hwt.1, this]
      | set et vs =>
        simp only [WValue.wt, Bool.and_eq_true, decide_eq_true_eq] at hwt
        simp only [WValue.size] at hf
        have := skipListItems_of_skipN seek et vs rest f hwt.2 (skipN_enc seek et vs rest f hwt.2 (by omega))
        unfold skipListItems at this
        simp [skip, WValue.tcode, WValue.ttype, fixedWidth_code, enc, TType.ofByte_code,
          List.append_assoc, stByte_cons, stRdLen_beN _ _ _ hwt.1, this]
      | list et vs =>
        simp only [WValue.wt, Bool.and_eq_true, decide_eq_true_eq] at hwt
        simp only [WValue.size] at hf
        have := skipListItems_of_skipN seek et vs rest f hwt.2 (skipN_enc seek et vs rest f hwt.2 (by omega))
        unfold skipListItems at this
        simp [skip, WValue.tcode, WValue.ttype, fixedWidth_code, enc, TType.ofByte_code,
          List.append_assoc, stByte_cons, stRdLen_beN _ _ _ hwt.1, this]
  theorem skipStruct_enc (seek : Bool) (fs : List (UInt16 × WValue)) (rest : Bytes) (f : Nat)
      (hwt : wtFields fs = true) (hf : sizeFields fs ≤ f) :
      skipStruct seek f (encFields fs ++ rest, 0) = .ok (rest, 0) := by
    cases f with
    | zero => cases fs <;> simp [sizeFields] at hf
    | succ f =>
      match fs with
      | [] => simp [skipStruct, encFields, stByte_cons]
      | (id, v) :: fs =>
        simp only [wtFields, Bool.and_eq_true] at hwt
        simp only [sizeFields] at hf
        have h0 := discard_append seek (beN 2 id.toNat) (enc v ++ (encFields fs ++ rest)) 2 (by simp)
        have h1 := skip_enc seek v (encFields fs ++ rest) f hwt.1 (by omega)
        have h2 := skipStruct_enc seek fs rest f hwt.2 (by omega)
        simp [skipStruct, encFields, List.append_assoc, stByte_cons, TType.code_ne_zero, h0, h1, h2]
  theorem skipN_enc (seek : Bool) (et : UInt8) (vs : List WValue) (rest : Bytes) (f : Nat)
      (hwt : wtList et vs = true) (hf : sizeList vs ≤ f) :
      skipN seek f et vs.length (encList vs ++ rest, 0) = .ok (rest, 0) := by
    match vs with
    | [] => cases f <;> simp [skipN, encList]
    | v :: vs =>
      cases f with
      | zero => simp [sizeList] at hf
      | succ f =>
        simp only [wtList, Bool.and_eq_true, beq_iff_eq] at hwt
        simp only [sizeList] at hf
        have h1 := skip_enc seek v (encList vs ++ rest) f hwt.1.2 (by omega)
        have h2 := skipN_enc seek et vs rest f hwt.2 (by omega)
        rw [hwt.1.1] at h1
        simp [skipN, encList, List.append_assoc, h1, h2]
  theorem skipKV_enc (seek : Bool) (kt vt : UInt8) (is : List (WValue × WValue))
      (rest : Bytes) (f : Nat) (hwt : wtItems kt vt is = true) (hf : sizeItems is ≤ f) :
      skipKV seek f kt vt is.length (encItems is ++ rest, 0) = .ok (rest, 0) := by
    match is with
    | [] => cases f <;> simp [skipKV, encItems]
    | (k, v) :: is =>
      cases f with
      | zero => simp [sizeItems] at hf
      | succ f =>
        simp only [wtItems, Bool.and_eq_true, beq_iff_eq] at hwt
        simp only [sizeItems] at hf
        have h1 := skip_enc seek k (enc v ++ (encItems is ++ rest)) f hwt.1.1.1.2 (by omega)
        have h2 := skip_enc seek v (encItems is ++ rest) f hwt.1.2 (by omega)
        have h3 := skipKV_enc seek kt vt is rest f hwt.2 (by omega)
        rw [hwt.1.1.1.1] at h1
        rw [hwt.1.1.2] at h2
        simp [skipKV, encItems, List.append_assoc, h1, h2, h3]
end

end ThriftVerif.Wire
