/-
M-Wire proofs: totality of the random-access decoder with everything forced (`decF`):
with the drivers' fuel it never runs out, on any bytes.

Every value starts with at least one byte that is really read, and the position after a
container (computed by the seeking skip) is never further from the end than its start.

Core-only.
-/
import ThriftVerif.Wire.SkipTotal

set_option linter.unusedSimpArgs false

namespace ThriftVerif.Wire

theorem stRdN_progress' {k : Nat} {s a : St} {n : Nat} (h : stRdN k s = some (n, a)) :
    a.2 = s.2 ∧ a.1.length + k = s.1.length := by
  unfold stRdN at h
  split at h
  · rename_i n' r hr
    cases h
    exact ⟨rfl, (rdN_some hr).2.2⟩
  · cases h

theorem skipListItems_len {seek : Bool} {f : Nat} {et : UInt8} {n : Nat} {s a : St}
    (hw : WFSt s) (h : skipListItems seek f et n s = .ok a) : a.1.length ≤ s.1.length := by
  have hwa := skipListItems_wf hw h
  by_cases ha : a.2 = 0
  · have := (skipListItems_count h ha).2; omega
  · have hae : a.1 = [] := hwa (by omega)
    simp [hae]

theorem skipMapItems_len {seek : Bool} {f : Nat} {kt vt : UInt8} {n : Nat} {s a : St}
    (hw : WFSt s) (h : skipMapItems seek f kt vt n s = .ok a) : a.1.length ≤ s.1.length := by
  have hwa := skipMapItems_wf hw h
  by_cases ha : a.2 = 0
  · have := (skipMapItems_count h ha).2; omega
  · have hae : a.1 = [] := hwa (by omega)
    simp [hae]

/-- a forced random-access decode keeps the position well-formed and moves it forward. -/
def DecFLenAt (f : Nat) : Prop :=
  (∀ t s v r, WFSt s → decF f t s = .ok (v, r) → WFSt r ∧ r.1.length < s.1.length) ∧
  (∀ s fs r, WFSt s → decFieldsF f s = .ok (fs, r) → WFSt r ∧ r.1.length < s.1.length)

theorem decFLenAt (f : Nat) : DecFLenAt f := by
  induction f with
  | zero =>
    refine ⟨?_, ?_⟩
    · intro t s v r _ h; simp [decF] at h
    · intro s fs r _ h; simp [decFieldsF] at h
  | succ f ih =>
    obtain ⟨ihV, ihF⟩ := ih
    refine ⟨?_, ?_⟩
    · intro t s v r hw h
      unfold decF at h
      split at h
      · cases h
      · -- bool
        split at h
        · rename_i b r0 hb
          have l := (stByte_progress hb).2
          have w := (stByte_wf hb hw).1
          split at h
          · cases h; exact ⟨w, by omega⟩
          · split at h
            · cases h; exact ⟨w, by omega⟩
            · cases h
        · cases h
      · split at h
        · rename_i b r0 hb
          have l := (stByte_progress hb).2
          have w := (stByte_wf hb hw).1
          cases h; exact ⟨w, by omega⟩
        · cases h
      · split at h
        · rename_i n r0 hr
          have l := (stRdN_progress' hr).2
          have w := (stRdN_wf (by omega) hr hw).1
          cases h; exact ⟨w, by omega⟩
        · cases h
      · split at h
        · rename_i n r0 hr
          have l := (stRdN_progress' hr).2
          have w := (stRdN_wf (by omega) hr hw).1
          cases h; exact ⟨w, by omega⟩
        · cases h
      · split at h
        · rename_i n r0 hr
          have l := (stRdN_progress' hr).2
          have w := (stRdN_wf (by omega) hr hw).1
          cases h; exact ⟨w, by omega⟩
        · cases h
      · split at h
        · rename_i n r0 hr
          have l := (stRdN_progress' hr).2
          have w := (stRdN_wf (by omega) hr hw).1
          cases h; exact ⟨w, by omega⟩
        · cases h
      · -- binary
        split at h
        · rename_i n r0 hr
          have l := (stRdLen_progress hr).2
          have w := (stRdLen_wf hr hw).1
          split at h
          · rename_i hn
            cases h
            refine ⟨?_, by simp; omega⟩
            intro h0
            have := w h0
            simp [this]
          · cases h
        · cases h
      · -- struct
        split at h
        · rename_i fs r0 hf
          cases h
          exact ihF s fs r hw hf
        · cases h
      · -- map
        split at h
        · rename_i kt s1 hb1
          split at h
          · rename_i vt s2 hb2
            split at h
            · rename_i n s3 hr
              have l1 := (stByte_progress hb1).2
              have l2 := (stByte_progress hb2).2
              have l3 := (stRdLen_progress hr).2
              have w1 := (stByte_wf hb1 hw).1
              have w2 := (stByte_wf hb2 w1).1
              have w3 := (stRdLen_wf hr w2).1
              split at h
              · cases h
              · rename_i sEnd hs
                have le := skipMapItems_len w3 hs
                have we := skipMapItems_wf w3 hs
                split at h
                · cases h; exact ⟨we, by omega⟩
                · cases h
            · cases h
          · cases h
        · cases h
      · -- set
        split at h
        · rename_i et s1 hb1
          split at h
          · rename_i n s2 hr
            have l1 := (stByte_progress hb1).2
            have l3 := (stRdLen_progress hr).2
            have w1 := (stByte_wf hb1 hw).1
            have w3 := (stRdLen_wf hr w1).1
            split at h
            · cases h
            · rename_i sEnd hs
              have le := skipListItems_len w3 hs
              have we := skipListItems_wf w3 hs
              split at h
              · cases h; exact ⟨we, by omega⟩
              · cases h
          · cases h
        · cases h
      · -- list
        split at h
        · rename_i et s1 hb1
          split at h
          · rename_i n s2 hr
            have l1 := (stByte_progress hb1).2
            have l3 := (stRdLen_progress hr).2
            have w1 := (stByte_wf hb1 hw).1
            have w3 := (stRdLen_wf hr w1).1
            split at h
            · cases h
            · rename_i sEnd hs
              have le := skipListItems_len w3 hs
              have we := skipListItems_wf w3 hs
              split at h
              · cases h; exact ⟨we, by omega⟩
              · cases h
          · cases h
        · cases h
    · intro s fs r hw h
      unfold decFieldsF at h
      split at h
      · cases h
      · rename_i t s0 hb
        have l0 := (stByte_progress hb).2
        have w0 := (stByte_wf hb hw).1
        split at h
        · cases h; exact ⟨w0, by omega⟩
        · split at h
          · cases h
          · rename_i id s1 hid
            have l1 := (stRdN_progress' hid).2
            have w1 := (stRdN_wf (by omega) hid w0).1
            split at h
            · cases h
            · rename_i v s2 hv
              obtain ⟨w2, l2⟩ := ihV t s1 v s2 w1 hv
              split at h
              · cases h
              · rename_i fs' s3 hfs
                obtain ⟨w3, l3⟩ := ihF s2 fs' s3 w2 hfs
                cases h
                exact ⟨w3, by omega⟩

def DecFFuelAt (f : Nat) : Prop :=
  (∀ t s, WFSt s → 3 * s.1.length + 2 ≤ f → decF f t s ≠ .error .fuel) ∧
  (∀ s, WFSt s → 3 * s.1.length + 1 ≤ f → decFieldsF f s ≠ .error .fuel) ∧
  (∀ et n s, WFSt s → 3 * s.1.length + 3 ≤ f → decListF f et n s ≠ .error .fuel) ∧
  (∀ kt vt n s, WFSt s → 3 * s.1.length + 3 ≤ f → decItemsF f kt vt n s ≠ .error .fuel)

theorem decFFuelAt (f : Nat) : DecFFuelAt f := by
  induction f with
  | zero =>
    refine ⟨?_, ?_, ?_, ?_⟩
    · intro t s _ h; omega
    · intro s _ h; omega
    · intro et n s _ h; omega
    · intro kt vt n s _ h; omega
  | succ f ih =>
    obtain ⟨ihV, ihF, ihL, ihI⟩ := ih
    refine ⟨?_, ?_, ?_, ?_⟩
    · intro t s hw hf h
      unfold decF at h
      split at h
      · cases h
      · split at h
        · split at h
          · cases h
          · split at h <;> cases h
        · cases h
      · split at h <;> cases h
      · split at h <;> cases h
      · split at h <;> cases h
      · split at h <;> cases h
      · split at h <;> cases h
      · split at h
        · split at h <;> cases h
        · cases h
      · -- struct
        split at h
        · cases h
        · rename_i e he; cases h
          exact ihF s hw (by omega) he
      · -- map
        split at h
        · rename_i kt s1 hb1
          split at h
          · rename_i vt s2 hb2
            split at h
            · rename_i n s3 hr
              have l1 := (stByte_progress hb1).2
              have l2 := (stByte_progress hb2).2
              have l3 := (stRdLen_progress hr).2
              have w1 := (stByte_wf hb1 hw).1
              have w2 := (stByte_wf hb2 w1).1
              have w3 := (stRdLen_wf hr w2).1
              split at h
              · rename_i e he
                cases h
                exact skipMapItems_total true kt vt n s3 w3 he
              · split at h
                · cases h
                · rename_i e he; cases h
                  exact ihI kt vt n s3 w3 (by omega) he
            · cases h
          · cases h
        · cases h
      · -- set
        split at h
        · rename_i et s1 hb1
          split at h
          · rename_i n s2 hr
            have l1 := (stByte_progress hb1).2
            have l3 := (stRdLen_progress hr).2
            have w1 := (stByte_wf hb1 hw).1
            have w3 := (stRdLen_wf hr w1).1
            split at h
            · rename_i e he
              cases h
              exact skipListItems_total true et n s2 w3 he
            · split at h
              · cases h
              · rename_i e he; cases h
                exact ihL et n s2 w3 (by omega) he
          · cases h
        · cases h
      · -- list
        split at h
        · rename_i et s1 hb1
          split at h
          · rename_i n s2 hr
            have l1 := (stByte_progress hb1).2
            have l3 := (stRdLen_progress hr).2
            have w1 := (stByte_wf hb1 hw).1
            have w3 := (stRdLen_wf hr w1).1
            split at h
            · rename_i e he
              cases h
              exact skipListItems_total true et n s2 w3 he
            · split at h
              · cases h
              · rename_i e he; cases h
                exact ihL et n s2 w3 (by omega) he
          · cases h
        · cases h
    · intro s hw hf h
      unfold decFieldsF at h
      split at h
      · cases h
      · rename_i t s0 hb
        have l0 := (stByte_progress hb).2
        have w0 := (stByte_wf hb hw).1
        split at h
        · cases h
        · split at h
          · cases h
          · rename_i id s1 hid
            have l1 := (stRdN_progress' hid).2
            have w1 := (stRdN_wf (by omega) hid w0).1
            split at h
            · rename_i e he; cases h
              exact ihV t s1 w1 (by omega) he
            · rename_i v s2 hv
              obtain ⟨w2, l2⟩ := (decFLenAt f).1 t s1 v s2 w1 hv
              split at h
              · rename_i e he; cases h
                exact ihF s2 w2 (by omega) he
              · cases h
    · intro et n s hw hf h
      cases n with
      | zero => simp [decListF] at h
      | succ n =>
        simp only [decListF] at h
        split at h
        · rename_i e he; cases h
          exact ihV et s hw (by omega) he
        · rename_i v r hv
          obtain ⟨w2, l2⟩ := (decFLenAt f).1 et s v r hw hv
          split at h
          · rename_i e he; cases h
            exact ihL et n r w2 (by omega) he
          · cases h
    · intro kt vt n s hw hf h
      cases n with
      | zero => simp [decItemsF] at h
      | succ n =>
        simp only [decItemsF] at h
        split at h
        · rename_i e he; cases h
          exact ihV kt s hw (by omega) he
        · rename_i k r hk
          obtain ⟨w1, l1⟩ := (decFLenAt f).1 kt s k r hw hk
          split at h
          · rename_i e he; cases h
            exact ihV vt r w1 (by omega) he
          · rename_i v r' hv
            obtain ⟨w2, l2⟩ := (decFLenAt f).1 vt r v r' w1 hv
            split at h
            · rename_i e he; cases h
              exact ihI kt vt n r' w2 (by omega) he
            · cases h

/-- **The random-access decoder with every container forced is total** (C03): with the
drivers' fuel it never runs out, for any type byte and any bytes. -/
theorem decodeLazyForced_total (t : UInt8) (bs : Bytes) : decodeLazyForced t bs ≠ .error .fuel :=
  (decFFuelAt (fuelFor bs)).1 t (bs, 0) (wf_zero bs) (by simp [fuelFor])

end ThriftVerif.Wire
