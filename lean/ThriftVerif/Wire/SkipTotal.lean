/-
M-Wire proofs: totality of `Skip` for both discard strategies — with the drivers' fuel
(`fuelFor`) the model's `skip` never runs out of fuel, on any bytes: every recursive call
either follows at least one byte that was really read, or fails.

Core-only.
-/
import ThriftVerif.Wire.SkipProgress

set_option linter.unusedSimpArgs false

namespace ThriftVerif.Wire

theorem discard_len {seek : Bool} {n : Nat} {s a : St} (h : discard seek n s = some a) :
    a.1.length ≤ s.1.length := by
  unfold discard at h
  split at h
  · cases h; simp
  · split at h
    · cases h; simp
    · cases h

/-- a successful skip of a value that is not fixed-width started on a non-empty input. -/
theorem skip_nonfixed_nonempty {seek : Bool} {f : Nat} {t : UInt8} {s a : St}
    (hfw : fixedWidth t = 0) (h : skip seek f t s = .ok a) : 0 < s.1.length := by
  cases f with
  | zero => simp [skip] at h
  | succ f =>
    unfold skip at h
    simp only [hfw, Nat.lt_irrefl, if_false] at h
    split at h
    · -- binary
      split at h
      · rename_i n s' hr
        have := (stRdLen_progress hr).2
        omega
      · cases h
    · -- struct
      cases f with
      | zero => simp [skipStruct] at h
      | succ f =>
        unfold skipStruct at h
        split at h
        · cases h
        · rename_i t' s1 hb
          have := (stByte_progress hb).2
          omega
    · split at h
      · rename_i kt s1 hb
        have := (stByte_progress hb).2
        omega
      · cases h
    · split at h
      · rename_i et s1 hb
        have := (stByte_progress hb).2
        omega
      · cases h
    · split at h
      · rename_i et s1 hb
        have := (stByte_progress hb).2
        omega
      · cases h
    · cases h

/-- remaining length never grows; it shrinks for a value that is not fixed-width. -/
theorem skip_len {seek : Bool} {f : Nat} {t : UInt8} {s a : St} (hw : WFSt s)
    (h : skip seek f t s = .ok a) :
    a.1.length ≤ s.1.length ∧ (fixedWidth t = 0 → a.1.length < s.1.length) := by
  have hp := (progAt seek f).1 t s a h
  have hwa := (wfAt seek f).1 t s a hw h
  by_cases ha : a.2 = 0
  · have := (hp.2 ha).2
    exact ⟨by omega, fun _ => this⟩
  · have hae : a.1 = [] := hwa (by omega)
    refine ⟨by simp [hae], fun hfw => ?_⟩
    have := skip_nonfixed_nonempty hfw h
    simp [hae]; omega

theorem skipStruct_len {seek : Bool} {f : Nat} {s a : St} (hw : WFSt s)
    (h : skipStruct seek f s = .ok a) : a.1.length ≤ s.1.length := by
  have hp := (progAt seek f).2.1 s a h
  have hwa := (wfAt seek f).2.1 s a hw h
  by_cases ha : a.2 = 0
  · have := (hp.2 ha).2; omega
  · have hae : a.1 = [] := hwa (by omega)
    simp [hae]

/-- invariants proved together by induction on fuel. -/
def SkipFuelAt (seek : Bool) (f : Nat) : Prop :=
  (∀ t s, WFSt s → 3 * s.1.length + 2 ≤ f → skip seek f t s ≠ .error .fuel) ∧
  (∀ s, WFSt s → 3 * s.1.length + 1 ≤ f → skipStruct seek f s ≠ .error .fuel) ∧
  (∀ et n s, WFSt s → fixedWidth et = 0 → 3 * s.1.length + 3 ≤ f →
      skipN seek f et n s ≠ .error .fuel) ∧
  (∀ kt vt n s, WFSt s → ¬(0 < fixedWidth kt ∧ 0 < fixedWidth vt) → 3 * s.1.length + 3 ≤ f →
      skipKV seek f kt vt n s ≠ .error .fuel)

theorem skipFuelAt (seek : Bool) (f : Nat) : SkipFuelAt seek f := by
  induction f with
  | zero =>
    refine ⟨?_, ?_, ?_, ?_⟩
    · intro t s _ h; omega
    · intro s _ h; omega
    · intro et n s _ _ h; omega
    · intro kt vt n s _ _ h; omega
  | succ f ih =>
    obtain ⟨ihS, ihT, ihN, ihK⟩ := ih
    refine ⟨?_, ?_, ?_, ?_⟩
    · intro t s hw hf h
      unfold skip at h
      split at h
      · split at h <;> cases h
      · rename_i hfw
        have hfw0 : fixedWidth t = 0 := by omega
        split at h
        · -- binary
          split at h
          · split at h <;> cases h
          · cases h
        · -- struct
          exact ihT s hw (by omega) h
        · -- map
          split at h
          · rename_i kt s1 hb1
            split at h
            · rename_i vt s2 hb2
              split at h
              · rename_i n s3 hr
                have l1 := (stByte_progress hb1).2
                have l2 := (stByte_progress hb2).2
                have l3 := (stRdLen_progress hr).2
                have w1 := (stByte_wf hb1 hw).1
                have w2 := (stByte_wf hb2 w1).1
                have w3 := (stRdLen_wf hr w2).1
                split at h
                · split at h <;> cases h
                · rename_i hnf
                  exact ihK kt vt n s3 w3 hnf (by omega) h
              · cases h
            · cases h
          · cases h
        · -- set
          split at h
          · rename_i et s1 hb1
            split at h
            · rename_i n s2 hr
              have l1 := (stByte_progress hb1).2
              have l3 := (stRdLen_progress hr).2
              have w1 := (stByte_wf hb1 hw).1
              have w3 := (stRdLen_wf hr w1).1
              split at h
              · split at h <;> cases h
              · rename_i hnf
                exact ihN et n s2 w3 (by omega) (by omega) h
            · cases h
          · cases h
        · -- list
          split at h
          · rename_i et s1 hb1
            split at h
            · rename_i n s2 hr
              have l1 := (stByte_progress hb1).2
              have l3 := (stRdLen_progress hr).2
              have w1 := (stByte_wf hb1 hw).1
              have w3 := (stRdLen_wf hr w1).1
              split at h
              · split at h <;> cases h
              · rename_i hnf
                exact ihN et n s2 w3 (by omega) (by omega) h
            · cases h
          · cases h
        · cases h
    · intro s hw hf h
      unfold skipStruct at h
      split at h
      · cases h
      · rename_i t s1 hb
        have l1 := (stByte_progress hb).2
        have w1 := (stByte_wf hb hw).1
        split at h
        · cases h
        · split at h
          · cases h
          · rename_i s2 hd
            have l2 := discard_len hd
            have w2 := discard_wf hd w1
            split at h
            · rename_i e he
              cases h
              exact ihS t s2 w2 (by omega) he
            · rename_i s3 hs
              have l3 := (skip_len w2 hs).1
              have w3 := (wfAt seek f).1 t s2 s3 w2 hs
              exact ihT s3 w3 (by omega) h
    · intro et n s hw hfw hf h
      cases n with
      | zero => simp [skipN] at h
      | succ n =>
        simp only [skipN] at h
        split at h
        · rename_i e he
          cases h
          exact ihS et s hw (by omega) he
        · rename_i s' hs
          have l1 := (skip_len hw hs).2 hfw
          have w1 := (wfAt seek f).1 et s s' hw hs
          exact ihN et n s' w1 hfw (by omega) h
    · intro kt vt n s hw hnf hf h
      cases n with
      | zero => simp [skipKV] at h
      | succ n =>
        simp only [skipKV] at h
        split at h
        · rename_i e he
          cases h
          exact ihS kt s hw (by omega) he
        · rename_i s1 hs1
          have l1 := skip_len hw hs1
          have w1 := (wfAt seek f).1 kt s s1 hw hs1
          split at h
          · rename_i e he
            cases h
            exact ihS vt s1 w1 (by omega) he
          · rename_i s2 hs2
            have l2 := skip_len w1 hs2
            have w2 := (wfAt seek f).1 vt s1 s2 w1 hs2
            have hlt : s2.1.length < s.1.length := by
              by_cases hk : fixedWidth kt = 0
              · have := l1.2 hk; omega
              · have hv : fixedWidth vt = 0 := by
                  by_cases hv : fixedWidth vt = 0
                  · exact hv
                  · exfalso; exact hnf ⟨by omega, by omega⟩
                have := l2.2 hv; omega
            exact ihK kt vt n s2 w2 hnf (by omega) h

/-- **`Skip` is total** (C03): with the drivers' fuel it never runs out, for either discard
strategy, any type byte and any bytes. -/
theorem skip_total (seek : Bool) (t : UInt8) (bs : Bytes) : skipTop seek t bs ≠ .error .fuel :=
  (skipFuelAt seek (fuelFor bs)).1 t (bs, 0) (wf_zero bs) (by simp [fuelFor])

/-- the item loops that validate a lazily decoded container are total as well. -/
theorem skipListItems_total (seek : Bool) (et : UInt8) (n : Nat) (s : St) (hw : WFSt s) :
    skipListItems seek (fuelFor s.1) et n s ≠ .error .fuel := by
  unfold skipListItems
  by_cases hfw : 0 < fixedWidth et
  · simp only [hfw, if_true]
    split <;> simp
  · simp only [hfw, if_false]
    exact (skipFuelAt seek (fuelFor s.1)).2.2.1 et n s hw (by omega) (by simp [fuelFor])

theorem skipMapItems_total (seek : Bool) (kt vt : UInt8) (n : Nat) (s : St) (hw : WFSt s) :
    skipMapItems seek (fuelFor s.1) kt vt n s ≠ .error .fuel := by
  unfold skipMapItems
  by_cases hfw : 0 < fixedWidth kt ∧ 0 < fixedWidth vt
  · simp only [hfw, and_self, if_true]
    split <;> simp
  · simp only [hfw, if_false]
    exact (skipFuelAt seek (fuelFor s.1)).2.2.2 kt vt n s hw hfw (by simp [fuelFor])

end ThriftVerif.Wire
