/-
M-Wire, part 4: RPC envelopes (protocol/binary/envelope.go, stream_envelope.go,
protocol.go, responder.go).

Core-only.
-/
import ThriftVerif.Wire.Skip

namespace ThriftVerif.Wire

/-- wire.Envelope; `etype` is the int8 bit pattern, `seqid` the int32 bit pattern. -/
structure Envelope where
  name : Bytes
  etype : UInt8
  seqid : UInt32
  value : WValue
  deriving Repr, Inhabited

/-- `uint32(version1) | uint32(eh.Type)` with `eh.Type : int8` (sign-extending conversion). -/
def versionWord (etype : UInt8) : Nat :=
  if etype.toNat < 128 then 0x80010000 + etype.toNat else 0xFFFFFF00 + etype.toNat

/-- `WriteEnveloped` (strict, versioned). -/
def encEnvStrict (e : Envelope) : Bytes :=
  beN 4 (versionWord e.etype) ++ (beN 4 e.name.length ++ (e.name ++ (beN 4 e.seqid.toNat ++ enc e.value)))

/-- `WriteLegacyEnveloped`. -/
def encEnvLegacy (e : Envelope) : Bytes :=
  beN 4 e.name.length ++ (e.name ++ (e.etype :: (beN 4 e.seqid.toNat ++ enc e.value)))

/-- envelope header as both readers parse it: (name, type, seqid, rest). A first
word in (0, 2^31) is a legacy name length; otherwise the word must carry version 1. -/
def decEnvHeader (bs : Bytes) : Option (Bytes × UInt8 × UInt32 × Bytes) :=
  match rdN 4 bs with
  | none => none
  | some (w, r) =>
    if 0 < w ∧ w < 2 ^ 31 then
      -- legacy: name bytes, type byte, seqid
      if w ≤ r.length then
        match r.drop w with
        | t :: r2 =>
          match rdN 4 r2 with
          | some (sq, r3) => some (r.take w, t, UInt32.ofNat sq, r3)
          | none => none
        | [] => none
      else none
    else
      if w / 65536 = 0x8001 then
        match rdLen r with
        | some (n, r1) =>
          if n ≤ r1.length then
            match rdN 4 (r1.drop n) with
            | some (sq, r3) => some (r1.take n, UInt8.ofNat w, UInt32.ofNat sq, r3)
            | none => none
          else none
        | none => none
      else none

/-- `Reader.ReadEnveloped` / `Protocol.DecodeEnveloped` with the body forced. -/
def decEnvelope (bs : Bytes) : Res Envelope :=
  match decEnvHeader bs with
  | none => .error .bad
  | some (name, t, sq, r) =>
    match decF (fuelFor r) TType.struct.code (r, 0) with
    | .ok (v, _) => .ok ⟨name, t, sq, v⟩
    | .error e => .error e

/-- `StreamReader.ReadEnvelopeBegin` followed by a strict struct read. -/
def decEnvelopeStream (bs : Bytes) : Res (Envelope × Bytes) :=
  match decEnvHeader bs with
  | none => .error .bad
  | some (name, t, sq, r) =>
    match dec (fuelFor r) TType.struct.code r with
    | .ok (v, rest) => .ok (⟨name, t, sq, v⟩, rest)
    | .error e => .error e

/-- which responder a request gets. -/
inductive Framing where
  | bare | legacy | strict
  deriving DecidableEq, Repr

structure Responder where
  framing : Framing
  name : Bytes
  seqid : UInt32
  deriving Repr

def noEnvelope : Responder := ⟨.bare, [], 0⟩

/-- `Protocol.DecodeRequest` (random access), body forced. -/
def decodeRequest (et : UInt8) (bs : Bytes) : Res (WValue × Responder) :=
  match bs with
  | b0 :: _ :: _ =>
    if b0 = 0 then
      match decEnvelope bs with
      | .ok e => if e.etype = et then .ok (e.value, ⟨.legacy, e.name, e.seqid⟩) else .error .bad
      | .error e => .error e
    else if b0.toNat ≥ 128 then
      match decEnvelope bs with
      | .ok e => if e.etype = et then .ok (e.value, ⟨.strict, e.name, e.seqid⟩) else .error .bad
      | .error e => .error e
    else
      match decF (fuelFor bs) TType.struct.code (bs, 0) with
      | .ok (v, _) => .ok (v, noEnvelope)
      | .error e => .error e
  | _ =>
    match decF (fuelFor bs) TType.struct.code (bs, 0) with
    | .ok (v, _) => .ok (v, noEnvelope)
    | .error e => .error e

/-- An `io.Reader` as a list of chunks: each `Read` call returns data from the
first chunk only (possibly zero bytes if that chunk is empty). -/
abbrev Chunks := List Bytes

/-- one `Read(p)` with `len(p) = n`. -/
def read1 (n : Nat) : Chunks → Bytes × Chunks
  | [] => ([], [])
  | c :: cs => if c.length ≤ n then (c, cs) else (c.take n, c.drop n :: cs)

/-- `io.ReadFull(r, p)` with `len(p) = n`: keeps reading until n bytes or EOF. -/
def readFull : Nat → Chunks → Bytes × Chunks
  | _, [] => ([], [])
  | n, c :: cs =>
    if n ≤ c.length then (c.take n, c.drop n :: cs)
    else let (b, cs') := readFull (n - c.length) cs; (c ++ b, cs')

/-- the 2-byte peek at the start of `ReadRequest`. `full = true` is `io.ReadFull`
(the repaired code), `false` a single `Read` call (the original code, finding D1). -/
def peek2 (full : Bool) (cs : Chunks) : Bytes × Chunks :=
  if full then readFull 2 cs else read1 2 cs

/-- `Protocol.ReadRequest` with a body reader that reads one struct strictly.
Everything after the peek goes through `io.ReadFull`/`io.CopyN`, i.e. sees `cs.join`. -/
def readRequest (full : Bool) (et : UInt8) (cs : Chunks) : Res (WValue × Responder) :=
  let (p, cs') := peek2 full cs
  match p with
  | [b0, b1] =>
    let bs := b0 :: b1 :: cs'.flatten
    if b0 = 0 then
      match decEnvelopeStream bs with
      | .ok (e, _) => if e.etype = et then .ok (e.value, ⟨.legacy, e.name, e.seqid⟩) else .error .bad
      | .error e => .error e
    else if b0.toNat ≥ 128 then
      match decEnvelopeStream bs with
      | .ok (e, _) => if e.etype = et then .ok (e.value, ⟨.strict, e.name, e.seqid⟩) else .error .bad
      | .error e => .error e
    else
      match dec (fuelFor bs) TType.struct.code bs with
      | .ok (v, _) => .ok (v, noEnvelope)
      | .error e => .error e
  | _ =>
    match dec (fuelFor p) TType.struct.code p with
    | .ok (v, _) => .ok (v, noEnvelope)
    | .error e => .error e

/-- `Responder.EncodeResponse`. -/
def encodeResponse (r : Responder) (v : WValue) (t : UInt8) : Bytes :=
  match r.framing with
  | .bare => enc v
  | .legacy => encEnvLegacy ⟨r.name, t, r.seqid, v⟩
  | .strict => encEnvStrict ⟨r.name, t, r.seqid, v⟩

end ThriftVerif.Wire
