/-
M-Wire proofs for C13: the length-driven allocation of the streaming decoder is bounded by a
fixed constant plus a small multiple of the input size, whatever lengths the input declares;
and the witnesses for the two ways the original code violated this (D2, D3).
-/
import ThriftVerif.Wire.Cost
import ThriftVerif.Wire.Canonical

set_option linter.unusedSimpArgs false

namespace ThriftVerif.Wire

/-- the invariant of one decoding step. -/
def CostOK (bs : Bytes) (c : CostRes) : Prop :=
  match c.2 with
  | some rest => rest.length ≤ bs.length ∧ c.1 ≤ 5 * (bs.length - rest.length)
  | none => c.1 ≤ 5 * bs.length + bytesAllocThreshold + 1024

theorem readBytesAlloc_ok (n avail : Nat) (h : n ≤ avail) : readBytesAlloc n avail ≤ 5 * n := by
  unfold readBytesAlloc bytesAllocThreshold
  split
  · omega
  · split
    · have : min n avail = n := Nat.min_eq_left h
      omega
    · omega

theorem readBytesAlloc_any (n avail : Nat) :
    readBytesAlloc n avail ≤ 5 * avail + bytesAllocThreshold + 1024 := by
  unfold readBytesAlloc bytesAllocThreshold
  split
  · omega
  · split
    · have : min n avail ≤ avail := Nat.min_le_right _ _
      omega
    · omega

def CostAt (f : Nat) : Prop :=
  (∀ t bs, CostOK bs (decAlloc f t bs)) ∧
  (∀ bs, CostOK bs (decFieldsAlloc f bs)) ∧
  (∀ et n bs, CostOK bs (decListAlloc f et n bs)) ∧
  (∀ kt vt n bs, CostOK bs (decItemsAlloc f kt vt n bs))

theorem costOK_fail0 (bs : Bytes) : CostOK bs (0, none) := by
  simp [CostOK]

theorem costOK_ok0 (bs r : Bytes) (h : r.length ≤ bs.length) : CostOK bs (0, some r) := by
  simp [CostOK, h]

/-- sequencing: a successful step followed by any step. -/
theorem costOK_seq (bs r : Bytes) (a : Nat) (c : CostRes)
    (h1 : r.length ≤ bs.length ∧ a ≤ 5 * (bs.length - r.length)) (h2 : CostOK r c) :
    CostOK bs (a + c.1, c.2) := by
  unfold CostOK at h2 ⊢
  cases hc : c.2 with
  | none => simp only [hc] at h2 ⊢; omega
  | some rest => simp only [hc] at h2 ⊢; omega

/-- a step on a suffix of the input. -/
theorem costOK_suffix (bs r : Bytes) (c : CostRes) (h : r.length ≤ bs.length) (h2 : CostOK r c) :
    CostOK bs c := by
  have := costOK_seq bs r 0 c ⟨h, by omega⟩ h2
  simpa using this

theorem costAt (f : Nat) : CostAt f := by
  induction f with
  | zero =>
    refine ⟨?_, ?_, ?_, ?_⟩
    · intro t bs; simp [decAlloc, costOK_fail0]
    · intro bs; simp [decFieldsAlloc, costOK_fail0]
    · intro et n bs; cases n <;> simp [decListAlloc, costOK_fail0, costOK_ok0]
    · intro kt vt n bs; cases n <;> simp [decItemsAlloc, costOK_fail0, costOK_ok0]
  | succ f ih =>
    obtain ⟨ihV, ihF, ihL, ihI⟩ := ih
    refine ⟨?_, ?_, ?_, ?_⟩
    · intro t bs
      unfold decAlloc
      split
      · exact costOK_fail0 bs
      · split
        · split
          · exact costOK_ok0 _ _ (by simp)
          · exact costOK_fail0 _
        · exact costOK_fail0 _
      · split
        · exact costOK_ok0 _ _ (by simp)
        · exact costOK_fail0 _
      · split
        · rename_i n r hr; exact costOK_ok0 _ _ (by have := (rdN_some hr).2.2; omega)
        · exact costOK_fail0 _
      · split
        · rename_i n r hr; exact costOK_ok0 _ _ (by have := (rdN_some hr).2.2; omega)
        · exact costOK_fail0 _
      · split
        · rename_i n r hr; exact costOK_ok0 _ _ (by have := (rdN_some hr).2.2; omega)
        · exact costOK_fail0 _
      · split
        · rename_i n r hr; exact costOK_ok0 _ _ (by have := (rdN_some hr).2.2; omega)
        · exact costOK_fail0 _
      · -- binary
        split
        · rename_i n r hr
          have hl := (rdLen_some hr).2.2
          by_cases hn : n ≤ r.length
          · simp only [hn, if_true, CostOK]
            have := readBytesAlloc_ok n r.length hn
            simp; omega
          · simp only [hn, if_false, CostOK]
            have := readBytesAlloc_any n r.length
            omega
        · exact costOK_fail0 _
      · exact ihF bs
      · -- map
        split
        · rename_i kt vt r0
          split
          · rename_i n r hr
            have hl := (rdLen_some hr).2.2
            exact costOK_suffix _ r _ (by simp; omega) (ihI kt vt n r)
          · exact costOK_fail0 _
        · exact costOK_fail0 _
      · split
        · rename_i et r0
          split
          · rename_i n r hr
            have hl := (rdLen_some hr).2.2
            exact costOK_suffix _ r _ (by simp; omega) (ihL et n r)
          · exact costOK_fail0 _
        · exact costOK_fail0 _
      · split
        · rename_i et r0
          split
          · rename_i n r hr
            have hl := (rdLen_some hr).2.2
            exact costOK_suffix _ r _ (by simp; omega) (ihL et n r)
          · exact costOK_fail0 _
        · exact costOK_fail0 _
    · intro bs
      unfold decFieldsAlloc
      split
      · exact costOK_fail0 _
      · rename_i t r0
        split
        · exact costOK_ok0 _ _ (by simp)
        · split
          · exact costOK_fail0 _
          · rename_i id r1 hid
            have hl := (rdN_some hid).2.2
            have hv := ihV t r1
            split
            · rename_i a ha
              rw [ha] at hv
              exact costOK_suffix _ r1 _ (by simp; omega) hv
            · rename_i a r2 ha
              rw [ha] at hv
              simp only [CostOK] at hv
              have hf := ihF r2
              have := costOK_seq r1 r2 a _ hv hf
              exact costOK_suffix _ r1 _ (by simp; omega) this
    · intro et n bs
      cases n with
      | zero => simp [decListAlloc, costOK_ok0]
      | succ n =>
        simp only [decListAlloc]
        have hv := ihV et bs
        split
        · rename_i a ha; rw [ha] at hv; exact hv
        · rename_i a r ha
          rw [ha] at hv
          simp only [CostOK] at hv
          exact costOK_seq bs r a _ hv (ihL et n r)
    · intro kt vt n bs
      cases n with
      | zero => simp [decItemsAlloc, costOK_ok0]
      | succ n =>
        simp only [decItemsAlloc]
        have hk := ihV kt bs
        split
        · rename_i a ha; rw [ha] at hk; exact hk
        · rename_i a r ha
          rw [ha] at hk
          simp only [CostOK] at hk
          have hv := ihV vt r
          split
          · rename_i b hb
            rw [hb] at hv
            exact costOK_seq bs r a (b, none) hk hv
          · rename_i b r' hb
            rw [hb] at hv
            simp only [CostOK] at hv
            have h3 := costOK_seq r r' b _ hv (ihI kt vt n r')
            have := costOK_seq bs r a _ hk h3
            simpa [Nat.add_assoc] using this

/-- C13 (streaming reader): for EVERY input and requested type, the allocation driven by
declared lengths is at most `5·N + 1 MiB + 1 KiB` — it does not depend on what the input declares. -/
theorem stream_alloc_bound (t : UInt8) (bs : Bytes) :
    streamAlloc t bs ≤ 5 * bs.length + bytesAllocThreshold + 1024 := by
  have h := (costAt (fuelFor bs)).1 t bs
  unfold streamAlloc
  unfold CostOK at h
  cases hc : (decAlloc (fuelFor bs) t bs).2 with
  | none => simp only [hc] at h; exact h
  | some rest => simp only [hc] at h; omega

theorem envelope_alloc_bound (bs : Bytes) :
    envelopeAlloc bs ≤ 5 * bs.length + bytesAllocThreshold + 1024 := by
  unfold envelopeAlloc
  split
  · omega
  · rename_i w r hr
    have hl := (rdN_some hr).2.2
    split
    · have := readBytesAlloc_any w r.length; omega
    · split
      · split
        · rename_i n r1 hr1
          have hl1 := (rdLen_some hr1).2.2
          have := readBytesAlloc_any n r1.length; omega
        · omega
      · omega

/-- finding D2 (repaired): the old legacy-name read allocated the declared length —
a 5-byte input could demand 2 GiB. -/
theorem legacy_name_alloc_unbounded_before_fix :
    envelopeAllocOld [0x7f, 0xff, 0xff, 0xff, 0] = 2 ^ 31 - 1 ∧
    envelopeAlloc [0x7f, 0xff, 0xff, 0xff, 0] ≤ 1028 := by
  decide

theorem frame_alloc_boundT (thr : Nat) (bs : Bytes) : frameAllocT thr bs ≤ 5 * bs.length + thr + 1024 := by
  unfold frameAllocT
  split
  · omega
  · rename_i n r hr
    have hl := (rdN_some hr).2.2
    split
    · omega
    · have : min n r.length ≤ r.length := Nat.min_le_right _ _
      omega

theorem frame_alloc_bound (bs : Bytes) : frameAlloc bs ≤ 5 * bs.length + fastPathFrameSize + 1024 :=
  frame_alloc_boundT fastPathFrameSize bs

/-- finding D3 (known): generated decoders pre-size from the header count; 5 bytes can demand
`(2^31 - 1) · elemSize` bytes. -/
theorem gen_prealloc_unbounded (elemSize : Nat) :
    genPreallocList elemSize [10, 0x7f, 0xff, 0xff, 0xff] = (2 ^ 31 - 1) * elemSize := by
  simp [genPreallocList, rdLen, rdN, deN, deAcc]

end ThriftVerif.Wire
