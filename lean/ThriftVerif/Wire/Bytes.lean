/-
M-Wire, part 1: bytes and big-endian fixed-width integers.

Core-only (no Mathlib): this file is linked into the `lean_exe` drivers.

`beN k n` is the k-byte big-endian representation of `n % 256^k`
(`bigEndian.PutUintNN` in protocol/binary/stream_writer.go), `deN bs` is
`bigEndian.UintNN` (stream_reader.go).
-/
namespace ThriftVerif.Wire

abbrev Bytes := List UInt8

/-- k-byte big-endian encoding of `n` (truncating, like Go's `uintNN(x)` conversions). -/
def beN : Nat → Nat → Bytes
  | 0, _ => []
  | k + 1, n => UInt8.ofNat (n / 256 ^ k) :: beN k n

/-- big-endian value of a byte string. -/
def deAcc (acc : Nat) : Bytes → Nat
  | [] => acc
  | b :: bs => deAcc (acc * 256 + b.toNat) bs

def deN (bs : Bytes) : Nat := deAcc 0 bs

@[simp] theorem beN_length (k n : Nat) : (beN k n).length = k := by
  induction k with
  | zero => rfl
  | succ k ih => simp [beN, ih]

theorem deAcc_append (acc : Nat) (a b : Bytes) : deAcc acc (a ++ b) = deAcc (deAcc acc a) b := by
  induction a generalizing acc with
  | nil => rfl
  | cons x xs ih => simp [deAcc, ih]

theorem deAcc_beN (k n acc : Nat) : deAcc acc (beN k n) = acc * 256 ^ k + n % 256 ^ k := by
  induction k generalizing acc with
  | zero => simp [beN, deAcc, Nat.mod_one]
  | succ k ih =>
    simp only [beN, deAcc, ih, UInt8.toNat_ofNat']
    have h : n % (256 ^ k * 256) = n % 256 ^ k + 256 ^ k * (n / 256 ^ k % 256) := Nat.mod_mul
    have hp : (256 : Nat) ^ (k + 1) = 256 ^ k * 256 := Nat.pow_succ _ _
    rw [hp, h]
    generalize 256 ^ k = P
    generalize n / P % 256 = q
    generalize n % P = r
    have e1 : (acc * 256 + q) * P = acc * (P * 256) + P * q := by
      rw [Nat.add_mul, Nat.mul_assoc, Nat.mul_comm 256 P, Nat.mul_comm q P]
    omega

theorem deN_beN (k n : Nat) : deN (beN k n) = n % 256 ^ k := by
  simp [deN, deAcc_beN]

theorem deAcc_lt (bs : Bytes) (acc : Nat) :
    deAcc acc bs < (acc + 1) * 256 ^ bs.length := by
  induction bs generalizing acc with
  | nil => simp [deAcc]
  | cons b bs ih =>
    simp only [deAcc, List.length_cons]
    have hb : b.toNat < 256 := b.toNat_lt
    have := ih (acc * 256 + b.toNat)
    calc deAcc (acc * 256 + b.toNat) bs
        < (acc * 256 + b.toNat + 1) * 256 ^ bs.length := this
      _ ≤ ((acc + 1) * 256) * 256 ^ bs.length := by
          apply Nat.mul_le_mul_right; omega
      _ = (acc + 1) * 256 ^ (bs.length + 1) := by
          rw [Nat.pow_succ, Nat.mul_assoc, Nat.mul_comm 256]

theorem deN_lt (bs : Bytes) : deN bs < 256 ^ bs.length := by
  have := deAcc_lt bs 0; simpa [deN] using this

theorem deAcc_eq (bs : Bytes) (acc : Nat) :
    deAcc acc bs = acc * 256 ^ bs.length + deAcc 0 bs := by
  induction bs generalizing acc with
  | nil => simp [deAcc]
  | cons b bs ih =>
    simp only [deAcc, List.length_cons]
    rw [ih (acc * 256 + b.toNat), ih (0 * 256 + b.toNat)]
    rw [Nat.pow_succ, Nat.add_mul, Nat.mul_assoc, Nat.mul_comm (256 ^ bs.length) 256]
    simp [Nat.add_assoc]

/-- canonical form: the k-byte encoding of the value of a k-byte string is that string. -/
theorem beN_deN (bs : Bytes) : beN bs.length (deN bs) = bs := by
  induction bs with
  | nil => rfl
  | cons b bs ih =>
    have hlt := deN_lt bs
    have hb : b.toNat < 256 := b.toNat_lt
    have e : deN (b :: bs) = b.toNat * 256 ^ bs.length + deN bs := by
      unfold deN; simp only [deAcc]; rw [deAcc_eq]; simp
    have hpos : 0 < 256 ^ bs.length := Nat.pow_pos (by decide)
    have hdiv : (b.toNat * 256 ^ bs.length + deN bs) / 256 ^ bs.length = b.toNat := by
      rw [Nat.add_comm, Nat.add_mul_div_right _ _ hpos, Nat.div_eq_of_lt hlt]; simp
    have hrest : beN bs.length (b.toNat * 256 ^ bs.length + deN bs) = beN bs.length (deN bs) := by
      -- beN k only depends on n % 256^k
      have : ∀ k n m, n % 256 ^ k = m % 256 ^ k → beN k n = beN k m := by
        intro k
        induction k with
        | zero => intros; rfl
        | succ k ihk =>
          intro n m h
          simp only [beN]
          have h1 : n % 256 ^ k = m % 256 ^ k := by
            have := congrArg (· % 256 ^ k) h
            simp only [Nat.pow_succ] at this
            rwa [Nat.mod_mul_right_mod, Nat.mod_mul_right_mod] at this
          have h2 : n / 256 ^ k % 256 = m / 256 ^ k % 256 := by
            have hn : n % 256 ^ (k + 1) = n % 256 ^ k + 256 ^ k * (n / 256 ^ k % 256) := by
              rw [Nat.pow_succ, Nat.mod_mul]
            have hm : m % 256 ^ (k + 1) = m % 256 ^ k + 256 ^ k * (m / 256 ^ k % 256) := by
              rw [Nat.pow_succ, Nat.mod_mul]
            rw [hn, hm, h1] at h
            have hp : 0 < 256 ^ k := Nat.pow_pos (by decide)
            exact Nat.eq_of_mul_eq_mul_left hp (Nat.add_left_cancel h)
          rw [ihk n m h1]
          congr 1
          apply UInt8.toNat_inj.mp
          simp [h2]
      apply this
      rw [Nat.add_comm, Nat.add_mul_mod_self_right]
    simp only [List.length_cons, beN, e, hdiv, hrest, ih]
    congr 1
    apply UInt8.toNat_inj.mp
    simp

end ThriftVerif.Wire
