/-
M-Wire, part 2: wire values, the declarative binary format (`enc`, the "Thrift
spec"), and the strict decoder (`dec`: what a schema-less reader built from the
`stream.Reader` primitives of protocol/binary/stream_reader.go computes).

Core-only.
-/
import ThriftVerif.Wire.Bytes

namespace ThriftVerif.Wire

/-- wire.Type (wire/type.go). -/
inductive TType where
  | bool | i8 | double | i16 | i32 | i64 | binary | struct | map | set | list
  deriving DecidableEq, Repr, Inhabited

def TType.code : TType → UInt8
  | .bool => 2 | .i8 => 3 | .double => 4 | .i16 => 6 | .i32 => 8 | .i64 => 10
  | .binary => 11 | .struct => 12 | .map => 13 | .set => 14 | .list => 15

def TType.all : List TType :=
  [.bool, .i8, .double, .i16, .i32, .i64, .binary, .struct, .map, .set, .list]

def TType.ofByte (b : UInt8) : Option TType :=
  if b = 2 then some .bool else if b = 3 then some .i8 else if b = 4 then some .double
  else if b = 6 then some .i16 else if b = 8 then some .i32 else if b = 10 then some .i64
  else if b = 11 then some .binary else if b = 12 then some .struct else if b = 13 then some .map
  else if b = 14 then some .set else if b = 15 then some .list else none

theorem TType.ofByte_code (t : TType) : TType.ofByte t.code = some t := by
  cases t <;> rfl

theorem TType.code_of_ofByte {b : UInt8} {t : TType} (h : TType.ofByte b = some t) : t.code = b := by
  unfold TType.ofByte at h
  repeat' split at h
  all_goals first
    | (cases h; subst_vars; rfl)
    | cases h

theorem TType.code_ne_zero (t : TType) : t.code ≠ 0 := by cases t <;> decide

/-- `fixedWidth` in stream_reader.go; 0 stands for Go's -1 ("not fixed"). -/
def fixedWidth (b : UInt8) : Nat :=
  match TType.ofByte b with
  | some .bool => 1 | some .i8 => 1 | some .double => 8 | some .i16 => 2
  | some .i32 => 4 | some .i64 => 8 | _ => 0

/-- wire.Value. Container element types are the raw header bytes (an empty
container may carry any byte and is re-encoded with it). Scalars are bit
patterns; doubles are their IEEE-754 bits. -/
inductive WValue where
  | bool (b : Bool)
  | i8 (v : UInt8)
  | double (bits : UInt64)
  | i16 (v : UInt16)
  | i32 (v : UInt32)
  | i64 (v : UInt64)
  | binary (bs : Bytes)
  | struct (fields : List (UInt16 × WValue))
  | map (kt vt : UInt8) (items : List (WValue × WValue))
  | set (et : UInt8) (items : List WValue)
  | list (et : UInt8) (items : List WValue)
  deriving Repr, Inhabited

def WValue.ttype : WValue → TType
  | .bool _ => .bool | .i8 _ => .i8 | .double _ => .double | .i16 _ => .i16
  | .i32 _ => .i32 | .i64 _ => .i64 | .binary _ => .binary | .struct _ => .struct
  | .map .. => .map | .set .. => .set | .list .. => .list

abbrev WValue.tcode (v : WValue) : UInt8 := v.ttype.code

/-! ### The format, declaratively -/

mutual
  /-- Thrift binary protocol encoding of a value. -/
  def enc : WValue → Bytes
    | .bool b => [if b then 1 else 0]
    | .i8 v => [v]
    | .double v => beN 8 v.toNat
    | .i16 v => beN 2 v.toNat
    | .i32 v => beN 4 v.toNat
    | .i64 v => beN 8 v.toNat
    | .binary bs => beN 4 bs.length ++ bs
    | .struct fs => encFields fs
    | .map kt vt items => kt :: vt :: (beN 4 items.length ++ encItems items)
    | .set et items => et :: (beN 4 items.length ++ encList items)
    | .list et items => et :: (beN 4 items.length ++ encList items)
  /-- field header (type, id) + value, …, stop byte. -/
  def encFields : List (UInt16 × WValue) → Bytes
    | [] => [0]
    | (id, v) :: fs => v.tcode :: (beN 2 id.toNat ++ (enc v ++ encFields fs))
  def encList : List WValue → Bytes
    | [] => []
    | v :: vs => enc v ++ encList vs
  def encItems : List (WValue × WValue) → Bytes
    | [] => []
    | (k, v) :: is => enc k ++ (enc v ++ encItems is)
end

/-! ### Well-typedness (what `Writer.WriteValue` may be given) -/

mutual
  def WValue.wt : WValue → Bool
    | .binary bs => bs.length < 2 ^ 31
    | .struct fs => wtFields fs
    | .map kt vt items => items.length < 2 ^ 31 && wtItems kt vt items
    | .set et items => items.length < 2 ^ 31 && wtList et items
    | .list et items => items.length < 2 ^ 31 && wtList et items
    | _ => true
  def wtFields : List (UInt16 × WValue) → Bool
    | [] => true
    | (_, v) :: fs => v.wt && wtFields fs
  def wtList (et : UInt8) : List WValue → Bool
    | [] => true
    | v :: vs => v.tcode == et && v.wt && wtList et vs
  def wtItems (kt vt : UInt8) : List (WValue × WValue) → Bool
    | [] => true
    | (k, v) :: is => k.tcode == kt && k.wt && v.tcode == vt && v.wt && wtItems kt vt is
end

/-! ### Strict decoding -/

inductive Err where
  | bad   -- decode error / unexpected EOF
  | fuel  -- the model ran out of fuel (never happens with `fuelFor`)
  deriving DecidableEq, Repr

abbrev Res (α : Type) := Except Err α

/-- read k bytes as a big-endian number (`io.ReadFull` + `bigEndian.UintNN`). -/
def rdN (k : Nat) (bs : Bytes) : Option (Nat × Bytes) :=
  if k ≤ bs.length then some (deN (bs.take k), bs.drop k) else none

/-- read a signed 32-bit length/count and reject negatives. -/
def rdLen (bs : Bytes) : Option (Nat × Bytes) :=
  match rdN 4 bs with
  | some (n, r) => if n < 2 ^ 31 then some (n, r) else none
  | none => none

mutual
  /-- decode one value of the type with code `t`. -/
  def dec : Nat → UInt8 → Bytes → Res (WValue × Bytes)
    | 0, _, _ => .error .fuel
    | f + 1, t, bs =>
      match TType.ofByte t with
      | none => .error .bad
      | some .bool =>
        match bs with
        | b :: r => if b = 0 then .ok (.bool false, r) else if b = 1 then .ok (.bool true, r)
                    else .error .bad
        | [] => .error .bad
      | some .i8 =>
        match bs with
        | b :: r => .ok (.i8 b, r)
        | [] => .error .bad
      | some .double =>
        match rdN 8 bs with
        | some (n, r) => .ok (.double (UInt64.ofNat n), r)
        | none => .error .bad
      | some .i16 =>
        match rdN 2 bs with
        | some (n, r) => .ok (.i16 (UInt16.ofNat n), r)
        | none => .error .bad
      | some .i32 =>
        match rdN 4 bs with
        | some (n, r) => .ok (.i32 (UInt32.ofNat n), r)
        | none => .error .bad
      | some .i64 =>
        match rdN 8 bs with
        | some (n, r) => .ok (.i64 (UInt64.ofNat n), r)
        | none => .error .bad
      | some .binary =>
        match rdLen bs with
        | some (n, r) => if n ≤ r.length then .ok (.binary (r.take n), r.drop n) else .error .bad
        | none => .error .bad
      | some .struct =>
        match decFields f bs with
        | .ok (fs, r) => .ok (.struct fs, r)
        | .error e => .error e
      | some .map =>
        match bs with
        | kt :: vt :: r0 =>
          match rdLen r0 with
          | some (n, r) =>
            match decItems f kt vt n r with
            | .ok (is, r') => .ok (.map kt vt is, r')
            | .error e => .error e
          | none => .error .bad
        | _ => .error .bad
      | some .set =>
        match bs with
        | et :: r0 =>
          match rdLen r0 with
          | some (n, r) =>
            match decList f et n r with
            | .ok (vs, r') => .ok (.set et vs, r')
            | .error e => .error e
          | none => .error .bad
        | [] => .error .bad
      | some .list =>
        match bs with
        | et :: r0 =>
          match rdLen r0 with
          | some (n, r) =>
            match decList f et n r with
            | .ok (vs, r') => .ok (.list et vs, r')
            | .error e => .error e
          | none => .error .bad
        | [] => .error .bad
  def decFields : Nat → Bytes → Res (List (UInt16 × WValue) × Bytes)
    | 0, _ => .error .fuel
    | f + 1, bs =>
      match bs with
      | [] => .error .bad
      | t :: r0 =>
        if t = 0 then .ok ([], r0) else
        match rdN 2 r0 with
        | none => .error .bad
        | some (id, r1) =>
          match dec f t r1 with
          | .error e => .error e
          | .ok (v, r2) =>
            match decFields f r2 with
            | .error e => .error e
            | .ok (fs, r3) => .ok ((UInt16.ofNat id, v) :: fs, r3)
  def decList : Nat → UInt8 → Nat → Bytes → Res (List WValue × Bytes)
    | _, _, 0, bs => .ok ([], bs)
    | 0, _, _ + 1, _ => .error .fuel
    | f + 1, et, n + 1, bs =>
      match dec f et bs with
      | .error e => .error e
      | .ok (v, r) =>
        match decList f et n r with
        | .error e => .error e
        | .ok (vs, r') => .ok (v :: vs, r')
  def decItems : Nat → UInt8 → UInt8 → Nat → Bytes → Res (List (WValue × WValue) × Bytes)
    | _, _, _, 0, bs => .ok ([], bs)
    | 0, _, _, _ + 1, _ => .error .fuel
    | f + 1, kt, vt, n + 1, bs =>
      match dec f kt bs with
      | .error e => .error e
      | .ok (k, r) =>
        match dec f vt r with
        | .error e => .error e
        | .ok (v, r') =>
          match decItems f kt vt n r' with
          | .error e => .error e
          | .ok (is, r'') => .ok ((k, v) :: is, r'')
end

/-- fuel that is always enough for an input of this length (`Totality.lean`). -/
def fuelFor (bs : Bytes) : Nat := 3 * bs.length + 3

/-- the strict decoder as the drivers run it. -/
def decode (t : UInt8) (bs : Bytes) : Res (WValue × Bytes) := dec (fuelFor bs) t bs

end ThriftVerif.Wire
