/-
Line-protocol text forms for M-Wire (drivers only; nothing here is used in theorems).

value  ::= "b0" | "b1" | "i8:"N | "i16:"N | "i32:"N | "i64:"N | "d:"N | "x:"HEX
         | "s" n (id value)^n | "m" kt vt n (value value)^n | "t" et n value^n | "l" et n value^n
All numbers are unsigned decimal bit patterns; HEX may be empty ("x:").
-/
import ThriftVerif.Wire.Value

namespace ThriftVerif.Wire

def hexDigit (n : Nat) : Char :=
  if n < 10 then Char.ofNat (48 + n) else Char.ofNat (87 + n)

def hexOfBytes (bs : Bytes) : String :=
  String.ofList (bs.foldr (fun b acc => hexDigit (b.toNat / 16) :: hexDigit (b.toNat % 16) :: acc) [])

def hexVal (c : Char) : Option Nat :=
  if '0' ≤ c ∧ c ≤ '9' then some (c.toNat - 48)
  else if 'a' ≤ c ∧ c ≤ 'f' then some (c.toNat - 87)
  else if 'A' ≤ c ∧ c ≤ 'F' then some (c.toNat - 55)
  else none

def bytesOfHexChars : List Char → Option Bytes
  | [] => some []
  | [_] => none
  | a :: b :: rest =>
    match hexVal a, hexVal b, bytesOfHexChars rest with
    | some x, some y, some r => some (UInt8.ofNat (x * 16 + y) :: r)
    | _, _, _ => none

/-- "-" stands for the empty byte string so that it survives whitespace splitting. -/
def bytesOfHex (s : String) : Option Bytes :=
  if s = "-" then some [] else bytesOfHexChars s.toList

def hexOrDash (bs : Bytes) : String := if bs.isEmpty then "-" else hexOfBytes bs

mutual
  def showV : WValue → List String
    | .bool b => [if b then "b1" else "b0"]
    | .i8 v => ["i8:" ++ toString v.toNat]
    | .double v => ["d:" ++ toString v.toNat]
    | .i16 v => ["i16:" ++ toString v.toNat]
    | .i32 v => ["i32:" ++ toString v.toNat]
    | .i64 v => ["i64:" ++ toString v.toNat]
    | .binary bs => ["x:" ++ hexOfBytes bs]
    | .struct fs => "s" :: toString fs.length :: showFields fs
    | .map kt vt is => "m" :: toString kt.toNat :: toString vt.toNat :: toString is.length :: showItems is
    | .set et vs => "t" :: toString et.toNat :: toString vs.length :: showList vs
    | .list et vs => "l" :: toString et.toNat :: toString vs.length :: showList vs
  def showFields : List (UInt16 × WValue) → List String
    | [] => []
    | (id, v) :: fs => toString id.toNat :: (showV v ++ showFields fs)
  def showList : List WValue → List String
    | [] => []
    | v :: vs => showV v ++ showList vs
  def showItems : List (WValue × WValue) → List String
    | [] => []
    | (k, v) :: is => showV k ++ (showV v ++ showItems is)
end

def WValue.text (v : WValue) : String := " ".intercalate (showV v)

def stripPrefix? (p s : String) : Option String :=
  if s.startsWith p then some (s.drop p.length).toString else none

mutual
  def parseV : Nat → List String → Option (WValue × List String)
    | 0, _ => none
    | f + 1, toks =>
      match toks with
      | [] => none
      | "b0" :: r => some (.bool false, r)
      | "b1" :: r => some (.bool true, r)
      | "s" :: n :: r =>
        match n.toNat? with
        | some n => (parseFields f n r).map fun (fs, r') => (.struct fs, r')
        | none => none
      | "m" :: kt :: vt :: n :: r =>
        match kt.toNat?, vt.toNat?, n.toNat? with
        | some kt, some vt, some n =>
          (parseItems f n r).map fun (is, r') => (.map (UInt8.ofNat kt) (UInt8.ofNat vt) is, r')
        | _, _, _ => none
      | "t" :: et :: n :: r =>
        match et.toNat?, n.toNat? with
        | some et, some n => (parseList f n r).map fun (vs, r') => (.set (UInt8.ofNat et) vs, r')
        | _, _ => none
      | "l" :: et :: n :: r =>
        match et.toNat?, n.toNat? with
        | some et, some n => (parseList f n r).map fun (vs, r') => (.list (UInt8.ofNat et) vs, r')
        | _, _ => none
      | tok :: r =>
        match stripPrefix? "i8:" tok with
        | some s => s.toNat?.map fun n => (.i8 (UInt8.ofNat n), r)
        | none =>
        match stripPrefix? "i16:" tok with
        | some s => s.toNat?.map fun n => (.i16 (UInt16.ofNat n), r)
        | none =>
        match stripPrefix? "i32:" tok with
        | some s => s.toNat?.map fun n => (.i32 (UInt32.ofNat n), r)
        | none =>
        match stripPrefix? "i64:" tok with
        | some s => s.toNat?.map fun n => (.i64 (UInt64.ofNat n), r)
        | none =>
        match stripPrefix? "d:" tok with
        | some s => s.toNat?.map fun n => (.double (UInt64.ofNat n), r)
        | none =>
        match stripPrefix? "x:" tok with
        | some s => (bytesOfHexChars s.toList).map fun bs => (.binary bs, r)
        | none => none
  def parseFields : Nat → Nat → List String → Option (List (UInt16 × WValue) × List String)
    | _, 0, r => some ([], r)
    | 0, _ + 1, _ => none
    | f + 1, n + 1, toks =>
      match toks with
      | id :: r =>
        match id.toNat?, parseV f r with
        | some id, some (v, r') =>
          (parseFields f n r').map fun (fs, r'') => ((UInt16.ofNat id, v) :: fs, r'')
        | _, _ => none
      | [] => none
  def parseList : Nat → Nat → List String → Option (List WValue × List String)
    | _, 0, r => some ([], r)
    | 0, _ + 1, _ => none
    | f + 1, n + 1, toks =>
      match parseV f toks with
      | some (v, r') => (parseList f n r').map fun (vs, r'') => (v :: vs, r'')
      | none => none
  def parseItems : Nat → Nat → List String → Option (List (WValue × WValue) × List String)
    | _, 0, r => some ([], r)
    | 0, _ + 1, _ => none
    | f + 1, n + 1, toks =>
      match parseV f toks with
      | some (k, r') =>
        match parseV f r' with
        | some (v, r'') => (parseItems f n r'').map fun (is, r3) => ((k, v) :: is, r3)
        | none => none
      | none => none
end

def parseValue (toks : List String) : Option (WValue × List String) :=
  parseV (2 * toks.length + 2) toks

end ThriftVerif.Wire
