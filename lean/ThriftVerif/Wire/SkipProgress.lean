/-
M-Wire proofs: progress of `Skip` — a skip that ends inside the input (`over = 0`) consumed
at least one byte per skipped element; a position already past the end stays past the end.
Used for the C13 bound on declared counts of lazily decoded containers.
-/
import ThriftVerif.Wire.SkipAgree
import ThriftVerif.Wire.Canonical

set_option linter.unusedSimpArgs false

namespace ThriftVerif.Wire

theorem discard_progress {seek : Bool} {n : Nat} {s a : St} (h : discard seek n s = some a) :
    (s.2 > 0 → a.2 > 0) ∧ (a.2 = 0 → s.2 = 0 ∧ a.1.length + n = s.1.length) := by
  unfold discard at h
  split at h
  · rename_i hc
    cases h
    refine ⟨fun h0 => by omega, fun _ => ⟨hc.2, by simp; omega⟩⟩
  · rename_i hc
    split at h
    · cases h
      refine ⟨fun h0 => by simp; omega, ?_⟩
      intro ha
      simp at ha
      exfalso
      apply hc
      constructor <;> omega
    · cases h

theorem stByte_progress {s a : St} {b : UInt8} (h : stByte s = some (b, a)) :
    a.2 = s.2 ∧ a.1.length + 1 = s.1.length := by
  unfold stByte at h
  split at h
  · rename_i b' r hs; cases h; simp [hs]
  · cases h

theorem stRdLen_progress {s a : St} {n : Nat} (h : stRdLen s = some (n, a)) :
    a.2 = s.2 ∧ a.1.length + 4 = s.1.length := by
  unfold stRdLen at h
  split at h
  · rename_i n' r hr
    cases h
    have := (rdLen_some hr).2.2
    exact ⟨rfl, this⟩
  · cases h

/-- invariants proved together by induction on fuel. -/
def ProgAt (seek : Bool) (f : Nat) : Prop :=
  (∀ t s a, skip seek f t s = .ok a →
      (s.2 > 0 → a.2 > 0) ∧ (a.2 = 0 → s.2 = 0 ∧ a.1.length < s.1.length)) ∧
  (∀ s a, skipStruct seek f s = .ok a →
      (s.2 > 0 → a.2 > 0) ∧ (a.2 = 0 → s.2 = 0 ∧ a.1.length < s.1.length)) ∧
  (∀ et n s a, skipN seek f et n s = .ok a →
      (s.2 > 0 → a.2 > 0) ∧ (a.2 = 0 → s.2 = 0 ∧ a.1.length + n ≤ s.1.length)) ∧
  (∀ kt vt n s a, skipKV seek f kt vt n s = .ok a →
      (s.2 > 0 → a.2 > 0) ∧ (a.2 = 0 → s.2 = 0 ∧ a.1.length + n ≤ s.1.length))

theorem fixedWidth_pos_le (t : UInt8) (h : 0 < fixedWidth t) : 1 ≤ fixedWidth t := h

theorem progAt (seek : Bool) (f : Nat) : ProgAt seek f := by
  induction f with
  | zero =>
    refine ⟨?_, ?_, ?_, ?_⟩
    · intro t s a h; simp [skip] at h
    · intro s a h; simp [skipStruct] at h
    · intro et n s a h
      cases n with
      | zero => rw [skipN_zero h]; exact ⟨id, fun h0 => ⟨h0, by omega⟩⟩
      | succ n => simp [skipN] at h
    · intro kt vt n s a h
      cases n with
      | zero => rw [skipKV_zero h]; exact ⟨id, fun h0 => ⟨h0, by omega⟩⟩
      | succ n => simp [skipKV] at h
  | succ f ih =>
    obtain ⟨ihS, ihT, ihN, ihK⟩ := ih
    refine ⟨?_, ?_, ?_, ?_⟩
    · intro t s a h
      unfold skip at h
      by_cases hfx : 0 < fixedWidth t
      · simp only [hfx, if_true] at h
        cases hd : discard seek (fixedWidth t) s with
        | none => simp [hd] at h
        | some s' =>
          simp [hd] at h; subst h
          obtain ⟨p1, p2⟩ := discard_progress hd
          exact ⟨p1, fun h0 => ⟨(p2 h0).1, by have := (p2 h0).2; omega⟩⟩
      · simp only [hfx, if_false] at h
        cases ht : TType.ofByte t with
        | none => simp [ht] at h
        | some tt =>
          simp only [ht] at h
          cases tt <;> simp only [] at h <;> try (cases h; done)
          case binary =>
            cases hl : stRdLen s with
            | none => simp [hl] at h
            | some p =>
              obtain ⟨n, s'⟩ := p
              simp only [hl] at h
              obtain ⟨q1, q2⟩ := stRdLen_progress hl
              cases hd : discard seek n s' with
              | none => simp [hd] at h
              | some s'' =>
                simp [hd] at h; subst h
                obtain ⟨p1, p2⟩ := discard_progress hd
                refine ⟨fun h0 => p1 (by omega), fun h0 => ?_⟩
                have := p2 h0
                exact ⟨by omega, by omega⟩
          case struct => exact ihT s a h
          case map =>
            cases hb1 : stByte s with
            | none => simp [hb1] at h
            | some p1 =>
              obtain ⟨kt, s1⟩ := p1
              simp only [hb1] at h
              obtain ⟨b1, b2⟩ := stByte_progress hb1
              cases hb2 : stByte s1 with
              | none => simp [hb2] at h
              | some p2 =>
                obtain ⟨vt, s2⟩ := p2
                simp only [hb2] at h
                obtain ⟨c1, c2⟩ := stByte_progress hb2
                cases hl : stRdLen s2 with
                | none => simp [hl] at h
                | some p3 =>
                  obtain ⟨n, s3⟩ := p3
                  simp only [hl] at h
                  obtain ⟨d1, d2⟩ := stRdLen_progress hl
                  by_cases hfw : 0 < fixedWidth kt ∧ 0 < fixedWidth vt
                  · simp only [hfw, and_self, if_true] at h
                    cases hd : discard seek (n * (fixedWidth kt + fixedWidth vt)) s3 with
                    | none => simp [hd] at h
                    | some s' =>
                      simp [hd] at h; subst h
                      obtain ⟨p1, p2⟩ := discard_progress hd
                      refine ⟨fun h0 => p1 (by omega), fun h0 => ?_⟩
                      have := p2 h0
                      exact ⟨by omega, by omega⟩
                  · simp only [hfw, if_false] at h
                    obtain ⟨p1, p2⟩ := ihK kt vt n s3 a h
                    refine ⟨fun h0 => p1 (by omega), fun h0 => ?_⟩
                    have := p2 h0
                    exact ⟨by omega, by omega⟩
          case set =>
            cases hb1 : stByte s with
            | none => simp [hb1] at h
            | some p1 =>
              obtain ⟨et, s1⟩ := p1
              simp only [hb1] at h
              obtain ⟨b1, b2⟩ := stByte_progress hb1
              cases hl : stRdLen s1 with
              | none => simp [hl] at h
              | some p3 =>
                obtain ⟨n, s2⟩ := p3
                simp only [hl] at h
                obtain ⟨d1, d2⟩ := stRdLen_progress hl
                by_cases hfw : 0 < fixedWidth et
                · simp only [hfw, if_true] at h
                  cases hd : discard seek (fixedWidth et * n) s2 with
                  | none => simp [hd] at h
                  | some s' =>
                    simp [hd] at h; subst h
                    obtain ⟨p1, p2⟩ := discard_progress hd
                    refine ⟨fun h0 => p1 (by omega), fun h0 => ?_⟩
                    have := p2 h0
                    exact ⟨by omega, by omega⟩
                · simp only [hfw, if_false] at h
                  obtain ⟨p1, p2⟩ := ihN et n s2 a h
                  refine ⟨fun h0 => p1 (by omega), fun h0 => ?_⟩
                  have := p2 h0
                  exact ⟨by omega, by omega⟩
          case list =>
            cases hb1 : stByte s with
            | none => simp [hb1] at h
            | some p1 =>
              obtain ⟨et, s1⟩ := p1
              simp only [hb1] at h
              obtain ⟨b1, b2⟩ := stByte_progress hb1
              cases hl : stRdLen s1 with
              | none => simp [hl] at h
              | some p3 =>
                obtain ⟨n, s2⟩ := p3
                simp only [hl] at h
                obtain ⟨d1, d2⟩ := stRdLen_progress hl
                by_cases hfw : 0 < fixedWidth et
                · simp only [hfw, if_true] at h
                  cases hd : discard seek (fixedWidth et * n) s2 with
                  | none => simp [hd] at h
                  | some s' =>
                    simp [hd] at h; subst h
                    obtain ⟨p1, p2⟩ := discard_progress hd
                    refine ⟨fun h0 => p1 (by omega), fun h0 => ?_⟩
                    have := p2 h0
                    exact ⟨by omega, by omega⟩
                · simp only [hfw, if_false] at h
                  obtain ⟨p1, p2⟩ := ihN et n s2 a h
                  refine ⟨fun h0 => p1 (by omega), fun h0 => ?_⟩
                  have := p2 h0
                  exact ⟨by omega, by omega⟩
    · intro s a h
      unfold skipStruct at h
      cases hb : stByte s with
      | none => simp [hb] at h
      | some p =>
        obtain ⟨t, s1⟩ := p
        simp only [hb] at h
        obtain ⟨b1, b2⟩ := stByte_progress hb
        by_cases ht : t = 0
        · simp only [ht, if_true] at h; cases h
          exact ⟨fun h0 => by omega, fun h0 => ⟨by omega, by omega⟩⟩
        · simp only [ht, if_false] at h
          cases hd : discard seek 2 s1 with
          | none => simp [hd] at h
          | some s2 =>
            simp only [hd] at h
            obtain ⟨d1, d2⟩ := discard_progress hd
            cases hs : skip seek f t s2 with
            | error e => simp [hs] at h
            | ok s3 =>
              simp only [hs] at h
              obtain ⟨e1, e2⟩ := ihS t s2 s3 hs
              obtain ⟨g1, g2⟩ := ihT s3 a h
              refine ⟨fun h0 => g1 (e1 (d1 (by omega))), fun h0 => ?_⟩
              have k3 := g2 h0
              have k2 := e2 k3.1
              have k1 := d2 k2.1
              exact ⟨by omega, by omega⟩
    · intro et n s a h
      cases n with
      | zero => rw [skipN_zero h]; exact ⟨id, fun h0 => ⟨h0, by omega⟩⟩
      | succ n =>
        simp only [skipN] at h
        cases hs : skip seek f et s with
        | error e => simp [hs] at h
        | ok s1 =>
          simp only [hs] at h
          obtain ⟨e1, e2⟩ := ihS et s s1 hs
          obtain ⟨g1, g2⟩ := ihN et n s1 a h
          refine ⟨fun h0 => g1 (e1 h0), fun h0 => ?_⟩
          have k2 := g2 h0
          have k1 := e2 k2.1
          exact ⟨k1.1, by omega⟩
    · intro kt vt n s a h
      cases n with
      | zero => rw [skipKV_zero h]; exact ⟨id, fun h0 => ⟨h0, by omega⟩⟩
      | succ n =>
        simp only [skipKV] at h
        cases hk : skip seek f kt s with
        | error e => simp [hk] at h
        | ok s1 =>
          simp only [hk] at h
          cases hv : skip seek f vt s1 with
          | error e => simp [hv] at h
          | ok s2 =>
            simp only [hv] at h
            obtain ⟨e1, e2⟩ := ihS kt s s1 hk
            obtain ⟨f1, f2⟩ := ihS vt s1 s2 hv
            obtain ⟨g1, g2⟩ := ihK kt vt n s2 a h
            refine ⟨fun h0 => g1 (f1 (e1 h0)), fun h0 => ?_⟩
            have k3 := g2 h0
            have k2 := f2 k3.1
            have k1 := e2 k2.1
            exact ⟨k1.1, by omega⟩

/-- a list/set skip that ends inside the input skipped at most as many items as there were bytes. -/
theorem skipListItems_count {seek : Bool} {f : Nat} {et : UInt8} {n : Nat} {s a : St}
    (h : skipListItems seek f et n s = .ok a) (ha : a.2 = 0) : s.2 = 0 ∧ a.1.length + n ≤ s.1.length := by
  unfold skipListItems at h
  by_cases hfw : 0 < fixedWidth et
  · simp only [hfw, if_true] at h
    cases hd : discard seek (fixedWidth et * n) s with
    | none => simp [hd] at h
    | some s' =>
      simp [hd] at h; subst h
      have := (discard_progress hd).2 ha
      refine ⟨this.1, ?_⟩
      have hn : n ≤ fixedWidth et * n := Nat.le_mul_of_pos_left n hfw
      omega
  · simp only [hfw, if_false] at h
    exact ((progAt seek f).2.2.1 et n s a h).2 ha

theorem skipMapItems_count {seek : Bool} {f : Nat} {kt vt : UInt8} {n : Nat} {s a : St}
    (h : skipMapItems seek f kt vt n s = .ok a) (ha : a.2 = 0) : s.2 = 0 ∧ a.1.length + n ≤ s.1.length := by
  unfold skipMapItems at h
  by_cases hfw : 0 < fixedWidth kt ∧ 0 < fixedWidth vt
  · simp only [hfw, and_self, if_true] at h
    cases hd : discard seek (n * (fixedWidth kt + fixedWidth vt)) s with
    | none => simp [hd] at h
    | some s' =>
      simp [hd] at h; subst h
      have := (discard_progress hd).2 ha
      refine ⟨this.1, ?_⟩
      have hn : n ≤ n * (fixedWidth kt + fixedWidth vt) := Nat.le_mul_of_pos_right n (by omega)
      omega
  · simp only [hfw, if_false] at h
    exact ((progAt seek f).2.2.2 kt vt n s a h).2 ha

end ThriftVerif.Wire
