/-
M-Wire proofs: whatever the stream discard (`io.CopyN` into `io.Discard`) skips successfully, the
seeking discard skips to the same position — the seeking `Skip` is the more permissive of the two.

Core-only.
-/
import ThriftVerif.Wire.SkipAgree

set_option linter.unusedSimpArgs false

namespace ThriftVerif.Wire

theorem discard_seek_of_stream {n : Nat} {s a : St} (h : discard false n s = some a) :
    discard true n s = some a := by
  unfold discard at h ⊢
  split at h
  · rename_i hc; simp [hc] at h ⊢; exact h
  · simp at h

def SeekOfStreamAt (f : Nat) : Prop :=
  (∀ t s a, skip false f t s = .ok a → skip true f t s = .ok a) ∧
  (∀ s a, skipStruct false f s = .ok a → skipStruct true f s = .ok a) ∧
  (∀ et n s a, skipN false f et n s = .ok a → skipN true f et n s = .ok a) ∧
  (∀ kt vt n s a, skipKV false f kt vt n s = .ok a → skipKV true f kt vt n s = .ok a)

theorem seekOfStreamAt (f : Nat) : SeekOfStreamAt f := by
  induction f with
  | zero =>
    refine ⟨?_, ?_, ?_, ?_⟩
    · intro t s a h; simp [skip] at h
    · intro s a h; simp [skipStruct] at h
    · intro et n s a h
      cases n with
      | zero => simpa [skipN] using h
      | succ n => simp [skipN] at h
    · intro kt vt n s a h
      cases n with
      | zero => simpa [skipKV] using h
      | succ n => simp [skipKV] at h
  | succ f ih =>
    obtain ⟨ihS, ihT, ihN, ihK⟩ := ih
    refine ⟨?_, ?_, ?_, ?_⟩
    · intro t s a h
      unfold skip at h ⊢
      split at h
      · rename_i hfw
        simp only [hfw, if_true]
        cases hd : discard false (fixedWidth t) s with
        | none => simp [hd] at h
        | some s' => simp only [hd] at h; simp [discard_seek_of_stream hd, h]
      · rename_i hfw
        simp only [hfw, if_false]
        split at h
        · -- binary
          cases hr : stRdLen s with
          | none => simp [hr] at h
          | some p =>
            obtain ⟨n, s'⟩ := p
            simp only [hr] at h ⊢
            cases hd : discard false n s' with
            | none => simp [hd] at h
            | some s'' => simp only [hd] at h; simp [discard_seek_of_stream hd, h]
        · exact ihT s a h
        · -- map
          cases hb1 : stByte s with
          | none => simp [hb1] at h
          | some p1 =>
            obtain ⟨kt, s1⟩ := p1
            simp only [hb1] at h ⊢
            cases hb2 : stByte s1 with
            | none => simp [hb2] at h
            | some p2 =>
              obtain ⟨vt, s2⟩ := p2
              simp only [hb2] at h ⊢
              cases hr : stRdLen s2 with
              | none => simp [hr] at h
              | some p3 =>
                obtain ⟨n, s3⟩ := p3
                simp only [hr] at h ⊢
                split at h
                · rename_i hc
                  simp only [hc, and_self, if_true]
                  cases hd : discard false (n * (fixedWidth kt + fixedWidth vt)) s3 with
                  | none => simp [hd] at h
                  | some s' => simp only [hd] at h; simp [discard_seek_of_stream hd, h]
                · rename_i hc
                  simp only [hc, if_false]
                  exact ihK kt vt n s3 a h
        · -- set
          cases hb1 : stByte s with
          | none => simp [hb1] at h
          | some p1 =>
            obtain ⟨et, s1⟩ := p1
            simp only [hb1] at h ⊢
            cases hr : stRdLen s1 with
            | none => simp [hr] at h
            | some p3 =>
              obtain ⟨n, s2⟩ := p3
              simp only [hr] at h ⊢
              split at h
              · rename_i hc
                simp only [hc, if_true]
                cases hd : discard false (fixedWidth et * n) s2 with
                | none => simp [hd] at h
                | some s' => simp only [hd] at h; simp [discard_seek_of_stream hd, h]
              · rename_i hc
                simp only [hc, if_false]
                exact ihN et n s2 a h
        · -- list
          cases hb1 : stByte s with
          | none => simp [hb1] at h
          | some p1 =>
            obtain ⟨et, s1⟩ := p1
            simp only [hb1] at h ⊢
            cases hr : stRdLen s1 with
            | none => simp [hr] at h
            | some p3 =>
              obtain ⟨n, s2⟩ := p3
              simp only [hr] at h ⊢
              split at h
              · rename_i hc
                simp only [hc, if_true]
                cases hd : discard false (fixedWidth et * n) s2 with
                | none => simp [hd] at h
                | some s' => simp only [hd] at h; simp [discard_seek_of_stream hd, h]
              · rename_i hc
                simp only [hc, if_false]
                exact ihN et n s2 a h
        · cases h
    · intro s a h
      unfold skipStruct at h ⊢
      cases hb : stByte s with
      | none => simp [hb] at h
      | some p =>
        obtain ⟨t, s1⟩ := p
        simp only [hb] at h ⊢
        split at h
        · rename_i ht; simp only [ht, if_true]; exact h
        · rename_i ht
          simp only [ht, if_false]
          cases hd : discard false 2 s1 with
          | none => simp [hd] at h
          | some s2 =>
            simp only [hd] at h
            simp only [discard_seek_of_stream hd]
            cases hs : skip false f t s2 with
            | error e => simp [hs] at h
            | ok s3 =>
              simp only [hs] at h
              simp only [ihS t s2 s3 hs]
              exact ihT s3 a h
    · intro et n s a h
      cases n with
      | zero => simpa [skipN] using h
      | succ n =>
        simp only [skipN] at h ⊢
        cases hs : skip false f et s with
        | error e => simp [hs] at h
        | ok s' =>
          simp only [hs] at h
          simp only [ihS et s s' hs]
          exact ihN et n s' a h
    · intro kt vt n s a h
      cases n with
      | zero => simpa [skipKV] using h
      | succ n =>
        simp only [skipKV] at h ⊢
        cases hs1 : skip false f kt s with
        | error e => simp [hs1] at h
        | ok s1 =>
          simp only [hs1] at h
          simp only [ihS kt s s1 hs1]
          cases hs2 : skip false f vt s1 with
          | error e => simp [hs2] at h
          | ok s2 =>
            simp only [hs2] at h
            simp only [ihS vt s1 s2 hs2]
            exact ihK kt vt n s2 a h

/-- a successful stream skip is also a successful seeking skip, to the same position. -/
theorem skip_seek_of_stream {f : Nat} {t : UInt8} {s a : St} (h : skip false f t s = .ok a) :
    skip true f t s = .ok a := (seekOfStreamAt f).1 t s a h

theorem skipN_seek_of_stream {f : Nat} {et : UInt8} {n : Nat} {s a : St} (h : skipN false f et n s = .ok a) :
    skipN true f et n s = .ok a := (seekOfStreamAt f).2.2.1 et n s a h

theorem skipKV_seek_of_stream {f : Nat} {kt vt : UInt8} {n : Nat} {s a : St}
    (h : skipKV false f kt vt n s = .ok a) : skipKV true f kt vt n s = .ok a :=
  (seekOfStreamAt f).2.2.2 kt vt n s a h

end ThriftVerif.Wire
