/-
M-Wire, part 5: the writer side as the code structures it.

`WriteOp` is one call on `stream.Writer` (protocol/binary/stream_writer.go),
`runOp` the bytes that call emits, `opsOfValue` the call sequence
`Writer.WriteValue` (protocol/binary/writer.go) performs for a value — which is
also the sequence generated `Encode` methods perform. The theorem
`runOps_opsOfValue` says this structured writer emits exactly the declarative
format `enc`.

Core-only.
-/
import ThriftVerif.Wire.Value

namespace ThriftVerif.Wire

inductive WriteOp where
  | bool (b : Bool) | i8 (v : UInt8) | i16 (v : UInt16) | i32 (v : UInt32) | i64 (v : UInt64)
  | double (bits : UInt64) | binary (bs : Bytes)
  | structBegin | structEnd | fieldBegin (t : UInt8) (id : UInt16) | fieldEnd
  | mapBegin (kt vt : UInt8) (n : Nat) | mapEnd
  | setBegin (et : UInt8) (n : Nat) | setEnd
  | listBegin (et : UInt8) (n : Nat) | listEnd
  deriving Repr

/-- bytes emitted by one `StreamWriter` call. -/
def runOp : WriteOp → Bytes
  | .bool b => [if b then 1 else 0]
  | .i8 v => [v]
  | .i16 v => beN 2 v.toNat
  | .i32 v => beN 4 v.toNat
  | .i64 v => beN 8 v.toNat
  | .double v => beN 8 v.toNat
  | .binary bs => beN 4 bs.length ++ bs
  | .structBegin => []
  | .structEnd => [0]
  | .fieldBegin t id => t :: beN 2 id.toNat
  | .fieldEnd => []
  | .mapBegin kt vt n => kt :: vt :: beN 4 n
  | .mapEnd => []
  | .setBegin et n => et :: beN 4 n
  | .setEnd => []
  | .listBegin et n => et :: beN 4 n
  | .listEnd => []

def runOps : List WriteOp → Bytes
  | [] => []
  | o :: os => runOp o ++ runOps os

theorem runOps_append (a b : List WriteOp) : runOps (a ++ b) = runOps a ++ runOps b := by
  induction a with
  | nil => rfl
  | cons o os ih => simp [runOps, ih, List.append_assoc]

mutual
  /-- `Writer.WriteValue`. -/
  def opsOfValue : WValue → List WriteOp
    | .bool b => [.bool b]
    | .i8 v => [.i8 v]
    | .double v => [.double v]
    | .i16 v => [.i16 v]
    | .i32 v => [.i32 v]
    | .i64 v => [.i64 v]
    | .binary bs => [.binary bs]
    | .struct fs => .structBegin :: (opsOfFields fs ++ [.structEnd])
    | .map kt vt is => .mapBegin kt vt is.length :: (opsOfItems is ++ [.mapEnd])
    | .set et vs => .setBegin et vs.length :: (opsOfList vs ++ [.setEnd])
    | .list et vs => .listBegin et vs.length :: (opsOfList vs ++ [.listEnd])
  /-- `writeField` for each field. -/
  def opsOfFields : List (UInt16 × WValue) → List WriteOp
    | [] => []
    | (id, v) :: fs => .fieldBegin v.tcode id :: (opsOfValue v ++ (.fieldEnd :: opsOfFields fs))
  def opsOfList : List WValue → List WriteOp
    | [] => []
    | v :: vs => opsOfValue v ++ opsOfList vs
  def opsOfItems : List (WValue × WValue) → List WriteOp
    | [] => []
    | (k, v) :: is => opsOfValue k ++ (opsOfValue v ++ opsOfItems is)
end

mutual
  theorem runOps_opsOfValue (v : WValue) : runOps (opsOfValue v) = enc v := by
    cases v with
    | struct fs =>
      have := runOps_opsOfFields fs
      simp [opsOfValue, runOps, runOps_append, runOp, enc, this]
    | map kt vt is =>
      have := runOps_opsOfItems is
      simp [opsOfValue, runOps, runOps_append, runOp, enc, this]
    | set et vs =>
      have := runOps_opsOfList vs
      simp [opsOfValue, runOps, runOps_append, runOp, enc, this]
    | list et vs =>
      have := runOps_opsOfList vs
      simp [opsOfValue, runOps, runOps_append, runOp, enc, this]
    | _ => simp [opsOfValue, runOps, runOp, enc]
  theorem runOps_opsOfFields (fs : List (UInt16 × WValue)) :
      runOps (opsOfFields fs) ++ [0] = encFields fs := by
    match fs with
    | [] => simp [opsOfFields, runOps, encFields]
    | (id, v) :: fs =>
      have h1 := runOps_opsOfValue v
      have h2 := runOps_opsOfFields fs
      simp [opsOfFields, runOps, runOps_append, runOp, encFields, h1, ← h2, List.append_assoc]
  theorem runOps_opsOfList (vs : List WValue) : runOps (opsOfList vs) = encList vs := by
    match vs with
    | [] => simp [opsOfList, runOps, encList]
    | v :: vs =>
      have h1 := runOps_opsOfValue v
      have h2 := runOps_opsOfList vs
      simp [opsOfList, runOps_append, encList, h1, h2]
  theorem runOps_opsOfItems (is : List (WValue × WValue)) : runOps (opsOfItems is) = encItems is := by
    match is with
    | [] => simp [opsOfItems, runOps, encItems]
    | (k, v) :: is =>
      have h1 := runOps_opsOfValue k
      have h2 := runOps_opsOfValue v
      have h3 := runOps_opsOfItems is
      simp [opsOfItems, runOps_append, encItems, h1, h2, h3]
end

end ThriftVerif.Wire
