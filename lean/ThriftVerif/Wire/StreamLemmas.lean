/-
M-Wire proofs about the stream discard (`io.CopyN` into `io.Discard`): it never leaves the
input, fixed-width item loops are one block, and more fuel never changes a successful skip.

Core-only.
-/
import ThriftVerif.Wire.SeekOfStream
import ThriftVerif.Wire.SkipProgress

set_option linter.unusedSimpArgs false

namespace ThriftVerif.Wire

theorem discard_stream_over {n : Nat} {s a : St} (h : discard false n s = some a) :
    s.2 = 0 ∧ a = (s.1.drop n, 0) ∧ n ≤ s.1.length := by
  unfold discard at h
  split at h
  · rename_i hc; cases h; exact ⟨hc.2, rfl, hc.1⟩
  · simp at h

/-- a successful stream skip starts and ends inside the input. -/
def StreamOverAt (f : Nat) : Prop :=
  (∀ t s a, s.2 = 0 → skip false f t s = .ok a → a.2 = 0) ∧
  (∀ s a, s.2 = 0 → skipStruct false f s = .ok a → a.2 = 0) ∧
  (∀ et n s a, s.2 = 0 → skipN false f et n s = .ok a → a.2 = 0) ∧
  (∀ kt vt n s a, s.2 = 0 → skipKV false f kt vt n s = .ok a → a.2 = 0)

theorem streamOverAt (f : Nat) : StreamOverAt f := by
  induction f with
  | zero =>
    refine ⟨?_, ?_, ?_, ?_⟩
    · intro t s a _ h; simp [skip] at h
    · intro s a _ h; simp [skipStruct] at h
    · intro et n s a h0 h
      cases n with
      | zero => rw [skipN_zero h]; exact h0
      | succ n => simp [skipN] at h
    · intro kt vt n s a h0 h
      cases n with
      | zero => rw [skipKV_zero h]; exact h0
      | succ n => simp [skipKV] at h
  | succ f ih =>
    obtain ⟨ihS, ihT, ihN, ihK⟩ := ih
    refine ⟨?_, ?_, ?_, ?_⟩
    · intro t s a h0 h
      unfold skip at h
      split at h
      · cases hd : discard false (fixedWidth t) s with
        | none => simp [hd] at h
        | some s' =>
          simp only [hd, Except.ok.injEq] at h; subst h
          rw [(discard_stream_over hd).2.1]
      · split at h
        · cases hr : stRdLen s with
          | none => simp [hr] at h
          | some p =>
            obtain ⟨n, s'⟩ := p
            simp only [hr] at h
            cases hd : discard false n s' with
            | none => simp [hd] at h
            | some s'' =>
              simp only [hd, Except.ok.injEq] at h; subst h
              rw [(discard_stream_over hd).2.1]
        · exact ihT s a h0 h
        · cases hb1 : stByte s with
          | none => simp [hb1] at h
          | some p1 =>
            obtain ⟨kt, s1⟩ := p1
            simp only [hb1] at h
            cases hb2 : stByte s1 with
            | none => simp [hb2] at h
            | some p2 =>
              obtain ⟨vt, s2⟩ := p2
              simp only [hb2] at h
              cases hr : stRdLen s2 with
              | none => simp [hr] at h
              | some p3 =>
                obtain ⟨n, s3⟩ := p3
                simp only [hr] at h
                have e1 := (stByte_progress hb1).1
                have e2 := (stByte_progress hb2).1
                have e3 := (stRdLen_progress hr).1
                split at h
                · cases hd : discard false (n * (fixedWidth kt + fixedWidth vt)) s3 with
                  | none => simp [hd] at h
                  | some s' =>
                    simp only [hd, Except.ok.injEq] at h; subst h
                    rw [(discard_stream_over hd).2.1]
                · exact ihK kt vt n s3 a (by omega) h
        · cases hb1 : stByte s with
          | none => simp [hb1] at h
          | some p1 =>
            obtain ⟨et, s1⟩ := p1
            simp only [hb1] at h
            cases hr : stRdLen s1 with
            | none => simp [hr] at h
            | some p3 =>
              obtain ⟨n, s2⟩ := p3
              simp only [hr] at h
              have e1 := (stByte_progress hb1).1
              have e3 := (stRdLen_progress hr).1
              split at h
              · cases hd : discard false (fixedWidth et * n) s2 with
                | none => simp [hd] at h
                | some s' =>
                  simp only [hd, Except.ok.injEq] at h; subst h
                  rw [(discard_stream_over hd).2.1]
              · exact ihN et n s2 a (by omega) h
        · cases hb1 : stByte s with
          | none => simp [hb1] at h
          | some p1 =>
            obtain ⟨et, s1⟩ := p1
            simp only [hb1] at h
            cases hr : stRdLen s1 with
            | none => simp [hr] at h
            | some p3 =>
              obtain ⟨n, s2⟩ := p3
              simp only [hr] at h
              have e1 := (stByte_progress hb1).1
              have e3 := (stRdLen_progress hr).1
              split at h
              · cases hd : discard false (fixedWidth et * n) s2 with
                | none => simp [hd] at h
                | some s' =>
                  simp only [hd, Except.ok.injEq] at h; subst h
                  rw [(discard_stream_over hd).2.1]
              · exact ihN et n s2 a (by omega) h
        · cases h
    · intro s a h0 h
      unfold skipStruct at h
      cases hb : stByte s with
      | none => simp [hb] at h
      | some p =>
        obtain ⟨t, s1⟩ := p
        simp only [hb] at h
        have e1 := (stByte_progress hb).1
        split at h
        · simp only [Except.ok.injEq] at h; subst h; omega
        · cases hd : discard false 2 s1 with
          | none => simp [hd] at h
          | some s2 =>
            simp only [hd] at h
            have e2 : s2.2 = 0 := by rw [(discard_stream_over hd).2.1]
            cases hs : skip false f t s2 with
            | error e => simp [hs] at h
            | ok s3 =>
              simp only [hs] at h
              exact ihT s3 a (ihS t s2 s3 e2 hs) h
    · intro et n s a h0 h
      cases n with
      | zero => rw [skipN_zero h]; exact h0
      | succ n =>
        simp only [skipN] at h
        cases hs : skip false f et s with
        | error e => simp [hs] at h
        | ok s' =>
          simp only [hs] at h
          exact ihN et n s' a (ihS et s s' h0 hs) h
    · intro kt vt n s a h0 h
      cases n with
      | zero => rw [skipKV_zero h]; exact h0
      | succ n =>
        simp only [skipKV] at h
        cases hs1 : skip false f kt s with
        | error e => simp [hs1] at h
        | ok s1 =>
          simp only [hs1] at h
          cases hs2 : skip false f vt s1 with
          | error e => simp [hs2] at h
          | ok s2 =>
            simp only [hs2] at h
            exact ihK kt vt n s2 a (ihS vt s1 s2 (ihS kt s s1 h0 hs1) hs2) h

theorem skip_stream_over {f : Nat} {t : UInt8} {s a : St} (h0 : s.2 = 0) (h : skip false f t s = .ok a) :
    a.2 = 0 := (streamOverAt f).1 t s a h0 h

theorem skipN_stream_over {f : Nat} {et : UInt8} {n : Nat} {s a : St} (h0 : s.2 = 0)
    (h : skipN false f et n s = .ok a) : a.2 = 0 := (streamOverAt f).2.2.1 et n s a h0 h

theorem skipKV_stream_over {f : Nat} {kt vt : UInt8} {n : Nat} {s a : St} (h0 : s.2 = 0)
    (h : skipKV false f kt vt n s = .ok a) : a.2 = 0 := (streamOverAt f).2.2.2 kt vt n s a h0 h

/-! ### more fuel never changes a successful skip -/

def MonoAt (seek : Bool) (f : Nat) : Prop :=
  (∀ t s a, skip seek f t s = .ok a → skip seek (f + 1) t s = .ok a) ∧
  (∀ s a, skipStruct seek f s = .ok a → skipStruct seek (f + 1) s = .ok a) ∧
  (∀ et n s a, skipN seek f et n s = .ok a → skipN seek (f + 1) et n s = .ok a) ∧
  (∀ kt vt n s a, skipKV seek f kt vt n s = .ok a → skipKV seek (f + 1) kt vt n s = .ok a)

theorem monoAt (seek : Bool) (f : Nat) : MonoAt seek f := by
  induction f with
  | zero =>
    refine ⟨?_, ?_, ?_, ?_⟩
    · intro t s a h; simp [skip] at h
    · intro s a h; simp [skipStruct] at h
    · intro et n s a h
      cases n with
      | zero => simpa [skipN] using h
      | succ n => simp [skipN] at h
    · intro kt vt n s a h
      cases n with
      | zero => simpa [skipKV] using h
      | succ n => simp [skipKV] at h
  | succ f ih =>
    obtain ⟨ihS, ihT, ihN, ihK⟩ := ih
    refine ⟨?_, ?_, ?_, ?_⟩
    · intro t s a h
      unfold skip at h ⊢
      split at h
      · rename_i hfw; simp only [hfw, if_true]; exact h
      · rename_i hfw
        simp only [hfw, if_false]
        split at h
        · exact h
        · exact ihT s a h
        · cases hb1 : stByte s with
          | none => simp [hb1] at h
          | some p1 =>
            obtain ⟨kt, s1⟩ := p1
            simp only [hb1] at h ⊢
            cases hb2 : stByte s1 with
            | none => simp [hb2] at h
            | some p2 =>
              obtain ⟨vt, s2⟩ := p2
              simp only [hb2] at h ⊢
              cases hr : stRdLen s2 with
              | none => simp [hr] at h
              | some p3 =>
                obtain ⟨n, s3⟩ := p3
                simp only [hr] at h ⊢
                split at h
                · rename_i hc; simp only [hc, and_self, if_true]; exact h
                · rename_i hc; simp only [hc, if_false]; exact ihK kt vt n s3 a h
        · cases hb1 : stByte s with
          | none => simp [hb1] at h
          | some p1 =>
            obtain ⟨et, s1⟩ := p1
            simp only [hb1] at h ⊢
            cases hr : stRdLen s1 with
            | none => simp [hr] at h
            | some p3 =>
              obtain ⟨n, s2⟩ := p3
              simp only [hr] at h ⊢
              split at h
              · rename_i hc; simp only [hc, if_true]; exact h
              · rename_i hc; simp only [hc, if_false]; exact ihN et n s2 a h
        · cases hb1 : stByte s with
          | none => simp [hb1] at h
          | some p1 =>
            obtain ⟨et, s1⟩ := p1
            simp only [hb1] at h ⊢
            cases hr : stRdLen s1 with
            | none => simp [hr] at h
            | some p3 =>
              obtain ⟨n, s2⟩ := p3
              simp only [hr] at h ⊢
              split at h
              · rename_i hc; simp only [hc, if_true]; exact h
              · rename_i hc; simp only [hc, if_false]; exact ihN et n s2 a h
        · cases h
    · intro s a h
      unfold skipStruct at h ⊢
      cases hb : stByte s with
      | none => simp [hb] at h
      | some p =>
        obtain ⟨t, s1⟩ := p
        simp only [hb] at h ⊢
        split at h
        · rename_i ht; simp only [ht, if_true]; exact h
        · rename_i ht
          simp only [ht, if_false]
          cases hd : discard seek 2 s1 with
          | none => simp [hd] at h
          | some s2 =>
            simp only [hd] at h ⊢
            cases hs : skip seek f t s2 with
            | error e => simp [hs] at h
            | ok s3 =>
              simp only [hs] at h
              simp only [ihS t s2 s3 hs]
              exact ihT s3 a h
    · intro et n s a h
      cases n with
      | zero => simpa [skipN] using h
      | succ n =>
        simp only [skipN] at h ⊢
        cases hs : skip seek f et s with
        | error e => simp [hs] at h
        | ok s' =>
          simp only [hs] at h
          simp only [ihS et s s' hs]
          exact ihN et n s' a h
    · intro kt vt n s a h
      cases n with
      | zero => simpa [skipKV] using h
      | succ n =>
        simp only [skipKV] at h ⊢
        cases hs1 : skip seek f kt s with
        | error e => simp [hs1] at h
        | ok s1 =>
          simp only [hs1] at h
          simp only [ihS kt s s1 hs1]
          cases hs2 : skip seek f vt s1 with
          | error e => simp [hs2] at h
          | ok s2 =>
            simp only [hs2] at h
            simp only [ihS vt s1 s2 hs2]
            exact ihK kt vt n s2 a h

theorem skip_mono {seek : Bool} {f f' : Nat} {t : UInt8} {s a : St} (hle : f ≤ f')
    (h : skip seek f t s = .ok a) : skip seek f' t s = .ok a := by
  induction hle with
  | refl => exact h
  | step _ ih => exact (monoAt seek _).1 t s a ih

theorem skipStruct_mono {seek : Bool} {f f' : Nat} {s a : St} (hle : f ≤ f')
    (h : skipStruct seek f s = .ok a) : skipStruct seek f' s = .ok a := by
  induction hle with
  | refl => exact h
  | step _ ih => exact (monoAt seek _).2.1 s a ih

theorem skipN_mono {seek : Bool} {f f' : Nat} {et : UInt8} {n : Nat} {s a : St} (hle : f ≤ f')
    (h : skipN seek f et n s = .ok a) : skipN seek f' et n s = .ok a := by
  induction hle with
  | refl => exact h
  | step _ ih => exact (monoAt seek _).2.2.1 et n s a ih

theorem skipKV_mono {seek : Bool} {f f' : Nat} {kt vt : UInt8} {n : Nat} {s a : St} (hle : f ≤ f')
    (h : skipKV seek f kt vt n s = .ok a) : skipKV seek f' kt vt n s = .ok a := by
  induction hle with
  | refl => exact h
  | step _ ih => exact (monoAt seek _).2.2.2 kt vt n s a ih

/-! ### a loop over fixed-width items is one block -/

theorem discard_stream_add {a b : Nat} {s s1 s2 : St} (h1 : discard false a s = some s1)
    (h2 : discard false b s1 = some s2) : discard false (a + b) s = some s2 := by
  obtain ⟨e0, e1, l1⟩ := discard_stream_over h1
  obtain ⟨_, e2, l2⟩ := discard_stream_over h2
  subst e1; subst e2
  simp only [List.length_drop] at l2
  unfold discard
  simp only [e0, and_true]
  have : a + b ≤ s.1.length := by omega
  simp [this, List.drop_drop, Nat.add_comm]

theorem skip_fixed_stream {f : Nat} {t : UInt8} {s a : St} (hw : 0 < fixedWidth t)
    (h : skip false f t s = .ok a) : discard false (fixedWidth t) s = some a := by
  cases f with
  | zero => simp [skip] at h
  | succ f =>
    unfold skip at h
    simp only [hw, if_true] at h
    cases hd : discard false (fixedWidth t) s with
    | none => simp [hd] at h
    | some s' => simp only [hd, Except.ok.injEq] at h; subst h; rfl

theorem discard_stream_zero (s : St) (h0 : s.2 = 0) : discard false 0 s = some s := by
  unfold discard
  simp [h0]
  cases s; simp_all

/-- `for i < n { Skip(fixed-width) }` on a stream is one discard of `w·n` bytes. -/
theorem skipN_fixed_stream (et : UInt8) (hw : 0 < fixedWidth et) :
    ∀ (n f : Nat) (s a : St), s.2 = 0 → skipN false f et n s = .ok a →
      discard false (fixedWidth et * n) s = some a := by
  intro n
  induction n with
  | zero =>
    intro f s a h0 h
    rw [skipN_zero h]
    simpa using discard_stream_zero s h0
  | succ n ih =>
    intro f s a h0 h
    cases f with
    | zero => simp [skipN] at h
    | succ f =>
      simp only [skipN] at h
      cases hs : skip false f et s with
      | error e => simp [hs] at h
      | ok s' =>
        simp only [hs] at h
        have h1 := skip_fixed_stream hw hs
        have h2 := ih f s' a (skip_stream_over h0 hs) h
        have := discard_stream_add h1 h2
        rw [Nat.mul_succ, Nat.add_comm]
        exact this

theorem skipKV_fixed_stream (kt vt : UInt8) (hk : 0 < fixedWidth kt) (hv : 0 < fixedWidth vt) :
    ∀ (n f : Nat) (s a : St), s.2 = 0 → skipKV false f kt vt n s = .ok a →
      discard false (n * (fixedWidth kt + fixedWidth vt)) s = some a := by
  intro n
  induction n with
  | zero =>
    intro f s a h0 h
    rw [skipKV_zero h]
    simpa using discard_stream_zero s h0
  | succ n ih =>
    intro f s a h0 h
    cases f with
    | zero => simp [skipKV] at h
    | succ f =>
      simp only [skipKV] at h
      cases hs1 : skip false f kt s with
      | error e => simp [hs1] at h
      | ok s1 =>
        simp only [hs1] at h
        cases hs2 : skip false f vt s1 with
        | error e => simp [hs2] at h
        | ok s2 =>
          simp only [hs2] at h
          have h1 := skip_fixed_stream hk hs1
          have h2 := skip_fixed_stream hv hs2
          have h12 := discard_stream_add h1 h2
          have h3 := ih f s2 a (skip_stream_over (skip_stream_over h0 hs1) hs2) h
          have := discard_stream_add h12 h3
          rw [Nat.succ_mul, Nat.add_comm]
          exact this

end ThriftVerif.Wire
