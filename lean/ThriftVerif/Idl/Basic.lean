/-
M-Idl, part 1: bytes, character classes, positions.

Core-only (linked into the `idldrv` executable). Documents, identifiers, literals and
docstrings are byte strings (`List UInt8`): the Go lexer works on `[]byte` and never decodes
UTF-8 (only `strconv.Unquote` and `unicode.IsSpace` do, see Quote.lean / Docstring.lean).
-/
namespace ThriftVerif.Idl

abbrev Bytes := List UInt8

/-- ASCII string as bytes. (Kernel reduction of `str "…"` re-walks the string and gets slow
inside recursive functions; tables and theorem statements use the `b!"…"` literal below, and
`str` only where a `String` fact has to be compared.) -/
def str (s : String) : Bytes := s.toList.map (fun c => UInt8.ofNat c.toNat)

/-- `b!"abc"` elaborates to the explicit byte list `[97, 98, 99]` (UTF-8 bytes of the literal). -/
macro:max "b!" s:str : term => do
  let bs := s.getString.toUTF8.toList
  let elems := bs.map fun b => Lean.Syntax.mkNumLit (toString b.toNat)
  `(([$(elems.toArray),*] : List UInt8))

def isDigit (c : UInt8) : Bool := 48 ≤ c && c ≤ 57
def isHexDigit (c : UInt8) : Bool := isDigit c || (65 ≤ c && c ≤ 70) || (97 ≤ c && c ≤ 102)
def isOctDigit (c : UInt8) : Bool := 48 ≤ c && c ≤ 55
/-- `[a-zA-Z_]` -/
def isAlpha_ (c : UInt8) : Bool := (65 ≤ c && c ≤ 90) || (97 ≤ c && c ≤ 122) || c == 95
/-- `[a-zA-Z0-9_]` -/
def isAlnum_ (c : UInt8) : Bool := isAlpha_ c || isDigit c
/-- lex.rl `ws = [ \t\r]` -/
def isWs (c : UInt8) : Bool := c == 9 || c == 13 || c == 32
/-- `(ws | newline)` -/
def isBlank (c : UInt8) : Bool := isWs c || c == 10

/-- value of a hex digit (0 for non-digits; callers check `isHexDigit`). -/
def hexVal (c : UInt8) : Nat :=
  if isDigit c then c.toNat - 48
  else if 97 ≤ c && c ≤ 102 then c.toNat - 87
  else if 65 ≤ c && c ≤ 70 then c.toNat - 55
  else 0

/-- lower-case hex digit of `n < 16`. -/
def hexDigit (n : Nat) : UInt8 := if n < 10 then UInt8.ofNat (48 + n) else UInt8.ofNat (87 + n)

/-- number of `\n` bytes. -/
def countNL : Bytes → Nat
  | [] => 0
  | b :: bs => (if b = 10 then 1 else 0) + countNL bs

/-- A document position as the parser reports it: 1-based line, column that is 1-based for a
true position but may be ≤ 0 where the code's bookkeeping goes wrong (D18, end-of-input). -/
structure Pos where
  line : Int
  col : Int
  deriving DecidableEq, Repr, Inhabited

/-- Number of bytes after the last `\n` of `pre` (all of `pre` if it has none). -/
def tailLen (pre : Bytes) : Nat := (pre.reverse.takeWhile (· ≠ 10)).length

/-- The TRUE position of byte offset `off` of document `s`: line = 1 + number of `\n` among
the first `off` bytes, column = 1 + number of bytes between the last of those `\n` and `off`. -/
def lineCol (s : Bytes) (off : Nat) : Pos :=
  ⟨1 + countNL (s.take off), 1 + tailLen (s.take off)⟩

end ThriftVerif.Idl
