/-
M-Idl, part 4: numeric literals.

`lexInt` is the INTCONSTANT action of lex.rl (`strconv.ParseInt(str, 10|16, 64)` on the text
matched by `integer | hex_integer`). `lexDouble` is the DUBCONSTANT action: the text matched by
`double` converted by `strconv.ParseFloat(·, 64)`, modelled as exact decimal → binary64
conversion with round-to-nearest-even (result = the 64 IEEE bits; `none` = out of range, the only
error ParseFloat can return on text of this shape). `showInt` prints an integer in decimal.

Core-only. Nothing is proved about `lexDouble` (it is tied to the code by the correspondence
check only); `lexInt` carries the round-trip theorems of C11.
-/
import ThriftVerif.Idl.Basic

namespace ThriftVerif.Idl

def digitVal (d : UInt8) : Nat := d.toNat - 48

/-- value of a string of decimal digits. -/
def parseDecNat (ds : Bytes) : Nat := ds.foldl (fun a d => a * 10 + digitVal d) 0
/-- value of a string of hex digits. -/
def parseHexNat (ds : Bytes) : Nat := ds.foldl (fun a d => a * 16 + hexVal d) 0

/-- The INTCONSTANT action on the matched text: `0x…` (more than two bytes) is base 16 without
sign; otherwise an optionally signed decimal. Out of the int64 range → `none` (lexer error). -/
def lexInt (t : Bytes) : Option Int :=
  match t with
  | 48 :: 120 :: h :: hs =>
    let v := parseHexNat (h :: hs)
    if v < 2 ^ 63 then some (v : Int) else none
  | 45 :: ds =>
    let v := parseDecNat ds
    if v ≤ 2 ^ 63 then some (-(v : Int)) else none
  | 43 :: ds =>
    let v := parseDecNat ds
    if v < 2 ^ 63 then some (v : Int) else none
  | ds =>
    let v := parseDecNat ds
    if v < 2 ^ 63 then some (v : Int) else none

/-- decimal digits of `n`, most significant first (`fuel` > number of digits). -/
def decDigitsF : Nat → Nat → Bytes → Bytes
  | 0, _, acc => acc
  | f + 1, n, acc =>
    if n < 10 then UInt8.ofNat (48 + n) :: acc
    else decDigitsF f (n / 10) (UInt8.ofNat (48 + n % 10) :: acc)

def showNat (n : Nat) : Bytes := decDigitsF (n + 1) n []

def showInt (i : Int) : Bytes :=
  match i with
  | .ofNat n => showNat n
  | .negSucc n => 45 :: showNat (n + 1)

def hexDigitsF : Nat → Nat → Bytes → Bytes
  | 0, _, acc => acc
  | f + 1, n, acc =>
    if n < 16 then hexDigit n :: acc
    else hexDigitsF f (n / 16) (hexDigit (n % 16) :: acc)

/-- `0x` followed by the lower-case hex digits of `n`. -/
def showHex (n : Nat) : Bytes := 48 :: 120 :: hexDigitsF (n + 1) n []

/-! ### Doubles -/

/-- IEEE-754 binary64 bits of `(-1)^neg · mant · 10^e10`, correctly rounded (nearest, ties to
even); `none` when the rounded value is not finite. -/
def f64Bits (neg : Bool) (mant : Nat) (e10 : Int) : Option Nat :=
  let sign : Nat := if neg then 2 ^ 63 else 0
  if mant = 0 then some sign
  else
    let lg := Nat.log2 mant
    if e10 + ((lg * 3 / 10 : Nat) : Int) > 330 then none               -- ≥ 10^331
    else if e10 + (((lg + 1) * 31 / 100 + 1 : Nat) : Int) < -400 then some sign  -- < 10^-400
    else
      let num := if e10 ≥ 0 then mant * 10 ^ e10.toNat else mant
      let den := if e10 ≥ 0 then 1 else 10 ^ (-e10).toNat
      let lb : Int := ((Nat.log2 num + 1 : Nat) : Int) - ((Nat.log2 den + 1 : Nat) : Int)
      let s : Int := 66 - lb
      let n' := if s ≥ 0 then num * 2 ^ s.toNat else num
      let d' := if s ≥ 0 then den else den * 2 ^ (-s).toNat
      let q := n' / d'
      let r := n' % d'
      let L := Nat.log2 q + 1
      let ex : Int := (L : Int) - 1 - s          -- value ∈ [2^ex, 2^(ex+1))
      let keep : Int := if ex ≥ -1022 then 53 else 53 - (-1022 - ex)
      let dropN : Nat := ((L : Int) - keep).toNat
      let m := q / 2 ^ dropN
      let rem := q % 2 ^ dropN
      let half := 2 ^ (dropN - 1)
      let up := rem > half || (rem == half && (r ≠ 0 || m % 2 == 1))
      let m' := if up then m + 1 else m
      let bits := if ex ≥ -1022 then (ex + 1022).toNat * 2 ^ 52 + m' else m'
      if bits ≥ 0x7FF0000000000000 then none else some (sign + bits)

/-- The DUBCONSTANT action on text of the shape `[+-]? digit+ ('.' digit*)? ([Ee] [+-]? digit+)?`. -/
def lexDouble (t : Bytes) : Option Nat :=
  let (neg, t) := match t with
    | 45 :: r => (true, r)
    | 43 :: r => (false, r)
    | _ => (false, t)
  let ip := t.takeWhile isDigit
  let t := t.dropWhile isDigit
  let (fp, t) := match t with
    | 46 :: r => (r.takeWhile isDigit, r.dropWhile isDigit)
    | _ => ([], t)
  let ex : Int := match t with
    | c :: r =>
      if c = 101 || c = 69 then
        match r with
        | 45 :: ds => -(parseDecNat ds : Int)
        | 43 :: ds => (parseDecNat ds : Int)
        | ds => (parseDecNat ds : Int)
      else 0
    | [] => 0
  f64Bits neg (parseDecNat (ip ++ fp)) (ex - fp.length)

end ThriftVerif.Idl
