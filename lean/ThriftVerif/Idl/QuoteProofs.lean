/-
Proofs about Quote.lean (C11 b): the printers and the unquoters are inverse on every byte
string — through `strconv.Unquote` always, through quote.go's composition exactly when the blind
`\'` / `\"` replacement finds nothing to damage (D16).
-/
import ThriftVerif.Idl.Quote

namespace ThriftVerif.Idl

/-- a statement about every byte, decided by enumeration. -/
theorem forall_uint8 {P : UInt8 → Prop} (h : ∀ n : Fin 256, P (UInt8.ofNat n.val)) (c : UInt8) :
    P c := by
  have := h ⟨c.toNat, c.toNat_lt⟩
  simpa using this

/-! ### `unqLoop` on the three shapes the printers produce -/

theorem unqLoop_plain (f : Nat) (c : UInt8) (rest : Bytes)
    (h1 : c ≠ 34) (h2 : c ≠ 10) (h3 : ¬ (0x80 ≤ c)) (h4 : c ≠ 92) :
    unqLoop (f + 1) (c :: rest) = (unqLoop f rest).map (c :: ·) := by
  simp [unqLoop, h1, h2, h3, h4]

theorem unqLoop_simple (f : Nat) (e v : UInt8) (rest : Bytes) (h : simpleEscape e = some v) :
    unqLoop (f + 1) (92 :: e :: rest) = (unqLoop f rest).map (v :: ·) := by
  simp [unqLoop, h]

theorem unqLoop_hex (f : Nat) (h1 h2 : UInt8) (rest : Bytes)
    (d1 : isHexDigit h1 = true) (d2 : isHexDigit h2 = true) :
    unqLoop (f + 1) (92 :: 120 :: h1 :: h2 :: rest) =
      (unqLoop f rest).map (UInt8.ofNat (hexVal h1 * 16 + hexVal h2) :: ·) := by
  have : simpleEscape 120 = none := by decide
  simp [unqLoop, this, hexN, d1, d2]

set_option maxRecDepth 100000 in
theorem hexDigit_facts : ∀ c : UInt8,
    isHexDigit (hexDigit (c.toNat / 16)) = true ∧ isHexDigit (hexDigit (c.toNat % 16)) = true ∧
    UInt8.ofNat (hexVal (hexDigit (c.toNat / 16)) * 16 + hexVal (hexDigit (c.toNat % 16))) = c := by
  apply forall_uint8; decide

/-- what one printed byte looks like to `strconv.Unquote`. -/
inductive Shape (c : UInt8) : Bytes → Prop
  | plain : c ≠ 34 → c ≠ 10 → ¬ (0x80 ≤ c) → c ≠ 92 → Shape c [c]
  | simple (e : UInt8) : simpleEscape e = some c → Shape c [92, e]
  | hex (h1 h2 : UInt8) : isHexDigit h1 = true → isHexDigit h2 = true →
      UInt8.ofNat (hexVal h1 * 16 + hexVal h2) = c → Shape c [92, 120, h1, h2]

theorem unqLoop_shape {c : UInt8} {p : Bytes} (h : Shape c p) (f : Nat) (rest : Bytes) :
    unqLoop (f + 1) (p ++ rest) = (unqLoop f rest).map (c :: ·) := by
  cases h with
  | plain h1 h2 h3 h4 => exact unqLoop_plain f c rest h1 h2 h3 h4
  | simple e he => exact unqLoop_simple f e c rest he
  | hex h1 h2 d1 d2 hv => rw [← hv]; exact unqLoop_hex f h1 h2 rest d1 d2

def shapeOk (c : UInt8) (p : Bytes) : Bool :=
  match p with
  | [a] => a == c && c != 34 && c != 10 && !(decide (0x80 ≤ c)) && c != 92
  | [a, e] => a == 92 && simpleEscape e == some c
  | [a, x, h1, h2] =>
    a == 92 && x == 120 && isHexDigit h1 && isHexDigit h2 &&
      UInt8.ofNat (hexVal h1 * 16 + hexVal h2) == c
  | _ => false

theorem shape_of_ok {c : UInt8} {p : Bytes} (h : shapeOk c p = true) : Shape c p := by
  unfold shapeOk at h
  split at h
  · simp at h
    obtain ⟨⟨⟨⟨rfl, h1⟩, h2⟩, h3⟩, h4⟩ := h
    exact .plain h1 h2 (by simpa using h3) h4
  · simp at h
    obtain ⟨rfl, h2⟩ := h
    exact .simple _ h2
  · simp only [Bool.and_eq_true, beq_iff_eq] at h
    obtain ⟨⟨⟨⟨rfl, rfl⟩, d1⟩, d2⟩, hv⟩ := h
    exact .hex _ _ d1 d2 hv
  · cases h

set_option maxRecDepth 100000 in
/-- every byte the `"`-printer emits has one of the three shapes. -/
theorem quoteByte_ok : ∀ c : UInt8, shapeOk c (quoteByte 34 false c) = true := by
  apply forall_uint8; decide

theorem quoteByte_shape (c : UInt8) : Shape c (quoteByte 34 false c) := shape_of_ok (quoteByte_ok c)

/-- `strconv.Unquote` undoes the `"`-printer on every byte string. -/
theorem unqLoop_quoteBody (s : Bytes) : ∀ f, s.length + 1 ≤ f →
    unqLoop f (quoteBody 34 false s ++ [34]) = some s := by
  induction s with
  | nil => intro f hf; cases f with
    | zero => omega
    | succ f => simp [quoteBody, unqLoop]
  | cons c cs ih =>
    intro f hf
    cases f with
    | zero => omega
    | succ f =>
      simp only [quoteBody, List.append_assoc]
      rw [unqLoop_shape (quoteByte_shape c), ih f (by simp at hf; omega)]
      rfl

theorem quoteBody_length_ge (q : UInt8) (esc : Bool) (s : Bytes) : s.length ≤ (quoteBody q esc s).length := by
  induction s with
  | nil => simp [quoteBody]
  | cons c cs ih =>
    have : 1 ≤ (quoteByte q esc c).length := by
      unfold quoteByte
      repeat' split
      all_goals simp
    simp [quoteBody]; omega

theorem strconvUnquote_quoteDouble (s : Bytes) : strconvUnquote (quoteDouble s) = some s := by
  simp only [quoteDouble, strconvUnquote]
  apply unqLoop_quoteBody
  have := quoteBody_length_ge 34 false s
  simp; omega

/-! ### quote.go's blind replacement -/

/-- no `\` directly followed by `q` (with the byte `a` held, as `ueGo` holds it). -/
def noPairGo (q : UInt8) (a : UInt8) : Bytes → Bool
  | [] => true
  | b :: r => !(a == 92 && b == q) && noPairGo q b r

/-- `s` has no backslash directly followed by `q` — what D16 needs to do damage. -/
def noPair (q : UInt8) : Bytes → Bool
  | [] => true
  | a :: t => noPairGo q a t

theorem ueGo_cons (q a b : UInt8) (r : Bytes) :
    ueGo q a (b :: r) = if a = 92 ∧ b = q then q :: unescapeQuotes q r else a :: ueGo q b r := by
  cases r <;> simp [ueGo, unescapeQuotes]

theorem ueGo_id (q : UInt8) : ∀ (t : Bytes) (a : UInt8), noPairGo q a t = true → ueGo q a t = a :: t := by
  intro t
  induction t with
  | nil => intro a _; rfl
  | cons b r ih =>
    intro a h
    simp only [noPairGo, Bool.and_eq_true, Bool.not_eq_true', Bool.and_eq_false_iff, beq_eq_false_iff_ne] at h
    have hn : ¬ (a = 92 ∧ b = q) := by
      rintro ⟨h1, h2⟩; rcases h.1 with h3 | h3 <;> contradiction
    rw [ueGo_cons, if_neg hn, ih b h.2]

theorem unescapeQuotes_id (q : UInt8) (t : Bytes) (h : noPair q t = true) : unescapeQuotes q t = t := by
  cases t with
  | nil => rfl
  | cons a t => exact ueGo_id q t a h

theorem noPairGo_of_ne (q a : UInt8) (t : Bytes) (h : a ≠ 92) : noPairGo q a t = noPairGo q 0 t := by
  cases t with
  | nil => rfl
  | cons b r => simp [noPairGo, h]

theorem noPairGo_append (q : UInt8) : ∀ (p : Bytes) (a : UInt8) (R : Bytes),
    noPairGo q a (p ++ R) = (noPairGo q a p && noPairGo q ((a :: p).getLast (by simp)) R) := by
  intro p
  induction p with
  | nil => intro a R; simp [noPairGo]
  | cons b r ih =>
    intro a R
    simp only [List.cons_append, noPairGo, ih b R, Bool.and_assoc]
    congr 2

/-- the two (delimiter, other quote) pairs. -/
def QuotePair (q q' : UInt8) : Prop := (q = 34 ∧ q' = 39) ∨ (q = 39 ∧ q' = 34)

set_option maxRecDepth 100000 in
theorem piece_noPair_d : ∀ c : UInt8, noPairGo 39 0 (quoteByte 34 false c) = true ∧
    (c ≠ 39 → noPairGo 39 92 (quoteByte 34 false c) = true) ∧
    ((92 :: quoteByte 34 false c).getLast (by simp) = 92 → c = 92) := by
  apply forall_uint8; decide

set_option maxRecDepth 100000 in
theorem piece_noPair_s : ∀ c : UInt8, noPairGo 34 0 (quoteByte 39 false c) = true ∧
    (c ≠ 34 → noPairGo 34 92 (quoteByte 39 false c) = true) ∧
    ((92 :: quoteByte 39 false c).getLast (by simp) = 92 → c = 92) := by
  apply forall_uint8; decide

theorem quoteByte_ne_nil (q : UInt8) (esc : Bool) (c : UInt8) : quoteByte q esc c ≠ [] := by
  unfold quoteByte
  repeat' split
  all_goals simp

theorem getLast_cons_of_ne_nil (a : UInt8) (p : Bytes) (h : p ≠ []) :
    (a :: p).getLast (by simp) = (92 :: p).getLast (by simp) := by
  cases p with
  | nil => contradiction
  | cons b r => simp [List.getLast_cons]

/-- the natural printers never produce a `\`+other-quote pair unless the string has one. -/
theorem noPair_render {q q' : UInt8} (hq : QuotePair q q') : ∀ (s : Bytes) (a : UInt8),
    noPair q' s = true → (a = 92 → s.head? ≠ some q') →
    noPairGo q' a (quoteBody q false s ++ [q]) = true := by
  intro s
  induction s with
  | nil =>
    intro a _ _
    rcases hq with ⟨rfl, rfl⟩ | ⟨rfl, rfl⟩ <;> simp [quoteBody, noPairGo]
  | cons c cs ih =>
    intro a hs ha
    simp only [quoteBody, List.append_assoc]
    rw [noPairGo_append, Bool.and_eq_true]
    have hfacts : noPairGo q' 0 (quoteByte q false c) = true ∧
        (c ≠ q' → noPairGo q' 92 (quoteByte q false c) = true) ∧
        ((92 :: quoteByte q false c).getLast (by simp) = 92 → c = 92) := by
      rcases hq with ⟨rfl, rfl⟩ | ⟨rfl, rfl⟩
      · exact piece_noPair_d c
      · exact piece_noPair_s c
    constructor
    · by_cases h92 : a = 92
      · subst h92
        apply hfacts.2.1
        intro hc; apply ha rfl; simp [hc]
      · rw [noPairGo_of_ne _ _ _ h92]; exact hfacts.1
    · rw [getLast_cons_of_ne_nil a _ (quoteByte_ne_nil q false c)]
      apply ih
      · -- noPair q' cs
        cases cs with
        | nil => rfl
        | cons d ds =>
          simp only [noPair, noPairGo, Bool.and_eq_true] at hs
          exact hs.2
      · intro hl
        have hc := hfacts.2.2 hl
        subst hc
        cases cs with
        | nil => simp
        | cons d ds =>
          simp only [noPair, noPairGo, Bool.and_eq_true, Bool.not_eq_true', Bool.and_eq_false_iff,
            beq_eq_false_iff_ne] at hs
          rcases hs.1 with h | h
          · exact absurd rfl h
          · simpa using h

theorem noPair_quote {q q' : UInt8} (hq : QuotePair q q') (s : Bytes) (h : noPair q' s = true) :
    noPair q' (q :: (quoteBody q false s ++ [q])) = true := by
  apply noPair_render hq s q h
  intro h92
  rcases hq with ⟨rfl, rfl⟩ | ⟨rfl, rfl⟩ <;> cases h92

/-- `UnquoteDoubleQuoted (quoteDouble s) = s` unless `s` has a backslash directly before an apostrophe. -/
theorem unquoteDouble_quoteDouble (s : Bytes) (h : noPair 39 s = true) :
    unquoteDouble (quoteDouble s) = some s := by
  unfold unquoteDouble
  rw [show quoteDouble s = 34 :: (quoteBody 34 false s ++ [34]) from rfl,
    unescapeQuotes_id 39 _ (noPair_quote (Or.inl ⟨rfl, rfl⟩) s h)]
  exact strconvUnquote_quoteDouble s

/-! ### single quotes: swap, unquote as a double-quoted string, swap back -/

set_option maxRecDepth 100000 in
theorem swap_quoteByte : ∀ c : UInt8,
    (quoteByte 39 false c).map swapQuote = quoteByte 34 false (swapQuote c) := by
  apply forall_uint8; decide

theorem swap_quoteBody (s : Bytes) :
    swapQuotes (quoteBody 39 false s) = quoteBody 34 false (swapQuotes s) := by
  induction s with
  | nil => rfl
  | cons c cs ih =>
    simp only [swapQuotes, quoteBody, List.map_append, List.map_cons] at ih ⊢
    rw [swap_quoteByte, ih]

theorem swapQuote_swapQuote (c : UInt8) : swapQuote (swapQuote c) = c := by
  unfold swapQuote
  repeat' split
  all_goals simp_all

theorem swapQuotes_swapQuotes (s : Bytes) : swapQuotes (swapQuotes s) = s := by
  simp [swapQuotes, List.map_map, Function.comp_def, swapQuote_swapQuote]

theorem swap_quoteSingle (s : Bytes) : swapQuotes (quoteSingle s) = quoteDouble (swapQuotes s) := by
  have := swap_quoteBody s
  simp only [swapQuotes] at this
  simp [quoteSingle, quoteDouble, swapQuotes, swapQuote, this]

/-- `UnquoteSingleQuoted (quoteSingle s) = s` unless `s` has a backslash directly before a double quote. -/
theorem unquoteSingle_quoteSingle (s : Bytes) (h : noPair 34 s = true) :
    unquoteSingle (quoteSingle s) = some s := by
  unfold unquoteSingle
  rw [show quoteSingle s = 39 :: (quoteBody 39 false s ++ [39]) from rfl,
    unescapeQuotes_id 34 _ (noPair_quote (Or.inr ⟨rfl, rfl⟩) s h)]
  rw [show (39 :: (quoteBody 39 false s ++ [39]) : Bytes) = quoteSingle s from rfl, swap_quoteSingle,
    strconvUnquote_quoteDouble]
  simp [swapQuotes_swapQuotes]

/-! ### the printers that escape both quote characters round-trip on every byte string -/

theorem ueGo_prefix (q : UInt8) : ∀ (P : Bytes) (a x : UInt8) (xr : Bytes),
    noPairGo q a (P ++ [x]) = true → ueGo q a (P ++ x :: xr) = a :: (P ++ unescapeQuotes q (x :: xr)) := by
  intro P
  induction P with
  | nil =>
    intro a x xr h
    simp only [List.nil_append, noPairGo, Bool.and_eq_true, Bool.not_eq_true', Bool.and_eq_false_iff,
      beq_eq_false_iff_ne] at h
    have hn : ¬ (a = 92 ∧ x = q) := by
      rintro ⟨h1, h2⟩; rcases h.1 with h3 | h3 <;> contradiction
    simp [ueGo_cons, hn, unescapeQuotes]
  | cons b P' ih =>
    intro a x xr h
    simp only [List.cons_append, noPairGo, Bool.and_eq_true, Bool.not_eq_true', Bool.and_eq_false_iff,
      beq_eq_false_iff_ne] at h
    have hn : ¬ (a = 92 ∧ b = q) := by
      rintro ⟨h1, h2⟩; rcases h.1 with h3 | h3 <;> contradiction
    simp only [List.cons_append]
    rw [ueGo_cons, if_neg hn, ih b x xr h.2]

set_option maxRecDepth 100000 in
/-- pieces of the safe `"`-printer: either the escaped apostrophe, or the natural piece, which has
no `\'` inside, and ends in a backslash only for `\\`; it never starts with an apostrophe. -/
theorem piece_safe_d : ∀ c : UInt8,
    ((c = 39 ∧ quoteByte 34 true c = [92, 39] ∧ quoteByte 34 false c = [39]) ∨
     (quoteByte 34 true c = quoteByte 34 false c ∧ noPair 39 (quoteByte 34 false c ++ [0]) = true)) ∧
    (quoteByte 34 true c).head? ≠ some 39 := by
  apply forall_uint8; decide

set_option maxRecDepth 100000 in
theorem piece_safe_s : ∀ c : UInt8,
    ((c = 34 ∧ quoteByte 39 true c = [92, 34] ∧ quoteByte 39 false c = [34]) ∨
     (quoteByte 39 true c = quoteByte 39 false c ∧ noPair 34 (quoteByte 39 false c ++ [0]) = true)) ∧
    (quoteByte 39 true c).head? ≠ some 34 := by
  apply forall_uint8; decide

theorem noPairGo_last_irrelevant (q : UInt8) : ∀ (P : Bytes) (a x : UInt8),
    noPairGo q a (P ++ [0]) = true → x ≠ q → noPairGo q a (P ++ [x]) = true := by
  intro P
  induction P with
  | nil =>
    intro a x _ hx
    simp [noPairGo, hx]
  | cons b P' ih =>
    intro a x h hx
    simp only [List.cons_append, noPairGo, Bool.and_eq_true] at h ⊢
    exact ⟨h.1, ih b x h.2 hx⟩

theorem head_safe {q q' : UInt8} (hq : QuotePair q q') (s : Bytes) :
    (quoteBody q true s ++ [q]).head? ≠ some q' := by
  cases s with
  | nil => rcases hq with ⟨rfl, rfl⟩ | ⟨rfl, rfl⟩ <;> simp [quoteBody]
  | cons c cs =>
    have hne := quoteByte_ne_nil q true c
    have hh : (quoteByte q true c).head? ≠ some q' := by
      rcases hq with ⟨rfl, rfl⟩ | ⟨rfl, rfl⟩
      · exact (piece_safe_d c).2
      · exact (piece_safe_s c).2
    simp only [quoteBody, List.append_assoc]
    cases hp : quoteByte q true c with
    | nil => exact absurd hp hne
    | cons p0 pr => rw [hp] at hh; simpa using hh

/-- quote.go's replacement turns the safe rendering into the natural one. -/
theorem unescape_safe {q q' : UInt8} (hq : QuotePair q q') : ∀ s : Bytes,
    unescapeQuotes q' (quoteBody q true s ++ [q]) = quoteBody q false s ++ [q] := by
  intro s
  induction s with
  | nil => simp [quoteBody, unescapeQuotes, ueGo]
  | cons c cs ih =>
    simp only [quoteBody, List.append_assoc]
    -- the rest of the rendering is non-empty and does not start with the other quote
    have hhead := head_safe hq cs
    cases hR : quoteBody q true cs ++ [q] with
    | nil => simp at hR
    | cons x xr =>
      rw [hR] at hhead ih
      have hx : x ≠ q' := by simpa using hhead
      have hfacts : ((c = q' ∧ quoteByte q true c = [92, q'] ∧ quoteByte q false c = [q']) ∨
          (quoteByte q true c = quoteByte q false c ∧ noPair q' (quoteByte q false c ++ [0]) = true)) := by
        rcases hq with ⟨rfl, rfl⟩ | ⟨rfl, rfl⟩
        · exact (piece_safe_d c).1
        · exact (piece_safe_s c).1
      rcases hfacts with ⟨_, ht, hf⟩ | ⟨ht, hnp⟩
      · rw [ht, hf]
        simp only [List.cons_append, List.nil_append, unescapeQuotes]
        rw [ueGo_cons, if_pos ⟨rfl, rfl⟩, ih]
      · rw [ht]
        cases hp : quoteByte q false c with
        | nil => exact absurd hp (quoteByte_ne_nil q false c)
        | cons p0 pr =>
          rw [hp] at hnp
          simp only [List.cons_append, unescapeQuotes]
          rw [ueGo_prefix q' pr p0 x xr (noPairGo_last_irrelevant q' pr p0 x (by simpa [noPair] using hnp) hx), ih]

theorem unescape_safe_quoted {q q' : UInt8} (hq : QuotePair q q') (s : Bytes) :
    unescapeQuotes q' (q :: (quoteBody q true s ++ [q])) = q :: (quoteBody q false s ++ [q]) := by
  have h := unescape_safe hq s
  cases hR : quoteBody q true s ++ [q] with
  | nil => simp at hR
  | cons x xr =>
    rw [hR] at h
    have hq92 : q ≠ 92 := by rcases hq with ⟨rfl, _⟩ | ⟨rfl, _⟩ <;> decide
    simp only [unescapeQuotes] at h ⊢
    rw [ueGo_cons, if_neg (fun hh => hq92 hh.1), h]

/-- `UnquoteDoubleQuoted (quoteDoubleSafe s) = s` for EVERY byte string. -/
theorem unquoteDouble_quoteDoubleSafe (s : Bytes) : unquoteDouble (quoteDoubleSafe s) = some s := by
  unfold unquoteDouble quoteDoubleSafe
  rw [unescape_safe_quoted (Or.inl ⟨rfl, rfl⟩)]
  exact strconvUnquote_quoteDouble s

/-- `UnquoteSingleQuoted (quoteSingleSafe s) = s` for EVERY byte string. -/
theorem unquoteSingle_quoteSingleSafe (s : Bytes) : unquoteSingle (quoteSingleSafe s) = some s := by
  unfold unquoteSingle quoteSingleSafe
  rw [unescape_safe_quoted (Or.inr ⟨rfl, rfl⟩)]
  rw [show (39 :: (quoteBody 39 false s ++ [39]) : Bytes) = quoteSingle s from rfl, swap_quoteSingle,
    strconvUnquote_quoteDouble]
  simp [swapQuotes_swapQuotes]

/-! ### the exclusion is exact: with a backslash directly before an apostrophe the round trip fails -/

theorem quoteBody_append (q : UInt8) (esc : Bool) (a b : Bytes) :
    quoteBody q esc (a ++ b) = quoteBody q esc a ++ quoteBody q esc b := by
  induction a with
  | nil => rfl
  | cons c cs ih => simp [quoteBody, ih]

theorem unqLoop_prefix : ∀ (u : Bytes) (f : Nat) (Z : Bytes),
    unqLoop (f + u.length) (quoteBody 34 false u ++ Z) = (unqLoop f Z).map (u ++ ·) := by
  intro u
  induction u with
  | nil => intro f Z; simp [quoteBody]
  | cons c cs ih =>
    intro f Z
    simp only [quoteBody, List.append_assoc, List.length_cons]
    rw [show f + (cs.length + 1) = (f + cs.length) + 1 from by omega, unqLoop_shape (quoteByte_shape c), ih]
    cases unqLoop f Z <;> simp

theorem unqLoop_bad_escape (f : Nat) (Y : Bytes) : unqLoop (f + 1) (92 :: 39 :: Y) = none := by
  have : simpleEscape 39 = none := by decide
  have h2 : isOctDigit 39 = false := by decide
  simp [unqLoop, this, h2]

/-- the first backslash-quote pair of a string that has one. -/
theorem exists_first_pair (q : UInt8) : ∀ (s : Bytes) (a : UInt8), noPairGo q a s = false →
    (a = 92 ∧ s.head? = some q) ∨
    ∃ u v, s = u ++ 92 :: q :: v ∧ noPairGo q a (u ++ [92]) = true := by
  intro s
  induction s with
  | nil => intro a h; simp [noPairGo] at h
  | cons b r ih =>
    intro a h
    by_cases hp : a = 92 ∧ b = q
    · exact Or.inl ⟨hp.1, by simp [hp.2]⟩
    · have hpair : (a == 92 && b == q) = false := by
        cases ha : (a == 92) <;> cases hb : (b == q) <;> simp_all
      have hh : noPairGo q b r = false := by
        simp only [noPairGo, hpair, Bool.not_false, Bool.true_and] at h
        exact h
      right
      rcases ih b hh with ⟨hb, hr⟩ | ⟨u, v, hs, hu⟩
      · cases r with
        | nil => simp at hr
        | cons c r' =>
          simp only [List.head?_cons, Option.some.injEq] at hr
          subst hb hr
          exact ⟨[], r', rfl, by simp [noPairGo, hpair]⟩
      · refine ⟨b :: u, v, by simp [hs], ?_⟩
        simp only [List.cons_append, noPairGo, hpair, Bool.not_false, Bool.true_and]
        exact hu

theorem noPairGo_prefix (q : UInt8) (a : UInt8) (A B : Bytes) (h : noPairGo q a (A ++ B) = true) :
    noPairGo q a A = true := by
  rw [noPairGo_append, Bool.and_eq_true] at h
  exact h.1

/-- D16, in general: if `s` has a backslash directly before an apostrophe, `UnquoteDoubleQuoted`
rejects what the natural printer wrote. -/
theorem unquoteDouble_quoteDouble_fails (s : Bytes) (h : noPair 39 s = false) :
    unquoteDouble (quoteDouble s) = none := by
  -- locate the first pair
  have hex : ∃ u v, s = u ++ 92 :: 39 :: v ∧ noPair 39 (u ++ [92]) = true := by
    cases s with
    | nil => simp [noPair] at h
    | cons a t =>
      rcases exists_first_pair 39 t a h with ⟨ha, ht⟩ | ⟨u, v, ht, hu⟩
      · cases t with
        | nil => simp at ht
        | cons c t' =>
          simp only [List.head?_cons, Option.some.injEq] at ht
          exact ⟨[], t', by simp [ha, ht], by simp [noPair, noPairGo]⟩
      · exact ⟨a :: u, v, by simp [ht], by simpa [noPair] using hu⟩
  obtain ⟨u, v, hs, hu⟩ := hex
  subst hs
  -- the rendering around the pair
  have hrender : quoteDouble (u ++ 92 :: 39 :: v) =
      34 :: ((quoteBody 34 false u ++ [92]) ++ 92 :: (39 :: (quoteBody 34 false v ++ [34]))) := by
    simp [quoteDouble, quoteBody_append, quoteBody, quoteByte]
  have hnp : noPairGo 39 34 ((quoteBody 34 false u ++ [92]) ++ [92]) = true := by
    have := noPair_quote (q := 34) (q' := 39) (Or.inl ⟨rfl, rfl⟩) (u ++ [92]) hu
    simp only [noPair, quoteBody_append, quoteBody, quoteByte, List.append_assoc] at this
    apply noPairGo_prefix 39 34 _ [34]
    simpa using this
  unfold unquoteDouble
  rw [hrender]
  simp only [unescapeQuotes]
  rw [ueGo_prefix 39 _ 34 92 _ hnp]
  simp only [unescapeQuotes]
  rw [ueGo_cons, if_pos ⟨rfl, rfl⟩]
  simp only [strconvUnquote, List.append_assoc, List.cons_append, List.nil_append]
  have hlen : ∃ f, (quoteBody 34 false u ++ 92 :: 39 :: unescapeQuotes 39 (quoteBody 34 false v ++ [34])).length + 1
      = (f + 1) + u.length := by
    have := quoteBody_length_ge 34 false u
    refine ⟨(quoteBody 34 false u).length - u.length + (unescapeQuotes 39 (quoteBody 34 false v ++ [34])).length + 2, ?_⟩
    simp; omega
  obtain ⟨f, hf⟩ := hlen
  rw [hf, unqLoop_prefix, unqLoop_bad_escape]
  rfl

/-- `UnquoteDoubleQuoted ∘ quoteDouble` is the identity EXACTLY on the strings without a
backslash directly before an apostrophe. -/
theorem unquoteDouble_quoteDouble_iff (s : Bytes) :
    unquoteDouble (quoteDouble s) = some s ↔ noPair 39 s = true := by
  constructor
  · intro h
    cases hn : noPair 39 s with
    | true => rfl
    | false => rw [unquoteDouble_quoteDouble_fails s hn] at h; cases h
  · exact unquoteDouble_quoteDouble s

end ThriftVerif.Idl
