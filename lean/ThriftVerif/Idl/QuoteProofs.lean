/-
Proofs about Quote.lean (C11 b): the printers and the unquoters are inverse on EVERY byte
string — `strconv.Unquote` undoes the `"`-printer, and quote.go's `requote` turns what any of the
four printers writes into what the `"`-printer writes.
-/
import ThriftVerif.Idl.Quote

namespace ThriftVerif.Idl

/-- a statement about every byte, decided by enumeration. -/
theorem forall_uint8 {P : UInt8 → Prop} (h : ∀ n : Fin 256, P (UInt8.ofNat n.val)) (c : UInt8) :
    P c := by
  have := h ⟨c.toNat, c.toNat_lt⟩
  simpa using this

/-! ### `unqLoop` on the three shapes the printers produce -/

theorem unqLoop_plain (f : Nat) (c : UInt8) (rest : Bytes)
    (h1 : c ≠ 34) (h2 : c ≠ 10) (h3 : ¬ (0x80 ≤ c)) (h4 : c ≠ 92) :
    unqLoop (f + 1) (c :: rest) = (unqLoop f rest).map (c :: ·) := by
  simp [unqLoop, h1, h2, h3, h4]

theorem unqLoop_simple (f : Nat) (e v : UInt8) (rest : Bytes) (h : simpleEscape e = some v) :
    unqLoop (f + 1) (92 :: e :: rest) = (unqLoop f rest).map (v :: ·) := by
  simp [unqLoop, h]

theorem unqLoop_hex (f : Nat) (h1 h2 : UInt8) (rest : Bytes)
    (d1 : isHexDigit h1 = true) (d2 : isHexDigit h2 = true) :
    unqLoop (f + 1) (92 :: 120 :: h1 :: h2 :: rest) =
      (unqLoop f rest).map (UInt8.ofNat (hexVal h1 * 16 + hexVal h2) :: ·) := by
  have : simpleEscape 120 = none := by decide
  simp [unqLoop, this, hexN, d1, d2]

set_option maxRecDepth 100000 in
theorem hexDigit_facts : ∀ c : UInt8,
    isHexDigit (hexDigit (c.toNat / 16)) = true ∧ isHexDigit (hexDigit (c.toNat % 16)) = true ∧
    UInt8.ofNat (hexVal (hexDigit (c.toNat / 16)) * 16 + hexVal (hexDigit (c.toNat % 16))) = c := by
  apply forall_uint8; decide

/-- what one printed byte looks like to `strconv.Unquote`. -/
inductive Shape (c : UInt8) : Bytes → Prop
  | plain : c ≠ 34 → c ≠ 10 → ¬ (0x80 ≤ c) → c ≠ 92 → Shape c [c]
  | simple (e : UInt8) : simpleEscape e = some c → Shape c [92, e]
  | hex (h1 h2 : UInt8) : isHexDigit h1 = true → isHexDigit h2 = true →
      UInt8.ofNat (hexVal h1 * 16 + hexVal h2) = c → Shape c [92, 120, h1, h2]

theorem unqLoop_shape {c : UInt8} {p : Bytes} (h : Shape c p) (f : Nat) (rest : Bytes) :
    unqLoop (f + 1) (p ++ rest) = (unqLoop f rest).map (c :: ·) := by
  cases h with
  | plain h1 h2 h3 h4 => exact unqLoop_plain f c rest h1 h2 h3 h4
  | simple e he => exact unqLoop_simple f e c rest he
  | hex h1 h2 d1 d2 hv => rw [← hv]; exact unqLoop_hex f h1 h2 rest d1 d2

def shapeOk (c : UInt8) (p : Bytes) : Bool :=
  match p with
  | [a] => a == c && c != 34 && c != 10 && !(decide (0x80 ≤ c)) && c != 92
  | [a, e] => a == 92 && simpleEscape e == some c
  | [a, x, h1, h2] =>
    a == 92 && x == 120 && isHexDigit h1 && isHexDigit h2 &&
      UInt8.ofNat (hexVal h1 * 16 + hexVal h2) == c
  | _ => false

theorem shape_of_ok {c : UInt8} {p : Bytes} (h : shapeOk c p = true) : Shape c p := by
  unfold shapeOk at h
  split at h
  · simp at h
    obtain ⟨⟨⟨⟨rfl, h1⟩, h2⟩, h3⟩, h4⟩ := h
    exact .plain h1 h2 (by simpa using h3) h4
  · simp at h
    obtain ⟨rfl, h2⟩ := h
    exact .simple _ h2
  · simp only [Bool.and_eq_true, beq_iff_eq] at h
    obtain ⟨⟨⟨⟨rfl, rfl⟩, d1⟩, d2⟩, hv⟩ := h
    exact .hex _ _ d1 d2 hv
  · cases h

set_option maxRecDepth 100000 in
/-- every byte the `"`-printer emits has one of the three shapes. -/
theorem quoteByte_ok : ∀ c : UInt8, shapeOk c (quoteByte 34 false c) = true := by
  apply forall_uint8; decide

theorem quoteByte_shape (c : UInt8) : Shape c (quoteByte 34 false c) := shape_of_ok (quoteByte_ok c)

/-- `strconv.Unquote` undoes the `"`-printer on every byte string. -/
theorem unqLoop_quoteBody (s : Bytes) : ∀ f, s.length + 1 ≤ f →
    unqLoop f (quoteBody 34 false s ++ [34]) = some s := by
  induction s with
  | nil => intro f hf; cases f with
    | zero => omega
    | succ f => simp [quoteBody, unqLoop]
  | cons c cs ih =>
    intro f hf
    cases f with
    | zero => omega
    | succ f =>
      simp only [quoteBody, List.append_assoc]
      rw [unqLoop_shape (quoteByte_shape c), ih f (by simp at hf; omega)]
      rfl

theorem quoteBody_length_ge (q : UInt8) (esc : Bool) (s : Bytes) : s.length ≤ (quoteBody q esc s).length := by
  induction s with
  | nil => simp [quoteBody]
  | cons c cs ih =>
    have : 1 ≤ (quoteByte q esc c).length := by
      unfold quoteByte
      repeat' split
      all_goals simp
    simp [quoteBody]; omega

theorem strconvUnquote_quoteDouble (s : Bytes) : strconvUnquote (quoteDouble s) = some s := by
  simp only [quoteDouble, strconvUnquote]
  apply unqLoop_quoteBody
  have := quoteBody_length_ge 34 false s
  simp; omega

/-! ### quote.go `requote` -/

theorem requoteBody_esc (e : UInt8) (R : Bytes) :
    requoteBody (92 :: e :: R) = if e = 39 then 39 :: requoteBody R else 92 :: e :: requoteBody R := by
  simp [requoteBody]

theorem requoteBody_dq (R : Bytes) : requoteBody (34 :: R) = 92 :: 34 :: requoteBody R := by
  cases R <;> simp [requoteBody]

theorem requoteBody_plain (c : UInt8) (R : Bytes) (h1 : c ≠ 92) (h2 : c ≠ 34) (h3 : ¬ (0x80 ≤ c)) :
    requoteBody (c :: R) = c :: requoteBody R := by
  cases R <;> simp [requoteBody, h1, h2, h3]

/-- a printed piece `p` and what `requote` makes of it. -/
def requoteOk (p p' : Bytes) : Bool :=
  match p with
  | [c] => if c == 34 then p' == [92, 34] else c != 92 && !(decide (0x80 ≤ c)) && p' == [c]
  | [a, e] => a == 92 && (if e == 39 then p' == [39] else p' == [92, e])
  | [a, x, h1, h2] =>
    a == 92 && x != 39 && h1 != 92 && h1 != 34 && !(decide (0x80 ≤ h1)) &&
      h2 != 92 && h2 != 34 && !(decide (0x80 ≤ h2)) && p' == [a, x, h1, h2]
  | _ => false

theorem requoteBody_piece {p p' : Bytes} (h : requoteOk p p' = true) (R : Bytes) :
    requoteBody (p ++ R) = p' ++ requoteBody R := by
  unfold requoteOk at h
  split at h
  · rename_i c
    by_cases hc : c = 34
    · subst hc
      simp only [beq_self_eq_true, if_true, beq_iff_eq] at h
      subst h
      exact requoteBody_dq R
    · have hc' : (c == 34) = false := by simpa using hc
      simp only [hc', Bool.false_eq_true, if_false, Bool.and_eq_true, bne_iff_ne, ne_eq, beq_iff_eq,
        Bool.not_eq_true', decide_eq_false_iff_not] at h
      obtain ⟨⟨h1, h3⟩, rfl⟩ := h
      exact requoteBody_plain c R h1 hc h3
  · rename_i a e
    simp only [Bool.and_eq_true, beq_iff_eq] at h
    obtain ⟨rfl, h2⟩ := h
    simp only [List.cons_append, List.nil_append]
    rw [requoteBody_esc]
    by_cases he : e = 39
    · subst he
      simp at h2
      subst h2; simp
    · simp [he] at h2
      subst h2; simp [he]
  · rename_i a x h1 h2
    simp only [Bool.and_eq_true, bne_iff_ne, ne_eq, beq_iff_eq, Bool.not_eq_true',
      decide_eq_false_iff_not] at h
    obtain ⟨⟨⟨⟨⟨⟨⟨⟨rfl, hx⟩, a1⟩, a2⟩, a3⟩, b1⟩, b2⟩, b3⟩, rfl⟩ := h
    simp only [List.cons_append, List.nil_append]
    rw [requoteBody_esc, if_neg hx, requoteBody_plain h1 _ a1 a2 a3, requoteBody_plain h2 _ b1 b2 b3]
  · cases h

set_option maxRecDepth 100000 in
/-- whatever printer wrote the byte, `requote` turns the piece into the `"`-printer's piece. -/
theorem quoteByte_requoteOk : ∀ c : UInt8,
    requoteOk (quoteByte 34 false c) (quoteByte 34 false c) = true ∧
    requoteOk (quoteByte 34 true c) (quoteByte 34 false c) = true ∧
    requoteOk (quoteByte 39 false c) (quoteByte 34 false c) = true ∧
    requoteOk (quoteByte 39 true c) (quoteByte 34 false c) = true := by
  apply forall_uint8; decide

theorem requoteBody_quoteBody (q : UInt8) (esc : Bool) (hq : q = 34 ∨ q = 39) (s : Bytes) :
    requoteBody (quoteBody q esc s) = quoteBody 34 false s := by
  induction s with
  | nil => rfl
  | cons c cs ih =>
    have hok : requoteOk (quoteByte q esc c) (quoteByte 34 false c) = true := by
      obtain ⟨h1, h2, h3, h4⟩ := quoteByte_requoteOk c
      rcases hq with rfl | rfl <;> cases esc <;> assumption
    simp only [quoteBody]
    rw [requoteBody_piece hok, ih]

/-- `requote` turns the output of each of the four printers into the `"`-printer's output. -/
theorem requote_quoted (q : UInt8) (esc : Bool) (hq : q = 34 ∨ q = 39) (s : Bytes) :
    requote q (q :: (quoteBody q esc s ++ [q])) = quoteDouble s := by
  simp only [requote, List.getLast?_append, List.getLast?_singleton, Option.some_or, true_and,
    if_true, List.dropLast_concat, requoteBody_quoteBody q esc hq s, quoteDouble]

/-- `UnquoteDoubleQuoted (quoteDouble s) = s` for EVERY byte string. -/
theorem unquoteDouble_quoteDouble (s : Bytes) : unquoteDouble (quoteDouble s) = some s := by
  unfold unquoteDouble
  rw [show quoteDouble s = 34 :: (quoteBody 34 false s ++ [34]) from rfl, requote_quoted 34 false (Or.inl rfl)]
  exact strconvUnquote_quoteDouble s

theorem unquoteDouble_quoteDoubleSafe (s : Bytes) : unquoteDouble (quoteDoubleSafe s) = some s := by
  unfold unquoteDouble quoteDoubleSafe
  rw [requote_quoted 34 true (Or.inl rfl)]
  exact strconvUnquote_quoteDouble s

/-- `UnquoteSingleQuoted (quoteSingle s) = s` for EVERY byte string. -/
theorem unquoteSingle_quoteSingle (s : Bytes) : unquoteSingle (quoteSingle s) = some s := by
  unfold unquoteSingle quoteSingle
  rw [requote_quoted 39 false (Or.inr rfl)]
  exact strconvUnquote_quoteDouble s

theorem unquoteSingle_quoteSingleSafe (s : Bytes) : unquoteSingle (quoteSingleSafe s) = some s := by
  unfold unquoteSingle quoteSingleSafe
  rw [requote_quoted 39 true (Or.inr rfl)]
  exact strconvUnquote_quoteDouble s

end ThriftVerif.Idl
