/-
Proofs about Walk.lean (C11 d): the per-type `visitChildren` methods together are a pre-order
traversal of the tree given by `children`: every node is visited exactly once, right before its
sub-trees, and the visitor is told its true parent.
-/
import ThriftVerif.Idl.Walk

namespace ThriftVerif.Idl

theorem walkAnns_eq (ss : List Node) (as : List Annotation) :
    walkAnns ss as = (as.map Node.annotation).flatMap (walkFrom ss) := by
  induction as with
  | nil => rfl
  | cons a as ih => simp [walkAnns, walkFrom, ih]

mutual
  theorem walkConsts_eq (ss : List Node) : ∀ cs : List ConstValue,
      walkConsts ss cs = (cs.map Node.const).flatMap (walkFrom ss)
    | [] => rfl
    | c :: cs => by
      simp only [walkConsts, List.map_cons, List.flatMap_cons, walkFrom]
      rw [walkConsts_eq ss cs]
end

theorem walkItems_eq (ss : List Node) : ∀ is : List (ConstValue × ConstValue × Pos),
    walkItems ss is = (is.map (fun i => Node.mapItem i.1 i.2.1 i.2.2)).flatMap (walkFrom ss)
  | [] => rfl
  | (k, v, p) :: is => by
    simp only [walkItems, List.map_cons, List.flatMap_cons, walkFrom]
    rw [walkItems_eq ss is]

theorem walkFields_eq (ss : List Node) : ∀ fs : List Field,
    walkFields ss fs = (fs.map Node.field).flatMap (walkFrom ss)
  | [] => rfl
  | f :: fs => by
    simp only [walkFields, List.map_cons, List.flatMap_cons, walkFrom]
    rw [walkFields_eq ss fs]

theorem walkFunctions_eq (ss : List Node) : ∀ fs : List Function,
    walkFunctions ss fs = (fs.map Node.function).flatMap (walkFrom ss)
  | [] => rfl
  | f :: fs => by
    simp only [walkFunctions, List.map_cons, List.flatMap_cons, walkFrom]
    rw [walkFunctions_eq ss fs]

theorem walkEnumItems_eq (ss : List Node) : ∀ es : List EnumItem,
    walkEnumItems ss es = (es.map Node.enumItem).flatMap (walkFrom ss)
  | [] => rfl
  | e :: es => by
    simp only [walkEnumItems, List.map_cons, List.flatMap_cons, walkFrom]
    rw [walkEnumItems_eq ss es]

theorem walkDefs_eq (ss : List Node) : ∀ ds : List Definition,
    walkDefs ss ds = (ds.map Node.definition).flatMap (walkFrom ss)
  | [] => rfl
  | d :: ds => by
    simp only [walkDefs, List.map_cons, List.flatMap_cons, walkFrom]
    rw [walkDefs_eq ss ds]

theorem walkHeaders_eq (ss : List Node) : ∀ hs : List Header,
    walkHeaders ss hs = (hs.map Node.header).flatMap (walkFrom ss)
  | [] => rfl
  | h :: hs => by
    simp only [walkHeaders, List.map_cons, List.flatMap_cons, walkFrom, List.singleton_append]
    rw [walkHeaders_eq ss hs]

/-- The traversal equation: a node is visited with the parent the stack says, then each of its
children's sub-trees is walked, in order, with the node pushed on the stack. -/
theorem walkFrom_unfold (ss : List Node) (n : Node) :
    walkFrom ss n = (n, parentOf ss) :: (children n).flatMap (walkFrom (ss ++ [n])) := by
  cases n with
  | program p =>
    simp [walkFrom, walkProgram, children, walkHeaders_eq, walkDefs_eq, List.flatMap_append]
  | header h => simp [walkFrom, children]
  | definition d =>
    cases d <;>
      simp [walkFrom, walkDef, children, walkAnns_eq, walkEnumItems_eq, walkFields_eq,
        walkFunctions_eq, List.flatMap_append]
  | enumItem e => simp [walkFrom, walkEnumItem, children, walkAnns_eq]
  | field f =>
    cases hf : f.dflt <;>
      simp [walkFrom, walkField, children, walkAnns_eq, walkOptConst, optToList, hf, List.flatMap_append]
  | function f =>
    cases hr : f.ret <;>
      simp [walkFrom, walkFunction, children, walkAnns_eq, walkFields_eq, walkOptTy, optToList, hr,
        List.flatMap_append]
  | ty t =>
    cases t <;> simp [walkFrom, walkTy, children, walkAnns_eq, List.flatMap_append]
  | const c =>
    cases c <;> simp [walkFrom, walkConst, children, walkConsts_eq, walkItems_eq]
  | mapItem k v p => simp [walkFrom, children]
  | annotation a => simp [walkFrom, children]

end ThriftVerif.Idl
