/-
Proofs about Walk.lean (C11 d): the per-type `visitChildren` methods together are a pre-order
traversal of the tree given by `children`: every node is visited exactly once, right before its
sub-trees, and the visitor is told its true parent.
-/
import ThriftVerif.Idl.Walk

namespace ThriftVerif.Idl

theorem walkAnns_eq (ss : List Node) (as : List Annotation) :
    walkAnns ss as = (as.map Node.annotation).flatMap (walkFrom ss) := by
  induction as with
  | nil => rfl
  | cons a as ih => simp [walkAnns, walkFrom, ih]

mutual
  theorem walkConsts_eq (ss : List Node) : ∀ cs : List ConstValue,
      walkConsts ss cs = (cs.map Node.const).flatMap (walkFrom ss)
    | [] => rfl
    | c :: cs => by
      simp only [walkConsts, List.map_cons, List.flatMap_cons, walkFrom]
      rw [walkConsts_eq ss cs]
end

theorem walkItems_eq (ss : List Node) : ∀ is : List (ConstValue × ConstValue × Pos),
    walkItems ss is = (is.map (fun i => Node.mapItem i.1 i.2.1 i.2.2)).flatMap (walkFrom ss)
  | [] => rfl
  | (k, v, p) :: is => by
    simp only [walkItems, List.map_cons, List.flatMap_cons, walkFrom]
    rw [walkItems_eq ss is]

theorem walkFields_eq (ss : List Node) : ∀ fs : List Field,
    walkFields ss fs = (fs.map Node.field).flatMap (walkFrom ss)
  | [] => rfl
  | f :: fs => by
    simp only [walkFields, List.map_cons, List.flatMap_cons, walkFrom]
    rw [walkFields_eq ss fs]

theorem walkFunctions_eq (ss : List Node) : ∀ fs : List Function,
    walkFunctions ss fs = (fs.map Node.function).flatMap (walkFrom ss)
  | [] => rfl
  | f :: fs => by
    simp only [walkFunctions, List.map_cons, List.flatMap_cons, walkFrom]
    rw [walkFunctions_eq ss fs]

theorem walkEnumItems_eq (ss : List Node) : ∀ es : List EnumItem,
    walkEnumItems ss es = (es.map Node.enumItem).flatMap (walkFrom ss)
  | [] => rfl
  | e :: es => by
    simp only [walkEnumItems, List.map_cons, List.flatMap_cons, walkFrom]
    rw [walkEnumItems_eq ss es]

theorem walkDefs_eq (ss : List Node) : ∀ ds : List Definition,
    walkDefs ss ds = (ds.map Node.definition).flatMap (walkFrom ss)
  | [] => rfl
  | d :: ds => by
    simp only [walkDefs, List.map_cons, List.flatMap_cons, walkFrom]
    rw [walkDefs_eq ss ds]

theorem walkHeaders_eq (ss : List Node) : ∀ hs : List Header,
    walkHeaders ss hs = (hs.map Node.header).flatMap (walkFrom ss)
  | [] => rfl
  | h :: hs => by
    simp only [walkHeaders, List.map_cons, List.flatMap_cons, walkFrom, List.singleton_append]
    rw [walkHeaders_eq ss hs]

/-- The traversal equation: a node is visited with the parent the stack says, then each of its
children's sub-trees is walked, in order, with the node pushed on the stack. -/
theorem walkFrom_unfold (ss : List Node) (n : Node) :
    walkFrom ss n = (n, parentOf ss) :: (children n).flatMap (walkFrom (ss ++ [n])) := by
  cases n with
  | program p =>
    simp [walkFrom, walkProgram, children, walkHeaders_eq, walkDefs_eq, List.flatMap_append]
  | header h => simp [walkFrom, children]
  | definition d =>
    cases d <;>
      simp [walkFrom, walkDef, children, walkAnns_eq, walkEnumItems_eq, walkFields_eq,
        walkFunctions_eq, List.flatMap_append]
  | enumItem e => simp [walkFrom, walkEnumItem, children, walkAnns_eq]
  | field f =>
    cases hf : f.dflt <;>
      simp [walkFrom, walkField, children, walkAnns_eq, walkOptConst, optToList, hf]
  | function f =>
    cases hr : f.ret <;>
      simp [walkFrom, walkFunction, children, walkAnns_eq, walkFields_eq, walkOptTy, optToList, hr,
        List.flatMap_append]
  | ty t =>
    cases t <;> simp [walkFrom, walkTy, children, walkAnns_eq]
  | const c =>
    cases c <;> simp [walkFrom, walkConst, children, walkConsts_eq, walkItems_eq]
  | mapItem k v p => simp [walkFrom, children]
  | annotation a => simp [walkFrom, children]

theorem parentOf_snoc (ss : List Node) (n : Node) : parentOf (ss ++ [n]) = some n := by
  simp [parentOf]

theorem length_le_flatMap {α β : Type} (f : α → List β) : ∀ (l : List α) (c : α), c ∈ l →
    (f c).length ≤ (l.flatMap f).length := by
  intro l
  induction l with
  | nil => intro c h; cases h
  | cons a as ih =>
    intro c h
    simp only [List.flatMap_cons, List.length_append]
    rcases List.mem_cons.1 h with h | h
    · subst h; omega
    · have := ih c h; omega

/-- a visit whose announced parent really has the visited node as a child. -/
def TrueParent (v : Visit) : Prop := ∃ q, v.2 = some q ∧ v.1 ∈ children q

theorem walkFrom_parents : ∀ (k : Nat) (ss : List Node) (n : Node), (walkFrom ss n).length ≤ k →
    ∀ v ∈ walkFrom ss n, v = (n, parentOf ss) ∨ TrueParent v := by
  intro k
  induction k with
  | zero =>
    intro ss n hk v hv
    rw [walkFrom_unfold] at hk; simp at hk
  | succ k ih =>
    intro ss n hk v hv
    rw [walkFrom_unfold] at hv hk
    rcases List.mem_cons.1 hv with hv | hv
    · exact Or.inl hv
    · right
      obtain ⟨c, hc, hvc⟩ := List.mem_flatMap.1 hv
      have hlen := length_le_flatMap (walkFrom (ss ++ [n])) (children n) c hc
      simp only [List.length_cons] at hk
      rcases ih (ss ++ [n]) c (by omega) v hvc with h | h
      · exact ⟨n, by rw [h, parentOf_snoc], by rw [h]; exact hc⟩
      · exact h

/-! ### every node exactly once: the number of visits is the number of nodes -/

def sizeTy : Ty → Nat
  | .base _ anns _ => 1 + anns.length
  | .map k v anns _ => 1 + (sizeTy k + (sizeTy v + anns.length))
  | .list v anns _ => 1 + (sizeTy v + anns.length)
  | .set v anns _ => 1 + (sizeTy v + anns.length)
  | .ref _ _ => 1

mutual
  def sizeConst : ConstValue → Nat
    | .list items _ => 1 + sizeConsts items
    | .map items _ => 1 + sizeItems items
    | .int _ _ => 1 | .dbl _ _ => 1 | .bool _ _ => 1 | .str _ _ => 1 | .ref _ _ => 1
  def sizeConsts : List ConstValue → Nat
    | [] => 0
    | c :: cs => sizeConst c + sizeConsts cs
  def sizeItems : List (ConstValue × ConstValue × Pos) → Nat
    | [] => 0
    | (k, v, _) :: is => (1 + (sizeConst k + sizeConst v)) + sizeItems is
end

def sizeOptConst : Option ConstValue → Nat
  | none => 0
  | some c => sizeConst c

def sizeOptTy : Option Ty → Nat
  | none => 0
  | some t => sizeTy t

def sizeField (f : Field) : Nat := 1 + (sizeTy f.ty + (sizeOptConst f.dflt + f.anns.length))

def sizeFields : List Field → Nat
  | [] => 0
  | f :: fs => sizeField f + sizeFields fs

def sizeFunction (f : Function) : Nat :=
  1 + (sizeOptTy f.ret + (sizeFields f.params + (sizeFields f.exceptions + f.anns.length)))

def sizeFunctions : List Function → Nat
  | [] => 0
  | f :: fs => sizeFunction f + sizeFunctions fs

def sizeEnumItems : List EnumItem → Nat
  | [] => 0
  | e :: es => (1 + e.anns.length) + sizeEnumItems es

def sizeDef : Definition → Nat
  | .const _ ty v _ _ => 1 + (sizeTy ty + sizeConst v)
  | .typedef _ ty anns _ _ => 1 + (sizeTy ty + anns.length)
  | .enum _ items anns _ _ => 1 + (sizeEnumItems items + anns.length)
  | .struct _ _ fields anns _ _ => 1 + (sizeFields fields + anns.length)
  | .service _ fns _ anns _ _ => 1 + (sizeFunctions fns + anns.length)

def sizeDefs : List Definition → Nat
  | [] => 0
  | d :: ds => sizeDef d + sizeDefs ds

/-- number of ast.Nodes of a program, read off the data type. -/
def sizeProgram (p : Program) : Nat := 1 + (p.headers.length + sizeDefs p.defs)

theorem walkAnns_length (ss : List Node) (as : List Annotation) : (walkAnns ss as).length = as.length := by
  induction as with
  | nil => rfl
  | cons a as ih => simp [walkAnns, ih]

theorem walkTy_length : ∀ (t : Ty) (ss : List Node), (walkTy ss t).length = sizeTy t
  | .base _ anns _, ss => by simp [walkTy, sizeTy, walkAnns_length]; omega
  | .map k v anns _, ss => by
    simp [walkTy, sizeTy, walkAnns_length, walkTy_length k, walkTy_length v]; omega
  | .list v anns _, ss => by simp [walkTy, sizeTy, walkAnns_length, walkTy_length v]; omega
  | .set v anns _, ss => by simp [walkTy, sizeTy, walkAnns_length, walkTy_length v]; omega
  | .ref _ _, ss => by simp [walkTy, sizeTy]

mutual
  theorem walkConst_length : ∀ (c : ConstValue) (ss : List Node), (walkConst ss c).length = sizeConst c
    | .list items _, ss => by simp [walkConst, sizeConst, walkConsts_length items]; omega
    | .map items _, ss => by simp [walkConst, sizeConst, walkItems_length items]; omega
    | .int _ _, ss => by simp [walkConst, sizeConst]
    | .dbl _ _, ss => by simp [walkConst, sizeConst]
    | .bool _ _, ss => by simp [walkConst, sizeConst]
    | .str _ _, ss => by simp [walkConst, sizeConst]
    | .ref _ _, ss => by simp [walkConst, sizeConst]
  theorem walkConsts_length : ∀ (cs : List ConstValue) (ss : List Node), (walkConsts ss cs).length = sizeConsts cs
    | [], ss => by simp [walkConsts, sizeConsts]
    | c :: cs, ss => by simp [walkConsts, sizeConsts, walkConst_length c, walkConsts_length cs]
  theorem walkItems_length : ∀ (is : List (ConstValue × ConstValue × Pos)) (ss : List Node),
      (walkItems ss is).length = sizeItems is
    | [], ss => by simp [walkItems, sizeItems]
    | (k, v, _) :: is, ss => by
      simp [walkItems, sizeItems, walkConst_length k, walkConst_length v, walkItems_length is]; omega
end

theorem walkField_length (ss : List Node) (f : Field) : (walkField ss f).length = sizeField f := by
  cases hd : f.dflt <;>
    simp [walkField, sizeField, walkOptConst, sizeOptConst, hd, walkTy_length, walkConst_length, walkAnns_length] <;> omega

theorem walkFields_length (ss : List Node) : ∀ fs : List Field, (walkFields ss fs).length = sizeFields fs
  | [] => rfl
  | f :: fs => by simp [walkFields, sizeFields, walkField_length, walkFields_length ss fs]

theorem walkFunction_length (ss : List Node) (f : Function) : (walkFunction ss f).length = sizeFunction f := by
  cases hr : f.ret <;>
    simp [walkFunction, sizeFunction, walkOptTy, sizeOptTy, hr, walkTy_length, walkFields_length, walkAnns_length] <;> omega

theorem walkFunctions_length (ss : List Node) : ∀ fs : List Function,
    (walkFunctions ss fs).length = sizeFunctions fs
  | [] => rfl
  | f :: fs => by simp [walkFunctions, sizeFunctions, walkFunction_length, walkFunctions_length ss fs]

theorem walkEnumItems_length (ss : List Node) : ∀ es : List EnumItem,
    (walkEnumItems ss es).length = sizeEnumItems es
  | [] => rfl
  | e :: es => by
    simp [walkEnumItems, walkEnumItem, sizeEnumItems, walkAnns_length, walkEnumItems_length ss es]; omega

theorem walkDef_length (ss : List Node) (d : Definition) : (walkDef ss d).length = sizeDef d := by
  cases d <;>
    simp [walkDef, sizeDef, walkTy_length, walkConst_length, walkAnns_length, walkEnumItems_length,
      walkFields_length, walkFunctions_length] <;> omega

theorem walkDefs_length (ss : List Node) : ∀ ds : List Definition, (walkDefs ss ds).length = sizeDefs ds
  | [] => rfl
  | d :: ds => by simp [walkDefs, sizeDefs, walkDef_length, walkDefs_length ss ds]

theorem walkHeaders_length (ss : List Node) : ∀ hs : List Header, (walkHeaders ss hs).length = hs.length
  | [] => rfl
  | h :: hs => by simp [walkHeaders, walkHeaders_length ss hs]

theorem walkProgram_length (p : Program) : (walk (.program p)).length = sizeProgram p := by
  simp [walk, walkFrom, walkProgram, sizeProgram, walkHeaders_length, walkDefs_length]; omega

end ThriftVerif.Idl
