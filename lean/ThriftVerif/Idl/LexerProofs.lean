/-
Proofs about Lexer.lean (C11 a, c): the scanner's line/column bookkeeping.

`Inv s st` relates the scanner state to the consumed prefix of the document: the line counter
never exceeds 1 + the number of `\n` consumed, and as long as no `\n` was consumed without the
`newline` action (`dirty = false`) line counter and `lineStart` are exact. From it:

* every token that starts in a clean state and whose own chunk contains no `\n` carries its TRUE
  position (`tokPos_true`) — the excluded chunks are exactly keyword/reserved word + blanks with a
  newline (D18) and a literal with an escaped newline;
* every position the lexer hands out has `1 ≤ line ≤ 1 + number of '\n' in the document`.
-/
import ThriftVerif.Idl.Lexer

namespace ThriftVerif.Idl

theorem countNL_append (a b : Bytes) : countNL (a ++ b) = countNL a + countNL b := by
  induction a with
  | nil => simp [countNL]
  | cons x xs ih => simp [countNL, ih]; omega

theorem tailLen_snoc (pre : Bytes) (b : UInt8) :
    tailLen (pre ++ [b]) = if b = 10 then 0 else tailLen pre + 1 := by
  unfold tailLen
  by_cases h : b = 10 <;> simp [h]

theorem tailLen_append_noNL (x : Bytes) : ∀ d : Bytes, countNL d = 0 →
    tailLen (x ++ d) = tailLen x + d.length := by
  intro d
  induction d generalizing x with
  | nil => simp
  | cons b bs ih =>
    intro h
    have hb : b ≠ 10 := by
      intro hb; simp [countNL, hb] at h
    have hbs : countNL bs = 0 := by simp [countNL, hb] at h; exact h
    have : x ++ b :: bs = (x ++ [b]) ++ bs := by simp
    rw [this, ih (x ++ [b]) hbs, tailLen_snoc, if_neg hb]
    simp; omega

theorem bump_fst : ∀ (c : Bytes) (off l ls : Nat), (bump c off l ls).1 = l + countNL c := by
  intro c
  induction c with
  | nil => intro off l ls; simp [bump, countNL]
  | cons b bs ih =>
    intro off l ls
    by_cases h : b = 10
    · simp [bump, countNL, h, ih]; omega
    · simp [bump, countNL, h, ih]

theorem bump_snd : ∀ (c pre : Bytes) (l ls : Nat), ls + tailLen pre = pre.length →
    (bump c pre.length l ls).2 + tailLen (pre ++ c) = pre.length + c.length := by
  intro c
  induction c with
  | nil => intro pre l ls h; simpa [bump] using h
  | cons b bs ih =>
    intro pre l ls h
    have e : pre ++ b :: bs = (pre ++ [b]) ++ bs := by simp
    have hl : (pre ++ [b]).length = pre.length + 1 := by simp
    by_cases hb : b = 10
    · have := ih (pre ++ [b]) (l + 1) (pre.length + 1) (by rw [tailLen_snoc, if_pos hb, hl])
      rw [hl, ← e] at this
      simp only [bump, if_pos hb, List.length_cons]
      omega
    · have := ih (pre ++ [b]) l ls (by rw [tailLen_snoc, if_neg hb, hl]; omega)
      rw [hl, ← e] at this
      simp only [bump, if_neg hb, List.length_cons]
      omega

theorem bump_noNL : ∀ (c : Bytes) (off l ls : Nat), countNL c = 0 → bump c off l ls = (l, ls) := by
  intro c
  induction c with
  | nil => intro off l ls _; rfl
  | cons b bs ih =>
    intro off l ls h
    have hb : b ≠ 10 := by
      intro hb; simp [countNL, hb] at h
    have hbs : countNL bs = 0 := by simp [countNL, hb] at h; exact h
    simp [bump, hb, ih _ _ _ hbs]

theorem countNL_of_not_contains (c : Bytes) (h : c.contains 10 = false) : countNL c = 0 := by
  induction c with
  | nil => rfl
  | cons b bs ih =>
    simp only [List.contains_cons, Bool.or_eq_false_iff, beq_eq_false_iff_ne] at h
    have hb : b ≠ 10 := fun e => h.1 (e ▸ rfl)
    simp [countNL, hb, ih h.2]

theorem countNL_take_le (c : Bytes) (m : Nat) : countNL (c.take m) ≤ countNL c := by
  have := countNL_append (c.take m) (c.drop m)
  rw [List.take_append_drop] at this
  omega

/-- the bookkeeping invariant. -/
structure Inv (s : Bytes) (st : LxSt) (pre : Bytes) : Prop where
  split : s = pre ++ st.rest
  off : st.off = pre.length
  line_pos : 1 ≤ st.line
  line_le : st.line ≤ 1 + countNL pre
  exact : st.dirty = false → st.line = 1 + countNL pre ∧ st.lineStart + tailLen pre = pre.length

theorem Inv.init (s : Bytes) : Inv s (LxSt.init s) [] :=
  ⟨rfl, rfl, by simp [LxSt.init], by simp [LxSt.init], fun _ => by simp [LxSt.init, countNL, tailLen]⟩

theorem Inv.advance {s : Bytes} {st : LxSt} {pre : Bytes} (h : Inv s st pre) (n m : Nat) :
    Inv s (st.advance n m) (pre ++ st.rest.take n) := by
  have hc := countNL_append (( st.rest.take n).take m) ((st.rest.take n).drop m)
  rw [List.take_append_drop] at hc
  refine ⟨?_, ?_, ?_, ?_, ?_⟩
  · simp only [LxSt.advance, List.append_assoc, List.take_append_drop]; exact h.split
  · simp only [LxSt.advance, List.length_append]; rw [h.off]
  · simp only [LxSt.advance, bump_fst]; have := h.line_pos; omega
  · simp only [LxSt.advance, bump_fst, countNL_append]; have := h.line_le; omega
  · intro hd
    simp only [LxSt.advance, Bool.or_eq_false_iff] at hd
    obtain ⟨e1, e2⟩ := h.exact hd.1
    have hz := countNL_of_not_contains _ hd.2
    constructor
    · simp only [LxSt.advance, bump_fst, countNL_append]; omega
    · simp only [LxSt.advance]
      rw [h.off]
      have hb := bump_snd ((st.rest.take n).take m) pre st.line st.lineStart e2
      have ht := tailLen_append_noNL (pre ++ (st.rest.take n).take m) _ hz
      rw [List.append_assoc, List.take_append_drop] at ht
      have hlen : (st.rest.take n).length = ((st.rest.take n).take m).length + ((st.rest.take n).drop m).length := by
        rw [← List.length_append, List.take_append_drop]
      rw [ht, List.length_append]
      omega

theorem Inv.withTs {s : Bytes} {st : LxSt} {pre : Bytes} (h : Inv s st pre) (ts : Nat) :
    Inv s { st with ts := ts } pre :=
  ⟨h.split, h.off, h.line_pos, h.line_le, h.exact⟩

theorem Inv.line_bounds {s : Bytes} {st : LxSt} {pre : Bytes} (h : Inv s st pre) :
    (1 : Int) ≤ (st.line : Int) ∧ (st.line : Int) ≤ 1 + (countNL s : Int) := by
  have h1 := h.line_pos
  have h2 := h.line_le
  have h3 : countNL s = countNL pre + countNL st.rest := by rw [h.split, countNL_append]
  omega

/-- what is proved about one `Lex()` result. -/
def TokGood (s : Bytes) (t : LTok) : Prop :=
  ((1 : Int) ≤ t.pos.line ∧ t.pos.line ≤ 1 + (countNL s : Int)) ∧
  (t.tok ≠ .eof → t.dirty = false → countNL ((s.drop t.off).take (t.stop - t.off)) = 0 →
    t.pos = lineCol s t.off)

theorem mkTok_good_eof {s : Bytes} {st st' : LxSt} {pre' : Bytes} (h' : Inv s st' pre')
    (ts : Nat) (err : Bool) (doc : Option Bytes) (nl : Nat) :
    TokGood s (mkTok .eof st st' ts err doc nl).1 :=
  ⟨by simpa [mkTok, posOf] using h'.line_bounds, fun h => absurd rfl h⟩

theorem mkTok_good_tok {s : Bytes} {st : LxSt} {pre : Bytes} (h : Inv s st pre)
    (t : Tok) (n m : Nat) (doc : Option Bytes) (nl : Nat) :
    TokGood s (mkTok t st (st.advance n m) st.off false doc nl).1 := by
  refine ⟨by simpa [mkTok, posOf] using (h.advance n m).line_bounds, ?_⟩
  intro _ hd hz
  simp only [mkTok] at hd hz ⊢
  -- the chunk of the token is `st.rest.take n`
  have hchunk : (s.drop st.off).take ((st.advance n m).off - st.off) = st.rest.take n := by
    rw [h.split, h.off, List.drop_left]
    simp only [LxSt.advance, h.off, Nat.add_sub_cancel_left, List.length_take]
    rw [List.take_eq_take_iff]
    omega
  rw [hchunk] at hz
  have hz' : countNL ((st.rest.take n).take m) = 0 := by
    have := countNL_take_le (st.rest.take n) m; omega
  obtain ⟨e1, e2⟩ := h.exact hd
  simp only [LxSt.advance, bump_noNL _ _ _ _ hz', posOf, lineCol]
  have htake : s.take st.off = pre := by rw [h.split, h.off, List.take_left]
  rw [htake, e1]
  have ho := h.off
  simp only [Pos.mk.injEq]
  constructor <;> omega

theorem lexOne_spec (s : Bytes) : ∀ (f : Nat) (st : LxSt) (doc : Option Bytes) (nl : Nat)
    (sk : Bool) (pre : Bytes), Inv s st pre →
    (∃ pre', Inv s (lexOne f st doc nl sk).2 pre') ∧ TokGood s (lexOne f st doc nl sk).1 := by
  intro f
  induction f with
  | zero =>
    intro st doc nl sk pre h
    exact ⟨⟨pre, h.withTs _⟩, mkTok_good_eof h _ _ _ _⟩
  | succ f ih =>
    intro st doc nl sk pre h
    unfold lexOne
    split
    · exact ⟨⟨pre, h.withTs _⟩, mkTok_good_eof h _ _ _ _⟩
    · split
      · exact ih _ _ _ _ _ (h.advance 1 1)
      · split
        · exact ih _ _ _ _ _ (h.advance 1 1)
        · split
          · exact ih _ _ _ _ _ (h.advance _ _)
          · split
            · split
              · split
                · exact ih _ _ _ _ _ (h.advance _ _)
                · exact ih _ _ _ _ _ (h.advance _ _)
              · exact ⟨⟨pre, h.withTs _⟩, mkTok_good_eof h _ _ _ _⟩
              · split
                · exact ⟨⟨_, (h.advance _ _).withTs _⟩, mkTok_good_eof (h.advance _ _) _ _ _ _⟩
                · exact ⟨⟨pre, h.withTs _⟩, mkTok_good_eof h _ _ _ _⟩
            · split
              · exact ⟨⟨_, (h.advance _ _).withTs _⟩, mkTok_good_tok h _ _ _ _ _⟩
              · exact ⟨⟨_, (h.advance _ _).withTs _⟩, mkTok_good_eof (h.advance _ _) _ _ _ _⟩
              · exact ⟨⟨pre, h.withTs _⟩, mkTok_good_eof h _ _ _ _⟩
              · exact ⟨⟨pre, h.withTs _⟩, mkTok_good_eof h _ _ _ _⟩

theorem lexLoop_spec (s : Bytes) : ∀ (f : Nat) (st : LxSt) (pre : Bytes), Inv s st pre →
    ∀ t ∈ lexLoop f st, TokGood s t := by
  intro f
  induction f with
  | zero =>
    intro st pre h t ht
    simp only [lexLoop, List.mem_singleton] at ht
    subst ht
    exact mkTok_good_eof h _ _ _ _
  | succ f ih =>
    intro st pre h t ht
    have hs : (∃ pre', Inv s (lexCall st).2 pre') ∧ TokGood s (lexCall st).1 :=
      lexOne_spec s (st.rest.length + 1) st none 0 false pre h
    simp only [lexLoop] at ht
    by_cases hc : (lexCall st).1.tok = Tok.eof
    · rw [if_pos hc, List.mem_singleton] at ht
      subst ht; exact hs.2
    · rw [if_neg hc] at ht
      rcases List.mem_cons.1 ht with ht | ht
      · subst ht; exact hs.2
      · obtain ⟨pre', h'⟩ := hs.1
        exact ih _ pre' h' t ht

/-- everything proved about the tokens of a document. -/
theorem lexAll_good (s : Bytes) : ∀ t ∈ lexAll s, TokGood s t :=
  lexLoop_spec s _ _ [] (Inv.init s)

/-! ### when is a state clean? Two shapes of the INPUT suffice to exclude every uncounted newline -/

/-- `/**/` occurs in the document (the D62 shape can only start there). -/
def HasEmptyComment (s : Bytes) : Prop := [47, 42, 42, 47] <:+: s
/-- a backslash directly followed by a newline occurs in the document. -/
def HasEscapedNewline (s : Bytes) : Prop := [92, 10] <:+: s

theorem infix_of_suffix_split {p pre rest : Bytes} (h : p <:+: rest) : p <:+: pre ++ rest := by
  obtain ⟨a, b, hab⟩ := h
  exact ⟨pre ++ a, b, by simp [← hab]⟩

theorem litScan_close (q : UInt8) (R : Bytes) : litScan q (q :: R) = .closed 1 := by
  unfold litScan; simp

theorem litScan_plain (q c : UInt8) (R : Bytes) (h1 : c ≠ q) (h2 : c ≠ 10) (h3 : c ≠ 92) :
    litScan q (c :: R) = (litScan q R).add 1 := by
  cases R <;> simp [litScan, h1, h2, h3]

theorem litScan_esc (q e : UInt8) (R : Bytes) (hq : q ≠ 92) :
    litScan q (92 :: e :: R) = (litScan q R).add 2 := by
  simp [litScan, Ne.symm hq]

/-- a literal that closes contains a newline only directly after a backslash. -/
theorem litScan_nl (q : UInt8) (hq : q ≠ 10) : ∀ (r : Bytes) (n : Nat), litScan q r = .closed n →
    (r.take n).contains 10 = true → [92, 10] <:+: r := by
  intro r
  induction r using litScan.induct q with
  | case1 => intro n h; simp [litScan] at h
  | case2 rest =>
    intro n h hc
    rw [litScan_close] at h
    injection h with h; subst h
    simp at hc; exact absurd hc.symm hq
  | case3 rest hne =>
    intro n h
    cases rest <;> simp [litScan, hne] at h
  | case4 h1 h2 => intro n h; simp [litScan, h1] at h
  | case5 d tail h1 h2 ih =>
    intro n h hc
    rw [litScan_esc q d tail (fun e => h1 e.symm)] at h
    cases ht : litScan q tail with
    | closed n' =>
      rw [ht] at h
      simp only [LitScan.add] at h
      injection h with h; subst h
      simp only [List.take_succ_cons, List.contains_cons, Bool.or_eq_true, beq_iff_eq] at hc
      rcases hc with hc | hc | hc
      · cases hc
      · exact ⟨[], tail, by simp [hc]⟩
      · obtain ⟨a, b, hab⟩ := ih n' ht hc
        exact ⟨92 :: d :: a, b, by simp [← hab]⟩
    | newline => rw [ht] at h; simp [LitScan.add] at h
    | open_ => rw [ht] at h; simp [LitScan.add] at h
  | case6 c rest h1 h2 h3 ih =>
    intro n h hc
    rw [litScan_plain q c rest h1 h2 h3] at h
    cases ht : litScan q rest with
    | closed n' =>
      rw [ht] at h
      simp only [LitScan.add] at h
      injection h with h; subst h
      simp only [List.take_succ_cons, List.contains_cons, Bool.or_eq_true, beq_iff_eq] at hc
      rcases hc with hc | hc
      · exact absurd hc.symm h2
      · obtain ⟨a, b, hab⟩ := ih n' ht hc
        exact ⟨c :: a, b, by simp [← hab]⟩
    | newline => rw [ht] at h; simp [LitScan.add] at h
    | open_ => rw [ht] at h; simp [LitScan.add] at h

theorem take_drop_self (l : Bytes) (n : Nat) : (l.take n).drop n = [] := by
  apply List.drop_eq_nil_of_le
  simp [List.length_take]; omega

theorem advance_dirty_nn (st : LxSt) (n : Nat) : (st.advance n n).dirty = st.dirty := by
  simp [LxSt.advance, take_drop_self]

theorem slashRes_nn (r : Bytes) (n m : Nat) (d : Bool) (h : slashRes r = .skip n m d)
    (hne : ¬ HasEmptyComment (47 :: r)) : m = n := by
  unfold slashRes at h
  split at h
  · cases h
  · rename_i d0 r2
    split at h
    · injection h with h1 h2 _; omega
    · split at h
      · split at h
        · rename_i r4
          exact absurd ⟨[], r4, by simp_all⟩ hne
        · split at h
          · injection h with h1 h2 _; omega
          · cases h
      · cases h

theorem numberRes_nn (inp : Bytes) (s : Nat) :
    (∀ t n m, numberRes inp s = .tok t n m → m = n) ∧ (∀ n m, numberRes inp s = .lexErr n m → m = n) := by
  unfold numberRes
  simp only []
  constructor
  · intro t n m h
    split at h
    · split at h
      · injection h with _ h1 h2; omega
      · cases h
    · split at h
      · split at h
        · injection h with _ h1 h2; omega
        · cases h
      · split at h
        · injection h with _ h1 h2; omega
        · cases h
  · intro n m h
    split at h
    · split at h
      · cases h
      · injection h with h1 h2; omega
    · split at h
      · split at h
        · cases h
        · injection h with h1 h2; omega
      · split at h
        · cases h
        · injection h with h1 h2; omega

/-- "the part of the chunk on which `newline` actions do not fire has no newline". -/
def ResClean (rest : Bytes) : TokRes → Prop
  | .tok _ n m => ((rest.take n).drop m).contains 10 = false
  | .lexErr n m => ((rest.take n).drop m).contains 10 = false
  | _ => True

theorem resClean_nn (rest : Bytes) (t : Tok) (n : Nat) : ResClean rest (.tok t n n) := by
  simp [ResClean, take_drop_self]

theorem resClean_err_nn (rest : Bytes) (n : Nat) : ResClean rest (.lexErr n n) := by
  simp [ResClean, take_drop_self]

theorem numberRes_clean (rest inp : Bytes) (s : Nat) : ResClean rest (numberRes inp s) := by
  unfold numberRes
  simp only []
  split
  · split
    · exact resClean_nn _ _ _
    · exact resClean_err_nn _ _
  · split
    · split
      · exact resClean_nn _ _ _
      · exact resClean_err_nn _ _
    · split
      · exact resClean_nn _ _ _
      · exact resClean_err_nn _ _

theorem literalRes_clean (c : UInt8) (r : Bytes) (hc : c = 34 ∨ c = 39)
    (hne : ¬ HasEscapedNewline (c :: r)) : ResClean (c :: r) (literalRes c r) := by
  have hq : c ≠ 10 := by rcases hc with rfl | rfl <;> decide
  unfold literalRes
  split
  · rename_i n hl
    have hclean : (((c :: r).take (n + 1)).drop 0).contains 10 = false := by
      simp only [List.take_succ_cons, List.drop_zero, List.contains_cons, Bool.or_eq_false_iff,
        beq_eq_false_iff_ne]
      refine ⟨fun e => hq e.symm, ?_⟩
      cases hcont : (r.take n).contains 10 with
      | false => rfl
      | true =>
        have := litScan_nl c hq r n hl hcont
        exact absurd (infix_of_suffix_split (pre := [c]) this) hne
    split
    · exact hclean
    · exact hclean
  · trivial
  · trivial

theorem wordRes_clean (c : UInt8) (r : Bytes) : ResClean (c :: r) (wordRes c r) := by
  unfold wordRes
  split
  · exact resClean_nn _ _ _
  · split
    · exact resClean_err_nn _ _
    · exact resClean_nn _ _ _

/-- the part of a token's chunk on which `newline` actions do not fire has no newline, unless the
document has a backslash-newline. -/
theorem tokenRes_clean (c : UInt8) (r : Bytes) (hne : ¬ HasEscapedNewline (c :: r)) :
    ResClean (c :: r) (tokenRes c r) := by
  unfold tokenRes
  split
  · exact resClean_nn _ _ _
  · split
    · rename_i hc
      simp only [Bool.or_eq_true, decide_eq_true_eq] at hc
      exact literalRes_clean c r hc hne
    · split
      · unfold signRes
        split
        · trivial
        · split
          · exact numberRes_clean _ _ _
          · trivial
      · split
        · exact numberRes_clean _ _ _
        · split
          · exact wordRes_clean c r
          · trivial

theorem advance_dirty (st : LxSt) (n m : Nat) :
    (st.advance n m).dirty = (st.dirty || ((st.rest.take n).drop m).contains 10) := rfl

/-- On a document without `/**/` and without backslash-newline the scanner state never gets
dirty: every `\n` it consumes goes through the `newline` action. -/
theorem lexOne_clean (s : Bytes) (h1 : ¬ HasEmptyComment s) (h2 : ¬ HasEscapedNewline s) :
    ∀ (f : Nat) (st : LxSt) (doc : Option Bytes) (nl : Nat) (sk : Bool) (pre : Bytes),
    Inv s st pre → st.dirty = false →
    (lexOne f st doc nl sk).1.dirty = false ∧ (lexOne f st doc nl sk).2.dirty = false := by
  intro f
  induction f with
  | zero => intro st doc nl sk pre h hd; exact ⟨hd, hd⟩
  | succ f ih =>
    intro st doc nl sk pre h hd
    have hnn : ∀ n, (st.advance n n).dirty = false := fun n => by rw [advance_dirty_nn]; exact hd
    unfold lexOne
    split
    · exact ⟨hd, hd⟩
    · rename_i c r hrest
      have hsuf1 : ¬ HasEmptyComment (c :: r) := fun hh => h1 (by
        rw [h.split, hrest]; exact infix_of_suffix_split hh)
      have hsuf2 : ¬ HasEscapedNewline (c :: r) := fun hh => h2 (by
        rw [h.split, hrest]; exact infix_of_suffix_split hh)
      split
      · exact ih _ _ _ _ _ (h.advance 1 1) (hnn 1)
      · split
        · exact ih _ _ _ _ _ (h.advance 1 1) (hnn 1)
        · split
          · exact ih _ _ _ _ _ (h.advance _ _) (hnn _)
          · split
            · rename_i hc47
              split
              · rename_i n m isDoc hs
                have hmn : m = n := slashRes_nn r n m isDoc hs (by rw [← hc47]; exact hsuf1)
                subst hmn
                split
                · exact ih _ _ _ _ _ (h.advance _ _) (hnn _)
                · exact ih _ _ _ _ _ (h.advance _ _) (hnn _)
              · exact ⟨hd, hd⟩
              · split
                · exact ⟨hd, hnn _⟩
                · exact ⟨hd, hd⟩
            · have hclean := tokenRes_clean c r hsuf2
              split
              · rename_i t n m ht
                rw [ht] at hclean
                refine ⟨hd, ?_⟩
                simp only [mkTok, advance_dirty, hd, Bool.false_or, hrest]
                exact hclean
              · rename_i n m ht
                rw [ht] at hclean
                refine ⟨hd, ?_⟩
                simp only [mkTok, advance_dirty, hd, Bool.false_or, hrest]
                exact hclean
              · exact ⟨hd, hd⟩
              · exact ⟨hd, hd⟩

theorem lexLoop_clean (s : Bytes) (h1 : ¬ HasEmptyComment s) (h2 : ¬ HasEscapedNewline s) :
    ∀ (f : Nat) (st : LxSt) (pre : Bytes), Inv s st pre → st.dirty = false →
    ∀ t ∈ lexLoop f st, t.dirty = false := by
  intro f
  induction f with
  | zero =>
    intro st pre h hd t ht
    simp only [lexLoop, List.mem_singleton] at ht
    subst ht; exact hd
  | succ f ih =>
    intro st pre h hd t ht
    have hc : (lexCall st).1.dirty = false ∧ (lexCall st).2.dirty = false :=
      lexOne_clean s h1 h2 _ st none 0 false pre h hd
    have hs : ∃ pre', Inv s (lexCall st).2 pre' :=
      (lexOne_spec s (st.rest.length + 1) st none 0 false pre h).1
    simp only [lexLoop] at ht
    by_cases he : (lexCall st).1.tok = Tok.eof
    · rw [if_pos he, List.mem_singleton] at ht
      subst ht; exact hc.1
    · rw [if_neg he] at ht
      rcases List.mem_cons.1 ht with ht | ht
      · subst ht; exact hc.1
      · obtain ⟨pre', h'⟩ := hs
        exact ih _ pre' h' hc.2 t ht

theorem lexAll_clean (s : Bytes) (h1 : ¬ HasEmptyComment s) (h2 : ¬ HasEscapedNewline s) :
    ∀ t ∈ lexAll s, t.dirty = false :=
  lexLoop_clean s h1 h2 _ _ [] (Inv.init s) rfl

end ThriftVerif.Idl
