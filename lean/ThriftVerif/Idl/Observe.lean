/-
Small observers used by the witness theorems of C11 (what a test would look at).
-/
import ThriftVerif.Idl.Parser
import ThriftVerif.Idl.Walk

namespace ThriftVerif.Idl

def ParseResult.errorList : ParseResult → List Pos
  | .errors e => e.toList
  | _ => []

def ParseResult.isProgram : ParseResult → Bool
  | .program _ => true
  | _ => false

def ParseResult.defs : ParseResult → List Definition
  | .program p => p.defs
  | _ => []

def Definition.pos : Definition → Pos
  | .const _ _ _ p _ => p | .typedef _ _ _ p _ => p | .enum _ _ _ p _ => p
  | .struct _ _ _ _ p _ => p | .service _ _ _ _ p _ => p

def Definition.doc : Definition → Bytes
  | .const _ _ _ _ d => d | .typedef _ _ _ _ d => d | .enum _ _ _ _ d => d
  | .struct _ _ _ _ _ d => d | .service _ _ _ _ _ d => d

def Definition.name : Definition → Bytes
  | .const n _ _ _ _ => n | .typedef n _ _ _ _ => n | .enum n _ _ _ _ => n
  | .struct _ n _ _ _ _ => n | .service n _ _ _ _ _ => n

def ConstValue.pos : ConstValue → Pos
  | .int _ p => p | .dbl _ p => p | .bool _ p => p | .str _ p => p | .ref _ p => p
  | .list _ p => p | .map _ p => p

/-- positions of the values of the top-level constants. -/
def ParseResult.constValuePositions (r : ParseResult) : List Pos :=
  r.defs.filterMap fun d => match d with
    | .const _ _ v _ _ => some v.pos
    | _ => none

/-- positions of the parent references of the services. -/
def ParseResult.parentPositions (r : ParseResult) : List Pos :=
  r.defs.filterMap fun d => match d with
    | .service _ _ (some par) _ _ _ => some par.pos
    | _ => none

end ThriftVerif.Idl
