/-
Proofs about Parser.lean (C11 a): whatever `parse` reports as an error is a `Lex()` position, so
its line lies in `[1, lines + 1]`; the list of errors is non-empty by its type.
-/
import ThriftVerif.Idl.Parser
import ThriftVerif.Idl.LexerProofs

namespace ThriftVerif.Idl

theorem lexLoop_ne_nil : ∀ (f : Nat) (st : LxSt), lexLoop f st ≠ [] := by
  intro f st
  cases f with
  | zero => simp [lexLoop]
  | succ f =>
    simp only [lexLoop]
    split <;> simp

theorem lexAll_ne_nil (s : Bytes) : lexAll s ≠ [] := lexLoop_ne_nil _ _

theorem getLast_mem_or {toks : List LTok} (h : toks ≠ []) : toks.getLast?.getD default ∈ toks := by
  rw [List.getLast?_eq_some_getLast h]
  exact List.getLast_mem h

theorem getD_mem {toks : List LTok} (h : toks ≠ []) (i : Nat) :
    toks.getD i (toks.getLast?.getD default) ∈ toks := by
  rw [List.getD_eq_getElem?_getD]
  by_cases hi : i < toks.length
  · rw [List.getElem?_eq_getElem hi]; exact List.getElem_mem hi
  · rw [List.getElem?_eq_none (by omega)]; exact getLast_mem_or h

/-- every position in the error list of `parseToks` is the `Pos()` of one of the tokens. -/
theorem parseToks_errors_mem (toks : List LTok) (h : toks ≠ []) (e : Errors)
    (he : parseToks toks = .errors e) : ∀ p ∈ e.toList, ∃ t ∈ toks, p = t.pos := by
  unfold parseToks at he
  simp only at he
  generalize parseProgram _ _ = r at he
  cases r with
  | ok p st =>
    simp only at he
    split at he
    · cases he
      intro p hp
      simp only [Errors.toList, List.mem_cons, List.not_mem_nil, or_false] at hp
      exact ⟨_, getLast_mem_or h, hp⟩
    · cases he
  | fail i =>
    simp only at he
    split at he
    · cases he
      intro p hp
      simp only [Errors.toList, List.mem_cons, List.not_mem_nil, or_false, or_self] at hp
      exact ⟨_, getD_mem h _, hp⟩
    · cases he
      intro p hp
      simp only [Errors.toList, List.mem_cons, List.not_mem_nil, or_false] at hp
      exact ⟨_, getD_mem h _, hp⟩
  | fuel => cases he

theorem parse_error_lines (s : Bytes) (e : Errors) (he : parse s = .errors e) :
    ∀ p ∈ e.toList, (1 : Int) ≤ p.line ∧ p.line ≤ 1 + (countNL s : Int) := by
  intro p hp
  obtain ⟨t, ht, rfl⟩ := parseToks_errors_mem (lexAll s) (lexAll_ne_nil s) e he p hp
  exact (lexAll_good s t ht).1

end ThriftVerif.Idl
