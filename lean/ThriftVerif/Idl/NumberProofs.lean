/-
Proofs about Number.lean (C11 e): the INTCONSTANT action reads back every printed integer —
decimal with or without sign, and `0x…` hex — and rejects exactly what is outside int64.
-/
import ThriftVerif.Idl.Number

namespace ThriftVerif.Idl

def allDigits (ds : Bytes) : Prop := ∀ d ∈ ds, isDigit d = true
def allHex (ds : Bytes) : Prop := ∀ d ∈ ds, isHexDigit d = true

theorem parseDecNat_append (a : Bytes) (d : UInt8) :
    parseDecNat (a ++ [d]) = parseDecNat a * 10 + digitVal d := by
  simp [parseDecNat, List.foldl_append]

theorem parseHexNat_append (a : Bytes) (d : UInt8) :
    parseHexNat (a ++ [d]) = parseHexNat a * 16 + hexVal d := by
  simp [parseHexNat, List.foldl_append]

theorem digit_facts (k : Nat) (h : k < 10) :
    isDigit (UInt8.ofNat (48 + k)) = true ∧ digitVal (UInt8.ofNat (48 + k)) = k := by
  have : ∀ k : Fin 10, isDigit (UInt8.ofNat (48 + k.val)) = true ∧ digitVal (UInt8.ofNat (48 + k.val)) = k.val := by
    decide
  exact this ⟨k, h⟩

theorem hexDigit_facts' (k : Nat) (h : k < 16) :
    isHexDigit (hexDigit k) = true ∧ hexVal (hexDigit k) = k := by
  have : ∀ k : Fin 16, isHexDigit (hexDigit k.val) = true ∧ hexVal (hexDigit k.val) = k.val := by decide
  exact this ⟨k, h⟩

/-- `decDigitsF` with enough fuel prepends the decimal digits of `n`. -/
theorem parseDecNat_single (d : UInt8) : parseDecNat [d] = digitVal d := by
  simp [parseDecNat]

theorem parseHexNat_single (d : UInt8) : parseHexNat [d] = hexVal d := by
  simp [parseHexNat]

theorem decDigitsF_spec : ∀ (f n : Nat) (acc : Bytes), n < f →
    ∃ ds, decDigitsF f n acc = ds ++ acc ∧ ds ≠ [] ∧ allDigits ds ∧ parseDecNat ds = n := by
  intro f
  induction f with
  | zero => intro n acc h; omega
  | succ f ih =>
    intro n acc h
    unfold decDigitsF
    split
    · rename_i hn
      refine ⟨[UInt8.ofNat (48 + n)], rfl, List.cons_ne_nil _ _, ?_, ?_⟩
      · intro d hd
        rw [List.mem_singleton] at hd
        rw [hd]; exact (digit_facts n hn).1
      · rw [parseDecNat_single]; exact (digit_facts n hn).2
    · rename_i hn
      obtain ⟨ds, h1, _, h3, h4⟩ := ih (n / 10) (UInt8.ofNat (48 + n % 10) :: acc) (by omega)
      have hk : n % 10 < 10 := Nat.mod_lt _ (by omega)
      refine ⟨ds ++ [UInt8.ofNat (48 + n % 10)], ?_, ?_, ?_, ?_⟩
      · rw [h1, List.append_assoc]; rfl
      · intro hnil; exact absurd (List.append_eq_nil_iff.1 hnil).2 (List.cons_ne_nil _ _)
      · intro d hd
        rcases List.mem_append.1 hd with hd | hd
        · exact h3 d hd
        · rw [List.mem_singleton] at hd
          rw [hd]; exact (digit_facts _ hk).1
      · rw [parseDecNat_append, h4, (digit_facts _ hk).2]; omega

theorem hexDigitsF_spec : ∀ (f n : Nat) (acc : Bytes), n < f →
    ∃ ds, hexDigitsF f n acc = ds ++ acc ∧ ds ≠ [] ∧ allHex ds ∧ parseHexNat ds = n := by
  intro f
  induction f with
  | zero => intro n acc h; omega
  | succ f ih =>
    intro n acc h
    unfold hexDigitsF
    split
    · rename_i hn
      refine ⟨[hexDigit n], rfl, List.cons_ne_nil _ _, ?_, ?_⟩
      · intro d hd
        rw [List.mem_singleton] at hd
        rw [hd]; exact (hexDigit_facts' n hn).1
      · rw [parseHexNat_single]; exact (hexDigit_facts' n hn).2
    · rename_i hn
      obtain ⟨ds, h1, _, h3, h4⟩ := ih (n / 16) (hexDigit (n % 16) :: acc) (by omega)
      have hk : n % 16 < 16 := Nat.mod_lt _ (by omega)
      refine ⟨ds ++ [hexDigit (n % 16)], ?_, ?_, ?_, ?_⟩
      · rw [h1, List.append_assoc]; rfl
      · intro hnil; exact absurd (List.append_eq_nil_iff.1 hnil).2 (List.cons_ne_nil _ _)
      · intro d hd
        rcases List.mem_append.1 hd with hd | hd
        · exact h3 d hd
        · rw [List.mem_singleton] at hd
          rw [hd]; exact (hexDigit_facts' _ hk).1
      · rw [parseHexNat_append, h4, (hexDigit_facts' _ hk).2]; omega

theorem showNat_spec (n : Nat) : (showNat n) ≠ [] ∧ allDigits (showNat n) ∧ parseDecNat (showNat n) = n := by
  obtain ⟨ds, h1, h2, h3, h4⟩ := decDigitsF_spec (n + 1) n [] (by omega)
  simp only [showNat, h1, List.append_nil]
  exact ⟨h2, h3, h4⟩

/-- on a non-empty string of decimal digits the action is plain base-10 reading with the
int64 upper bound. -/
theorem lexInt_digits (ds : Bytes) (hne : ds ≠ []) (hd : allDigits ds) :
    lexInt ds = if parseDecNat ds < 2 ^ 63 then some (parseDecNat ds : Int) else none := by
  cases ds with
  | nil => contradiction
  | cons d0 r =>
    have h0 : isDigit d0 = true := hd d0 (by simp)
    unfold lexInt
    split
    · -- 48 :: 120 :: … : the second byte would have to be a digit
      rename_i h hs heq
      injection heq with _ h2
      have : isDigit (120 : UInt8) = true := hd 120 (by simp [h2])
      exact absurd this (by decide)
    · rename_i ds' heq
      injection heq with h1 _
      rw [h1] at h0; exact absurd h0 (by decide)
    · rename_i ds' heq
      injection heq with h1 _
      rw [h1] at h0; exact absurd h0 (by decide)
    · rfl

theorem lexInt_showNat (n : Nat) :
    lexInt (showNat n) = if n < 2 ^ 63 then some (n : Int) else none := by
  obtain ⟨h1, h2, h3⟩ := showNat_spec n
  rw [lexInt_digits _ h1 h2, h3]

theorem lexInt_neg (ds : Bytes) :
    lexInt (45 :: ds) = if parseDecNat ds ≤ 2 ^ 63 then some (-(parseDecNat ds : Int)) else none := by
  simp [lexInt]

theorem lexInt_plus (ds : Bytes) :
    lexInt (43 :: ds) = if parseDecNat ds < 2 ^ 63 then some (parseDecNat ds : Int) else none := by
  simp [lexInt]

theorem lexInt_hex (h : UInt8) (hs : Bytes) :
    lexInt (48 :: 120 :: h :: hs) =
      if parseHexNat (h :: hs) < 2 ^ 63 then some (parseHexNat (h :: hs) : Int) else none := by
  simp [lexInt]

/-- every int64 printed in decimal (with `-` when negative) is read back. -/
theorem lexInt_showInt (i : Int) (lo : -(2 ^ 63 : Int) ≤ i) (hi : i < 2 ^ 63) :
    lexInt (showInt i) = some i := by
  cases i with
  | ofNat n =>
    have : n < 2 ^ 63 := by
      have h : (n : Int) < 2 ^ 63 := hi
      omega
    simp [showInt, lexInt_showNat, this]
  | negSucc m =>
    have hm : m + 1 ≤ 2 ^ 63 := by
      have h : -(2 ^ 63 : Int) ≤ Int.negSucc m := lo
      rw [Int.negSucc_eq] at h
      omega
    simp only [showInt, lexInt_neg, (showNat_spec (m + 1)).2.2, hm, if_true]
    congr 1

theorem lexInt_showHex (n : Nat) :
    lexInt (showHex n) = if n < 2 ^ 63 then some (n : Int) else none := by
  obtain ⟨ds, h1, h2, _, h4⟩ := hexDigitsF_spec (n + 1) n [] (by omega)
  rw [List.append_nil] at h1
  cases ds with
  | nil => contradiction
  | cons h hs => rw [showHex, h1, lexInt_hex, h4]

end ThriftVerif.Idl
