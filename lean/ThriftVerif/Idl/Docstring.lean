/-
M-Idl, part 3: `ParseDocstring` (idl/internal/docstring.go).

The Go code works on strings with `strings.Split`, `strings.IndexFunc(·, !unicode.IsSpace)`,
`strings.TrimSpace`, `TrimPrefix/TrimSuffix`. Those decode UTF-8; the only runes that matter are
the white-space ones, all of which have a fixed byte pattern (an ill-formed byte decodes to
U+FFFD, which is not a space), so the model matches byte patterns and never builds runes.

Core-only.
-/
import ThriftVerif.Idl.Basic

namespace ThriftVerif.Idl

/-- Byte length of the `unicode.IsSpace` rune at the head of the input, 0 if the head is not
white space. (`\t \n \v \f \r ' '`, U+0085, U+00A0, U+1680, U+2000–U+200A, U+2028, U+2029,
U+202F, U+205F, U+3000.) -/
def spaceLen : Bytes → Nat
  | [] => 0
  | c :: rest =>
    if c = 9 || c = 10 || c = 11 || c = 12 || c = 13 || c = 32 then 1
    else if c = 0xC2 then
      match rest with
      | d :: _ => if d = 0x85 || d = 0xA0 then 2 else 0
      | [] => 0
    else if c = 0xE1 then
      match rest with
      | d :: e :: _ => if d = 0x9A && e = 0x80 then 3 else 0
      | _ => 0
    else if c = 0xE2 then
      match rest with
      | d :: e :: _ =>
        if d = 0x80 && ((0x80 ≤ e && e ≤ 0x8A) || e = 0xA8 || e = 0xA9 || e = 0xAF) then 3
        else if d = 0x81 && e = 0x9F then 3
        else 0
      | _ => 0
    else if c = 0xE3 then
      match rest with
      | d :: e :: _ => if d = 0x80 && e = 0x80 then 3 else 0
      | _ => 0
    else 0

/-- The same test on a *reversed* string (what `utf8.DecodeLastRune` finds at the end). -/
def spaceLenRev : Bytes → Nat
  | [] => 0
  | c :: rest =>
    if c = 9 || c = 10 || c = 11 || c = 12 || c = 13 || c = 32 then 1
    else
      match rest with
      | [] => 0
      | d :: r2 =>
        if d = 0xC2 && (c = 0x85 || c = 0xA0) then 2
        else
          match r2 with
          | [] => 0
          | e :: _ =>
            if e = 0xE1 && d = 0x9A && c = 0x80 then 3
            else if e = 0xE2 && d = 0x80 && ((0x80 ≤ c && c ≤ 0x8A) || c = 0xA8 || c = 0xA9 || c = 0xAF) then 3
            else if e = 0xE2 && d = 0x81 && c = 0x9F then 3
            else if e = 0xE3 && d = 0x80 && c = 0x80 then 3
            else 0

/-- `strings.IndexFunc(s, isNotSpace)`: byte index of the first non-space rune. -/
def firstNonSpaceF : Nat → Bytes → Option Nat
  | 0, _ => none
  | _ + 1, [] => none
  | f + 1, bs =>
    let k := spaceLen bs
    if k = 0 then some 0 else (firstNonSpaceF f (bs.drop k)).map (· + k)

def firstNonSpace (bs : Bytes) : Option Nat := firstNonSpaceF (bs.length + 1) bs

def dropSpacesF (len : Bytes → Nat) : Nat → Bytes → Bytes
  | 0, bs => bs
  | f + 1, bs =>
    let k := len bs
    if k = 0 then bs else dropSpacesF len f (bs.drop k)

/-- `strings.TrimSpace`. -/
def trimSpace (bs : Bytes) : Bytes :=
  let l := dropSpacesF spaceLen (bs.length + 1) bs
  (dropSpacesF spaceLenRev (l.length + 1) l.reverse).reverse

/-- `strings.Split(s, "\n")` (never empty). -/
def splitNL : Bytes → List Bytes
  | [] => [[]]
  | c :: rest =>
    if c = 10 then [] :: splitNL rest
    else
      match splitNL rest with
      | l :: ls => (c :: l) :: ls
      | [] => [[c]]

/-- `strings.Join(lines, "\n")`. -/
def joinNL : List Bytes → Bytes
  | [] => []
  | [l] => l
  | l :: ls => l ++ 10 :: joinNL ls

/-- The loop of `unindent`; `plen` is the length of the prefix once one is known. Only the
*length* of the prefix is used by the Go code (`nonSpace >= len(prefix)`), not its content. -/
def unindentLoop (plen : Option Nat) : List Bytes → List Bytes
  | [] => []
  | s :: rest =>
    match firstNonSpace s with
    | none => [] :: unindentLoop plen rest
    | some ns =>
      let p := plen.getD ns
      (if p ≤ ns then s.drop p else s) :: unindentLoop (some p) rest

/-- docstring.go `unindent`. -/
def unindent (skipFirstIfUnindented : Bool) (lines : List Bytes) : List Bytes :=
  match lines with
  | [] => []
  | l0 :: rest =>
    match firstNonSpace l0 with
    | none => unindentLoop none lines
    | some ns =>
      if ns = 0 && skipFirstIfUnindented then l0 :: unindentLoop none rest
      else unindentLoop (some ns) lines

def stripPrefix (p s : Bytes) : Bytes := if p.isPrefixOf s then s.drop p.length else s
def stripSuffix (p s : Bytes) : Bytes := if p.isSuffixOf s then s.take (s.length - p.length) else s

def modifyLast (f : Bytes → Bytes) : List Bytes → List Bytes
  | [] => []
  | [l] => [f l]
  | l :: ls => l :: modifyLast f ls

def dropLeadingEmpty : List Bytes → List Bytes
  | [] => []
  | l :: ls => if l.isEmpty then dropLeadingEmpty ls else l :: ls

def dropTrailingEmpty (ls : List Bytes) : List Bytes := (dropLeadingEmpty ls.reverse).reverse

/-- strip a leading `*` or ` *`. -/
def stripStar (l : Bytes) : Bytes :=
  match l with
  | 42 :: r => r
  | 32 :: 42 :: r => r
  | _ => l

/-- docstring.go `ParseDocstring`. -/
def parseDocstring (s : Bytes) : Bytes :=
  let lines := unindent true (splitNL s)
  let lines := match lines with
    | [] => []
    | l :: ls => stripPrefix (str "/**") l :: ls
  let lines := modifyLast (stripSuffix (str "*/")) lines
  match lines with
  | [l] => trimSpace l
  | _ =>
    let lines := dropTrailingEmpty (dropLeadingEmpty lines)
    let lines := lines.map stripStar
    let lines := unindent false lines
    let lines := dropTrailingEmpty (dropLeadingEmpty lines)
    joinNL lines

end ThriftVerif.Idl
