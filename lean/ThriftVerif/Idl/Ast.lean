/-
M-Idl, part 6: the AST — mirrors /repo/ast (header.go, definition.go, type.go, constant.go,
annotation.go, program.go). Every node carries the position the parser reports for it
(`Line`/`Column` fields, or `idl.Info.Pos` for the value-typed constants). Docstrings are stored
after `ParseDocstring`. Names, literals, docstrings are byte strings.

Core-only.
-/
import ThriftVerif.Idl.Basic

namespace ThriftVerif.Idl

structure Annotation where
  name : Bytes
  value : Bytes
  pos : Pos
  deriving DecidableEq, Repr, Inhabited

inductive BaseTypeID where
  | bool | i8 | i16 | i32 | i64 | double | string | binary
  deriving DecidableEq, Repr, Inhabited

/-- ast.Type: BaseType, MapType, ListType, SetType, TypeReference. -/
inductive Ty where
  | base (id : BaseTypeID) (anns : List Annotation) (pos : Pos)
  | map (k v : Ty) (anns : List Annotation) (pos : Pos)
  | list (v : Ty) (anns : List Annotation) (pos : Pos)
  | set (v : Ty) (anns : List Annotation) (pos : Pos)
  | ref (name : Bytes) (pos : Pos)
  deriving Repr, Inhabited

/-- ast.ConstantValue. A map item (`ast.ConstantMapItem`) is `(key, value, pos)`.
Doubles are their IEEE-754 bits. -/
inductive ConstValue where
  | int (v : Int) (pos : Pos)
  | dbl (bits : Nat) (pos : Pos)
  | bool (b : Bool) (pos : Pos)
  | str (s : Bytes) (pos : Pos)
  | ref (name : Bytes) (pos : Pos)
  | list (items : List ConstValue) (pos : Pos)
  | map (items : List (ConstValue × ConstValue × Pos)) (pos : Pos)
  deriving Repr, Inhabited

inductive Requiredness where
  | unspecified | required | optional
  deriving DecidableEq, Repr, Inhabited

structure Field where
  id : Int
  idUnset : Bool
  name : Bytes
  ty : Ty
  req : Requiredness
  dflt : Option ConstValue
  anns : List Annotation
  pos : Pos
  doc : Bytes
  deriving Repr, Inhabited

structure Function where
  name : Bytes
  params : List Field
  ret : Option Ty          -- none = void
  exceptions : List Field
  oneway : Bool
  anns : List Annotation
  pos : Pos
  doc : Bytes
  deriving Repr, Inhabited

structure EnumItem where
  name : Bytes
  value : Option Int
  anns : List Annotation
  pos : Pos
  doc : Bytes
  deriving Repr, Inhabited

inductive StructKind where
  | struct | union | exception
  deriving DecidableEq, Repr, Inhabited

/-- ast.ServiceReference (not an ast.Node). -/
structure ServiceRef where
  name : Bytes
  pos : Pos
  deriving DecidableEq, Repr, Inhabited

inductive Definition where
  | const (name : Bytes) (ty : Ty) (value : ConstValue) (pos : Pos) (doc : Bytes)
  | typedef (name : Bytes) (ty : Ty) (anns : List Annotation) (pos : Pos) (doc : Bytes)
  | enum (name : Bytes) (items : List EnumItem) (anns : List Annotation) (pos : Pos) (doc : Bytes)
  | struct (kind : StructKind) (name : Bytes) (fields : List Field) (anns : List Annotation)
      (pos : Pos) (doc : Bytes)
  | service (name : Bytes) (functions : List Function) (parent : Option ServiceRef)
      (anns : List Annotation) (pos : Pos) (doc : Bytes)
  deriving Repr, Inhabited

inductive Header where
  | include_ (name : Bytes) (path : Bytes) (pos : Pos)
  | cppInclude (path : Bytes) (pos : Pos)
  | namespace_ (scope : Bytes) (name : Bytes) (pos : Pos)
  deriving DecidableEq, Repr, Inhabited

structure Program where
  headers : List Header
  defs : List Definition
  deriving Repr, Inhabited

end ThriftVerif.Idl
