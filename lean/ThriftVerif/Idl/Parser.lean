/-
M-Idl, part 7: the parser — idl/internal/thrift.y as goyacc runs it (`y.go`).

A recursive-descent parser over the token sequence of `lexAll`, with goyacc's *lazy look-ahead*
made explicit: the LALR automaton reads the next token only in states that need it to choose an
action; in a state whose only action is one reduction it reduces first ("default reduction").
The empty `pos` marker is `lex.Pos()` = position of the **last token the lexer produced**, so

* where the look-ahead was already read, `pos` is the position of the upcoming token
  (headers, definitions, fields, functions, enum items, annotations, types, list items, map keys);
* after `=` (constant, field default), after `:` (map value) and after `extends` the state is a
  pure default reduction: `pos` is the position of that `=` / `:` / `extends` (D19, D20);
* `IDENTIFIER pos` (type reference) reduces before the next token is read: position of the name.

`PSt.forced` says whether the head of `toks` has been handed out by `Lex()` already; `force` is
the `Lex()` call (it also merges the docstring bookkeeping of that call), `cur` is `lex.Pos()`.
`lastDocstring` is `lexer.LastDocstring()`.

A syntax error is reported by goyacc at `lex.Pos()` with the offending look-ahead read, i.e. at the
position of token number `shifted`; the parser therefore fails with that index. A lexer error makes
`Lex()` return end-of-input and adds its own error first.

`ast.ConstantInteger/Double/Boolean/String` are Go values, and `NodePositions` is a map keyed by
node *value*: `idl.Info.Pos` returns the position recorded for the LAST constant with an equal value
(`resolve`).

Core-only.
-/
import ThriftVerif.Idl.Lexer
import ThriftVerif.Idl.Docstring
import ThriftVerif.Idl.Ast

namespace ThriftVerif.Idl

/-- key of `NodePositions` for value-typed constants (Go interface equality: dynamic type and
value; `+0 == -0` for doubles). -/
inductive PrimKey where
  | int (v : Int) | dbl (bits : Nat) | bool (b : Bool) | str (s : Bytes)
  deriving DecidableEq, Repr

def PrimKey.ofDbl (bits : Nat) : PrimKey := .dbl (if bits = 2 ^ 63 then 0 else bits)

structure PSt where
  toks : List LTok
  forced : Bool
  cur : Pos
  doc : Bytes
  since : Nat
  shifted : Nat
  recs : List (PrimKey × Pos)      -- most recent first
  deriving Repr

inductive Res (α : Type) where
  | ok (a : α) (st : PSt)
  /-- syntax error with the offending token (index in `lexAll`) read -/
  | fail (tokIdx : Nat)
  | fuel
  deriving Repr

/-- state-and-failure monad of the parser. -/
def P (α : Type) := PSt → Res α

instance : Monad P where
  pure a := fun st => .ok a st
  bind m f := fun st =>
    match m st with
    | .ok a st' => f a st'
    | .fail i => .fail i
    | .fuel => .fuel

/-- `Lex()`: hand out the head token (once), taking over its position and docstring events. -/
def PSt.force (st : PSt) : PSt :=
  if st.forced then st
  else
    match st.toks with
    | [] => st
    | t :: _ =>
      { st with forced := true, cur := t.pos,
                doc := (match t.doc with | some d => d | none => st.doc),
                since := (match t.doc with | some _ => t.nl | none => st.since + t.nl) }

def PSt.head (st : PSt) : Tok :=
  match st.toks with
  | t :: _ => t.tok
  | [] => .eof

/-- shift the (forced) head token. The last token (end of input) is never shifted. -/
def PSt.shift (st : PSt) : PSt :=
  match st.toks with
  | _ :: t2 :: r => { st with toks := t2 :: r, forced := false, shifted := st.shifted + 1 }
  | _ => st

/-- the look-ahead token (reads it if necessary). -/
def peek : P Tok := fun st => let st := st.force; .ok st.head st
def shift : P Unit := fun st => .ok () st.shift
/-- `lex.Pos()` now — does NOT read a token. -/
def posNow : P Pos := fun st => .ok st.cur st
def failHere : P α := fun st => .fail st.force.shifted
def outOfFuel : P α := fun _ => .fuel
def record (k : PrimKey) (p : Pos) : P Unit := fun st => .ok () { st with recs := (k, p) :: st.recs }

/-- `lexer.LastDocstring()` followed by `ParseDocstring`. -/
def lastDocstring : P Bytes := fun st =>
  if st.since > 1 then .ok (parseDocstring []) st
  else .ok (parseDocstring st.doc) { st with doc := [], since := 0 }

def expectSym (c : UInt8) : P Unit := do
  match ← peek with
  | .sym d => if c = d then shift else failHere
  | _ => failHere

def expectIdent : P Bytes := do
  match ← peek with
  | .ident s => shift; pure s
  | _ => failHere

def expectLit : P Bytes := do
  match ← peek with
  | .lit s => shift; pure s
  | _ => failHere

/-- `optional_sep : ',' | ';' | ε` -/
def optionalSep : P Unit := do
  match ← peek with
  | .sym c => if c = 44 || c = 59 then shift else pure ()
  | _ => pure ()

/-! ### type annotations -/

/-- `type_annotation_list` up to and including the `)`. -/
def annLoop : Nat → List Annotation → P (List Annotation)
  | 0, _ => outOfFuel
  | f + 1, acc => do
    match ← peek with
    | .sym 41 => shift; pure acc.reverse
    | .ident name =>
      let pos ← posNow
      shift
      match ← peek with
      | .sym 61 =>
        shift
        let v ← expectLit
        optionalSep
        annLoop f (⟨name, v, pos⟩ :: acc)
      | _ =>
        optionalSep
        annLoop f (⟨name, [], pos⟩ :: acc)
    | _ => failHere

/-- `type_annotations : ε | '(' type_annotation_list ')'` -/
def parseAnnotations (F : Nat) : P (List Annotation) := do
  match ← peek with
  | .sym 40 => shift; annLoop F []
  | _ => pure []

/-! ### types -/

def baseTypeOf : Kw → Option BaseTypeID
  | .bool => some .bool | .byte => some .i8 | .i8 => some .i8 | .i16 => some .i16
  | .i32 => some .i32 | .i64 => some .i64 | .double => some .double | .string => some .string
  | .binary => some .binary | _ => none

def parseType (F : Nat) : Nat → P Ty
  | 0 => outOfFuel
  | f + 1 => do
    match ← peek with
    | .ident name =>
      shift
      let pos ← posNow          -- `IDENTIFIER pos`: reduced before the next token is read
      pure (.ref name pos)
    | .kw k =>
      let pos ← posNow
      match baseTypeOf k with
      | some id =>
        shift
        let anns ← parseAnnotations F
        pure (.base id anns pos)
      | none =>
        match k with
        | .map =>
          shift
          expectSym 60
          let kt ← parseType F f
          expectSym 44
          let vt ← parseType F f
          expectSym 62
          let anns ← parseAnnotations F
          pure (.map kt vt anns pos)
        | .list =>
          shift
          expectSym 60
          let vt ← parseType F f
          expectSym 62
          let anns ← parseAnnotations F
          pure (.list vt anns pos)
        | .set =>
          shift
          expectSym 60
          let vt ← parseType F f
          expectSym 62
          let anns ← parseAnnotations F
          pure (.set vt anns pos)
        | _ => failHere
    | _ => failHere

/-! ### constant values -/

mutual
  /-- `const_value`. Its `pos` marker is `lex.Pos()` on entry: the caller has (list item, map
  key) or has not (after `=` and `:`) read the look-ahead. -/
  def parseConst : Nat → P ConstValue
    | 0 => outOfFuel
    | f + 1 => do
      let pos ← posNow
      match ← peek with
      | .int v => shift; record (.int v) pos; pure (.int v pos)
      | .dbl b => shift; record (PrimKey.ofDbl b) pos; pure (.dbl b pos)
      | .kw .true_ => shift; record (.bool true) pos; pure (.bool true pos)
      | .kw .false_ => shift; record (.bool false) pos; pure (.bool false pos)
      | .lit s => shift; record (.str s) pos; pure (.str s pos)
      | .ident n => shift; pure (.ref n pos)
      | .sym 91 => shift; let items ← constListItems f []; pure (.list items pos)
      | .sym 123 => shift; let items ← constMapItems f []; pure (.map items pos)
      | _ => failHere
  /-- `const_list_items` up to and including `]`. -/
  def constListItems : Nat → List ConstValue → P (List ConstValue)
    | 0, _ => outOfFuel
    | f + 1, acc => do
      match ← peek with
      | .sym 93 => shift; pure acc.reverse
      | _ =>
        let v ← parseConst f
        optionalSep
        constListItems f (v :: acc)
  /-- `const_map_items` up to and including `}`. -/
  def constMapItems : Nat → List (ConstValue × ConstValue × Pos) → P (List (ConstValue × ConstValue × Pos))
    | 0, _ => outOfFuel
    | f + 1, acc => do
      match ← peek with
      | .sym 125 => shift; pure acc.reverse
      | _ =>
        let pos ← posNow
        let k ← parseConst f
        expectSym 58
        let v ← parseConst f       -- look-ahead not read: `pos` = position of the ':'
        optionalSep
        constMapItems f ((k, v, pos) :: acc)
end

/-! ### fields, functions, enum items -/

/-- `fields` up to and including the closing `}` or `)`. -/
def parseFields (F : Nat) (close : UInt8) : Nat → List Field → P (List Field)
  | 0, _ => outOfFuel
  | f + 1, acc => do
    let t ← peek
    if t = .sym close then do shift; pure acc.reverse
    else do
      let pos ← posNow
      let doc ← lastDocstring
      let (id, unset) ← (do
        match t with
        | .int v => shift; expectSym 58; pure (v, false)
        | _ => pure ((0 : Int), true) : P (Int × Bool))
      let req ← (do
        match ← peek with
        | .kw .required => shift; pure Requiredness.required
        | .kw .optional => shift; pure Requiredness.optional
        | _ => pure Requiredness.unspecified : P Requiredness)
      let ty ← parseType F F
      let name ← expectIdent
      let dflt ← (do
        match ← peek with
        | .sym 61 => shift; let v ← parseConst F; pure (some v)   -- `pos` = position of the '='
        | _ => pure none : P (Option ConstValue))
      let anns ← parseAnnotations F
      optionalSep
      parseFields F close f (⟨id, unset, name, ty, req, dflt, anns, pos, doc⟩ :: acc)

/-- `functions` up to and including `}`. -/
def parseFunctions (F : Nat) : Nat → List Function → P (List Function)
  | 0, _ => outOfFuel
  | f + 1, acc => do
    match ← peek with
    | .sym 125 => shift; pure acc.reverse
    | t =>
      let doc ← lastDocstring
      let pos ← posNow
      let oneway ← (do
        match t with
        | .kw .oneway => shift; pure true
        | _ => pure false : P Bool)
      let ret ← (do
        match ← peek with
        | .kw .void => shift; pure none
        | _ => let ty ← parseType F F; pure (some ty) : P (Option Ty))
      let name ← expectIdent
      expectSym 40
      let params ← parseFields F 41 F []
      let exceptions ← (do
        match ← peek with
        | .kw .throws => shift; expectSym 40; parseFields F 41 F []
        | _ => pure [] : P (List Field))
      let anns ← parseAnnotations F
      optionalSep
      parseFunctions F f (⟨name, params, ret, exceptions, oneway, anns, pos, doc⟩ :: acc)

/-- `enum_items` up to and including `}`. -/
def parseEnumItems (F : Nat) : Nat → List EnumItem → P (List EnumItem)
  | 0, _ => outOfFuel
  | f + 1, acc => do
    match ← peek with
    | .sym 125 => shift; pure acc.reverse
    | .ident name =>
      let pos ← posNow
      let doc ← lastDocstring
      shift
      let value ← (do
        match ← peek with
        | .sym 61 =>
          shift
          match ← peek with
          | .int v => shift; pure (some v)
          | _ => failHere
        | _ => pure none : P (Option Int))
      let anns ← parseAnnotations F
      optionalSep
      parseEnumItems F f (⟨name, value, anns, pos, doc⟩ :: acc)
    | _ => failHere

/-! ### definitions, headers, program -/

def parseDefinition (F : Nat) : P Definition := do
  let t ← peek
  let pos ← posNow
  let doc ← lastDocstring
  match t with
  | .kw .const =>
    shift
    let ty ← parseType F F
    let name ← expectIdent
    expectSym 61
    let v ← parseConst F             -- `pos` = position of the '='
    pure (.const name ty v pos doc)
  | .kw .typedef =>
    shift
    let ty ← parseType F F
    let name ← expectIdent
    let anns ← parseAnnotations F
    pure (.typedef name ty anns pos doc)
  | .kw .enum =>
    shift
    let name ← expectIdent
    expectSym 123
    let items ← parseEnumItems F F []
    let anns ← parseAnnotations F
    pure (.enum name items anns pos doc)
  | .kw .service =>
    shift
    let name ← expectIdent
    let parent ← (do
      match ← peek with
      | .kw .extends =>
        shift
        let ppos ← posNow              -- look-ahead not read: position of `extends`
        let pname ← expectIdent
        pure (some ⟨pname, ppos⟩)
      | _ => pure none : P (Option ServiceRef))
    expectSym 123
    let fns ← parseFunctions F F []
    let anns ← parseAnnotations F
    pure (.service name fns parent anns pos doc)
  | .kw k =>
    let kind ← (match k with
      | .struct => pure StructKind.struct
      | .union => pure StructKind.union
      | .exception => pure StructKind.exception
      | _ => failHere : P StructKind)
    shift
    let name ← expectIdent
    expectSym 123
    let fields ← parseFields F 125 F []
    let anns ← parseAnnotations F
    pure (.struct kind name fields anns pos doc)
  | _ => failHere

/-- `definitions` up to the end of input. -/
def parseDefinitions (F : Nat) : Nat → List Definition → P (List Definition)
  | 0, _ => outOfFuel
  | f + 1, acc => do
    match ← peek with
    | .eof => pure acc.reverse
    | _ =>
      let d ← parseDefinition F
      optionalSep
      parseDefinitions F f (d :: acc)

/-- `headers` (no separators). -/
def parseHeaders : Nat → List Header → P (List Header)
  | 0, _ => outOfFuel
  | f + 1, acc => do
    match ← peek with
    | .kw .include_ =>
      let pos ← posNow
      shift
      match ← peek with
      | .lit p => shift; parseHeaders f (.include_ [] p pos :: acc)
      | .ident n => shift; let p ← expectLit; parseHeaders f (.include_ n p pos :: acc)
      | _ => failHere
    | .kw .cppInclude =>
      let pos ← posNow
      shift
      let p ← expectLit
      parseHeaders f (.cppInclude p pos :: acc)
    | .kw .namespace_ =>
      let pos ← posNow
      shift
      match ← peek with
      | .sym 42 => shift; let n ← expectIdent; parseHeaders f (.namespace_ [42] n pos :: acc)
      | .ident sc => shift; let n ← expectIdent; parseHeaders f (.namespace_ sc n pos :: acc)
      | _ => failHere
    | _ => pure acc.reverse

def parseProgram (F : Nat) : P Program := do
  let hs ← parseHeaders F []
  let ds ← parseDefinitions F F []
  pure ⟨hs, ds⟩

/-! ### `idl.Info.Pos` for value-typed constants -/

def lookupPos (recs : List (PrimKey × Pos)) (k : PrimKey) (dflt : Pos) : Pos :=
  match recs.find? (fun r => r.1 = k) with
  | some r => r.2
  | none => dflt

mutual
  def resolveConst (recs : List (PrimKey × Pos)) : ConstValue → ConstValue
    | .int v p => .int v (lookupPos recs (.int v) p)
    | .dbl b p => .dbl b (lookupPos recs (PrimKey.ofDbl b) p)
    | .bool b p => .bool b (lookupPos recs (.bool b) p)
    | .str s p => .str s (lookupPos recs (.str s) p)
    | .ref n p => .ref n p
    | .list items p => .list (resolveConsts recs items) p
    | .map items p => .map (resolveItems recs items) p
  def resolveConsts (recs : List (PrimKey × Pos)) : List ConstValue → List ConstValue
    | [] => []
    | c :: cs => resolveConst recs c :: resolveConsts recs cs
  def resolveItems (recs : List (PrimKey × Pos)) :
      List (ConstValue × ConstValue × Pos) → List (ConstValue × ConstValue × Pos)
    | [] => []
    | (k, v, p) :: is => (resolveConst recs k, resolveConst recs v, p) :: resolveItems recs is
end

def resolveField (recs : List (PrimKey × Pos)) (f : Field) : Field :=
  { f with dflt := f.dflt.map (resolveConst recs) }

def resolveFunction (recs : List (PrimKey × Pos)) (f : Function) : Function :=
  { f with params := f.params.map (resolveField recs), exceptions := f.exceptions.map (resolveField recs) }

def resolveDef (recs : List (PrimKey × Pos)) : Definition → Definition
  | .const n t v p d => .const n t (resolveConst recs v) p d
  | .struct k n fs a p d => .struct k n (fs.map (resolveField recs)) a p d
  | .service n fns par a p d => .service n (fns.map (resolveFunction recs)) par a p d
  | d => d

/-- the program as `idl.Config{Info}` presents it. -/
def resolve (recs : List (PrimKey × Pos)) (p : Program) : Program :=
  { p with defs := p.defs.map (resolveDef recs) }

/-! ### `idl.Parse` -/

/-- a non-empty list of error positions. -/
structure Errors where
  first : Pos
  more : List Pos
  deriving Repr, DecidableEq

def Errors.toList (e : Errors) : List Pos := e.first :: e.more

inductive ParseResult where
  | program (p : Program)
  | errors (e : Errors)
  /-- model artefact: recursion fuel exhausted. Impossible: `parse_ne_outOfFuel` (FuelProofs.lean);
  fuel = 2 · number of tokens + 2 (a nested constant costs two units per bracket). -/
  | outOfFuel
  deriving Repr

def parseToks (toks : List LTok) : ParseResult :=
  let last := toks.getLast?.getD default
  let F := 2 * toks.length + 2
  match parseProgram F ⟨toks, false, ⟨1, 1⟩, [], 0, 0, []⟩ with
  | .ok p st => if last.err then .errors ⟨last.pos, []⟩ else .program (resolve st.recs p)
  | .fail i =>
    let t := toks.getD i last
    -- a lexer error is in the list only if that `Lex()` call happened, i.e. if the failing
    -- look-ahead is the end-of-input token it produced
    if t.err then .errors ⟨t.pos, [t.pos]⟩ else .errors ⟨t.pos, []⟩
  | .fuel => .outOfFuel

/-- `idl.Parse` / `idl.Config.Parse`. -/
def parse (s : Bytes) : ParseResult := parseToks (lexAll s)

end ThriftVerif.Idl
