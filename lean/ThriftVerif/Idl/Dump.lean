/-
Line-protocol text forms for M-Idl (driver only; nothing here is used in theorems).
The Go harness (harness/cmd/idlcheck/dump.go) prints the implementation's AST in the same syntax.

  pos     ::= LINE ":" COL                     bytes ::= lower-case hex | "-"
  program ::= "P[" header* "][" def* "]"       (items separated by one space)
  header  ::= "(inc" pos name path ")" | "(cpp" pos path ")" | "(ns" pos scope name ")"
  def     ::= "(const" pos name doc type value ")" | "(typedef" pos name doc type anns ")"
            | "(enum" pos name doc "[" item* "]" anns ")"
            | "(" ("struct"|"union"|"exception") pos name doc "[" field* "]" anns ")"
            | "(service" pos name doc ("-" | "(ext" pos name ")") "[" fn* "]" anns ")"
  item    ::= "(item" pos name doc ("-"|INT) anns ")"
  field   ::= "(field" pos ("-"|INT) name doc ("0"|"1"|"2") type ("-"|value) anns ")"
  fn      ::= "(fn" pos name doc ("0"|"1") ("void"|type) "[" field* "]" "[" field* "]" anns ")"
  type    ::= "(base" pos ID anns ")" | "(map" pos type type anns ")" | "(list" pos type anns ")"
            | "(set" pos type anns ")" | "(ref" pos name ")"
  value   ::= "(int" pos INT ")" | "(dbl" pos BITS ")" | "(bool" pos ("0"|"1") ")" | "(str" pos bytes ")"
            | "(cref" pos name ")" | "(clist" pos "[" value* "])" | "(cmap" pos "[" kv* "])"
  kv      ::= "(kv" pos value value ")"
  anns    ::= "[" ("(ann" pos name value ")")* "]"
-/
import ThriftVerif.Idl.Parser
import ThriftVerif.Idl.Walk

namespace ThriftVerif.Idl

def hexChar (n : Nat) : Char := if n < 10 then Char.ofNat (48 + n) else Char.ofNat (87 + n)

def hexOf (bs : Bytes) : String :=
  if bs.isEmpty then "-"
  else String.ofList (bs.foldr (fun b acc => hexChar (b.toNat / 16) :: hexChar (b.toNat % 16) :: acc) [])

def hexValC (c : Char) : Option Nat :=
  if '0' ≤ c ∧ c ≤ '9' then some (c.toNat - 48)
  else if 'a' ≤ c ∧ c ≤ 'f' then some (c.toNat - 87)
  else none

def unhexChars : List Char → Option Bytes
  | [] => some []
  | [_] => none
  | a :: b :: rest =>
    match hexValC a, hexValC b, unhexChars rest with
    | some x, some y, some r => some (UInt8.ofNat (x * 16 + y) :: r)
    | _, _, _ => none

def unhex (s : String) : Option Bytes := if s = "-" then some [] else unhexChars s.toList

def Pos.text (p : Pos) : String := s!"{p.line}:{p.col}"

def sp (xs : List String) : String := " ".intercalate xs
def br (xs : List String) : String := "[" ++ sp xs ++ "]"

def annText (a : Annotation) : String := s!"(ann {a.pos.text} {hexOf a.name} {hexOf a.value})"
def annsText (as : List Annotation) : String := br (as.map annText)

def BaseTypeID.text : BaseTypeID → String
  | .bool => "bool" | .i8 => "i8" | .i16 => "i16" | .i32 => "i32" | .i64 => "i64"
  | .double => "double" | .string => "string" | .binary => "binary"

def tyText : Ty → String
  | .base id anns pos => s!"(base {pos.text} {id.text} {annsText anns})"
  | .map k v anns pos => s!"(map {pos.text} {tyText k} {tyText v} {annsText anns})"
  | .list v anns pos => s!"(list {pos.text} {tyText v} {annsText anns})"
  | .set v anns pos => s!"(set {pos.text} {tyText v} {annsText anns})"
  | .ref name pos => s!"(ref {pos.text} {hexOf name})"

mutual
  def constText : ConstValue → String
    | .int v p => s!"(int {p.text} {v})"
    | .dbl b p => s!"(dbl {p.text} {b})"
    | .bool b p => s!"(bool {p.text} {if b then 1 else 0})"
    | .str s p => s!"(str {p.text} {hexOf s})"
    | .ref n p => s!"(cref {p.text} {hexOf n})"
    | .list items p => s!"(clist {p.text} [{sp (constsText items)}])"
    | .map items p => s!"(cmap {p.text} [{sp (itemsText items)}])"
  def constsText : List ConstValue → List String
    | [] => []
    | c :: cs => constText c :: constsText cs
  def itemsText : List (ConstValue × ConstValue × Pos) → List String
    | [] => []
    | (k, v, p) :: is => s!"(kv {p.text} {constText k} {constText v})" :: itemsText is
end

def reqText : Requiredness → String
  | .unspecified => "0" | .required => "1" | .optional => "2"

def fieldText (f : Field) : String :=
  let id := if f.idUnset then "-" else toString f.id
  let d := match f.dflt with
    | none => "-"
    | some v => constText v
  s!"(field {f.pos.text} {id} {hexOf f.name} {hexOf f.doc} {reqText f.req} {tyText f.ty} {d} {annsText f.anns})"

def fnText (f : Function) : String :=
  let r := match f.ret with
    | none => "void"
    | some t => tyText t
  s!"(fn {f.pos.text} {hexOf f.name} {hexOf f.doc} {if f.oneway then 1 else 0} {r} {br (f.params.map fieldText)} {br (f.exceptions.map fieldText)} {annsText f.anns})"

def itemText (e : EnumItem) : String :=
  let v := match e.value with
    | none => "-"
    | some v => toString v
  s!"(item {e.pos.text} {hexOf e.name} {hexOf e.doc} {v} {annsText e.anns})"

def StructKind.text : StructKind → String
  | .struct => "struct" | .union => "union" | .exception => "exception"

def defText : Definition → String
  | .const n t v p d => s!"(const {p.text} {hexOf n} {hexOf d} {tyText t} {constText v})"
  | .typedef n t a p d => s!"(typedef {p.text} {hexOf n} {hexOf d} {tyText t} {annsText a})"
  | .enum n items a p d => s!"(enum {p.text} {hexOf n} {hexOf d} {br (items.map itemText)} {annsText a})"
  | .struct k n fs a p d => s!"({k.text} {p.text} {hexOf n} {hexOf d} {br (fs.map fieldText)} {annsText a})"
  | .service n fns par a p d =>
    let ps := match par with
      | none => "-"
      | some r => s!"(ext {r.pos.text} {hexOf r.name})"
    s!"(service {p.text} {hexOf n} {hexOf d} {ps} {br (fns.map fnText)} {annsText a})"

def headerText : Header → String
  | .include_ n path p => s!"(inc {p.text} {hexOf n} {hexOf path})"
  | .cppInclude path p => s!"(cpp {p.text} {hexOf path})"
  | .namespace_ sc n p => s!"(ns {p.text} {hexOf sc} {hexOf n})"

def programText (p : Program) : String :=
  "P" ++ br (p.headers.map headerText) ++ br (p.defs.map defText)

def parseResultText : ParseResult → String
  | .program p => "ok " ++ programText p
  | .errors e => s!"err {e.toList.length} " ++ sp (e.toList.map Pos.text)
  | .outOfFuel => "fuel"

/-- `kind@line:col` of a node (what the walk answers are made of). -/
def Node.label : Node → String
  | .program _ => "prog@0:0"
  | .header (.include_ _ _ p) => "inc@" ++ p.text
  | .header (.cppInclude _ p) => "cpp@" ++ p.text
  | .header (.namespace_ _ _ p) => "ns@" ++ p.text
  | .definition (.const _ _ _ p _) => "const@" ++ p.text
  | .definition (.typedef _ _ _ p _) => "typedef@" ++ p.text
  | .definition (.enum _ _ _ p _) => "enum@" ++ p.text
  | .definition (.struct k _ _ _ p _) => k.text ++ "@" ++ p.text
  | .definition (.service _ _ _ _ p _) => "service@" ++ p.text
  | .enumItem e => "item@" ++ e.pos.text
  | .field f => "field@" ++ f.pos.text
  | .function f => "fn@" ++ f.pos.text
  | .ty (.base _ _ p) => "base@" ++ p.text
  | .ty (.map _ _ _ p) => "map@" ++ p.text
  | .ty (.list _ _ p) => "list@" ++ p.text
  | .ty (.set _ _ p) => "set@" ++ p.text
  | .ty (.ref _ p) => "ref@" ++ p.text
  | .const (.int _ p) => "int@" ++ p.text
  | .const (.dbl _ p) => "dbl@" ++ p.text
  | .const (.bool _ p) => "bool@" ++ p.text
  | .const (.str _ p) => "str@" ++ p.text
  | .const (.ref _ p) => "cref@" ++ p.text
  | .const (.list _ p) => "clist@" ++ p.text
  | .const (.map _ p) => "cmap@" ++ p.text
  | .mapItem _ _ p => "kv@" ++ p.text
  | .annotation a => "ann@" ++ a.pos.text

def visitText (v : Visit) : String :=
  v.1.label ++ "^" ++ (match v.2 with | none => "-" | some p => p.label)

def tokText : Tok → String
  | .eof => "eof" | .ident s => "id:" ++ hexOf s | .lit s => "lit:" ++ hexOf s
  | .int v => s!"int:{v}" | .dbl b => s!"dbl:{b}" | .kw k => "kw:" ++ k.name
  | .sym c => s!"sym:{c.toNat}"

def ltokText (t : LTok) : String :=
  s!"{tokText t.tok}@{t.pos.text}{if t.err then "!" else ""}"

end ThriftVerif.Idl
