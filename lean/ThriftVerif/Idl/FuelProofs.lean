/-
Proofs about Parser.lean (C11 a): the recursion fuel of the model parser is sufficient.

Measure: the length of the remaining token list. The list ends with the end-of-input token,
which is never shifted; every `shift` in the parser happens after the look-ahead was seen to be
some other token, so it shortens the list; every recursive call happens after at least one shift.
With fuel ≥ that length no function can run out of fuel.
-/
import ThriftVerif.Idl.Parser
import ThriftVerif.Idl.ParserProofs

namespace ThriftVerif.Idl

/-- the token list ends with an end-of-input token. -/
def WFT (toks : List LTok) : Prop := ∃ h : toks ≠ [], (toks.getLast h).tok = .eof

/-- `b` is a later state of `a`: well-formed and no more tokens left than in `a`. -/
def Le (a b : PSt) : Prop := WFT b.toks ∧ b.toks.length ≤ a.toks.length
/-- … and strictly fewer. -/
def Lt (a b : PSt) : Prop := WFT b.toks ∧ b.toks.length < a.toks.length

theorem Le.refl {a : PSt} (h : WFT a.toks) : Le a a := ⟨h, Nat.le_refl _⟩
theorem Lt.le {a b : PSt} (h : Lt a b) : Le a b := ⟨h.1, Nat.le_of_lt h.2⟩
theorem Le.trans {a b c : PSt} (h1 : Le a b) (h2 : Le b c) : Le a c := ⟨h2.1, Nat.le_trans h2.2 h1.2⟩
theorem Lt.trans_le {a b c : PSt} (h1 : Lt a b) (h2 : Le b c) : Lt a c := ⟨h2.1, Nat.lt_of_le_of_lt h2.2 h1.2⟩
theorem Le.trans_lt {a b c : PSt} (h1 : Le a b) (h2 : Lt b c) : Lt a c := ⟨h2.1, Nat.lt_of_lt_of_le h2.2 h1.2⟩

/-- partial-correctness run: the computation does not run out of fuel, and if it succeeds the
result satisfies `Q`. -/
def Run {α : Type} (m : P α) (st : PSt) (Q : α → PSt → Prop) : Prop :=
  match m st with
  | .ok a st' => Q a st'
  | .fail _ => True
  | .fuel => False

theorem Run_pure {α : Type} {a : α} {st : PSt} {Q : α → PSt → Prop} (h : Q a st) :
    Run (pure a : P α) st Q := h

theorem Run_bind {α β : Type} {m : P α} {f : α → P β} {st : PSt} {Q : β → PSt → Prop}
    (h : Run m st (fun a st' => Run (f a) st' Q)) : Run (m >>= f) st Q := by
  unfold Run at h ⊢
  show (match (match m st with
      | .ok a st' => f a st'
      | .fail i => .fail i
      | .fuel => .fuel) with
    | .ok a st' => Q a st'
    | .fail _ => True
    | .fuel => False)
  cases hm : m st with
  | ok a st' => rw [hm] at h; exact h
  | fail i => trivial
  | fuel => rw [hm] at h; exact h

theorem Run_mono {α : Type} {m : P α} {st : PSt} {Q Q' : α → PSt → Prop}
    (h : Run m st Q) (hq : ∀ a st', Q a st' → Q' a st') : Run m st Q' := by
  unfold Run at h ⊢
  cases hm : m st with
  | ok a st' => rw [hm] at h; exact hq _ _ h
  | fail i => trivial
  | fuel => rw [hm] at h; exact h

theorem Run_fail {α : Type} {st : PSt} {Q : α → PSt → Prop} : Run (failHere : P α) st Q := trivial

theorem force_toks (st : PSt) : st.force.toks = st.toks := by
  unfold PSt.force
  split
  · rfl
  · split <;> rfl

theorem Run_peek {st : PSt} {Q : Tok → PSt → Prop} (h : Q st.force.head st.force) : Run peek st Q := h

theorem Run_posNow {st : PSt} {Q : Pos → PSt → Prop} (h : Q st.cur st) : Run posNow st Q := h

theorem Run_record {k : PrimKey} {p : Pos} {st : PSt} {Q : Unit → PSt → Prop}
    (h : Q () { st with recs := (k, p) :: st.recs }) : Run (record k p) st Q := h

theorem Run_lastDocstring {st : PSt} {Q : Bytes → PSt → Prop}
    (h : ∀ d st', st'.toks = st.toks → Q d st') : Run lastDocstring st Q := by
  unfold Run lastDocstring
  by_cases hs : st.since > 1
  · simp only [hs, if_true]; exact h _ _ rfl
  · simp only [hs, if_false]; exact h _ _ rfl

theorem Run_shift {st : PSt} {Q : Unit → PSt → Prop} (h : Q () st.shift) : Run shift st Q := h

/-- shifting a token that is not the end of input shortens a well-formed list. -/
theorem shift_lt {st : PSt} (hw : WFT st.toks) (hne : st.head ≠ .eof) : Lt st st.shift := by
  obtain ⟨hnil, hlast⟩ := hw
  unfold PSt.shift
  cases ht : st.toks with
  | nil => exact absurd ht hnil
  | cons t r =>
    cases r with
    | nil =>
      exfalso
      apply hne
      simp only [PSt.head, ht]
      simpa [ht] using hlast
    | cons t2 r2 =>
      refine ⟨⟨by simp, ?_⟩, by simp [ht]⟩
      simpa [ht, List.getLast_cons] using hlast

theorem head_force (st : PSt) : st.force.head = st.head := by
  unfold PSt.head
  rw [force_toks]

theorem WFT_force {st : PSt} (h : WFT st.toks) : WFT st.force.toks := by rw [force_toks]; exact h

/-- shifting after the look-ahead was read and found not to be the end of input. -/
theorem Run_shift_lt {st0 st : PSt} {Q : Unit → PSt → Prop} (hw : WFT st.toks) (hle : Le st0 st)
    (hne : st.head ≠ .eof) (h : ∀ st', Lt st0 st' → Q () st') : Run shift st Q :=
  h _ (hle.trans_lt (shift_lt hw hne))

theorem expectSym_spec (c : UInt8) (st : PSt) (hw : WFT st.toks) :
    Run (expectSym c) st (fun _ st' => Lt st st') := by
  unfold expectSym
  apply Run_bind; apply Run_peek
  split
  · rename_i d hd
    split
    · exact Run_shift_lt (WFT_force hw) ⟨WFT_force hw, by rw [force_toks]; exact Nat.le_refl _⟩
        (by rw [hd]; simp) (fun _ h => h)
    · exact Run_fail
  · exact Run_fail

theorem expectIdent_spec (st : PSt) (hw : WFT st.toks) :
    Run expectIdent st (fun _ st' => Lt st st') := by
  unfold expectIdent
  apply Run_bind; apply Run_peek
  split
  · rename_i s hd
    apply Run_bind
    exact Run_shift_lt (WFT_force hw) ⟨WFT_force hw, by rw [force_toks]; exact Nat.le_refl _⟩
      (by rw [hd]; simp) (fun _ h => Run_pure h)
  · exact Run_fail

theorem expectLit_spec (st : PSt) (hw : WFT st.toks) :
    Run expectLit st (fun _ st' => Lt st st') := by
  unfold expectLit
  apply Run_bind; apply Run_peek
  split
  · rename_i s hd
    apply Run_bind
    exact Run_shift_lt (WFT_force hw) ⟨WFT_force hw, by rw [force_toks]; exact Nat.le_refl _⟩
      (by rw [hd]; simp) (fun _ h => Run_pure h)
  · exact Run_fail

theorem Le_force {st : PSt} (hw : WFT st.toks) : Le st st.force :=
  ⟨WFT_force hw, by rw [force_toks]; exact Nat.le_refl _⟩

theorem optionalSep_spec (st : PSt) (hw : WFT st.toks) :
    Run optionalSep st (fun _ st' => Le st st') := by
  unfold optionalSep
  apply Run_bind; apply Run_peek
  split
  · rename_i c hd
    split
    · exact Run_shift_lt (WFT_force hw) (Le_force hw) (by rw [hd]; simp) (fun _ h => h.le)
    · exact Run_pure (Le_force hw)
  · exact Run_pure (Le_force hw)

/-! ### step lemmas: one monadic step, relative to the entry state `st0` of the function -/

theorem Le.force {st0 st : PSt} (h : Le st0 st) : Le st0 st.force :=
  ⟨WFT_force h.1, by rw [force_toks]; exact h.2⟩
theorem Lt.force {st0 st : PSt} (h : Lt st0 st) : Lt st0 st.force :=
  ⟨WFT_force h.1, by rw [force_toks]; exact h.2⟩
theorem Le.of_toks {st0 st st' : PSt} (h : Le st0 st) (e : st'.toks = st.toks) : Le st0 st' :=
  ⟨by rw [e]; exact h.1, by rw [e]; exact h.2⟩
theorem Lt.of_toks {st0 st st' : PSt} (h : Lt st0 st) (e : st'.toks = st.toks) : Lt st0 st' :=
  ⟨by rw [e]; exact h.1, by rw [e]; exact h.2⟩

variable {α β : Type} {Q : β → PSt → Prop} {st st0 : PSt}

theorem bind_peek {k : Tok → P β} (h : Run (k st.force.head) st.force Q) : Run (peek >>= k) st Q :=
  Run_bind (Run_peek h)

theorem bind_posNow {k : Pos → P β} (h : Run (k st.cur) st Q) : Run (posNow >>= k) st Q :=
  Run_bind (Run_posNow h)

theorem bind_shift {k : Unit → P β} (hle : Le st0 st) (hne : st.head ≠ .eof)
    (h : ∀ st', Lt st0 st' → Run (k ()) st' Q) : Run (shift >>= k) st Q :=
  Run_bind (Run_shift (h _ (hle.trans_lt (shift_lt hle.1 hne))))

theorem bind_record {k : Unit → P β} {key : PrimKey} {p : Pos}
    (h : ∀ st', st'.toks = st.toks → Run (k ()) st' Q) : Run (record key p >>= k) st Q :=
  Run_bind (Run_record (h _ rfl))

theorem bind_lastDoc {k : Bytes → P β}
    (h : ∀ d st', st'.toks = st.toks → Run (k d) st' Q) : Run (lastDocstring >>= k) st Q :=
  Run_bind (Run_lastDocstring h)

/-- a sub-parser that consumes at least one token. -/
theorem bind_lt {m : P α} {k : α → P β} (hm : Run m st (fun _ st' => Lt st st')) (hle : Le st0 st)
    (h : ∀ a st', Lt st0 st' → Run (k a) st' Q) : Run (m >>= k) st Q :=
  Run_bind (Run_mono hm (fun a st' hl => h a st' (hle.trans_lt hl)))

/-- a sub-parser that may consume nothing. -/
theorem bind_le {m : P α} {k : α → P β} (hm : Run m st (fun _ st' => Le st st')) (hle : Le st0 st)
    (h : ∀ a st', Le st0 st' → Run (k a) st' Q) : Run (m >>= k) st Q :=
  Run_bind (Run_mono hm (fun a st' hl => h a st' (hle.trans hl)))

theorem bind_le_lt {m : P α} {k : α → P β} (hm : Run m st (fun _ st' => Le st st')) (hlt : Lt st0 st)
    (h : ∀ a st', Lt st0 st' → Run (k a) st' Q) : Run (m >>= k) st Q :=
  Run_bind (Run_mono hm (fun a st' hl => h a st' (hlt.trans_le hl)))

theorem neEof_of_eq {st : PSt} {t : Tok} (h : st.head = t) (ht : t ≠ .eof) : st.head ≠ .eof := by
  rw [h]; exact ht

/-! ### annotations -/

theorem annLoop_spec : ∀ (f : Nat) (acc : List Annotation) (st : PSt), WFT st.toks →
    st.toks.length ≤ f → Run (annLoop f acc) st (fun _ st' => Lt st st') := by
  intro f
  induction f with
  | zero =>
    intro acc st hw hl
    obtain ⟨hne, _⟩ := hw
    have : st.toks.length ≠ 0 := by simpa using hne
    omega
  | succ f ih =>
    intro acc st hw hl
    unfold annLoop
    have h0 : Le st st.force := Le_force hw
    apply bind_peek
    split
    · rename_i hd
      exact bind_shift h0 (neEof_of_eq hd (by simp)) (fun st' h => Run_pure h)
    · rename_i name hd
      apply bind_posNow
      refine bind_shift h0 (neEof_of_eq hd (by simp)) (fun st1 h1 => ?_)
      apply bind_peek
      have h1f := h1.force
      split
      · rename_i hd2
        refine bind_shift h1f.le (neEof_of_eq hd2 (by simp)) (fun st2 h2 => ?_)
        refine bind_lt (expectLit_spec st2 h2.1) h2.le (fun v st3 h3 => ?_)
        refine bind_le_lt (optionalSep_spec st3 h3.1) h3 (fun _ st4 h4 => ?_)
        exact Run_mono (ih _ st4 h4.1 (by have := h4.2; omega)) (fun _ st5 h5 => h4.le.trans_lt h5)
      · refine bind_le_lt (optionalSep_spec _ h1f.1) h1f (fun _ st4 h4 => ?_)
        exact Run_mono (ih _ st4 h4.1 (by have := h4.2; omega)) (fun _ st5 h5 => h4.le.trans_lt h5)
    · exact Run_fail

theorem parseAnnotations_spec (F : Nat) (st : PSt) (hw : WFT st.toks) (hF : st.toks.length ≤ F) :
    Run (parseAnnotations F) st (fun _ st' => Le st st') := by
  unfold parseAnnotations
  have h0 : Le st st.force := Le_force hw
  apply bind_peek
  split
  · rename_i hd
    refine bind_shift h0 (neEof_of_eq hd (by simp)) (fun st1 h1 => ?_)
    exact Run_mono (annLoop_spec F [] st1 h1.1 (by have := h1.2; omega)) (fun _ st2 h2 => (h1.le.trans_lt h2).le)
  · exact Run_pure h0

/-! ### types -/

theorem parseType_spec (F : Nat) : ∀ (f : Nat) (st : PSt), WFT st.toks → st.toks.length ≤ F →
    st.toks.length ≤ f → Run (parseType F f) st (fun _ st' => Lt st st') := by
  intro f
  induction f with
  | zero =>
    intro st hw _ hl
    obtain ⟨hne, _⟩ := hw
    have : st.toks.length ≠ 0 := by simpa using hne
    omega
  | succ f ih =>
    intro st hw hF hl
    unfold parseType
    have h0 : Le st st.force := Le_force hw
    -- the tail shared by the container types: `'<' type … '>' annotations`
    have anns_tail : ∀ (stx : PSt) (mk : List Annotation → Ty), Lt st stx →
        Run (parseAnnotations F >>= fun anns => pure (mk anns)) stx (fun _ st' => Lt st st') := by
      intro stx mk hx
      refine bind_le_lt (parseAnnotations_spec F stx hx.1 (by have := hx.2; omega)) hx (fun _ st' h' => ?_)
      exact Run_pure h'
    have sub : ∀ (stx : PSt), Lt st stx → Run (parseType F f) stx (fun _ st' => Lt stx st') := by
      intro stx hx
      exact ih stx hx.1 (by have := hx.2; omega) (by have := hx.2; omega)
    apply bind_peek
    split
    · rename_i name hd
      refine bind_shift h0 (neEof_of_eq hd (by simp)) (fun st1 h1 => ?_)
      apply bind_posNow
      exact Run_pure h1
    · rename_i k hd
      apply bind_posNow
      split
      · refine bind_shift h0 (neEof_of_eq hd (by simp)) (fun st1 h1 => ?_)
        exact anns_tail st1 _ h1
      · split
        · refine bind_shift h0 (neEof_of_eq hd (by simp)) (fun st1 h1 => ?_)
          refine bind_lt (expectSym_spec 60 st1 h1.1) h1.le (fun _ st2 h2 => ?_)
          refine bind_lt (sub st2 h2) h2.le (fun kt st3 h3 => ?_)
          refine bind_lt (expectSym_spec 44 st3 h3.1) h3.le (fun _ st4 h4 => ?_)
          refine bind_lt (sub st4 h4) h4.le (fun vt st5 h5 => ?_)
          refine bind_lt (expectSym_spec 62 st5 h5.1) h5.le (fun _ st6 h6 => ?_)
          exact anns_tail st6 _ h6
        · refine bind_shift h0 (neEof_of_eq hd (by simp)) (fun st1 h1 => ?_)
          refine bind_lt (expectSym_spec 60 st1 h1.1) h1.le (fun _ st2 h2 => ?_)
          refine bind_lt (sub st2 h2) h2.le (fun vt st3 h3 => ?_)
          refine bind_lt (expectSym_spec 62 st3 h3.1) h3.le (fun _ st4 h4 => ?_)
          exact anns_tail st4 _ h4
        · refine bind_shift h0 (neEof_of_eq hd (by simp)) (fun st1 h1 => ?_)
          refine bind_lt (expectSym_spec 60 st1 h1.1) h1.le (fun _ st2 h2 => ?_)
          refine bind_lt (sub st2 h2) h2.le (fun vt st3 h3 => ?_)
          refine bind_lt (expectSym_spec 62 st3 h3.1) h3.le (fun _ st4 h4 => ?_)
          exact anns_tail st4 _ h4
        · exact Run_fail
    · exact Run_fail

/-! ### constant values -/

theorem len_pos_of_WFT {toks : List LTok} (h : WFT toks) : 0 < toks.length := by
  obtain ⟨hne, _⟩ := h
  cases toks with
  | nil => contradiction
  | cons _ _ => simp

theorem const_specs : ∀ f : Nat,
    (∀ st : PSt, WFT st.toks → 2 * st.toks.length ≤ f → Run (parseConst f) st (fun _ st' => Lt st st')) ∧
    (∀ (acc : List ConstValue) (st : PSt), WFT st.toks → 2 * st.toks.length + 1 ≤ f →
      Run (constListItems f acc) st (fun _ st' => Lt st st')) ∧
    (∀ (acc : List (ConstValue × ConstValue × Pos)) (st : PSt), WFT st.toks → 2 * st.toks.length + 1 ≤ f →
      Run (constMapItems f acc) st (fun _ st' => Lt st st')) := by
  intro f
  induction f with
  | zero =>
    refine ⟨?_, ?_, ?_⟩
    · intro st hw hl; have := len_pos_of_WFT hw; omega
    · intro acc st hw hl; have := len_pos_of_WFT hw; omega
    · intro acc st hw hl; have := len_pos_of_WFT hw; omega
  | succ f ih =>
    obtain ⟨ihC, ihL, ihM⟩ := ih
    refine ⟨?_, ?_, ?_⟩
    · intro st hw hl
      unfold parseConst
      have h0 : Le st st.force := Le_force hw
      have scalar : ∀ (key : PrimKey) (p : Pos) (c : ConstValue), st.force.head ≠ .eof →
          Run (shift >>= fun _ => record key p >>= fun _ => pure c) st.force (fun _ st' => Lt st st') := by
        intro key p c hne
        refine bind_shift h0 hne (fun st1 h1 => ?_)
        exact bind_record (fun st2 e => Run_pure (h1.of_toks e))
      apply bind_posNow
      apply bind_peek
      split
      · rename_i v hd; exact scalar _ _ _ (neEof_of_eq hd (by simp))
      · rename_i b hd; exact scalar _ _ _ (neEof_of_eq hd (by simp))
      · rename_i hd; exact scalar _ _ _ (neEof_of_eq hd (by simp))
      · rename_i hd; exact scalar _ _ _ (neEof_of_eq hd (by simp))
      · rename_i s hd; exact scalar _ _ _ (neEof_of_eq hd (by simp))
      · rename_i n hd
        exact bind_shift h0 (neEof_of_eq hd (by simp)) (fun st1 h1 => Run_pure h1)
      · rename_i hd
        refine bind_shift h0 (neEof_of_eq hd (by simp)) (fun st1 h1 => ?_)
        refine bind_lt (ihL [] st1 h1.1 (by have := h1.2; omega)) h1.le (fun _ st2 h2 => Run_pure h2)
      · rename_i hd
        refine bind_shift h0 (neEof_of_eq hd (by simp)) (fun st1 h1 => ?_)
        refine bind_lt (ihM [] st1 h1.1 (by have := h1.2; omega)) h1.le (fun _ st2 h2 => Run_pure h2)
      · exact Run_fail
    · intro acc st hw hl
      unfold constListItems
      have h0 : Le st st.force := Le_force hw
      apply bind_peek
      split
      · rename_i hd
        exact bind_shift h0 (neEof_of_eq hd (by simp)) (fun st1 h1 => Run_pure h1)
      · refine bind_lt (ihC st.force h0.1 (by rw [force_toks]; omega)) h0 (fun v st1 h1 => ?_)
        refine bind_le_lt (optionalSep_spec st1 h1.1) h1 (fun _ st2 h2 => ?_)
        exact Run_mono (ihL _ st2 h2.1 (by have := h2.2; omega)) (fun _ st3 h3 => h2.le.trans_lt h3)
    · intro acc st hw hl
      unfold constMapItems
      have h0 : Le st st.force := Le_force hw
      apply bind_peek
      split
      · rename_i hd
        exact bind_shift h0 (neEof_of_eq hd (by simp)) (fun st1 h1 => Run_pure h1)
      · apply bind_posNow
        refine bind_lt (ihC st.force h0.1 (by rw [force_toks]; omega)) h0 (fun k st1 h1 => ?_)
        refine bind_lt (expectSym_spec 58 st1 h1.1) h1.le (fun _ st2 h2 => ?_)
        refine bind_lt (ihC st2 h2.1 (by have := h2.2; omega)) h2.le (fun v st3 h3 => ?_)
        refine bind_le_lt (optionalSep_spec st3 h3.1) h3 (fun _ st4 h4 => ?_)
        exact Run_mono (ihM _ st4 h4.1 (by have := h4.2; omega)) (fun _ st5 h5 => h4.le.trans_lt h5)

theorem parseConst_spec (f : Nat) (st : PSt) (hw : WFT st.toks) (hl : 2 * st.toks.length ≤ f) :
    Run (parseConst f) st (fun _ st' => Lt st st') := (const_specs f).1 st hw hl

/-! ### fields -/

theorem head_of_toks {st st' : PSt} (e : st'.toks = st.toks) : st'.head = st.head := by
  unfold PSt.head; rw [e]

theorem parseFields_spec (F : Nat) (close : UInt8) : ∀ (f : Nat) (acc : List Field) (st : PSt),
    WFT st.toks → 2 * st.toks.length ≤ F → st.toks.length ≤ f →
    Run (parseFields F close f acc) st (fun _ st' => Lt st st') := by
  intro f
  induction f with
  | zero => intro acc st hw _ hl; have := len_pos_of_WFT hw; omega
  | succ f ih =>
    intro acc st hw hF hl
    unfold parseFields
    have h0 : Le st st.force := Le_force hw
    apply bind_peek
    split
    · rename_i hd
      exact bind_shift h0 (neEof_of_eq hd (by simp)) (fun st1 h1 => Run_pure h1)
    · apply bind_posNow
      refine bind_lastDoc (fun doc st1 e1 => ?_)
      have h1 : Le st st1 := h0.of_toks e1
      -- field identifier
      refine bind_le (st0 := st) (?_ : Run _ st1 (fun _ st' => Le st1 st')) h1 (fun idp st2 h2 => ?_)
      · split
        · rename_i v hd
          have hne : st1.head ≠ .eof := by rw [head_of_toks e1]; exact neEof_of_eq hd (by simp)
          refine bind_shift (Le.refl h1.1) hne (fun st' h' => ?_)
          refine bind_lt (expectSym_spec 58 st' h'.1) h'.le (fun _ st'' h'' => Run_pure h''.le)
        · exact Run_pure (Le.refl h1.1)
      obtain ⟨id, unset⟩ := idp
      -- requiredness
      refine bind_le (st0 := st) (?_ : Run _ st2 (fun _ st' => Le st2 st')) h2 (fun req st3 h3 => ?_)
      · apply bind_peek
        have hf := Le_force h2.1
        split
        · rename_i hd
          exact bind_shift hf (neEof_of_eq hd (by simp)) (fun st' h' => Run_pure h'.le)
        · rename_i hd
          exact bind_shift hf (neEof_of_eq hd (by simp)) (fun st' h' => Run_pure h'.le)
        · exact Run_pure hf
      refine bind_lt (parseType_spec F F st3 h3.1 (by have := h3.2; omega) (by have := h3.2; omega)) h3
        (fun ty st4 h4 => ?_)
      refine bind_lt (expectIdent_spec st4 h4.1) h4.le (fun name st5 h5 => ?_)
      -- default value
      refine bind_le_lt (?_ : Run _ st5 (fun _ st' => Le st5 st')) h5 (fun dflt st6 h6 => ?_)
      · apply bind_peek
        have hf := Le_force h5.1
        split
        · rename_i hd
          refine bind_shift hf (neEof_of_eq hd (by simp)) (fun st' h' => ?_)
          refine bind_lt (parseConst_spec F st' h'.1 (by have := h'.2; have := h5.2; omega)) h'.le
            (fun v st'' h'' => Run_pure h''.le)
        · exact Run_pure hf
      refine bind_le_lt (parseAnnotations_spec F st6 h6.1 (by have := h6.2; omega)) h6 (fun anns st7 h7 => ?_)
      refine bind_le_lt (optionalSep_spec st7 h7.1) h7 (fun _ st8 h8 => ?_)
      exact Run_mono (ih _ st8 h8.1 (by have := h8.2; omega) (by have := h8.2; omega))
        (fun _ st9 h9 => h8.le.trans_lt h9)

/-! ### functions, enum items -/

theorem parseFunctions_spec (F : Nat) : ∀ (f : Nat) (acc : List Function) (st : PSt),
    WFT st.toks → 2 * st.toks.length ≤ F → st.toks.length ≤ f →
    Run (parseFunctions F f acc) st (fun _ st' => Lt st st') := by
  intro f
  induction f with
  | zero => intro acc st hw _ hl; have := len_pos_of_WFT hw; omega
  | succ f ih =>
    intro acc st hw hF hl
    unfold parseFunctions
    have h0 : Le st st.force := Le_force hw
    apply bind_peek
    split
    · rename_i hd
      exact bind_shift h0 (neEof_of_eq hd (by simp)) (fun st1 h1 => Run_pure h1)
    · refine bind_lastDoc (fun doc st1 e1 => ?_)
      have h1 : Le st st1 := h0.of_toks e1
      apply bind_posNow
      -- oneway
      refine bind_le (st0 := st) (?_ : Run _ st1 (fun _ st' => Le st1 st')) h1 (fun ow st2 h2 => ?_)
      · split
        · rename_i hd
          have hne : st1.head ≠ .eof := by rw [head_of_toks e1]; exact neEof_of_eq hd (by simp)
          exact bind_shift (Le.refl h1.1) hne (fun st' h' => Run_pure h'.le)
        · exact Run_pure (Le.refl h1.1)
      -- return type
      refine bind_le (st0 := st) (?_ : Run _ st2 (fun _ st' => Le st2 st')) h2 (fun ret st3 h3 => ?_)
      · apply bind_peek
        have hf := Le_force h2.1
        split
        · rename_i hd
          exact bind_shift hf (neEof_of_eq hd (by simp)) (fun st' h' => Run_pure h'.le)
        · refine bind_lt (parseType_spec F F st2.force hf.1 (by rw [force_toks]; have := h2.2; omega)
            (by rw [force_toks]; have := h2.2; omega)) hf (fun ty st' h' => Run_pure h'.le)
      refine bind_lt (expectIdent_spec st3 h3.1) h3 (fun name st4 h4 => ?_)
      refine bind_lt (expectSym_spec 40 st4 h4.1) h4.le (fun _ st5 h5 => ?_)
      refine bind_lt (parseFields_spec F 41 F [] st5 h5.1 (by have := h5.2; omega) (by have := h5.2; omega))
        h5.le (fun params st6 h6 => ?_)
      -- throws
      refine bind_le_lt (?_ : Run _ st6 (fun _ st' => Le st6 st')) h6 (fun exc st7 h7 => ?_)
      · apply bind_peek
        have hf := Le_force h6.1
        split
        · rename_i hd
          refine bind_shift hf (neEof_of_eq hd (by simp)) (fun st' h' => ?_)
          refine bind_lt (expectSym_spec 40 st' h'.1) h'.le (fun _ st'' h'' => ?_)
          exact Run_mono (parseFields_spec F 41 F [] st'' h''.1 (by have := h''.2; have := h6.2; omega)
            (by have := h''.2; have := h6.2; omega)) (fun _ s3 h3' => (h''.le.trans_lt h3').le)
        · exact Run_pure hf
      refine bind_le_lt (parseAnnotations_spec F st7 h7.1 (by have := h7.2; omega)) h7 (fun anns st8 h8 => ?_)
      refine bind_le_lt (optionalSep_spec st8 h8.1) h8 (fun _ st9 h9 => ?_)
      exact Run_mono (ih _ st9 h9.1 (by have := h9.2; omega) (by have := h9.2; omega))
        (fun _ s' h' => h9.le.trans_lt h')

theorem parseEnumItems_spec (F : Nat) : ∀ (f : Nat) (acc : List EnumItem) (st : PSt),
    WFT st.toks → 2 * st.toks.length ≤ F → st.toks.length ≤ f →
    Run (parseEnumItems F f acc) st (fun _ st' => Lt st st') := by
  intro f
  induction f with
  | zero => intro acc st hw _ hl; have := len_pos_of_WFT hw; omega
  | succ f ih =>
    intro acc st hw hF hl
    unfold parseEnumItems
    have h0 : Le st st.force := Le_force hw
    apply bind_peek
    split
    · rename_i hd
      exact bind_shift h0 (neEof_of_eq hd (by simp)) (fun st1 h1 => Run_pure h1)
    · rename_i name hd
      apply bind_posNow
      refine bind_lastDoc (fun doc st1 e1 => ?_)
      have h1 : Le st st1 := h0.of_toks e1
      have hne : st1.head ≠ .eof := by rw [head_of_toks e1]; exact neEof_of_eq hd (by simp)
      refine bind_shift h1 hne (fun st2 h2 => ?_)
      refine bind_le_lt (?_ : Run _ st2 (fun _ st' => Le st2 st')) h2 (fun value st3 h3 => ?_)
      · apply bind_peek
        have hf := Le_force h2.1
        split
        · rename_i hd2
          refine bind_shift hf (neEof_of_eq hd2 (by simp)) (fun st' h' => ?_)
          apply bind_peek
          split
          · rename_i v hd3
            exact bind_shift h'.force.le (neEof_of_eq hd3 (by simp)) (fun st'' h'' => Run_pure h''.le)
          · exact Run_fail
        · exact Run_pure hf
      refine bind_le_lt (parseAnnotations_spec F st3 h3.1 (by have := h3.2; omega)) h3 (fun anns st4 h4 => ?_)
      refine bind_le_lt (optionalSep_spec st4 h4.1) h4 (fun _ st5 h5 => ?_)
      exact Run_mono (ih _ st5 h5.1 (by have := h5.2; omega) (by have := h5.2; omega))
        (fun _ s' h' => h5.le.trans_lt h')
    · exact Run_fail

/-! ### definitions, headers, program -/

theorem parseDefinition_spec (F : Nat) (st : PSt) (hw : WFT st.toks) (hF : 2 * st.toks.length ≤ F) :
    Run (parseDefinition F) st (fun _ st' => Lt st st') := by
  unfold parseDefinition
  have h0 : Le st st.force := Le_force hw
  apply bind_peek
  apply bind_posNow
  refine bind_lastDoc (fun doc st1 e1 => ?_)
  have h1 : Le st st1 := h0.of_toks e1
  have hlen : st1.toks.length = st.toks.length := by rw [e1, force_toks]
  have fits : ∀ s' : PSt, Lt st s' → 2 * s'.toks.length ≤ F ∧ s'.toks.length ≤ F := by
    intro s' h; have := h.2; omega
  split
  · rename_i hd
    have hne : st1.head ≠ .eof := by rw [head_of_toks e1]; exact neEof_of_eq hd (by simp)
    refine bind_shift h1 hne (fun st2 h2 => ?_)
    refine bind_lt (parseType_spec F F st2 h2.1 (fits st2 h2).2 (fits st2 h2).2) h2.le (fun ty st3 h3 => ?_)
    refine bind_lt (expectIdent_spec st3 h3.1) h3.le (fun name st4 h4 => ?_)
    refine bind_lt (expectSym_spec 61 st4 h4.1) h4.le (fun _ st5 h5 => ?_)
    refine bind_lt (parseConst_spec F st5 h5.1 (fits st5 h5).1) h5.le (fun v st6 h6 => Run_pure h6)
  · rename_i hd
    have hne : st1.head ≠ .eof := by rw [head_of_toks e1]; exact neEof_of_eq hd (by simp)
    refine bind_shift h1 hne (fun st2 h2 => ?_)
    refine bind_lt (parseType_spec F F st2 h2.1 (fits st2 h2).2 (fits st2 h2).2) h2.le (fun ty st3 h3 => ?_)
    refine bind_lt (expectIdent_spec st3 h3.1) h3.le (fun name st4 h4 => ?_)
    refine bind_le_lt (parseAnnotations_spec F st4 h4.1 (fits st4 h4).2) h4 (fun anns st5 h5 => Run_pure h5)
  · rename_i hd
    have hne : st1.head ≠ .eof := by rw [head_of_toks e1]; exact neEof_of_eq hd (by simp)
    refine bind_shift h1 hne (fun st2 h2 => ?_)
    refine bind_lt (expectIdent_spec st2 h2.1) h2.le (fun name st3 h3 => ?_)
    refine bind_lt (expectSym_spec 123 st3 h3.1) h3.le (fun _ st4 h4 => ?_)
    refine bind_lt (parseEnumItems_spec F F [] st4 h4.1 (fits st4 h4).1 (fits st4 h4).2) h4.le (fun items st5 h5 => ?_)
    refine bind_le_lt (parseAnnotations_spec F st5 h5.1 (fits st5 h5).2) h5 (fun anns st6 h6 => Run_pure h6)
  · rename_i hd
    have hne : st1.head ≠ .eof := by rw [head_of_toks e1]; exact neEof_of_eq hd (by simp)
    refine bind_shift h1 hne (fun st2 h2 => ?_)
    refine bind_lt (expectIdent_spec st2 h2.1) h2.le (fun name st3 h3 => ?_)
    refine bind_le_lt (?_ : Run _ st3 (fun _ st' => Le st3 st')) h3 (fun parent st4 h4 => ?_)
    · apply bind_peek
      have hf := Le_force h3.1
      split
      · rename_i hd2
        refine bind_shift hf (neEof_of_eq hd2 (by simp)) (fun st' h' => ?_)
        apply bind_posNow
        refine bind_lt (expectIdent_spec st' h'.1) h'.le (fun pname st'' h'' => Run_pure h''.le)
      · exact Run_pure hf
    refine bind_lt (expectSym_spec 123 st4 h4.1) h4.le (fun _ st5 h5 => ?_)
    refine bind_lt (parseFunctions_spec F F [] st5 h5.1 (fits st5 h5).1 (fits st5 h5).2) h5.le (fun fns st6 h6 => ?_)
    refine bind_le_lt (parseAnnotations_spec F st6 h6.1 (fits st6 h6).2) h6 (fun anns st7 h7 => Run_pure h7)
  · rename_i k _ _ _ _ hd
    have hne : st1.head ≠ .eof := by rw [head_of_toks e1]; exact neEof_of_eq hd (by simp)
    refine Run_bind (Run_mono (?_ : Run _ st1 (fun _ st' => st' = st1)) (fun kind st2 e2 => ?_))
    · split
      · exact Run_pure rfl
      · exact Run_pure rfl
      · exact Run_pure rfl
      · exact Run_fail
    subst e2
    refine bind_shift h1 hne (fun st2 h2 => ?_)
    refine bind_lt (expectIdent_spec st2 h2.1) h2.le (fun name st3 h3 => ?_)
    refine bind_lt (expectSym_spec 123 st3 h3.1) h3.le (fun _ st4 h4 => ?_)
    refine bind_lt (parseFields_spec F 125 F [] st4 h4.1 (fits st4 h4).1 (fits st4 h4).2) h4.le (fun fields st5 h5 => ?_)
    refine bind_le_lt (parseAnnotations_spec F st5 h5.1 (fits st5 h5).2) h5 (fun anns st6 h6 => Run_pure h6)
  · exact Run_fail

theorem parseDefinitions_spec (F : Nat) : ∀ (f : Nat) (acc : List Definition) (st : PSt),
    WFT st.toks → 2 * st.toks.length ≤ F → st.toks.length ≤ f →
    Run (parseDefinitions F f acc) st (fun _ st' => Le st st') := by
  intro f
  induction f with
  | zero => intro acc st hw _ hl; have := len_pos_of_WFT hw; omega
  | succ f ih =>
    intro acc st hw hF hl
    unfold parseDefinitions
    have h0 : Le st st.force := Le_force hw
    apply bind_peek
    split
    · exact Run_pure h0
    · refine bind_lt (parseDefinition_spec F st.force h0.1 (by rw [force_toks]; exact hF)) h0 (fun d st1 h1 => ?_)
      refine bind_le_lt (optionalSep_spec st1 h1.1) h1 (fun _ st2 h2 => ?_)
      exact Run_mono (ih _ st2 h2.1 (by have := h2.2; omega) (by have := h2.2; omega))
        (fun _ s' h' => h2.le.trans h')

theorem parseHeaders_spec : ∀ (f : Nat) (acc : List Header) (st : PSt),
    WFT st.toks → st.toks.length ≤ f → Run (parseHeaders f acc) st (fun _ st' => Le st st') := by
  intro f
  induction f with
  | zero => intro acc st hw hl; have := len_pos_of_WFT hw; omega
  | succ f ih =>
    intro acc st hw hl
    unfold parseHeaders
    have h0 : Le st st.force := Le_force hw
    have loop : ∀ (acc' : List Header) (s' : PSt), Lt st s' →
        Run (parseHeaders f acc') s' (fun _ st' => Le st st') := by
      intro acc' s' h'
      exact Run_mono (ih acc' s' h'.1 (by have := h'.2; omega)) (fun _ s'' h'' => h'.le.trans h'')
    apply bind_peek
    split
    · rename_i hd
      apply bind_posNow
      refine bind_shift h0 (neEof_of_eq hd (by simp)) (fun st1 h1 => ?_)
      apply bind_peek
      split
      · rename_i p hd2
        refine bind_shift h1.force.le (neEof_of_eq hd2 (by simp)) (fun st2 h2 => loop _ st2 h2)
      · rename_i n hd2
        refine bind_shift h1.force.le (neEof_of_eq hd2 (by simp)) (fun st2 h2 => ?_)
        refine bind_lt (expectLit_spec st2 h2.1) h2.le (fun p st3 h3 => loop _ st3 h3)
      · exact Run_fail
    · rename_i hd
      apply bind_posNow
      refine bind_shift h0 (neEof_of_eq hd (by simp)) (fun st1 h1 => ?_)
      refine bind_lt (expectLit_spec st1 h1.1) h1.le (fun p st2 h2 => loop _ st2 h2)
    · rename_i hd
      apply bind_posNow
      refine bind_shift h0 (neEof_of_eq hd (by simp)) (fun st1 h1 => ?_)
      apply bind_peek
      split
      · rename_i hd2
        refine bind_shift h1.force.le (neEof_of_eq hd2 (by simp)) (fun st2 h2 => ?_)
        refine bind_lt (expectIdent_spec st2 h2.1) h2.le (fun n st3 h3 => loop _ st3 h3)
      · rename_i sc hd2
        refine bind_shift h1.force.le (neEof_of_eq hd2 (by simp)) (fun st2 h2 => ?_)
        refine bind_lt (expectIdent_spec st2 h2.1) h2.le (fun n st3 h3 => loop _ st3 h3)
      · exact Run_fail
    · exact Run_pure h0

theorem parseProgram_spec (F : Nat) (st : PSt) (hw : WFT st.toks) (hF : 2 * st.toks.length ≤ F) :
    Run (parseProgram F) st (fun _ _ => True) := by
  unfold parseProgram
  refine bind_le (st0 := st) (parseHeaders_spec F [] st hw (by omega)) (Le.refl hw) (fun hs st1 h1 => ?_)
  refine bind_le (st0 := st) (parseDefinitions_spec F F [] st1 h1.1 (by have := h1.2; omega) (by have := h1.2; omega))
    h1 (fun ds st2 h2 => Run_pure trivial)

/-! ### the token list of a document is well-formed -/

theorem lexLoop_WFT : ∀ (f : Nat) (st : LxSt), WFT (lexLoop f st) := by
  intro f
  induction f with
  | zero => intro st; exact ⟨by simp [lexLoop], by simp [lexLoop, mkTok]⟩
  | succ f ih =>
    intro st
    simp only [lexLoop]
    by_cases hc : (lexCall st).1.tok = Tok.eof
    · rw [if_pos hc]; exact ⟨by simp, by simpa using hc⟩
    · rw [if_neg hc]
      obtain ⟨hne, hl⟩ := ih (lexCall st).2
      exact ⟨by simp, by rw [List.getLast_cons hne]; exact hl⟩

theorem lexAll_WFT (s : Bytes) : WFT (lexAll s) := lexLoop_WFT _ _

/-- The model parser never runs out of fuel. -/
theorem parseToks_ne_outOfFuel (toks : List LTok) (hw : WFT toks) : parseToks toks ≠ .outOfFuel := by
  have h := parseProgram_spec (2 * toks.length + 2) ⟨toks, false, ⟨1, 1⟩, [], 0, 0, []⟩ hw (by simp)
  unfold Run at h
  unfold parseToks
  simp only []
  cases hr : parseProgram (2 * toks.length + 2) ⟨toks, false, ⟨1, 1⟩, [], 0, 0, []⟩ with
  | ok p st => simp only []; split <;> simp
  | fail i => simp only []; split <;> simp
  | fuel => rw [hr] at h; exact absurd h id

theorem parse_ne_outOfFuel (s : Bytes) : parse s ≠ .outOfFuel :=
  parseToks_ne_outOfFuel _ (lexAll_WFT s)

end ThriftVerif.Idl
