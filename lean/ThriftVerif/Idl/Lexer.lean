/-
M-Idl, part 5: the scanner — idl/internal/lex.rl (ragel; `lex.go` is generated from it).

The ragel machine is a longest-match scanner whose embedded actions run *while scanning*:

* `newline` (line++, lineStart = p+1, linesSinceDocstring++) fires on every `\n` that is consumed
  through the `newline` machine: the stand-alone newline token, the `__` blanks that every keyword
  (and reserved word) pattern absorbs after the word, and the body of `/* … */`;
* it does NOT fire on a `\n` inside a string literal (after a backslash) nor inside the body of a
  docstring that starts with `/**/` (see `commentScan`): such newlines are never counted;
* a keyword's position is read after its trailing blanks were consumed (D18);
* a skipped item resets `ts` to 0, so `Pos()` at the end of input after trailing blanks or
  comments is `(line, 1 - lineStart)`;
* input that ends inside a literal, inside `/* …`, or directly after `+`, `-`, `/` is treated as
  end of input without any error;
* an `AppendError` (integer/double out of range, bad literal, reserved word) or the error state
  ("unknown token") make `Lex` return 0, which goyacc reads as end of input.

`lexAll` is the sequence of `Lex()` results up to and including the first end-of-input token; each
token carries what the parser can observe of the lexer at that moment: `Pos()`, the docstring
captured during the call and the number of `newline` actions since.

Core-only.
-/
import ThriftVerif.Idl.Quote
import ThriftVerif.Idl.Number

namespace ThriftVerif.Idl

/-- Keyword tokens of lex.rl (in the order of the scanner's alternatives). -/
inductive Kw where
  | include_ | cppInclude | namespace_ | void | bool | byte | i8 | i16 | i32 | i64 | double
  | string | binary | map | list | set | oneway | typedef | struct | union | exception
  | extends | throws | service | enum | const | required | optional | true_ | false_
  deriving DecidableEq, Repr, Inhabited

def Kw.name : Kw → String
  | .include_ => "include" | .cppInclude => "cpp_include" | .namespace_ => "namespace"
  | .void => "void" | .bool => "bool" | .byte => "byte" | .i8 => "i8" | .i16 => "i16"
  | .i32 => "i32" | .i64 => "i64" | .double => "double" | .string => "string"
  | .binary => "binary" | .map => "map" | .list => "list" | .set => "set" | .oneway => "oneway"
  | .typedef => "typedef" | .struct => "struct" | .union => "union" | .exception => "exception"
  | .extends => "extends" | .throws => "throws" | .service => "service" | .enum => "enum"
  | .const => "const" | .required => "required" | .optional => "optional" | .true_ => "true"
  | .false_ => "false"

def Kw.all : List Kw :=
  [.include_, .cppInclude, .namespace_, .void, .bool, .byte, .i8, .i16, .i32, .i64, .double,
   .string, .binary, .map, .list, .set, .oneway, .typedef, .struct, .union, .exception,
   .extends, .throws, .service, .enum, .const, .required, .optional, .true_, .false_]

def keywordNames : List String := Kw.all.map Kw.name

def Kw.text : Kw → Bytes
  | .include_ => b!"include"
  | .cppInclude => b!"cpp_include"
  | .namespace_ => b!"namespace"
  | .void => b!"void"
  | .bool => b!"bool"
  | .byte => b!"byte"
  | .i8 => b!"i8"
  | .i16 => b!"i16"
  | .i32 => b!"i32"
  | .i64 => b!"i64"
  | .double => b!"double"
  | .string => b!"string"
  | .binary => b!"binary"
  | .map => b!"map"
  | .list => b!"list"
  | .set => b!"set"
  | .oneway => b!"oneway"
  | .typedef => b!"typedef"
  | .struct => b!"struct"
  | .union => b!"union"
  | .exception => b!"exception"
  | .extends => b!"extends"
  | .throws => b!"throws"
  | .service => b!"service"
  | .enum => b!"enum"
  | .const => b!"const"
  | .required => b!"required"
  | .optional => b!"optional"
  | .true_ => b!"true"
  | .false_ => b!"false"

def keywordOf (w : Bytes) : Option Kw := Kw.all.find? (fun k => k.text == w)

/-- `reservedKeyword` of lex.rl: words of other languages that are rejected as identifiers. -/
def reservedNames : List String :=
  ["BEGIN", "END", "__CLASS__", "__DIR__", "__FILE__", "__FUNCTION__", "__LINE__", "__METHOD__",
   "__NAMESPACE__", "abstract", "alias", "and", "args", "as", "assert", "begin", "break", "case",
   "catch", "class", "clone", "continue", "declare", "def", "default", "del", "delete", "do",
   "dynamic", "elif", "else", "elseif", "elsif", "end", "enddeclare", "endfor", "endforeach",
   "endif", "endswitch", "endwhile", "ensure", "except", "exec", "finally", "float", "for",
   "foreach", "from", "function", "global", "goto", "if", "implements", "import", "in", "inline",
   "instanceof", "interface", "is", "lambda", "module", "native", "new", "next", "nil", "not",
   "or", "package", "pass", "public", "print", "private", "protected", "raise", "redo", "rescue",
   "retry", "register", "return", "self", "sizeof", "static", "super", "switch", "synchronized",
   "then", "this", "throw", "transient", "try", "undef", "unless", "unsigned", "until", "use",
   "var", "virtual", "volatile", "when", "while", "with", "xor", "yield"]

def reservedWords : List Bytes :=
  [b!"BEGIN", b!"END", b!"__CLASS__", b!"__DIR__", b!"__FILE__", b!"__FUNCTION__", b!"__LINE__",
   b!"__METHOD__", b!"__NAMESPACE__", b!"abstract", b!"alias", b!"and", b!"args", b!"as",
   b!"assert", b!"begin", b!"break", b!"case", b!"catch", b!"class", b!"clone", b!"continue",
   b!"declare", b!"def", b!"default", b!"del", b!"delete", b!"do", b!"dynamic", b!"elif",
   b!"else", b!"elseif", b!"elsif", b!"end", b!"enddeclare", b!"endfor", b!"endforeach",
   b!"endif", b!"endswitch", b!"endwhile", b!"ensure", b!"except", b!"exec", b!"finally",
   b!"float", b!"for", b!"foreach", b!"from", b!"function", b!"global", b!"goto", b!"if",
   b!"implements", b!"import", b!"in", b!"inline", b!"instanceof", b!"interface", b!"is",
   b!"lambda", b!"module", b!"native", b!"new", b!"next", b!"nil", b!"not", b!"or", b!"package",
   b!"pass", b!"public", b!"print", b!"private", b!"protected", b!"raise", b!"redo", b!"rescue",
   b!"retry", b!"register", b!"return", b!"self", b!"sizeof", b!"static", b!"super", b!"switch",
   b!"synchronized", b!"then", b!"this", b!"throw", b!"transient", b!"try", b!"undef",
   b!"unless", b!"unsigned", b!"until", b!"use", b!"var", b!"virtual", b!"volatile", b!"when",
   b!"while", b!"with", b!"xor", b!"yield"]

def isReserved (w : Bytes) : Bool := reservedWords.contains w

/-- `symbol = [\*=<>\(\)\{\},;:\[\]]` -/
def symbolString : String := "*=<>(){},;:[]"
def symbolChars : Bytes := b!"*=<>(){},;:[]"
def isSymbol (c : UInt8) : Bool := symbolChars.contains c

inductive Tok where
  | eof
  | ident (s : Bytes)
  | lit (s : Bytes)
  | int (v : Int)
  | dbl (bits : Nat)
  | kw (k : Kw)
  | sym (c : UInt8)
  deriving DecidableEq, Repr, Inhabited

/-- One `Lex()` result with the lexer observables at the moment it returned. -/
structure LTok where
  tok : Tok
  /-- `lex.Pos()` right after the call: `(line, ts - lineStart + 1)` -/
  pos : Pos
  /-- `lex.ts` (offset of the first byte of the token) -/
  off : Nat
  /-- `lex.p` after the call (for a keyword: after the blanks it absorbed) -/
  stop : Nat
  /-- `AppendError` was called during this call (then `tok = eof`) -/
  err : Bool
  /-- the last docstring captured during this call -/
  doc : Option Bytes
  /-- `newline` actions during this call after that capture (all of them if none) -/
  nl : Nat
  /-- some `\n` before `off` was consumed without the `newline` action -/
  dirty : Bool
  deriving Repr, Inhabited

/-! ### Matchers (all structural) -/

/-- `([a-zA-Z0-9_] | '.' [a-zA-Z0-9_])*` -/
def identTail : Bytes → Nat
  | [] => 0
  | c :: rest =>
    if isAlnum_ c then 1 + identTail rest
    else if c = 46 then
      match rest with
      | d :: rest' => if isAlnum_ d then 2 + identTail rest' else 0
      | [] => 0
    else 0

/-- `(ws | newline)*` -/
def blankLen : Bytes → Nat
  | [] => 0
  | c :: rest => if isBlank c then 1 + blankLen rest else 0

def digitsLen : Bytes → Nat
  | [] => 0
  | c :: rest => if isDigit c then 1 + digitsLen rest else 0

def hexLen : Bytes → Nat
  | [] => 0
  | c :: rest => if isHexDigit c then 1 + hexLen rest else 0

/-- `[^\n]*` -/
def lineLen : Bytes → Nat
  | [] => 0
  | c :: rest => if c = 10 then 0 else 1 + lineLen rest

/-- offset just past the first `*/`. -/
def findClose : Bytes → Option Nat
  | [] => none
  | c :: rest =>
    match rest with
    | [] => none
    | d :: _ => if c = 42 ∧ d = 47 then some 2 else (findClose rest).map (· + 1)

inductive LitScan where
  | closed (n : Nat)   -- n bytes up to and including the closing quote
  | newline            -- raw newline inside the literal: error state
  | open_              -- input ends inside the literal
  deriving Repr

def LitScan.add (k : Nat) : LitScan → LitScan
  | .closed n => .closed (n + k)
  | r => r

/-- body and closing quote of `'"' ([^"\n\\] | '\\' any)* '"'` (same for `'`). -/
def litScan (q : UInt8) : Bytes → LitScan
  | [] => .open_
  | c :: rest =>
    if c = q then .closed 1
    else if c = 10 then .newline
    else if c = 92 then
      match rest with
      | [] => .open_
      | _ :: rest' => (litScan q rest').add 2
    else (litScan q rest).add 1

/-- What the scanner does at a byte that starts a token (not blank, not a comment). -/
inductive TokRes where
  /-- a token of `n` bytes; `newline` actions fire on the first `m` of them -/
  | tok (t : Tok) (n m : Nat)
  /-- `AppendError` after matching `n` bytes (`newline` actions on the first `m`) -/
  | lexErr (n m : Nat)
  /-- no pattern matches: error state, "unknown token" -/
  | bad
  /-- the input ends inside the token: reported as end of input, no error -/
  | silent
  deriving Repr

/-- `'0x' xdigit+` can only start at an unsigned `0`. -/
def hexPartLen (s : Nat) (body : Bytes) : Nat :=
  if s = 0 then
    match body with
    | 48 :: 120 :: r => hexLen r
    | _ => 0
  else 0

/-- `('.' digit*)?` -/
def fracLenOf (r1 : Bytes) : Nat :=
  match r1 with
  | 46 :: r => 1 + digitsLen r
  | _ => 0

/-- `([Ee] integer)?` -/
def expLenOf (r2 : Bytes) : Nat :=
  match r2 with
  | e :: r =>
    if e = 101 || e = 69 then
      let sg := match r with
        | c :: _ => if c = 43 || c = 45 then 1 else 0
        | [] => 0
      let dd := digitsLen (r.drop sg)
      if dd = 0 then 0 else 1 + sg + dd
    else 0
  | [] => 0

/-- `integer | hex_integer | double` at `sign? digit…`; `s` = 1 if there is a sign. -/
def numberRes (inp : Bytes) (s : Nat) : TokRes :=
  let body := inp.drop s
  let d := digitsLen body
  let intLen := s + d
  let hexX := hexPartLen s body
  if hexX > 0 then
    let n := 2 + hexX
    match lexInt (inp.take n) with
    | some v => .tok (.int v) n n
    | none => .lexErr n n
  else
    let fracLen := fracLenOf (body.drop d)
    let expLen := expLenOf ((body.drop d).drop fracLen)
    if fracLen + expLen = 0 then
      match lexInt (inp.take intLen) with
      | some v => .tok (.int v) intLen intLen
      | none => .lexErr intLen intLen
    else
      let n := intLen + fracLen + expLen
      match lexDouble (inp.take n) with
      | some b => .tok (.dbl b) n n
      | none => .lexErr n n

/-- a string literal opened by the quote `c`. -/
def literalRes (c : UInt8) (r : Bytes) : TokRes :=
  match litScan c r with
  | .closed n =>
    match (if c = 39 then unquoteSingle (c :: r.take n) else unquoteDouble (c :: r.take n)) with
    | some s => .tok (.lit s) (n + 1) 0
    | none => .lexErr (n + 1) 0
  | .newline => .bad
  | .open_ => .silent

/-- `+` or `-`: a number if a digit follows. -/
def signRes (c : UInt8) (r : Bytes) : TokRes :=
  match r with
  | [] => .silent
  | d :: _ => if isDigit d then numberRes (c :: r) 1 else .bad

/-- keyword (with the blanks it absorbs), reserved word (likewise), or identifier: decided by
the longest identifier match. -/
def wordRes (c : UInt8) (r : Bytes) : TokRes :=
  match keywordOf ((c :: r).take (1 + identTail r)) with
  | some k =>
    .tok (.kw k) (1 + identTail r + blankLen (r.drop (identTail r)))
      (1 + identTail r + blankLen (r.drop (identTail r)))
  | none =>
    if isReserved ((c :: r).take (1 + identTail r)) then
      .lexErr (1 + identTail r + blankLen (r.drop (identTail r)))
        (1 + identTail r + blankLen (r.drop (identTail r)))
    else .tok (.ident ((c :: r).take (1 + identTail r))) (1 + identTail r) (1 + identTail r)

/-- The scanner at byte `c` followed by `r` (`c` is not blank, `#`, or `/`). -/
def tokenRes (c : UInt8) (r : Bytes) : TokRes :=
  if isSymbol c then .tok (.sym c) 1 1
  else if c = 34 || c = 39 then literalRes c r
  else if c = 43 || c = 45 then signRes c r
  else if isDigit c then numberRes (c :: r) 0
  else if isAlpha_ c then wordRes c r
  else .bad

/-! ### State and bookkeeping -/

structure LxSt where
  rest : Bytes
  off : Nat         -- lex.p
  line : Nat
  lineStart : Nat
  ts : Nat
  dirty : Bool
  deriving Repr

def LxSt.init (s : Bytes) : LxSt := ⟨s, 0, 1, 0, 0, false⟩

/-- the `newline` action applied to every `\n` of a chunk that starts at offset `off`. -/
def bump : Bytes → Nat → Nat → Nat → Nat × Nat
  | [], _, l, ls => (l, ls)
  | b :: bs, off, l, ls =>
    if b = 10 then bump bs (off + 1) (l + 1) (off + 1) else bump bs (off + 1) l ls

/-- consume `n` bytes; `newline` actions fire on the first `m` of them only. -/
def LxSt.advance (st : LxSt) (n m : Nat) : LxSt :=
  let c := st.rest.take n
  let b := bump (c.take m) st.off st.line st.lineStart
  { st with rest := st.rest.drop n, off := st.off + c.length, line := b.1, lineStart := b.2,
            dirty := st.dirty || (c.drop m).contains 10 }

/-- `lex.Pos()` -/
def posOf (line lineStart ts : Nat) : Pos := ⟨line, (ts : Int) - (lineStart : Int) + 1⟩

/-- How a `/` is scanned. -/
inductive SlashRes where
  /-- comment or docstring of `n` bytes, `newline` actions on the first `m`; `doc` = captured -/
  | skip (n m : Nat) (doc : Bool)
  | bad
  /-- the input ends inside the comment: `newline` actions over the rest if `count` -/
  | silent (count : Bool)
  deriving Repr

/-- `r` is what follows the `/`. A `/*` comment ends at the first `*/` at or after its third
byte; a docstring is `/**`, then a body without `*/`, then `*/`. Both run in parallel in the
ragel machine. For `/**/` the comment alternative is complete after four bytes while the
docstring alternative is still alive and wins (longest match) if a later `*/` exists — and in
that part of the scan the `newline` action is not attached. -/
def slashRes (r : Bytes) : SlashRes :=
  match r with
  | [] => .silent false
  | d :: r2 =>
    if d = 47 then let n := 2 + lineLen r2; .skip n n false
    else if d = 42 then
      match r2 with
      | 42 :: 47 :: r4 =>
        match findClose r4 with
        | some k => .skip (4 + k) 4 true
        | none => .skip 4 4 false
      | _ =>
        match findClose r2 with
        | some k =>
          let isDoc := match r2 with
            | 42 :: _ => true
            | _ => false
          .skip (2 + k) (2 + k) isDoc
        | none => .silent true
    else .bad

/-- The result of a `Lex()` call that started (after skipping) in state `st` and stopped in
`st'`, with `lex.ts = ts`: token, `Pos()`, and the `newline` actions of the last step. -/
def mkTok (tok : Tok) (st st' : LxSt) (ts : Nat) (err : Bool) (doc : Option Bytes) (nl : Nat) :
    LTok × LxSt :=
  (⟨tok, posOf st'.line st'.lineStart ts, ts, st'.off, err, doc, nl + (st'.line - st.line), st.dirty⟩,
   { st' with ts := ts })

/-- One `Lex()` call: skip blanks and comments, then return a token. `doc`, `nl`, `skipped`
accumulate over the skipped items. Fuel: one unit per skipped item. -/
def lexOne : Nat → LxSt → Option Bytes → Nat → Bool → LTok × LxSt
  | 0, st, doc, nl, _ => mkTok .eof st st st.ts false doc nl
  | f + 1, st, doc, nl, skipped =>
    match st.rest with
    | [] => mkTok .eof st st (if skipped then 0 else st.ts) false doc nl
    | c :: r =>
      if isWs c then lexOne f (st.advance 1 1) doc nl true
      else if c = 10 then lexOne f (st.advance 1 1) doc (nl + 1) true
      else if c = 35 then lexOne f (st.advance (1 + lineLen r) (1 + lineLen r)) doc nl true
      else if c = 47 then
        match slashRes r with
        | .skip n m isDoc =>
          if isDoc then lexOne f (st.advance n m) (some (st.rest.take n)) 0 true
          else lexOne f (st.advance n m) doc (nl + ((st.advance n m).line - st.line)) true
        | .bad => mkTok .eof st st st.off true doc nl
        | .silent count =>
          mkTok .eof st (if count then st.advance st.rest.length st.rest.length else st) st.off false doc nl
      else
        match tokenRes c r with
        | .tok t n m => mkTok t st (st.advance n m) st.off false doc nl
        | .lexErr n m => mkTok .eof st (st.advance n m) st.off true doc nl
        | .bad => mkTok .eof st st st.off true doc nl
        | .silent => mkTok .eof st st st.off false doc nl

def lexCall (st : LxSt) : LTok × LxSt := lexOne (st.rest.length + 1) st none 0 false

/-- successive `Lex()` results up to and including the first end-of-input token. -/
def lexLoop : Nat → LxSt → List LTok
  | 0, st => [(mkTok .eof st st st.ts false none 0).1]
  | f + 1, st =>
    let r := lexCall st
    if r.1.tok = .eof then [r.1] else r.1 :: lexLoop f r.2

def lexAll (s : Bytes) : List LTok := lexLoop (s.length + 1) (LxSt.init s)

end ThriftVerif.Idl
