/-
M-Idl, part 8: `ast.Walk` (ast/walk.go) with the per-type `visitChildren` methods of
ast/*.go, for a visitor that never prunes (`ast.VisitorFunc`).

`walkX ss x` is `visitor.visit(ss, x)`: `ss` is the `nodeStack` (ancestors, outermost first), the
callback sees the node and `ss.Parent()` = last element of `ss`; then `visitChildren(ss ++ [x])`
visits the children the Go method lists, in its order:

  Program: headers, definitions      Constant: Type, Value        Typedef: Type, annotations
  Enum: items, annotations           EnumItem: annotations        Struct: fields, annotations
  Service: functions, annotations    Function: ReturnType (unless void), parameters, exceptions, annotations
  Field: Type, Default (if any), annotations
  BaseType: annotations   MapType: key, value, annotations   ListType/SetType: value, annotations
  ConstantList: items     ConstantMap: its ConstantMapItems   ConstantMapItem: key, value
  (headers, annotations, type references, scalar constants, constant references: none;
   `ServiceReference` is not a Node)

`children` is the declarative side: all sub-nodes of a node, read off the data type.

Core-only.
-/
import ThriftVerif.Idl.Ast

namespace ThriftVerif.Idl

/-- ast.Node -/
inductive Node where
  | program (p : Program)
  | header (h : Header)
  | definition (d : Definition)
  | enumItem (e : EnumItem)
  | field (f : Field)
  | function (f : Function)
  | ty (t : Ty)
  | const (c : ConstValue)
  | mapItem (k v : ConstValue) (pos : Pos)
  | annotation (a : Annotation)
  deriving Repr, Inhabited

/-- one callback: the node and `Walker.Parent()`. -/
abbrev Visit := Node × Option Node

def parentOf (ss : List Node) : Option Node := ss.getLast?

def walkAnns (ss : List Node) : List Annotation → List Visit
  | [] => []
  | a :: as => (.annotation a, parentOf ss) :: walkAnns ss as

def walkTy (ss : List Node) : Ty → List Visit
  | .base id anns pos =>
    let n := Node.ty (.base id anns pos)
    (n, parentOf ss) :: walkAnns (ss ++ [n]) anns
  | .map k v anns pos =>
    let n := Node.ty (.map k v anns pos)
    (n, parentOf ss) :: (walkTy (ss ++ [n]) k ++ (walkTy (ss ++ [n]) v ++ walkAnns (ss ++ [n]) anns))
  | .list v anns pos =>
    let n := Node.ty (.list v anns pos)
    (n, parentOf ss) :: (walkTy (ss ++ [n]) v ++ walkAnns (ss ++ [n]) anns)
  | .set v anns pos =>
    let n := Node.ty (.set v anns pos)
    (n, parentOf ss) :: (walkTy (ss ++ [n]) v ++ walkAnns (ss ++ [n]) anns)
  | .ref name pos => [(.ty (.ref name pos), parentOf ss)]

mutual
  def walkConst (ss : List Node) : ConstValue → List Visit
    | .list items pos =>
      let n := Node.const (.list items pos)
      (n, parentOf ss) :: walkConsts (ss ++ [n]) items
    | .map items pos =>
      let n := Node.const (.map items pos)
      (n, parentOf ss) :: walkItems (ss ++ [n]) items
    | .int v p => [(.const (.int v p), parentOf ss)]
    | .dbl b p => [(.const (.dbl b p), parentOf ss)]
    | .bool b p => [(.const (.bool b p), parentOf ss)]
    | .str s p => [(.const (.str s p), parentOf ss)]
    | .ref s p => [(.const (.ref s p), parentOf ss)]
  def walkConsts (ss : List Node) : List ConstValue → List Visit
    | [] => []
    | c :: cs => walkConst ss c ++ walkConsts ss cs
  def walkItems (ss : List Node) : List (ConstValue × ConstValue × Pos) → List Visit
    | [] => []
    | (k, v, p) :: is =>
      let n := Node.mapItem k v p
      ((n, parentOf ss) :: (walkConst (ss ++ [n]) k ++ walkConst (ss ++ [n]) v)) ++ walkItems ss is
end

def walkOptConst (ss : List Node) : Option ConstValue → List Visit
  | none => []
  | some c => walkConst ss c

def walkOptTy (ss : List Node) : Option Ty → List Visit
  | none => []
  | some t => walkTy ss t

def walkField (ss : List Node) (f : Field) : List Visit :=
  let n := Node.field f
  (n, parentOf ss) :: (walkTy (ss ++ [n]) f.ty ++ (walkOptConst (ss ++ [n]) f.dflt ++ walkAnns (ss ++ [n]) f.anns))

def walkFields (ss : List Node) : List Field → List Visit
  | [] => []
  | f :: fs => walkField ss f ++ walkFields ss fs

def walkFunction (ss : List Node) (f : Function) : List Visit :=
  let n := Node.function f
  (n, parentOf ss) :: (walkOptTy (ss ++ [n]) f.ret ++ (walkFields (ss ++ [n]) f.params ++
    (walkFields (ss ++ [n]) f.exceptions ++ walkAnns (ss ++ [n]) f.anns)))

def walkFunctions (ss : List Node) : List Function → List Visit
  | [] => []
  | f :: fs => walkFunction ss f ++ walkFunctions ss fs

def walkEnumItem (ss : List Node) (e : EnumItem) : List Visit :=
  let n := Node.enumItem e
  (n, parentOf ss) :: walkAnns (ss ++ [n]) e.anns

def walkEnumItems (ss : List Node) : List EnumItem → List Visit
  | [] => []
  | e :: es => walkEnumItem ss e ++ walkEnumItems ss es

def walkDef (ss : List Node) (d : Definition) : List Visit :=
  let n := Node.definition d
  (n, parentOf ss) ::
    match d with
    | .const _ ty v _ _ => walkTy (ss ++ [n]) ty ++ walkConst (ss ++ [n]) v
    | .typedef _ ty anns _ _ => walkTy (ss ++ [n]) ty ++ walkAnns (ss ++ [n]) anns
    | .enum _ items anns _ _ => walkEnumItems (ss ++ [n]) items ++ walkAnns (ss ++ [n]) anns
    | .struct _ _ fields anns _ _ => walkFields (ss ++ [n]) fields ++ walkAnns (ss ++ [n]) anns
    | .service _ fns _ anns _ _ => walkFunctions (ss ++ [n]) fns ++ walkAnns (ss ++ [n]) anns

def walkDefs (ss : List Node) : List Definition → List Visit
  | [] => []
  | d :: ds => walkDef ss d ++ walkDefs ss ds

def walkHeaders (ss : List Node) : List Header → List Visit
  | [] => []
  | h :: hs => (.header h, parentOf ss) :: walkHeaders ss hs

def walkProgram (ss : List Node) (p : Program) : List Visit :=
  let n := Node.program p
  (n, parentOf ss) :: (walkHeaders (ss ++ [n]) p.headers ++ walkDefs (ss ++ [n]) p.defs)

/-- `visitor.visit(ss, n)` -/
def walkFrom (ss : List Node) : Node → List Visit
  | .program p => walkProgram ss p
  | .header h => [(.header h, parentOf ss)]
  | .definition d => walkDef ss d
  | .enumItem e => walkEnumItem ss e
  | .field f => walkField ss f
  | .function f => walkFunction ss f
  | .ty t => walkTy ss t
  | .const c => walkConst ss c
  | .mapItem k v p =>
    let n := Node.mapItem k v p
    (n, parentOf ss) :: (walkConst (ss ++ [n]) k ++ walkConst (ss ++ [n]) v)
  | .annotation a => [(.annotation a, parentOf ss)]

/-- `ast.Walk(v, n)` -/
def walk (n : Node) : List Visit := walkFrom [] n

/-! ### the declarative side -/

def optToList : Option α → List α
  | none => []
  | some a => [a]

/-- every sub-node of a node, in source order. -/
def children : Node → List Node
  | .program p => p.headers.map .header ++ p.defs.map .definition
  | .header _ => []
  | .definition (.const _ ty v _ _) => [.ty ty, .const v]
  | .definition (.typedef _ ty anns _ _) => .ty ty :: anns.map .annotation
  | .definition (.enum _ items anns _ _) => items.map .enumItem ++ anns.map .annotation
  | .definition (.struct _ _ fields anns _ _) => fields.map .field ++ anns.map .annotation
  | .definition (.service _ fns _ anns _ _) => fns.map .function ++ anns.map .annotation
  | .enumItem e => e.anns.map .annotation
  | .field f => .ty f.ty :: ((optToList f.dflt).map .const ++ f.anns.map .annotation)
  | .function f =>
    (optToList f.ret).map .ty ++ (f.params.map .field ++ (f.exceptions.map .field ++ f.anns.map .annotation))
  | .ty (.base _ anns _) => anns.map .annotation
  | .ty (.map k v anns _) => .ty k :: .ty v :: anns.map .annotation
  | .ty (.list v anns _) => .ty v :: anns.map .annotation
  | .ty (.set v anns _) => .ty v :: anns.map .annotation
  | .ty (.ref _ _) => []
  | .const (.list items _) => items.map .const
  | .const (.map items _) => items.map (fun i => .mapItem i.1 i.2.1 i.2.2)
  | .const _ => []
  | .mapItem k v _ => [.const k, .const v]
  | .annotation _ => []

end ThriftVerif.Idl
