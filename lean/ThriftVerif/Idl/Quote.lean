/-
M-Idl, part 2: string literals — idl/internal/quote.go (after the repair of D16/D66, /repo b668604):

  UnquoteDoubleQuoted(in) = strconv.Unquote(requote(in, '"'))
  UnquoteSingleQuoted(in) = strconv.Unquote(requote(in, '\''))

`requote` rewrites the literal as a Go double-quoted literal in one pass that consumes every
escape sequence whole: `\'` becomes `'`, an unescaped `"` becomes `\"`, everything else is copied
(raw bytes that are not well-formed UTF-8 are written as `\xHH`, the repair of D65).
`strconvUnquote` models Go's `strconv.Unquote` for interpreted (double-quoted) string syntax: the
escapes \a \b \f \n \r \t \v \\ \" \xHH \ooo \uXXXX \UXXXXXXXX, raw bytes ≥ 0x80 decoded and
re-encoded as UTF-8 (an invalid byte becomes U+FFFD, as `utf8.AppendRune(RuneError)` does), raw
newline and every other escape (including `\'`) rejected.

(Before the repair the code replaced `\'` blindly and, for '…', swapped the quote characters of the
source and of the *result*: D16 and D66. Their witnesses stay in corpus/C11.)

Core-only.
-/
import ThriftVerif.Idl.Basic

namespace ThriftVerif.Idl

/-! ### UTF-8 as `unicode/utf8` decodes it -/

def isCont (b : UInt8) : Bool := 0x80 ≤ b && b ≤ 0xBF

/-- `utf8.DecodeRune`: byte length (1–4) of the well-formed sequence at the head of the input,
0 when the head is not the start of a well-formed sequence (Go: `RuneError`, width 1).
Overlong forms, surrogates and values above U+10FFFF are ill-formed. -/
def utf8Len : Bytes → Nat
  | [] => 0
  | b0 :: r =>
    if b0 < 0x80 then 1
    else if b0 < 0xC2 then 0
    else if b0 ≤ 0xDF then
      match r with
      | b1 :: _ => if isCont b1 then 2 else 0
      | [] => 0
    else if b0 ≤ 0xEF then
      match r with
      | b1 :: b2 :: _ =>
        let lo : UInt8 := if b0 = 0xE0 then 0xA0 else 0x80
        let hi : UInt8 := if b0 = 0xED then 0x9F else 0xBF
        if lo ≤ b1 && b1 ≤ hi && isCont b2 then 3 else 0
      | _ => 0
    else if b0 ≤ 0xF4 then
      match r with
      | b1 :: b2 :: b3 :: _ =>
        let lo : UInt8 := if b0 = 0xF0 then 0x90 else 0x80
        let hi : UInt8 := if b0 = 0xF4 then 0x8F else 0xBF
        if lo ≤ b1 && b1 ≤ hi && isCont b2 && isCont b3 then 4 else 0
      | _ => 0
    else 0

/-- `utf8.ValidRune`. -/
def validRune (r : Nat) : Bool := r < 0xD800 || (0xE000 ≤ r && r ≤ 0x10FFFF)

/-- `utf8.AppendRune` for a valid rune. -/
def encodeRune (r : Nat) : Bytes :=
  if r < 0x80 then [UInt8.ofNat r]
  else if r < 0x800 then [UInt8.ofNat (0xC0 + r / 64), UInt8.ofNat (0x80 + r % 64)]
  else if r < 0x10000 then
    [UInt8.ofNat (0xE0 + r / 4096), UInt8.ofNat (0x80 + r / 64 % 64), UInt8.ofNat (0x80 + r % 64)]
  else
    [UInt8.ofNat (0xF0 + r / 262144), UInt8.ofNat (0x80 + r / 4096 % 64),
     UInt8.ofNat (0x80 + r / 64 % 64), UInt8.ofNat (0x80 + r % 64)]

/-- exactly `n` hex digits → their value and the remaining input. -/
def hexN : Nat → Nat → Bytes → Option (Nat × Bytes)
  | 0, acc, bs => some (acc, bs)
  | _ + 1, _, [] => none
  | n + 1, acc, b :: bs => if isHexDigit b then hexN n (acc * 16 + hexVal b) bs else none

/-- one-character escapes of `strconv.UnquoteChar` inside a `"`-quoted string. -/
def simpleEscape (e : UInt8) : Option UInt8 :=
  if e = 97 then some 7          -- \a
  else if e = 98 then some 8     -- \b
  else if e = 102 then some 12   -- \f
  else if e = 110 then some 10   -- \n
  else if e = 114 then some 13   -- \r
  else if e = 116 then some 9    -- \t
  else if e = 118 then some 11   -- \v
  else if e = 92 then some 92    -- \\
  else if e = 34 then some 34    -- \"
  else none

/-- The loop of `strconv.unquote` after the opening `"`: consumes characters up to the
terminating `"`, which must be the last byte (`Unquote` rejects a non-empty remainder).
The fuel is never exhausted when it exceeds the input length (one byte at least per step). -/
def unqLoop : Nat → Bytes → Option Bytes
  | 0, _ => none
  | _ + 1, [] => none
  | f + 1, c :: rest =>
    if c = 34 then (if rest.isEmpty then some [] else none)
    else if c = 10 then none
    else if 0x80 ≤ c then
      let n := utf8Len (c :: rest)
      if n = 0 then (unqLoop f rest).map ([0xEF, 0xBF, 0xBD] ++ ·)
      else (unqLoop f ((c :: rest).drop n)).map ((c :: rest).take n ++ ·)
    else if c ≠ 92 then (unqLoop f rest).map (c :: ·)
    else
      match rest with
      | [] => none
      | e :: r2 =>
        match simpleEscape e with
        | some v => (unqLoop f r2).map (v :: ·)
        | none =>
          if e = 120 then            -- \xHH : one raw byte
            match hexN 2 0 r2 with
            | some (v, r3) => (unqLoop f r3).map (UInt8.ofNat v :: ·)
            | none => none
          else if e = 117 then       -- \uXXXX
            match hexN 4 0 r2 with
            | some (v, r3) => if validRune v then (unqLoop f r3).map (encodeRune v ++ ·) else none
            | none => none
          else if e = 85 then        -- \UXXXXXXXX
            match hexN 8 0 r2 with
            | some (v, r3) => if validRune v then (unqLoop f r3).map (encodeRune v ++ ·) else none
            | none => none
          else if isOctDigit e then  -- \ooo, value ≤ 255
            match r2 with
            | o1 :: o2 :: r3 =>
              if isOctDigit o1 && isOctDigit o2 then
                let v := (e.toNat - 48) * 64 + (o1.toNat - 48) * 8 + (o2.toNat - 48)
                if v > 255 then none else (unqLoop f r3).map (UInt8.ofNat v :: ·)
              else none
            | _ => none
          else none                  -- includes \' : not valid inside "…"

/-- `strconv.Unquote` on an input that starts with `"`. -/
def strconvUnquote (inp : Bytes) : Option Bytes :=
  match inp with
  | 34 :: rest => unqLoop (rest.length + 1) rest
  | _ => none

/-- The body loop of quote.go `requote`: one escape sequence at a time. A raw byte ≥ 0x80 is
copied with the rest of its UTF-8 sequence if it starts a well-formed one, and written as `\xHH`
otherwise. (The `[]` results stand for cases `utf8Len` excludes.) -/
def requoteBody : Bytes → Bytes
  | [] => []
  | c :: rest =>
    if c = 92 then
      match rest with
      | [] => [92]
      | e :: rest' => if e = 39 then 39 :: requoteBody rest' else 92 :: e :: requoteBody rest'
    else if c = 34 then 92 :: 34 :: requoteBody rest
    else if 0x80 ≤ c then
      if utf8Len (c :: rest) = 2 then
        match rest with
        | b1 :: r => c :: b1 :: requoteBody r
        | _ => []
      else if utf8Len (c :: rest) = 3 then
        match rest with
        | b1 :: b2 :: r => c :: b1 :: b2 :: requoteBody r
        | _ => []
      else if utf8Len (c :: rest) = 4 then
        match rest with
        | b1 :: b2 :: b3 :: r => c :: b1 :: b2 :: b3 :: requoteBody r
        | _ => []
      else 92 :: 120 :: hexDigit (c.toNat / 16) :: hexDigit (c.toNat % 16) :: requoteBody rest
    else c :: requoteBody rest

/-- quote.go `requote`: a literal delimited by `q` as a Go double-quoted literal; anything that
is not delimited by `q` on both sides is handed to `strconv.Unquote` as it is. -/
def requote (q : UInt8) (inp : Bytes) : Bytes :=
  match inp with
  | [] => inp
  | c0 :: rest =>
    if c0 = q ∧ rest.getLast? = some q then 34 :: (requoteBody rest.dropLast ++ [34]) else inp

/-- quote.go `UnquoteDoubleQuoted`. -/
def unquoteDouble (inp : Bytes) : Option Bytes := strconvUnquote (requote 34 inp)

/-- quote.go `UnquoteSingleQuoted`. -/
def unquoteSingle (inp : Bytes) : Option Bytes := strconvUnquote (requote 39 inp)

/-! ### Printers -/

/-- One byte of a literal body between quotes `q`. `esc` says whether the *other* quote
character is escaped too (`\'` inside "…", `\"` inside '…'). -/
def quoteByte (q : UInt8) (esc : Bool) (c : UInt8) : Bytes :=
  if c = 92 then [92, 92]
  else if c = q then [92, q]
  else if esc && (c = 34 || c = 39) then [92, c]
  else if c = 10 then [92, 110]
  else if c = 9 then [92, 116]
  else if c = 13 then [92, 114]
  else if 0x20 ≤ c && c ≤ 0x7E then [c]
  else [92, 120, hexDigit (c.toNat / 16), hexDigit (c.toNat % 16)]

def quoteBody (q : UInt8) (esc : Bool) : Bytes → Bytes
  | [] => []
  | c :: cs => quoteByte q esc c ++ quoteBody q esc cs

/-- The natural printer: `"…"` with `\\`, `\"`, `\n`, `\t`, `\r`, `\xHH`; an apostrophe is
written as it is. -/
def quoteDouble (s : Bytes) : Bytes := 34 :: (quoteBody 34 false s ++ [34])
/-- `'…'` with `\\`, `\'`, …; a double quote is written as it is. -/
def quoteSingle (s : Bytes) : Bytes := 39 :: (quoteBody 39 false s ++ [39])
/-- Printers that escape both quote characters. -/
def quoteDoubleSafe (s : Bytes) : Bytes := 34 :: (quoteBody 34 true s ++ [34])
def quoteSingleSafe (s : Bytes) : Bytes := 39 :: (quoteBody 39 true s ++ [39])

end ThriftVerif.Idl
