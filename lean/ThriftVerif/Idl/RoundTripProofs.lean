/-
Proofs about Lexer.lean (C11 f): a token-sequence round trip.

`scan` is the scanner with the bookkeeping stripped off (it depends on the remaining input only);
`lexAll` produces exactly the tokens `toksOf` produces. Then: a sequence of printed tokens
(symbols, identifiers, keywords, int64 in decimal, double-quoted literals) separated by any layout
from the layout grammar (blanks, newlines, `#…` and `//…` line comments), where a word-like token
is followed by a separator or by a token that cannot continue it, scans back to that sequence.
-/
import ThriftVerif.Idl.TokenProofs

namespace ThriftVerif.Idl

/-- one `Lex()` call on the remaining input: the token and what remains. -/
def nextTok : Nat → Bytes → Tok × Bytes
  | 0, rest => (.eof, rest)
  | f + 1, rest =>
    match rest with
    | [] => (.eof, rest)
    | c :: r =>
      if isWs c then nextTok f (rest.drop 1)
      else if c = 10 then nextTok f (rest.drop 1)
      else if c = 35 then nextTok f (rest.drop (1 + lineLen r))
      else if c = 47 then
        match slashRes r with
        | .skip n _ _ => nextTok f (rest.drop n)
        | .bad => (.eof, rest)
        | .silent count => (.eof, if count then rest.drop rest.length else rest)
      else
        match tokenRes c r with
        | .tok t n _ => (t, rest.drop n)
        | .lexErr n _ => (.eof, rest.drop n)
        | .bad => (.eof, rest)
        | .silent => (.eof, rest)

theorem advance_rest (st : LxSt) (n m : Nat) : (st.advance n m).rest = st.rest.drop n := rfl

/-- the scanner's token and remaining input depend on the remaining input only. -/
theorem lexOne_nextTok : ∀ (f : Nat) (st : LxSt) (doc : Option Bytes) (nl : Nat) (sk : Bool),
    (lexOne f st doc nl sk).1.tok = (nextTok f st.rest).1 ∧
    (lexOne f st doc nl sk).2.rest = (nextTok f st.rest).2 := by
  intro f
  induction f with
  | zero => intro st doc nl sk; exact ⟨rfl, rfl⟩
  | succ f ih =>
    intro st doc nl sk
    unfold lexOne nextTok
    cases hr : st.rest with
    | nil => simp [mkTok, hr]
    | cons c r =>
      simp only []
      by_cases h1 : isWs c = true
      · simp only [h1, if_true]; rw [← hr, ← advance_rest st 1 1]; exact ih _ _ _ _
      · simp only [h1, Bool.false_eq_true, if_false]
        by_cases h2 : c = 10
        · simp only [h2, if_true]; rw [← h2, ← hr, ← advance_rest st 1 1]; exact ih _ _ _ _
        · simp only [h2, if_false]
          by_cases h3 : c = 35
          · simp only [h3, if_true]
            rw [← h3, ← hr, ← advance_rest st (1 + lineLen r) (1 + lineLen r)]; exact ih _ _ _ _
          · simp only [h3, if_false]
            by_cases h4 : c = 47
            · simp only [h4, if_true]
              cases hs : slashRes r with
              | skip n m d =>
                simp only []
                rw [← h4, ← hr]
                by_cases hd : d = true
                · simp only [hd, if_true]; rw [← advance_rest st n m]; exact ih _ _ _ _
                · simp only [hd, Bool.false_eq_true, if_false]; rw [← advance_rest st n m]; exact ih _ _ _ _
              | bad => simp [mkTok, hr, h4]
              | silent count =>
                cases count <;> simp [mkTok, hr, h4, advance_rest]
            · simp only [h4, if_false]
              cases ht : tokenRes c r with
              | tok t n m => simp [mkTok, hr, advance_rest]
              | lexErr n m => simp [mkTok, hr, advance_rest]
              | bad => simp [mkTok, hr]
              | silent => simp [mkTok, hr]

theorem slashRes_skip_pos (r : Bytes) (n m : Nat) (d : Bool) (h : slashRes r = .skip n m d) : 1 ≤ n := by
  unfold slashRes at h
  split at h
  · cases h
  · split at h
    · injection h with h1 _ _; omega
    · split at h
      · split at h
        · split at h
          · injection h with h1 _ _; omega
          · injection h with h1 _ _; omega
        · split at h
          · injection h with h1 _ _; omega
          · cases h
      · cases h

/-- enough fuel is enough: the result does not depend on it. -/
theorem nextTok_fuel : ∀ (f g : Nat) (rest : Bytes), rest.length < f → rest.length < g →
    nextTok f rest = nextTok g rest := by
  intro f
  induction f with
  | zero => intro g rest h; omega
  | succ f ih =>
    intro g rest hf hg
    cases g with
    | zero => omega
    | succ g =>
      unfold nextTok
      cases rest with
      | nil => rfl
      | cons c r =>
        have hdrop : ∀ n, 1 ≤ n → ((c :: r).drop n).length < f ∧ ((c :: r).drop n).length < g := by
          intro n hn
          simp only [List.length_drop, List.length_cons] at hf hg ⊢
          omega
        simp only []
        split
        · exact ih _ _ (hdrop 1 (by omega)).1 (hdrop 1 (by omega)).2
        · split
          · exact ih _ _ (hdrop 1 (by omega)).1 (hdrop 1 (by omega)).2
          · split
            · exact ih _ _ (hdrop _ (by omega)).1 (hdrop _ (by omega)).2
            · split
              · split
                · rename_i n m d hs
                  have := slashRes_skip_pos r n m d hs
                  exact ih _ _ (hdrop n this).1 (hdrop n this).2
                · rfl
                · rfl
              · rfl

/-- one `Lex()` call, fuel-free. -/
def scan (rest : Bytes) : Tok × Bytes := nextTok (rest.length + 1) rest

/-- the tokens of the remaining input, up to and including the first end-of-input token. -/
def toksOf : Nat → Bytes → List Tok
  | 0, _ => [.eof]
  | f + 1, rest => if (scan rest).1 = .eof then [.eof] else (scan rest).1 :: toksOf f (scan rest).2

theorem lexLoop_toksOf : ∀ (f : Nat) (st : LxSt), (lexLoop f st).map (·.tok) = toksOf f st.rest := by
  intro f
  induction f with
  | zero => intro st; simp [lexLoop, toksOf, mkTok]
  | succ f ih =>
    intro st
    have h := lexOne_nextTok (st.rest.length + 1) st none 0 false
    have e1 : (lexCall st).1.tok = (scan st.rest).1 := h.1
    have e2 : (lexCall st).2.rest = (scan st.rest).2 := h.2
    simp only [lexLoop, toksOf]
    by_cases hc : (lexCall st).1.tok = Tok.eof
    · rw [if_pos hc, if_pos (e1 ▸ hc)]; simp [hc]
    · rw [if_neg hc, if_neg (e1 ▸ hc)]
      simp only [List.map_cons, ih, e1, e2]

theorem lexAll_toks (s : Bytes) : (lexAll s).map (·.tok) = toksOf (s.length + 1) s :=
  lexLoop_toksOf _ _

/-! ### `scan`, one equation per kind of first byte -/

theorem scan_nil : scan [] = (.eof, []) := rfl

theorem scan_drop (c : UInt8) (r : Bytes) (n : Nat) (hn : 1 ≤ n) :
    nextTok (r.length + 1) ((c :: r).drop n) = scan ((c :: r).drop n) := by
  unfold scan
  apply nextTok_fuel
  · simp only [List.length_drop, List.length_cons]; omega
  · omega

theorem scan_blank (c : UInt8) (r : Bytes) (h : isBlank c = true) : scan (c :: r) = scan r := by
  unfold scan
  simp only [List.length_cons]
  rw [nextTok]
  simp only [isBlank, Bool.or_eq_true, beq_iff_eq] at h
  by_cases hw : isWs c = true
  · simp only [hw, if_true, List.drop_succ_cons, List.drop_zero]
  · have h10 : c = 10 := by rcases h with h | h; exact absurd h hw; exact h
    subst h10
    simp [List.drop_succ_cons]

theorem scan_hash (r : Bytes) : scan (35 :: r) = scan (r.drop (lineLen r)) := by
  have hd := scan_drop 35 r (1 + lineLen r) (by omega)
  unfold scan at hd ⊢
  simp only [List.length_cons]
  rw [nextTok]
  have h1 : isWs 35 = false := by decide
  simp only [h1, Bool.false_eq_true, if_false, show (35 : UInt8) ≠ 10 by decide, if_true]
  rw [hd]
  simp [Nat.add_comm 1, List.drop_succ_cons]

theorem scan_slashslash (r2 : Bytes) : scan (47 :: 47 :: r2) = scan (r2.drop (lineLen r2)) := by
  have hd := scan_drop 47 (47 :: r2) (2 + lineLen r2) (by omega)
  unfold scan at hd ⊢
  simp only [List.length_cons]
  rw [nextTok]
  have h1 : isWs 47 = false := by decide
  simp only [h1, Bool.false_eq_true, if_false, show (47 : UInt8) ≠ 10 by decide,
    show (47 : UInt8) ≠ 35 by decide, if_true, slashRes]
  simp only [List.length_cons] at hd
  rw [hd]
  simp [show 2 + lineLen r2 = lineLen r2 + 1 + 1 by omega, List.drop_succ_cons]

/-- bytes that start neither a blank nor a comment. -/
def tokenStart (c : UInt8) : Bool := !(isWs c || c == 10 || c == 35 || c == 47)

theorem scan_tok (c : UInt8) (r : Bytes) (t : Tok) (n m : Nat) (hc : tokenStart c = true)
    (ht : tokenRes c r = .tok t n m) : scan (c :: r) = (t, (c :: r).drop n) := by
  unfold scan
  simp only [List.length_cons]
  rw [nextTok]
  simp only [tokenStart, Bool.not_eq_true', Bool.or_eq_false_iff, beq_eq_false_iff_ne] at hc
  obtain ⟨⟨⟨h1, h2⟩, h3⟩, h4⟩ := hc
  simp only [h1, Bool.false_eq_true, if_false, h2, h3, h4, ht]

theorem lineLen_text (text R : Bytes) (h : countNL text = 0) :
    lineLen (text ++ 10 :: R) = text.length := by
  induction text with
  | nil => simp [lineLen]
  | cons b bs ih =>
    have hb : b ≠ 10 := by intro e; simp [countNL, e] at h
    have hbs : countNL bs = 0 := by simp [countNL, hb] at h; exact h
    simp [lineLen, hb, ih hbs]; omega

/-- a `#` comment up to and including its newline is skipped. -/
theorem scan_hash_comment (text R : Bytes) (h : countNL text = 0) :
    scan (35 :: (text ++ 10 :: R)) = scan R := by
  rw [scan_hash, lineLen_text text R h, List.drop_left, scan_blank 10 R (by decide)]

theorem scan_slash_comment (text R : Bytes) (h : countNL text = 0) :
    scan (47 :: 47 :: (text ++ 10 :: R)) = scan R := by
  rw [scan_slashslash, lineLen_text text R h, List.drop_left, scan_blank 10 R (by decide)]

/-! ### block comments -/

/-- no `*/` inside (with the byte `a` held). -/
def noCloseGo (a : UInt8) : Bytes → Bool
  | [] => true
  | b :: r => !(a == 42 && b == 47) && noCloseGo b r

def noClose : Bytes → Bool
  | [] => true
  | a :: r => noCloseGo a r

theorem findClose_cons2 (c d : UInt8) (r : Bytes) :
    findClose (c :: d :: r) = if c = 42 ∧ d = 47 then some 2 else (findClose (d :: r)).map (· + 1) := by
  simp [findClose]

theorem findClose_body : ∀ (body R : Bytes), noClose body = true →
    findClose (body ++ 42 :: 47 :: R) = some (body.length + 2) := by
  intro body
  induction body with
  | nil => intro R _; simp [findClose_cons2]
  | cons a body' ih =>
    intro R h
    cases body' with
    | nil =>
      simp only [List.cons_append, List.nil_append, findClose_cons2]
      simp
    | cons b r =>
      simp only [noClose, noCloseGo, Bool.and_eq_true, Bool.not_eq_true', Bool.and_eq_false_iff,
        beq_eq_false_iff_ne] at h
      have hn : ¬ (a = 42 ∧ b = 47) := by
        rintro ⟨h1, h2⟩; rcases h.1 with h3 | h3 <;> contradiction
      have := ih R (by simpa [noClose] using h.2)
      simp only [List.cons_append] at this ⊢
      rw [findClose_cons2, if_neg hn, this]
      simp

/-- a `/* … */` comment (a docstring included) with a non-empty body that does not contain `*/`
is one skipped item. -/
theorem scan_block_comment (body R : Bytes) (hne : body ≠ []) (hnc : noClose body = true) :
    scan (47 :: 42 :: (body ++ 42 :: 47 :: R)) = scan R := by
  have hfc := findClose_body body R hnc
  have hs : ∃ d, slashRes (42 :: (body ++ 42 :: 47 :: R)) = .skip (body.length + 4) (body.length + 4) d := by
    have h4247 : (42 : UInt8) ≠ 47 := by decide
    -- the body does not start with `*/`, so this is not the `/**/` shape
    have hnot : ∀ r4, body ++ 42 :: 47 :: R ≠ 42 :: 47 :: r4 := by
      intro r4 he
      cases body with
      | nil => exact absurd rfl hne
      | cons a body' =>
        cases body' with
        | nil =>
          simp only [List.cons_append, List.nil_append] at he
          injection he with _ h2; injection h2 with h3 _; exact absurd h3 h4247
        | cons b r =>
          simp only [List.cons_append] at he
          injection he with h1 h2; injection h2 with h2 _
          simp only [noClose, noCloseGo, Bool.and_eq_true, Bool.not_eq_true', Bool.and_eq_false_iff,
            beq_eq_false_iff_ne] at hnc
          rcases hnc.1 with h3 | h3 <;> contradiction
    simp only [slashRes, h4247, if_false, if_true, hfc]
    exact ⟨_, by rw [show 2 + (body.length + 2) = body.length + 4 by omega]⟩
  obtain ⟨d, hs⟩ := hs
  have hd := scan_drop 47 (42 :: (body ++ 42 :: 47 :: R)) (body.length + 4) (by omega)
  unfold scan at hd ⊢
  simp only [List.length_cons]
  rw [nextTok]
  have h1 : isWs 47 = false := by decide
  simp only [h1, Bool.false_eq_true, if_false, show (47 : UInt8) ≠ 10 by decide,
    show (47 : UInt8) ≠ 35 by decide, if_true, hs]
  simp only [List.length_cons] at hd
  rw [hd]
  have : (47 :: 42 :: (body ++ 42 :: 47 :: R)).drop (body.length + 4) = R := by
    rw [show (47 :: 42 :: (body ++ 42 :: 47 :: R) : Bytes) = (47 :: 42 :: body ++ [42, 47]) ++ R by simp,
      show body.length + 4 = (47 :: 42 :: body ++ [42, 47]).length by simp, List.drop_left]
  rw [this]

/-! ### the layout grammar -/

/-- one item of layout. -/
inductive SepItem where
  | blank (b : UInt8)          -- space, tab, CR, or newline
  | hash (text : Bytes)        -- `#text⏎`
  | slashes (text : Bytes)     -- `//text⏎`
  | block (body : Bytes)       -- `/*body*/` (a docstring when the body starts with `*`)

def SepItem.ok : SepItem → Bool
  | .blank b => isBlank b
  | .hash t => countNL t == 0
  | .slashes t => countNL t == 0
  | .block b => !b.isEmpty && noClose b

def SepItem.text : SepItem → Bytes
  | .blank b => [b]
  | .hash t => 35 :: (t ++ [10])
  | .slashes t => 47 :: 47 :: (t ++ [10])
  | .block b => 47 :: 42 :: (b ++ [42, 47])

def sepText : List SepItem → Bytes
  | [] => []
  | i :: is => i.text ++ sepText is

def sepOk : List SepItem → Bool
  | [] => true
  | i :: is => i.ok && sepOk is

/-- any layout is skipped. -/
theorem scan_sep : ∀ (sep : List SepItem) (X : Bytes), sepOk sep = true →
    scan (sepText sep ++ X) = scan X := by
  intro sep
  induction sep with
  | nil => intro X _; rfl
  | cons i is ih =>
    intro X h
    simp only [sepOk, Bool.and_eq_true] at h
    simp only [sepText, List.append_assoc]
    cases i with
    | blank b =>
      simp only [SepItem.text, List.cons_append, List.nil_append]
      rw [scan_blank b _ h.1, ih X h.2]
    | hash t =>
      have ht : countNL t = 0 := by simpa [SepItem.ok] using h.1
      simp only [SepItem.text, List.cons_append, List.append_assoc, List.nil_append]
      rw [scan_hash_comment t _ ht, ih X h.2]
    | slashes t =>
      have ht : countNL t = 0 := by simpa [SepItem.ok] using h.1
      simp only [SepItem.text, List.cons_append, List.append_assoc, List.nil_append]
      rw [scan_slash_comment t _ ht, ih X h.2]
    | block b =>
      have hb : b ≠ [] ∧ noClose b = true := by
        have := h.1
        simp only [SepItem.ok, Bool.and_eq_true, Bool.not_eq_true', List.isEmpty_eq_false_iff] at this
        exact this
      simp only [SepItem.text, List.cons_append, List.append_assoc, List.nil_append]
      rw [scan_block_comment b _ hb.1 hb.2, ih X h.2]

/-! ### printed tokens -/

/-- the next byte cannot continue an identifier, a keyword or a number. -/
def wordStop (R : Bytes) : Bool :=
  match R with
  | [] => true
  | c :: _ => !(isAlnum_ c || c == 46)

theorem identTail_alnum (c : UInt8) (rest : Bytes) (h : isAlnum_ c = true) :
    identTail (c :: rest) = 1 + identTail rest := by
  cases rest <;> simp [identTail, h]

theorem identTail_dot (d : UInt8) (rest : Bytes) (h : isAlnum_ d = true) :
    identTail (46 :: d :: rest) = 2 + identTail rest := by
  have : isAlnum_ 46 = false := by decide
  simp [identTail, this, h]

theorem identTail_dot_stop (d : UInt8) (rest : Bytes) (h : ¬ isAlnum_ d = true) :
    identTail (46 :: d :: rest) = 0 := by
  have : isAlnum_ 46 = false := by decide
  simp [identTail, this, h]

theorem identTail_other (c : UInt8) (rest : Bytes) (h : ¬ isAlnum_ c = true) (h46 : c ≠ 46) :
    identTail (c :: rest) = 0 := by
  cases rest <;> simp [identTail, h, h46]

theorem identTail_append : ∀ (a R : Bytes), identTail a = a.length → wordStop R = true →
    identTail (a ++ R) = a.length := by
  intro a
  induction a using identTail.induct with
  | case1 =>
    intro R _ hR
    cases R with
    | nil => rfl
    | cons c r =>
      simp only [wordStop, Bool.not_eq_true', Bool.or_eq_false_iff, beq_eq_false_iff_ne] at hR
      exact identTail_other c r (by simp [hR.1]) hR.2
  | case2 c rest hc ih =>
    intro R ha hR
    rw [identTail_alnum c rest hc, List.length_cons] at ha
    rw [List.cons_append, identTail_alnum c _ hc, ih R (by omega) hR, List.length_cons]; omega
  | case3 d rest' hd _ ih =>
    intro R ha hR
    rw [identTail_dot d rest' hd] at ha
    simp only [List.length_cons] at ha
    rw [List.cons_append, List.cons_append, identTail_dot d _ hd, ih R (by omega) hR]
    simp only [List.length_cons]; omega
  | case4 d rest' hd _ =>
    intro R ha _
    rw [identTail_dot_stop d rest' hd] at ha; simp at ha
  | case5 _ =>
    intro R ha _
    have : identTail [46] = 0 := by decide
    rw [this] at ha; simp at ha
  | case6 c rest hc h46 =>
    intro R ha _
    rw [identTail_other c rest hc h46] at ha; simp at ha

/-- a token as a printer writes it. (Not covered: doubles, hex integers, '…' literals.) -/
inductive PTok where
  | sym (c : UInt8)
  | ident (w : Bytes)
  | kw (k : Kw)
  | int (i : Int)
  | lit (s : Bytes)

def PTok.text : PTok → Bytes
  | .sym c => [c]
  | .ident w => w
  | .kw k => k.text
  | .int i => showInt i
  | .lit s => quoteDouble s

def PTok.tok : PTok → Tok
  | .sym c => .sym c
  | .ident w => .ident w
  | .kw k => .kw k
  | .int i => .int i
  | .lit s => .lit s

/-- an identifier is what the identifier pattern matches entirely and is neither a keyword nor a
reserved word; an integer is an int64. -/
def PTok.ok : PTok → Bool
  | .sym c => isSymbol c
  | .ident w =>
    match w with
    | c :: tail => isAlpha_ c && identTail tail == tail.length && (keywordOf w).isNone && !isReserved w
    | [] => false
  | .kw _ => true
  | .int i => decide (-(2 ^ 63 : Int) ≤ i) && decide (i < 2 ^ 63)
  | .lit _ => true

def PTok.wordy : PTok → Bool
  | .sym _ => false
  | .lit _ => false
  | _ => true

/-- what is left after the token: a keyword takes the blanks that follow it. -/
def PTok.after : PTok → Bytes → Bytes
  | .kw _, R => R.drop (blankLen R)
  | _, R => R

set_option maxRecDepth 100000 in
theorem alpha_dispatch : ∀ c : UInt8, isAlpha_ c = true →
    tokenStart c = true ∧ isSymbol c = false ∧ c ≠ 34 ∧ c ≠ 39 ∧ c ≠ 43 ∧ c ≠ 45 ∧ isDigit c = false := by
  apply forall_uint8; decide

set_option maxRecDepth 100000 in
theorem digit_dispatch : ∀ c : UInt8, isDigit c = true →
    tokenStart c = true ∧ isSymbol c = false ∧ c ≠ 34 ∧ c ≠ 39 ∧ c ≠ 43 ∧ c ≠ 45 := by
  apply forall_uint8; decide

set_option maxRecDepth 100000 in
theorem symbol_dispatch : ∀ c : UInt8, isSymbol c = true → tokenStart c = true := by
  apply forall_uint8; decide

theorem tokenRes_alpha (c : UInt8) (r : Bytes) (h : isAlpha_ c = true) : tokenRes c r = wordRes c r := by
  obtain ⟨_, h1, h2, h3, h4, h5, h6⟩ := alpha_dispatch c h
  simp [tokenRes, h1, h2, h3, h4, h5, h6, h]

theorem wordRes_ident (c : UInt8) (tail R : Bytes) (ht : identTail tail = tail.length)
    (hk : keywordOf (c :: tail) = none) (hr : isReserved (c :: tail) = false) (hR : wordStop R = true) :
    wordRes c (tail ++ R) = .tok (.ident (c :: tail)) (1 + tail.length) (1 + tail.length) := by
  have hi := identTail_append tail R ht hR
  have htake : (c :: (tail ++ R)).take (1 + tail.length) = c :: tail := by
    rw [Nat.add_comm, List.take_succ_cons, List.take_left]
  simp [wordRes, hi, htake, hk, hr]

theorem wordRes_kw (k : Kw) (c : UInt8) (tail R : Bytes) (ht : identTail tail = tail.length)
    (hk : keywordOf (c :: tail) = some k) (hR : wordStop R = true) :
    wordRes c (tail ++ R) = .tok (.kw k) (1 + tail.length + blankLen R) (1 + tail.length + blankLen R) := by
  have hi := identTail_append tail R ht hR
  have htake : (c :: (tail ++ R)).take (1 + tail.length) = c :: tail := by
    rw [Nat.add_comm, List.take_succ_cons, List.take_left]
  simp [wordRes, hi, htake, hk]

theorem kw_text_facts (k : Kw) : ∃ c tail, k.text = c :: tail ∧ isAlpha_ c = true ∧
    identTail tail = tail.length ∧ keywordOf (c :: tail) = some k := by
  cases k <;> exact ⟨_, _, rfl, by decide, by decide, by decide⟩

set_option maxRecDepth 100000 in
theorem wordStop_numberStop_byte : ∀ c : UInt8, isAlnum_ c = false → c ≠ 46 →
    (!(isDigit c || c == 46 || c == 101 || c == 69 || c == 120)) = true := by
  apply forall_uint8; decide

theorem wordStop_numberStop (R : Bytes) (h : wordStop R = true) : numberStop R = true := by
  cases R with
  | nil => rfl
  | cons c r =>
    simp only [wordStop, Bool.not_eq_true', Bool.or_eq_false_iff, beq_eq_false_iff_ne] at h
    exact wordStop_numberStop_byte c h.1 h.2

theorem numberRes_neg (n : Nat) (R : Bytes) (hn : n ≤ 2 ^ 63) (hR : numberStop R = true) :
    numberRes (45 :: (showNat n ++ R)) 1 =
      .tok (.int (-(n : Int))) (1 + (showNat n).length) (1 + (showNat n).length) := by
  obtain ⟨_, hd, hp⟩ := showNat_spec n
  have hlen := digitsLen_append (showNat n) R hd hR
  have htake : (45 :: (showNat n ++ R)).take (1 + (showNat n).length) = 45 :: showNat n := by
    rw [Nat.add_comm, List.take_succ_cons, List.take_left]
  simp only [numberRes, List.drop_succ_cons, List.drop_zero, hlen, hexPartLen, Nat.succ_ne_zero,
    if_false, Nat.lt_irrefl, List.drop_left, fracLenOf_stop R hR, expLenOf_stop R hR, Nat.add_zero,
    if_true, htake, lexInt_neg, hp, hn]

/-- every printed token scans back as itself, followed by what the printer wrote after it. -/
theorem scan_ptok (t : PTok) (R : Bytes) (hok : t.ok = true) (hstop : t.wordy = true → wordStop R = true) :
    scan (t.text ++ R) = (t.tok, t.after R) := by
  cases t with
  | sym c =>
    simp only [PTok.ok] at hok
    have ht : tokenRes c R = .tok (.sym c) 1 1 := by simp [tokenRes, hok]
    simpa [PTok.text, PTok.tok, PTok.after] using scan_tok c R _ 1 1 (symbol_dispatch c hok) ht
  | ident w =>
    cases w with
    | nil => simp [PTok.ok] at hok
    | cons c tail =>
      simp only [PTok.ok, Bool.and_eq_true, beq_iff_eq, Option.isNone_iff_eq_none, Bool.not_eq_true'] at hok
      obtain ⟨⟨⟨ha, ht⟩, hk⟩, hr⟩ := hok
      have hres := wordRes_ident c tail R ht hk hr (hstop rfl)
      rw [← tokenRes_alpha c _ ha] at hres
      have := scan_tok c (tail ++ R) _ _ _ (alpha_dispatch c ha).1 hres
      simp only [PTok.text, PTok.tok, PTok.after, List.cons_append]
      rw [this, Nat.add_comm, List.drop_succ_cons, List.drop_left]
  | kw k =>
    obtain ⟨c, tail, htext, ha, ht, hk⟩ := kw_text_facts k
    have hres := wordRes_kw k c tail R ht hk (hstop rfl)
    rw [← tokenRes_alpha c _ ha] at hres
    have := scan_tok c (tail ++ R) _ _ _ (alpha_dispatch c ha).1 hres
    simp only [PTok.text, PTok.tok, PTok.after, htext, List.cons_append]
    rw [this, show 1 + tail.length + blankLen R = (tail.length + blankLen R) + 1 by omega,
      List.drop_succ_cons, ← List.drop_drop, List.drop_left]
  | int i =>
    simp only [PTok.ok, Bool.and_eq_true, decide_eq_true_eq] at hok
    have hns := wordStop_numberStop R (hstop rfl)
    cases i with
    | ofNat n =>
      have hn : n < 2 ^ 63 := by
        have h : (n : Int) < 2 ^ 63 := hok.2
        omega
      obtain ⟨hne, hd, _⟩ := showNat_spec n
      have hnum := numberRes_showNat n R hn hns
      cases hs : showNat n with
      | nil => exact absurd hs hne
      | cons d0 ds =>
        have hd0 : isDigit d0 = true := hd d0 (by simp [hs])
        obtain ⟨h0, h1, h2, h3, h4, h5⟩ := digit_dispatch d0 hd0
        rw [hs] at hnum
        have hres : tokenRes d0 (ds ++ R) = .tok (.int (n : Int)) (d0 :: ds).length (d0 :: ds).length := by
          simp only [tokenRes, h1, Bool.false_eq_true, if_false, h2, h3, h4, h5, decide_false,
            Bool.or_self, hd0, if_true]
          exact hnum
        have := scan_tok d0 (ds ++ R) _ _ _ h0 hres
        simp only [PTok.text, PTok.tok, PTok.after, showInt, hs, List.cons_append]
        rw [this, show ((d0 :: ds).length) = ds.length + 1 by simp, List.drop_succ_cons, List.drop_left]
        rfl
    | negSucc m =>
      have hm : m + 1 ≤ 2 ^ 63 := by
        have h := hok.1
        rw [Int.negSucc_eq] at h
        omega
      obtain ⟨hne, hd, _⟩ := showNat_spec (m + 1)
      have hnum := numberRes_neg (m + 1) R hm hns
      cases hs : showNat (m + 1) with
      | nil => exact absurd hs hne
      | cons d0 ds =>
        have hd0 : isDigit d0 = true := hd d0 (by simp [hs])
        rw [hs] at hnum
        have hres : tokenRes 45 ((d0 :: ds) ++ R) =
            .tok (.int (-((m + 1 : Nat) : Int))) (1 + (d0 :: ds).length) (1 + (d0 :: ds).length) := by
          have e1 : isSymbol 45 = false := by decide
          simp only [tokenRes, e1, Bool.false_eq_true, if_false, show (45 : UInt8) ≠ 34 by decide,
            show (45 : UInt8) ≠ 39 by decide, decide_false, Bool.or_self, decide_true, Bool.or_true,
            if_true, signRes, List.cons_append, hd0]
          exact hnum
        have := scan_tok 45 ((d0 :: ds) ++ R) _ _ _ (by decide) hres
        simp only [PTok.text, PTok.tok, PTok.after, showInt, hs]
        rw [List.cons_append, this, Nat.add_comm 1, List.drop_succ_cons, List.drop_left]
        rw [Int.negSucc_eq]
        congr 2
  | lit s =>
    have hres := tokenRes_quoteDouble s R
    have := scan_tok 34 (quoteBody 34 false s ++ 34 :: R) _ _ _ (by decide) hres
    simp only [PTok.text, PTok.tok, PTok.after, quoteDouble, List.cons_append, List.append_assoc,
      List.nil_append]
    rw [this, show (quoteBody 34 false s).length + 2 = ((quoteBody 34 false s).length + 1) + 1 by omega,
      List.drop_succ_cons,
      show quoteBody 34 false s ++ 34 :: R = (quoteBody 34 false s ++ [34]) ++ R by simp,
      show (quoteBody 34 false s).length + 1 = (quoteBody 34 false s ++ [34]).length by simp,
      List.drop_left]

/-! ### the sequence -/

theorem scan_skipBlanks : ∀ Y : Bytes, scan (Y.drop (blankLen Y)) = scan Y := by
  intro Y
  induction Y with
  | nil => rfl
  | cons c r ih =>
    by_cases h : isBlank c = true
    · simp only [blankLen, h, if_true, Nat.add_comm 1, List.drop_succ_cons]
      rw [ih, scan_blank c r h]
    · simp [blankLen, h]

theorem toksOf_skipBlanks (f : Nat) (Y : Bytes) : toksOf f (Y.drop (blankLen Y)) = toksOf f Y := by
  cases f with
  | zero => rfl
  | succ f => simp only [toksOf, scan_skipBlanks]

theorem toksOf_after (f : Nat) (t : PTok) (R : Bytes) : toksOf f (t.after R) = toksOf f R := by
  cases t <;> first | rfl | exact toksOf_skipBlanks f R

theorem PTok.tok_ne_eof (t : PTok) : t.tok ≠ .eof := by cases t <;> simp [PTok.tok]

/-- tokens with the layout before each of them, and the layout at the end. -/
def render : List (List SepItem × PTok) → List SepItem → Bytes
  | [], fin => sepText fin
  | (sep, t) :: rest, fin => sepText sep ++ (t.text ++ render rest fin)

/-- every layout is from the layout grammar, every token is printable, and a word-like token
(identifier, keyword, integer) is followed by a byte that cannot continue it — which any
non-empty layout guarantees. -/
def layoutOk : List (List SepItem × PTok) → List SepItem → Bool
  | [], fin => sepOk fin
  | (sep, t) :: rest, fin =>
    sepOk sep && t.ok && (!t.wordy || wordStop (render rest fin)) && layoutOk rest fin

theorem toksOf_render : ∀ (items : List (List SepItem × PTok)) (fin : List SepItem) (f : Nat),
    layoutOk items fin = true → items.length < f →
    toksOf f (render items fin) = items.map (fun x => x.2.tok) ++ [.eof] := by
  intro items
  induction items with
  | nil =>
    intro fin f h hf
    cases f with
    | zero => omega
    | succ f =>
      have : scan (sepText fin) = (.eof, []) := by
        have := scan_sep fin [] h
        rw [List.append_nil] at this
        rw [this]; rfl
      simp [toksOf, render, this]
  | cons x rest ih =>
    intro fin f h hf
    obtain ⟨sep, t⟩ := x
    simp only [layoutOk, Bool.and_eq_true, Bool.or_eq_true, Bool.not_eq_true'] at h
    obtain ⟨⟨⟨hsep, hok⟩, hstop⟩, hrest⟩ := h
    cases f with
    | zero => omega
    | succ f =>
      have hs : scan (render ((sep, t) :: rest) fin) = (t.tok, t.after (render rest fin)) := by
        simp only [render]
        rw [scan_sep sep _ hsep]
        apply scan_ptok t _ hok
        intro hw
        rcases hstop with h1 | h1
        · rw [hw] at h1; cases h1
        · exact h1
      simp only [toksOf, hs, t.tok_ne_eof, if_false, List.map_cons, List.cons_append]
      rw [toksOf_after, ih fin f hrest (by simp at hf; omega)]

theorem render_length_ge : ∀ (items : List (List SepItem × PTok)) (fin : List SepItem),
    (∀ x ∈ items, x.2.ok = true) → items.length ≤ (render items fin).length := by
  intro items
  induction items with
  | nil => intro fin _; simp
  | cons x rest ih =>
    intro fin h
    obtain ⟨sep, t⟩ := x
    have ht : 1 ≤ t.text.length := by
      have hok : t.ok = true := h (sep, t) (by simp)
      cases t with
      | sym c => simp [PTok.text]
      | ident w => cases w <;> simp_all [PTok.text, PTok.ok]
      | kw k => obtain ⟨c, tail, e, _⟩ := kw_text_facts k; simp [PTok.text, e]
      | int i =>
        cases i with
        | ofNat n =>
          have := (showNat_spec n).1
          simp only [PTok.text, showInt]
          cases hs : showNat n <;> simp_all
        | negSucc m => simp [PTok.text, showInt]
      | lit s => simp [PTok.text, quoteDouble]
    have := ih fin (fun y hy => h y (by simp [hy]))
    simp only [render, List.length_cons, List.length_append]
    omega

theorem layoutOk_toks : ∀ (items : List (List SepItem × PTok)) (fin : List SepItem),
    layoutOk items fin = true → ∀ x ∈ items, x.2.ok = true := by
  intro items
  induction items with
  | nil => intro fin _ x hx; cases hx
  | cons y rest ih =>
    intro fin h x hx
    obtain ⟨sep, t⟩ := y
    simp only [layoutOk, Bool.and_eq_true] at h
    rcases List.mem_cons.1 hx with hx | hx
    · subst hx; exact h.1.1.2
    · exact ih fin h.2 x hx

/-- Token-sequence round trip: scanning what the printer wrote yields the printed tokens, in
order, and then end of input. -/
theorem lexAll_render (items : List (List SepItem × PTok)) (fin : List SepItem)
    (h : layoutOk items fin = true) :
    (lexAll (render items fin)).map (·.tok) = items.map (fun x => x.2.tok) ++ [.eof] := by
  rw [lexAll_toks]
  apply toksOf_render items fin _ h
  have := render_length_ge items fin (layoutOk_toks items fin h)
  omega

end ThriftVerif.Idl
