/-
Proofs about single tokens (C11 f, the part that is done): the scanner reads back a printed
literal and a printed integer as exactly that token, whatever follows (a literal ends at its
closing quote; an integer ends before any byte that cannot continue a number).
-/
import ThriftVerif.Idl.LexerProofs
import ThriftVerif.Idl.QuoteProofs
import ThriftVerif.Idl.NumberProofs

namespace ThriftVerif.Idl

/-- a printed piece as the literal pattern `([^q\n\\] | '\\' any)*` sees it. -/
def litPieceOk (q : UInt8) (p : Bytes) : Bool :=
  match p with
  | [c] => c != q && c != 10 && c != 92
  | [a, _] => a == 92
  | [a, _, h1, h2] => a == 92 && h1 != q && h1 != 10 && h1 != 92 && h2 != q && h2 != 10 && h2 != 92
  | _ => false

theorem LitScan.add_add (r : LitScan) (a b : Nat) : (r.add a).add b = r.add (a + b) := by
  cases r <;> simp [LitScan.add]; omega

theorem litScan_piece (q : UInt8) (hq : q ≠ 92) (p R : Bytes) (h : litPieceOk q p = true) :
    litScan q (p ++ R) = (litScan q R).add p.length := by
  unfold litPieceOk at h
  split at h
  · simp only [Bool.and_eq_true, bne_iff_ne, ne_eq] at h
    obtain ⟨⟨h1, h2⟩, h3⟩ := h
    exact litScan_plain q _ R h1 h2 h3
  · simp only [beq_iff_eq] at h
    subst h
    exact litScan_esc q _ R hq
  · simp only [Bool.and_eq_true, bne_iff_ne, ne_eq, beq_iff_eq] at h
    obtain ⟨⟨⟨⟨⟨⟨rfl, a1⟩, a2⟩, a3⟩, b1⟩, b2⟩, b3⟩ := h
    simp only [List.cons_append, List.nil_append, List.length_cons, List.length_nil]
    rw [litScan_esc q _ _ hq, litScan_plain q _ _ a1 a2 a3, litScan_plain q _ _ b1 b2 b3,
      LitScan.add_add, LitScan.add_add]
  · cases h

set_option maxRecDepth 100000 in
theorem quoteByte_litPiece : ∀ c : UInt8, litPieceOk 34 (quoteByte 34 false c) = true := by
  apply forall_uint8; decide

theorem litScan_quoteBody (s R : Bytes) :
    litScan 34 (quoteBody 34 false s ++ 34 :: R) = .closed ((quoteBody 34 false s).length + 1) := by
  induction s with
  | nil => exact litScan_close 34 R
  | cons c cs ih =>
    simp only [quoteBody, List.append_assoc]
    rw [litScan_piece 34 (by decide) _ _ (quoteByte_litPiece c), ih]
    simp [LitScan.add]; omega

/-- The scanner reads back every literal the natural `"`-printer writes and stops at the closing
quote whatever follows. -/
theorem tokenRes_quoteDouble (s R : Bytes) :
    tokenRes 34 (quoteBody 34 false s ++ 34 :: R) =
      .tok (.lit s) ((quoteBody 34 false s).length + 2) 0 := by
  have hsym : isSymbol 34 = false := by decide
  have htake : (34 :: (quoteBody 34 false s ++ 34 :: R).take ((quoteBody 34 false s).length + 1) : Bytes)
      = quoteDouble s := by
    simp only [quoteDouble, List.cons.injEq, true_and]
    rw [show (quoteBody 34 false s).length + 1 = (quoteBody 34 false s ++ [34]).length by simp,
      show quoteBody 34 false s ++ 34 :: R = (quoteBody 34 false s ++ [34]) ++ R by simp, List.take_left]
  simp only [tokenRes, literalRes, hsym, litScan_quoteBody, htake, unquoteDouble_quoteDouble s]
  simp

/-- bytes that cannot continue a number started by decimal digits. -/
def numberStop (R : Bytes) : Bool :=
  match R with
  | [] => true
  | c :: _ => !(isDigit c || c == 46 || c == 101 || c == 69 || c == 120)

theorem digitsLen_append (ds R : Bytes) (hd : allDigits ds) (hR : numberStop R = true) :
    digitsLen (ds ++ R) = ds.length := by
  induction ds with
  | nil =>
    cases R with
    | nil => rfl
    | cons c r =>
      simp only [numberStop, Bool.not_eq_true', Bool.or_eq_false_iff] at hR
      simp [digitsLen, hR.1.1.1.1]
  | cons d ds ih =>
    have h1 : isDigit d = true := hd d (by simp)
    have h2 : allDigits ds := fun x hx => hd x (by simp [hx])
    simp [digitsLen, h1, ih h2]; omega

theorem hexPartLen_showNat (n : Nat) (R : Bytes) (hR : numberStop R = true) :
    hexPartLen 0 (showNat n ++ R) = 0 := by
  obtain ⟨hne, hd, _⟩ := showNat_spec n
  unfold hexPartLen
  simp only [if_true]
  cases hs : showNat n with
  | nil => exact absurd hs hne
  | cons d0 ds =>
    cases ds with
    | nil =>
      cases R with
      | nil => simp
      | cons c r =>
        simp only [numberStop, Bool.not_eq_true', Bool.or_eq_false_iff, beq_eq_false_iff_ne] at hR
        have : c ≠ 120 := hR.2
        simp only [List.cons_append, List.nil_append]
        split
        · rename_i heq; injection heq with _ h2; injection h2 with h3 _; exact absurd h3 this
        · rfl
    | cons d1 ds' =>
      have : isDigit d1 = true := hd d1 (by simp [hs])
      simp only [List.cons_append]
      split
      · rename_i heq; injection heq with _ h2; injection h2 with h3 _
        rw [h3] at this; exact absurd this (by decide)
      · rfl

theorem fracLenOf_stop (R : Bytes) (hR : numberStop R = true) : fracLenOf R = 0 := by
  unfold fracLenOf
  cases R with
  | nil => rfl
  | cons c r =>
    simp only [numberStop, Bool.not_eq_true', Bool.or_eq_false_iff, beq_eq_false_iff_ne] at hR
    have : c ≠ 46 := hR.1.1.1.2
    split
    · rename_i heq; injection heq with h3 _; exact absurd h3 this
    · rfl

theorem expLenOf_stop (R : Bytes) (hR : numberStop R = true) : expLenOf R = 0 := by
  unfold expLenOf
  cases R with
  | nil => rfl
  | cons c r =>
    simp only [numberStop, Bool.not_eq_true', Bool.or_eq_false_iff, beq_eq_false_iff_ne] at hR
    have h1 : c ≠ 101 := hR.1.1.2
    have h2 : c ≠ 69 := hR.1.2
    simp [h1, h2]

/-- The scanner reads back every non-negative int64 printed in decimal, when followed by a byte
that cannot continue a number. -/
theorem numberRes_showNat (n : Nat) (R : Bytes) (hn : n < 2 ^ 63) (hR : numberStop R = true) :
    numberRes (showNat n ++ R) 0 = .tok (.int n) (showNat n).length (showNat n).length := by
  obtain ⟨_, hd, _⟩ := showNat_spec n
  have hlen := digitsLen_append (showNat n) R hd hR
  simp only [numberRes, List.drop_zero, Nat.zero_add, hlen, hexPartLen_showNat n R hR,
    Nat.lt_irrefl, if_false, List.drop_left, fracLenOf_stop R hR, expLenOf_stop R hR,
    Nat.add_zero, if_true, List.take_left, lexInt_showNat, hn]

end ThriftVerif.Idl
