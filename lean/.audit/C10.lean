import ThriftVerif.Properties.C10
import ThriftVerif.Facts.ExpectSites
#print axioms ThriftVerif.Properties.C10.sorted_iteration_order_irrelevant
#print axioms ThriftVerif.Properties.C10.merge_conflict_order_irrelevant
#print axioms ThriftVerif.Properties.C10.merge_result_order_irrelevant
#print axioms ThriftVerif.Facts.ExpectSites.sites_classified
#print axioms ThriftVerif.Facts.ExpectSites.walk_order_fixed
