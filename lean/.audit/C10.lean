import ThriftVerif.Properties.C10
import ThriftVerif.Facts.ExpectSites
#print axioms ThriftVerif.Properties.C10.sorted_iteration_order_irrelevant
#print axioms ThriftVerif.Properties.C10.merge_conflict_order_irrelevant
#print axioms ThriftVerif.Properties.C10.merge_result_order_irrelevant
#print axioms ThriftVerif.Properties.C10.walk_order_irrelevant
#print axioms ThriftVerif.Properties.C10.root_services_order_irrelevant
#print axioms ThriftVerif.Properties.C10.natKeyOrder
#print axioms ThriftVerif.Properties.C10.old_walk_order_dependent
#print axioms ThriftVerif.Facts.ExpectSites.sites_classified
#print axioms ThriftVerif.Facts.ExpectSites.walk_order_fixed
