import ThriftVerif.Properties.C04
import ThriftVerif.Facts.ExpectWire
import ThriftVerif.Facts.ExpectGen
#print axioms ThriftVerif.Properties.C04.stream_accepts_what_value_path_accepts
#print axioms ThriftVerif.Properties.C04.paths_never_differ
#print axioms ThriftVerif.Properties.C04.real_value_path_accepts_strict
#print axioms ThriftVerif.Properties.C04.real_paths_agree_on_valid_input
#print axioms ThriftVerif.Properties.C04.real_paths_never_differ
#print axioms ThriftVerif.Properties.C04.real_value_path_more_permissive_witness
#print axioms ThriftVerif.Properties.C04.stream_more_permissive_witness
#print axioms ThriftVerif.Properties.C04.encode_is_writevalue_of_towire
#print axioms ThriftVerif.Properties.C04.serialisers_agree
#print axioms ThriftVerif.Facts.ExpectWire.typeCodes_ok
#print axioms ThriftVerif.Facts.ExpectWire.fixedWidth_ok
