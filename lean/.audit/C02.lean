import ThriftVerif.Properties.C02
import ThriftVerif.Facts.ExpectWire
#print axioms ThriftVerif.Properties.C02.writer_emits_spec
#print axioms ThriftVerif.Properties.C02.format_scalars
#print axioms ThriftVerif.Properties.C02.format_big_endian
#print axioms ThriftVerif.Properties.C02.format_binary
#print axioms ThriftVerif.Properties.C02.format_containers
#print axioms ThriftVerif.Properties.C02.format_struct
#print axioms ThriftVerif.Properties.C02.stream_decode_encode
#print axioms ThriftVerif.Properties.C02.lazy_decode_encode
#print axioms ThriftVerif.Properties.C02.encoding_prefix_free
#print axioms ThriftVerif.Properties.C02.encoding_injective
#print axioms ThriftVerif.Properties.C02.encoding_no_proper_prefix
#print axioms ThriftVerif.Facts.ExpectWire.typeCodes_ok
#print axioms ThriftVerif.Facts.ExpectWire.fixedWidth_ok
