import ThriftVerif.Properties.C13
import ThriftVerif.Facts.ExpectWire
#print axioms ThriftVerif.Properties.C13.stream_alloc_bound
#print axioms ThriftVerif.Properties.C13.envelope_alloc_bound
#print axioms ThriftVerif.Properties.C13.frame_alloc_bound
#print axioms ThriftVerif.Properties.C13.frame_alloc_bound_any_threshold
#print axioms ThriftVerif.Properties.C13.steps_linear
#print axioms ThriftVerif.Properties.C13.decoded_value_no_larger_than_input
#print axioms ThriftVerif.Properties.C13.decoded_list_count_le_input
#print axioms ThriftVerif.Properties.C13.lazy_counts_le_input
#print axioms ThriftVerif.Properties.C13.legacy_name_alloc_unbounded_before_fix
#print axioms ThriftVerif.Properties.C13.gen_prealloc_unbounded
#print axioms ThriftVerif.Facts.ExpectWire.fixedWidth_ok
#print axioms ThriftVerif.Facts.ExpectWire.bytesAllocThreshold_ok
#print axioms ThriftVerif.Facts.ExpectWire.fastPathFrameSize_ok
