import ThriftVerif.Properties.C12
import ThriftVerif.Facts.ExpectWire
import ThriftVerif.Facts.ExpectProto
#print axioms ThriftVerif.Properties.C12.envelope_roundtrip_strict
#print axioms ThriftVerif.Properties.C12.envelope_roundtrip_legacy
#print axioms ThriftVerif.Properties.C12.framings_never_confused
#print axioms ThriftVerif.Properties.C12.strict_envelope_injective
#print axioms ThriftVerif.Properties.C12.legacy_envelope_injective
#print axioms ThriftVerif.Properties.C12.legacy_empty_name_rejected
#print axioms ThriftVerif.Properties.C12.request_strict
#print axioms ThriftVerif.Properties.C12.request_legacy
#print axioms ThriftVerif.Properties.C12.request_wrong_type
#print axioms ThriftVerif.Properties.C12.response_echo
#print axioms ThriftVerif.Properties.C12.apis_agree
#print axioms ThriftVerif.Properties.C12.single_read_peek_breaks_agreement
#print axioms ThriftVerif.Properties.C12.multiplexed_method_intact
#print axioms ThriftVerif.Properties.C12.unmultiplexed_iff_no_colon
#print axioms ThriftVerif.Properties.C12.multiplex_cut_at_first_colon
#print axioms ThriftVerif.Facts.ExpectWire.typeCodes_ok
#print axioms ThriftVerif.Facts.ExpectWire.envelopeTypes_ok
#print axioms ThriftVerif.Facts.ExpectWire.version_ok
#print axioms ThriftVerif.Facts.ExpectProto.muxSplit_ok
#print axioms ThriftVerif.Facts.ExpectProto.muxJoin_ok
