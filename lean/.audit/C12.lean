import ThriftVerif.Properties.C12
import ThriftVerif.Facts.ExpectWire
#print axioms ThriftVerif.Properties.C12.envelope_roundtrip_strict
#print axioms ThriftVerif.Properties.C12.envelope_roundtrip_legacy
#print axioms ThriftVerif.Properties.C12.legacy_empty_name_rejected
#print axioms ThriftVerif.Properties.C12.request_strict
#print axioms ThriftVerif.Properties.C12.request_legacy
#print axioms ThriftVerif.Properties.C12.request_wrong_type
#print axioms ThriftVerif.Properties.C12.response_echo
#print axioms ThriftVerif.Properties.C12.apis_agree
#print axioms ThriftVerif.Properties.C12.single_read_peek_breaks_agreement
#print axioms ThriftVerif.Facts.ExpectWire.typeCodes_ok
#print axioms ThriftVerif.Facts.ExpectWire.envelopeTypes_ok
#print axioms ThriftVerif.Facts.ExpectWire.version_ok
