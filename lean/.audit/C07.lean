import ThriftVerif.Properties.C07
import ThriftVerif.Facts.ExpectCompile
#print axioms ThriftVerif.Properties.C07.bare_name_binds_in_same_file
#print axioms ThriftVerif.Properties.C07.qualified_name_binds_in_included_file
#print axioms ThriftVerif.Properties.C07.unknown_names_unbound
#print axioms ThriftVerif.Properties.C07.shared_include_is_one_module
#print axioms ThriftVerif.Properties.C07.constant_and_service_scoping
#print axioms ThriftVerif.Properties.C07.root_is_ultimate_target
#print axioms ThriftVerif.Properties.C07.definition_order_irrelevant
#print axioms ThriftVerif.Properties.C07.link_binds_spec
#print axioms ThriftVerif.Properties.C07.link_refines_spec_partial
#print axioms ThriftVerif.Properties.C07.root_answer_refines_spec
#print axioms ThriftVerif.Properties.C07.link_parents_spec
#print axioms ThriftVerif.Properties.C07.compileWith_prog
#print axioms ThriftVerif.Properties.C07.roots_order_independent_partial
#print axioms ThriftVerif.Properties.C07.root_answers_order_independent
#print axioms ThriftVerif.Properties.C07.link_order_dependent
#print axioms ThriftVerif.Properties.C07.acceptance_order_dependent
#print axioms ThriftVerif.Properties.C07.enum_item_cast
#print axioms ThriftVerif.Facts.ExpectCompile.sites_covered
