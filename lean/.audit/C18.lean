import ThriftVerif.Properties.C18
import ThriftVerif.Facts.ExpectProto
#print axioms ThriftVerif.Properties.C18.exclusive_ownership
#print axioms ThriftVerif.Properties.C18.exclusive_ownership_facts
#print axioms ThriftVerif.Properties.C18.sequential_eq
#print axioms ThriftVerif.Properties.C18.isolation
#print axioms ThriftVerif.Properties.C18.no_reset_breaks_isolation
#print axioms ThriftVerif.Properties.C18.send_paired
#print axioms ThriftVerif.Properties.C18.send_unpaired_without_lock
#print axioms ThriftVerif.Properties.C18.merge_no_loss
#print axioms ThriftVerif.Properties.C18.merge_conflict_any_order
#print axioms ThriftVerif.Facts.ExpectProto.sendShape_ok
#print axioms ThriftVerif.Facts.ExpectProto.multiGenerateShape_ok
#print axioms ThriftVerif.Facts.ExpectProto.poolVars_ok
#print axioms ThriftVerif.Facts.ExpectProto.poolSites_ok
#print axioms ThriftVerif.Facts.ExpectProto.pool_sites_match
