import ThriftVerif.Properties.C09
import ThriftVerif.Facts.ExpectCompile
#print axioms ThriftVerif.Properties.C09.getD_map_default
#print axioms ThriftVerif.Properties.C09.compiled_module
#print axioms ThriftVerif.Properties.C09.structOpts_allowNeg
#print axioms ThriftVerif.Properties.C09.field_id_exact
#print axioms ThriftVerif.Properties.C09.field_id_exact_strict
#print axioms ThriftVerif.Properties.C09.field_wrap_rejected
#print axioms ThriftVerif.Properties.C09.enum_value_exact
#print axioms ThriftVerif.Properties.C09.enum_wrap_rejected
#print axioms ThriftVerif.Properties.C09.implicit_enum_value_past_int32_rejected
#print axioms ThriftVerif.Properties.C09.const_in_range
#print axioms ThriftVerif.Properties.C09.i8_out_of_range_rejected
#print axioms ThriftVerif.Properties.C09.struct_literal_field_twice_rejected
#print axioms ThriftVerif.Properties.C09.enum_const_exact
#print axioms ThriftVerif.Properties.C09.enum_cast_wrap_rejected
#print axioms ThriftVerif.Properties.C09.function_names_unique
#print axioms ThriftVerif.Properties.C09.self_const_rejected
#print axioms ThriftVerif.Properties.C09.self_service_rejected
#print axioms ThriftVerif.Facts.ExpectCompile.conversions_ok
#print axioms ThriftVerif.Facts.ExpectCompile.fieldIdCheck_ok
#print axioms ThriftVerif.Facts.ExpectCompile.enumPrevInit_ok
#print axioms ThriftVerif.Facts.ExpectCompile.intRangeChecks_ok
