import ThriftVerif.Properties.C19
import ThriftVerif.Facts.ExpectGen
#print axioms ThriftVerif.Properties.C19.format_build_eq_core
#print axioms ThriftVerif.Properties.C19.format_build_return
#print axioms ThriftVerif.Properties.C19.wrap_unwrap_ok
#print axioms ThriftVerif.Properties.C19.wrap_unwrap_void
#print axioms ThriftVerif.Properties.C19.wrap_unwrap_exc
#print axioms ThriftVerif.Properties.C19.wrap_rejects_undeclared
#print axioms ThriftVerif.Properties.C19.unwrap_inverts_wrap
#print axioms ThriftVerif.Properties.C19.wrap_injective
#print axioms ThriftVerif.Properties.C19.wrap_nil_return
#print axioms ThriftVerif.Facts.ExpectGen.reservedIdentifiers_ok
