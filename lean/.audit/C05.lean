import ThriftVerif.Properties.C05
import ThriftVerif.Facts.ExpectWire
import ThriftVerif.Facts.ExpectGen
#print axioms ThriftVerif.Properties.C05.unknown_field_ignored
#print axioms ThriftVerif.Properties.C05.unknown_field_ignored_stream
#print axioms ThriftVerif.Properties.C05.unknown_field_ignored_lazy
#print axioms ThriftVerif.Properties.C05.isForeign_iff
#print axioms ThriftVerif.Properties.C05.all_foreign_fields_ignored
#print axioms ThriftVerif.Properties.C05.only_known_fields_matter
#print axioms ThriftVerif.Properties.C05.absent_field
#print axioms ThriftVerif.Properties.C05.fails_iff
#print axioms ThriftVerif.Properties.C05.required_missing_iff
#print axioms ThriftVerif.Facts.ExpectWire.typeCodes_ok
#print axioms ThriftVerif.Facts.ExpectWire.fixedWidth_ok
