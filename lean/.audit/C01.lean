import ThriftVerif.Properties.C01
import ThriftVerif.Facts.ExpectWire
import ThriftVerif.Facts.ExpectGen
#print axioms ThriftVerif.Properties.C01.roundtrip_all_paths_partial
#print axioms ThriftVerif.Properties.C01.serialisation_injective
#print axioms ThriftVerif.Properties.C01.field_order_irrelevant
#print axioms ThriftVerif.Properties.C01.set_order_irrelevant
#print axioms ThriftVerif.Properties.C01.map_order_irrelevant
#print axioms ThriftVerif.Properties.C01.serialised_is_well_typed
#print axioms ThriftVerif.Properties.C01.required_unset_rejected
#print axioms ThriftVerif.Properties.C01.union_arity_rejected
#print axioms ThriftVerif.Properties.C01.nil_element_rejected
#print axioms ThriftVerif.Properties.C01.accessor_unset
#print axioms ThriftVerif.Properties.C01.accessor_set
#print axioms ThriftVerif.Properties.C01.default_ctor_fields
#print axioms ThriftVerif.Facts.ExpectWire.typeCodes_ok
#print axioms ThriftVerif.Facts.ExpectWire.fixedWidth_ok
