import ThriftVerif.Properties.C06
import ThriftVerif.Facts.ExpectGen
#print axioms ThriftVerif.Properties.C06.accept_iff_noclash
#print axioms ThriftVerif.Properties.C06.reserve_iff
#print axioms ThriftVerif.Properties.C06.words_have_no_underscore
#print axioms ThriftVerif.Properties.C06.goCase_collisions
#print axioms ThriftVerif.Properties.C06.mangle_collision
#print axioms ThriftVerif.Properties.C06.mangle_injective_on_plain_names
#print axioms ThriftVerif.Properties.C06.mangle_injective_on_generated_names
#print axioms ThriftVerif.Properties.C06.go_names_have_no_underscore
#print axioms ThriftVerif.Facts.ExpectGen.reservedIdentifiers_ok
#print axioms ThriftVerif.Facts.ExpectGen.commonInitialisms_ok
#print axioms ThriftVerif.Facts.ExpectGen.initialisms_model_ok
