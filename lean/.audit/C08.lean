import ThriftVerif.Properties.C08
import ThriftVerif.Facts.ExpectCompile
#print axioms ThriftVerif.Properties.C08.verdict_fuel_independent
#print axioms ThriftVerif.Properties.C08.compile_total_partial
#print axioms ThriftVerif.Properties.C08.compile_total_plain_values
#print axioms ThriftVerif.Properties.C08.compile_total_closed_defaults
#print axioms ThriftVerif.Properties.C08.cycle_search_witnesses
#print axioms ThriftVerif.Properties.C08.cycle_search_memo_agrees
#print axioms ThriftVerif.Properties.C08.cycle_verdict_fuel_independent
#print axioms ThriftVerif.Properties.C08.no_cycle_iff_finite_unfolding
#print axioms ThriftVerif.Properties.C08.module_cycle_check_spec
#print axioms ThriftVerif.Properties.C08.former_divergence_rejected
#print axioms ThriftVerif.Facts.ExpectCompile.sites_covered
