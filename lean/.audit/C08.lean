import ThriftVerif.Properties.C08
import ThriftVerif.Facts.ExpectCompile
#print axioms ThriftVerif.Properties.C08.verdict_fuel_independent
#print axioms ThriftVerif.Properties.C08.compile_total_partial
#print axioms ThriftVerif.Properties.C08.const_cycle_diverges
#print axioms ThriftVerif.Properties.C08.recursive_struct_default_diverges
#print axioms ThriftVerif.Properties.C08.service_cycle_diverges
#print axioms ThriftVerif.Properties.C08.self_constant_generator_diverges
#print axioms ThriftVerif.Facts.ExpectCompile.sites_covered
