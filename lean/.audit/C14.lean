import ThriftVerif.Properties.C14
import ThriftVerif.Facts.ExpectWire
import ThriftVerif.Facts.ExpectGen
#print axioms ThriftVerif.Properties.C14.equals_refl
#print axioms ThriftVerif.Properties.C14.equals_symm
#print axioms ThriftVerif.Properties.C14.equals_trans
#print axioms ThriftVerif.Properties.C14.set_containment_lemma
#print axioms ThriftVerif.Properties.C14.slice_set_not_symm_with_dups
#print axioms ThriftVerif.Properties.C14.list_order_sensitive
#print axioms ThriftVerif.Properties.C14.equals_iff_wire_equal
#print axioms ThriftVerif.Properties.C14.nil_handling
#print axioms ThriftVerif.Facts.ExpectWire.typeCodes_ok
