import ThriftVerif.Properties.C14
import ThriftVerif.Facts.ExpectWire
import ThriftVerif.Facts.ExpectGen
#print axioms ThriftVerif.Properties.C14.equals_refl
#print axioms ThriftVerif.Properties.C14.equals_symm
#print axioms ThriftVerif.Properties.C14.equals_trans
#print axioms ThriftVerif.Properties.C14.set_containment_lemma
#print axioms ThriftVerif.Properties.C14.slice_set_not_symm_with_dups
#print axioms ThriftVerif.Properties.C14.repeated_field_ids
#print axioms ThriftVerif.Properties.C14.wire_equal_refl
#print axioms ThriftVerif.Properties.C14.wire_equal_symm
#print axioms ThriftVerif.Properties.C14.wire_equal_trans
#print axioms ThriftVerif.Properties.C14.wire_equal_iff_same_logical_value
#print axioms ThriftVerif.Properties.C14.towire_image_clean
#print axioms ThriftVerif.Properties.C14.equals_iff_same_logical_value
#print axioms ThriftVerif.Properties.C14.old_struct_rule_not_symmetric
#print axioms ThriftVerif.Properties.C14.list_order_sensitive
#print axioms ThriftVerif.Properties.C14.equals_iff_wire_equal
#print axioms ThriftVerif.Properties.C14.nil_handling
#print axioms ThriftVerif.Facts.ExpectWire.typeCodes_ok
