import ThriftVerif.Properties.C03
import ThriftVerif.Facts.ExpectWire
#print axioms ThriftVerif.Properties.C03.decode_total
#print axioms ThriftVerif.Properties.C03.skip_total
#print axioms ThriftVerif.Properties.C03.lazy_decode_total
#print axioms ThriftVerif.Properties.C03.lazy_forced_decode_total
#print axioms ThriftVerif.Properties.C03.stream_canonical
#print axioms ThriftVerif.Properties.C03.lazy_canonical
#print axioms ThriftVerif.Properties.C03.decode_accepts_exactly_encodings
#print axioms ThriftVerif.Properties.C03.decode_ignores_what_follows
#print axioms ThriftVerif.Properties.C03.readers_agree
#print axioms ThriftVerif.Properties.C03.skip_of_decode
#print axioms ThriftVerif.Properties.C03.lazy_decode_ends_where_skip_ends
#print axioms ThriftVerif.Properties.C03.skip_result_fuel_independent
#print axioms ThriftVerif.Properties.C03.read_segmentation_irrelevant
#print axioms ThriftVerif.Properties.C03.bool_strict
#print axioms ThriftVerif.Properties.C03.negative_length_rejected
#print axioms ThriftVerif.Facts.ExpectWire.typeCodes_ok
#print axioms ThriftVerif.Facts.ExpectWire.fixedWidth_ok
