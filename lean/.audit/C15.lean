import ThriftVerif.Properties.C15
import ThriftVerif.Facts.ExpectWire
import ThriftVerif.Facts.ExpectGen
#print axioms ThriftVerif.Properties.C15.noninterference
#print axioms ThriftVerif.Properties.C15.redacted_shows_marker_only
#print axioms ThriftVerif.Properties.C15.nolog_absent
#print axioms ThriftVerif.Properties.C15.redacted_content_irrelevant
#print axioms ThriftVerif.Properties.C15.nolog_content_irrelevant
#print axioms ThriftVerif.Properties.C15.others_present
#print axioms ThriftVerif.Facts.ExpectGen.redaction_facts_ok
