/-
Line-protocol driver for M-Idl. One operation per input line, one answer per output line.
Core-only (built as `lean_exe idldrv`).

  parse <hex>   → ok <program dump> | err <n> <line:col>… | fuel
  walk  <hex>   → ok <n> <kind@l:c^parent>… | err | fuel        (ast.Walk over the parsed program)
  lex   <hex>   → ok <tok@l:c>…                                   (Lex() results)
  unq1  <hex>   → ok <hex> | err        UnquoteSingleQuoted       unq2: UnquoteDoubleQuoted
  q1 / q2 / q1s / q2s <hex> → ok <hex>   the model's printers (quoteSingle/Double, …Safe)
  doc   <hex>   → ok <hex>              ParseDocstring
  int   <hex>   → ok <n> | err          INTCONSTANT action        dbl: DUBCONSTANT action (bits)
-/
import ThriftVerif.Idl.Dump

open ThriftVerif.Idl

def optBytes : Option Bytes → String
  | some b => "ok " ++ hexOf b
  | none => "err"

def step (line : String) : String :=
  match (line.trimAscii.toString.splitOn " ").filter (· ≠ "") with
  | [op, hex] =>
    match unhex hex with
    | none => "bad-op"
    | some bs =>
      match op with
      | "parse" => parseResultText (parse bs)
      | "walk" =>
        match parse bs with
        | .program p =>
          let vs := walk (.program p)
          s!"ok {vs.length} " ++ sp (vs.map visitText)
        | .errors _ => "err"
        | .outOfFuel => "fuel"
      | "lex" => "ok " ++ sp ((lexAll bs).map ltokText)
      | "unq1" => optBytes (unquoteSingle bs)
      | "unq2" => optBytes (unquoteDouble bs)
      | "q1" => "ok " ++ hexOf (quoteSingle bs)
      | "q2" => "ok " ++ hexOf (quoteDouble bs)
      | "q1s" => "ok " ++ hexOf (quoteSingleSafe bs)
      | "q2s" => "ok " ++ hexOf (quoteDoubleSafe bs)
      | "doc" => "ok " ++ hexOf (parseDocstring bs)
      | "int" =>
        match lexInt bs with
        | some v => s!"ok {v}"
        | none => "err"
      | "dbl" =>
        match lexDouble bs with
        | some v => s!"ok {v}"
        | none => "err"
      | _ => "bad-op"
  | _ => "bad-op"

partial def loop (hin hout : IO.FS.Stream) : IO Unit := do
  let line ← hin.getLine
  if line.isEmpty then return ()
  hout.putStrLn (step line)
  loop hin hout

def main : IO Unit := do
  let hin ← IO.getStdin
  let hout ← IO.getStdout
  loop hin hout
  hout.flush
