/-
Line-protocol driver for M-Proto. One operation per input line, one answer per output
line. Core-only (built as `lean_exe protodrv`).

Byte strings and paths are lower-case hex ("-" = empty); chunk lists are comma-separated
hex strings; files are `<pathhex>=<contenthex>` and are printed sorted.

  F  <threshold> <chunks>             read frames until the stream ends (fast-path threshold given)
  FW <hex>                            the Write calls of frame.Writer.Write
  HR handshake|goodbye                the request frame the host sends
  PC p | PD p | PB p | PA p           Clean / Dir / Base / IsAbs
  PJ a b | PR base targ | PM root f   Join / Rel / generated-file path of a Thrift file
  VA root f…  | CA f…                 verifyAncestry / findCommonAncestor
  G  root out nm {path content|!}* np {!|nf {path content}*}* ord      generate plan
  GC cwd root|! out nm {…}* np {…}* ord                                  the same from the CLI's arguments
  W  nf {fullpath content}*           the write loop (in this order) on an empty file system
  H  coreOk nc {path content}* ord np {name exitAtStart exitCode hsOut hsExit genOut genExit byeOut byeExit}*
  S  name hasSG libver ng {E|N|nf {path content}*}* chunks             plugin.Main
  XM np {nf {path content}*}* ord     MultiServiceGenerator merge
  XP K wfbits inputs schedule         pool interleaving: results per thread
  XL K held payloads schedule         lock interleaving: response per sender
-/
import ThriftVerif.Wire.Text
import ThriftVerif.Proto.Server
import ThriftVerif.Proto.Conc

open ThriftVerif.Wire ThriftVerif.Proto

abbrev Toks := List String

def pHex : Toks → Option (Bytes × Toks)
  | t :: r => (bytesOfHex t).map fun b => (b, r)
  | [] => none

def pStr (ts : Toks) : Option (Str × Toks) := (pHex ts).map fun (b, r) => (strOfBytes b, r)

def pNat : Toks → Option (Nat × Toks)
  | t :: r => t.toNat?.map fun n => (n, r)
  | [] => none

def pBool (ts : Toks) : Option (Bool × Toks) := (pNat ts).map fun (n, r) => (n != 0, r)

def pChunks : Toks → Option (Chunks × Toks)
  | t :: r => ((t.splitOn ",").mapM bytesOfHex).map fun cs => (cs, r)
  | [] => none

def pNatList : Toks → Option (List Nat × Toks)
  | t :: r =>
    if t = "-" then some ([], r)
    else ((t.splitOn ",").mapM String.toNat?).map fun ns => (ns, r)
  | [] => none

/-- `n` repetitions of a parser. -/
def pMany {α} (p : Toks → Option (α × Toks)) : Nat → Toks → Option (List α × Toks)
  | 0, ts => some ([], ts)
  | n + 1, ts =>
    match p ts with
    | some (a, r) =>
      match pMany p n r with
      | some (as, r') => some (a :: as, r')
      | none => none
    | none => none

def pCounted {α} (p : Toks → Option (α × Toks)) (ts : Toks) : Option (List α × Toks) :=
  match pNat ts with
  | some (n, r) => pMany p n r
  | none => none

def pFile (ts : Toks) : Option ((Str × Content) × Toks) :=
  match pStr ts with
  | some (p, r) =>
    match pHex r with
    | some (c, r') => some ((p, c), r')
    | none => none
  | none => none

def pFiles : Toks → Option (Files × Toks) := pCounted pFile

/-- `!` = failure, otherwise a counted file list. -/
def pOptFiles : Toks → Option (Option Files × Toks)
  | "!" :: r => some (none, r)
  | ts => (pFiles ts).map fun (f, r) => (some f, r)

def pMod (ts : Toks) : Option (ModIn × Toks) :=
  match pStr ts with
  | some (p, "!" :: r) => some (⟨p, none⟩, r)
  | some (p, r) => (pHex r).map fun (c, r') => (⟨p, some c⟩, r')
  | none => none

/-! printing -/

def hexStr (s : Str) : String := hexOrDash (bytesOfStr s)

def strLt (a b : String) : Bool := a < b

def insertSorted (x : String) : List String → List String
  | [] => [x]
  | y :: r => if strLt y x then y :: insertSorted x r else x :: y :: r

def sortStrings (xs : List String) : List String := xs.foldr insertSorted []

def showFiles (fs : Files) : String :=
  let items := sortStrings (fs.map fun x => hexStr x.1 ++ "=" ++ hexOrDash x.2)
  " ".intercalate (toString fs.length :: items)

def showChunks (cs : Chunks) : String :=
  if cs.isEmpty then "-" else ",".intercalate (cs.map hexOrDash)

def reqText : Req → String
  | .handshake => "handshake" | .generate => "generate" | .goodbye => "goodbye"

def pevText : PEvent → String
  | .start => "start" | .req r => reqText r | .eof => "eof" | .exit => "exit"

def hevText : HEvent → String
  | .start => "start" | .send r => "s:" ++ reqText r | .recvOk r => "ok:" ++ reqText r
  | .recvErr r => "err:" ++ reqText r | .closePipes => "close" | .wait => "wait"

def verdictText : Verdict → String
  | .ok => "ok" | .fail => "fail" | .hang => "hang"

def showRec (trace : Bool) (r : Rec) : String :=
  let n := if namedIn r then "1" else "0"
  let t := if trace then " " ++ ".".intercalate (r.h.map hevText) else ""
  s!"; {n} {".".intercalate (r.st.view.map pevText)}{t}"

/-- `H`: what can be observed from outside (verdict, files handed to the write loop, and per
plugin whether the error output names it and what the plugin saw); `HT` adds the host's
own actions per plugin. -/
def showResult (trace : Bool) (r : Result) : String :=
  let w := match r.wrote with
    | some fs => showFiles (fs.map fun (x : Str × Content) => ((join2 [(Char.ofNat 47)] x.1).drop 1, x.2))   -- position below the output directory
    | none => "-"
  s!"ok {verdictText r.exit} {w} " ++ " ".intercalate (r.recs.map (showRec trace))

def pStep (ts : Toks) : Option (PStep × Toks) :=
  match pChunks ts with
  | some (cs, r) => (pBool r).map fun (e, r') => (⟨cs, e⟩, r')
  | none => none

def pPlugin (ts : Toks) : Option (Plugin × Toks) :=
  match pHex ts with
  | none => none
  | some (name, r0) =>
  match pBool r0 with
  | none => none
  | some (eas, r1) =>
  match pNat r1 with
  | none => none
  | some (code, r2) =>
  match pStep r2 with
  | none => none
  | some (hs, r3) =>
  match pStep r3 with
  | none => none
  | some (gen, r4) =>
  match pStep r4 with
  | none => none
  | some (bye, r5) => some (⟨name, eas, hs, gen, bye, code⟩, r5)

/-- only what a process can show: stopped by goodbye (exit 0) or failed (`log.Fatalf`). -/
def stopText : Stop → String
  | .goodbye => "goodbye" | .fuel => "fuel" | _ => "failed"

def showAnswer (a : Answer) : String :=
  let k := match a.r with
    | .reply v => "R" ++ hexOrDash (enc v)
    | .genReply (some fs) => "F" ++ ",".intercalate ((showFiles fs).splitOn " ")
    | .genReply none => "F-"
    | .exc t => "X" ++ toString t
  s!"{hexOrDash a.name}:{a.seqid.toNat}:{k}"

def pGenAnswer : Toks → Option (GenAnswer × Toks)
  | "E" :: r => some (.error, r)
  | "N" :: r => some (.files none, r)
  | ts => (pFiles ts).map fun (f, r) => (.files (some f), r)

def natsOf (s : String) : Option (List Nat) :=
  if s = "-" then some [] else (s.splitOn ",").mapM String.toNat?

def pairsOf (s : String) : Option (List (Nat × Nat)) :=
  if s = "-" then some []
  else (s.splitOn ",").mapM fun x =>
    match x.splitOn ":" with
    | [a, b] =>
      match a.toNat?, b.toNat? with
      | some a, some b => some (a, b)
      | _, _ => none
    | _ => none

def showOptList : Option (List Nat) → String
  | none => "none"
  | some [] => "[]"
  | some xs => ",".intercalate (xs.map toString)

def step (line : String) : String :=
  match (line.trimAscii.toString.splitOn " ").filter (· ≠ "") with
  | ["F", thr, chunks] =>
    match thr.toNat?, pChunks [chunks] with
    | some thr, some (cs, _) =>
      match readFramesT thr cs with
      | (ms, clean) =>
        " ".intercalate (["ok", if clean then "1" else "0", toString ms.length] ++ ms.map hexOrDash)
    | _, _ => "bad-op"
  | ["FW", hex] =>
    match bytesOfHex hex with
    | some m => "ok " ++ showChunks (writeFrame m)
    | none => "bad-op"
  | ["HR", "handshake"] => "ok " ++ hexOrDash (requestFrame .handshake handshakeArgs)
  | ["HR", "goodbye"] => "ok " ++ hexOrDash (requestFrame .goodbye goodbyeArgs)
  | ["PC", p] =>
    match pStr [p] with
    | some (p, _) => "ok " ++ hexStr (clean p)
    | none => "bad-op"
  | ["PD", p] =>
    match pStr [p] with
    | some (p, _) => "ok " ++ hexStr (dir p)
    | none => "bad-op"
  | ["PB", p] =>
    match pStr [p] with
    | some (p, _) => "ok " ++ hexStr (base p)
    | none => "bad-op"
  | ["PA", p] =>
    match pStr [p] with
    | some (p, _) => if isAbs p then "ok 1" else "ok 0"
    | none => "bad-op"
  | ["PJ", a, b] =>
    match pStr [a], pStr [b] with
    | some (a, _), some (b, _) => "ok " ++ hexStr (join2 a b)
    | _, _ => "bad-op"
  | ["PR", a, b] =>
    match pStr [a], pStr [b] with
    | some (a, _), some (b, _) =>
      match rel a b with
      | some r => "ok " ++ hexStr r
      | none => "err"
    | _, _ => "bad-op"
  | ["PM", a, b] =>
    match pStr [a], pStr [b] with
    | some (a, _), some (b, _) =>
      match modulePath a b with
      | some r => "ok " ++ hexStr r
      | none => "err"
    | _, _ => "bad-op"
  | "VA" :: root :: files =>
    match pStr [root], files.mapM fun f => (pStr [f]).map (·.1) with
    | some (root, _), some fs => if verifyAncestry root fs then "ok 1" else "ok 0"
    | _, _ => "bad-op"
  | "CA" :: files =>
    match files.mapM fun f => (pStr [f]).map (·.1) with
    | some fs =>
      match findCommonAncestor fs with
      | some r => "ok " ++ hexStr r
      | none => "err"
    | none => "bad-op"
  | "G" :: root :: out :: rest =>
    match pStr [root], pStr [out], pCounted pMod rest with
    | some (root, _), some (out, _), some (mods, r1) =>
      match pCounted pOptFiles r1 with
      | some (plugs, [ord]) =>
        match natsOf ord with
        | some ord =>
          match generatePlan root out mods plugs ord with
          | .ok fs => "ok " ++ showFiles fs
          | .error _ => "err"
        | none => "bad-op"
      | _ => "bad-op"
    | _, _, _ => "bad-op"
  | "GC" :: cwd :: root :: out :: rest =>
    match pStr [cwd], pStr [out], pCounted pMod rest with
    | some (cwd, _), some (out, _), some (mods, r1) =>
      match pCounted pOptFiles r1 with
      | some (plugs, [ord]) =>
        match natsOf ord, (if root = "!" then some none else (pStr [root]).map fun x => some x.1) with
        | some ord, some root =>
          match cliPlan cwd root out mods plugs ord with
          | .ok fs => "ok " ++ showFiles fs
          | .error _ => "err"
        | _, _ => "bad-op"
      | _ => "bad-op"
    | _, _, _ => "bad-op"
  | "GO" :: cwd :: root :: out :: ofile :: rest =>
    match pStr [cwd], pStr [out], pStr [ofile], pCounted pMod rest with
    | some (cwd, _), some (out, _), some (ofile, _), some (mods, r1) =>
      match pCounted pOptFiles r1 with
      | some (plugs, [ord]) =>
        match natsOf ord, (if root = "!" then some none else (pStr [root]).map fun x => some x.1) with
        | some ord, some root =>
          match cliPlanOutputFile cwd root out ofile mods plugs ord with
          | .ok fs => "ok " ++ showFiles fs
          | .error _ => "err"
        | _, _ => "bad-op"
      | _ => "bad-op"
    | _, _, _, _ => "bad-op"
  | "W" :: rest =>
    match pFiles rest with
    | some (fs, []) =>
      match writeLoop ⟨[], []⟩ fs with
      | (st, ok) => (if ok then "ok " else "err ") ++ showFiles st.files
    | _ => "bad-op"
  | "S" :: name :: sg :: ver :: rest =>
    match bytesOfHex name, sg.toNat?, bytesOfHex ver, pCounted pGenAnswer rest with
    | some name, some sg, some ver, some (gens, [chunks]) =>
      match pChunks [chunks] with
      | some (cs, _) =>
        match serve ⟨name, sg != 0, ver⟩ gens cs with
        | (as, stop) => " ".intercalate (["ok", stopText stop, toString as.length] ++ as.map showAnswer)
      | none => "bad-op"
    | _, _, _, _ => "bad-op"
  | "XM" :: rest =>
    match pCounted pFiles rest with
    | some (fs, [ord]) =>
      match natsOf ord with
      | some ord =>
        match mergePlugins [] (pickOrder (fs.map normFiles) ord) with
        | some m => "ok " ++ showFiles m
        | none => "err"
      | none => "bad-op"
    | _ => "bad-op"
  | ["XP", k, wf, inputs, sched] =>
    match k.toNat?, natsOf wf, (inputs.splitOn ";").mapM natsOf, pairsOf sched with
    | some k, some wf, some ins, some sched =>
      let s := Conc.prun (Conc.pinit (fun i => wf.getD i 1 != 0) (fun i => ins.getD i []) k) sched
      "ok " ++ " ".intercalate ((List.range k).map fun i => showOptList (s.th i).result)
    | _, _, _, _ => "bad-op"
  | ["XL", k, held, payloads, sched] =>
    match k.toNat?, held.toNat?, natsOf payloads, natsOf sched with
    | some k, some held, some ps, some sched =>
      let s := Conc.lrun k (Conc.linit (held != 0) (fun i => ps.getD i 0) k) sched
      "ok " ++ " ".intercalate ((List.range k).map fun i =>
        match (s.sd i).got with
        | some x => toString x
        | none => "none")
    | _, _, _, _ => "bad-op"
  | h :: rest =>
    if h ≠ "H" ∧ h ≠ "HT" then "bad-op" else
    match pBool rest with
    | none => "bad-op"
    | some (coreOk, r0) =>
    match pFiles r0 with
    | none => "bad-op"
    | some (core, r1) =>
    match r1 with
    | ord :: r2 =>
      match natsOf ord, pCounted pPlugin r2 with
      | some ord, some (ps, []) => showResult (h = "HT") (run ⟨ps, coreOk, core, ord⟩)
      | _, _ => "bad-op"
    | [] => "bad-op"
  | [] => "bad-op"

partial def loop (hin hout : IO.FS.Stream) : IO Unit := do
  let line ← hin.getLine
  if line.isEmpty then return ()
  hout.putStrLn (step line)
  loop hin hout

def main : IO Unit := do
  let hin ← IO.getStdin
  let hout ← IO.getStdout
  loop hin hout
  hout.flush
