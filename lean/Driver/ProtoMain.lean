/- Line-protocol driver for M-Proto (stub until the model lands). Core-only. -/
def main : IO Unit := do
  let hin ← IO.getStdin
  let hout ← IO.getStdout
  let rec loop : Nat → IO Unit
    | 0 => pure ()
    | n + 1 => do
      let line ← hin.getLine
      if line.isEmpty then return ()
      hout.putStrLn "bad-op"
      loop n
  loop 1000000000
  hout.flush
