/-
Line-protocol driver for M-Wire. One operation per input line, one answer per
output line. Core-only (built as `lean_exe wiredrv`).
-/
import ThriftVerif.Wire.Text
import ThriftVerif.Wire.Envelope
import ThriftVerif.Wire.Cost
import ThriftVerif.Proto.Mux

open ThriftVerif.Wire

def consumedOf (total : Nat) (s : St) : Nat := total - s.1.length + s.2

def framingText : Framing → String
  | .bare => "bare" | .legacy => "legacy" | .strict => "strict"

def framingOf : String → Option Framing
  | "bare" => some .bare | "legacy" => some .legacy | "strict" => some .strict | _ => none

def showReq : Res (WValue × Responder) → String
  | .ok (v, r) => s!"ok {framingText r.framing} {hexOrDash r.name} {r.seqid.toNat} {v.text}"
  | .error .bad => "err"
  | .error .fuel => "fuel"

def errText : Err → String
  | .bad => "err" | .fuel => "fuel"

def step (line : String) : String :=
  match (line.trimAscii.toString.splitOn " ").filter (· ≠ "") with
  | "E" :: toks =>
    match parseValue toks with
    | some (v, []) => "ok " ++ hexOrDash (enc v)
    | _ => "bad-op"
  | ["D", t, hex] =>
    match t.toNat?, bytesOfHex hex with
    | some t, some bs =>
      match decode (UInt8.ofNat t) bs with
      | .ok (v, rest) => s!"ok {bs.length - rest.length} {v.text}"
      | .error e => errText e
    | _, _ => "bad-op"
  | ["L", t, hex] =>
    match t.toNat?, bytesOfHex hex with
    | some t, some bs =>
      match decodeLazyForced (UInt8.ofNat t) bs with
      | .ok (v, s) => s!"ok {consumedOf bs.length s} {v.text}"
      | .error e => errText e
    | _, _ => "bad-op"
  | ["K", seek, t, hex] =>
    match t.toNat?, bytesOfHex hex with
    | some t, some bs =>
      match skipTop (seek = "1") (UInt8.ofNat t) bs with
      | .ok s => s!"ok {consumedOf bs.length s}"
      | .error e => errText e
    | _, _ => "bad-op"
  | "V" :: strict :: name :: et :: sq :: toks =>
    match bytesOfHex name, et.toNat?, sq.toNat?, parseValue toks with
    | some name, some et, some sq, some (v, []) =>
      let e : Envelope := ⟨name, UInt8.ofNat et, UInt32.ofNat sq, v⟩
      "ok " ++ hexOrDash (if strict = "1" then encEnvStrict e else encEnvLegacy e)
    | _, _, _, _ => "bad-op"
  | ["W", hex] =>
    match bytesOfHex hex with
    | some bs =>
      match decEnvelope bs with
      | .ok e => s!"ok {hexOrDash e.name} {e.etype.toNat} {e.seqid.toNat} {e.value.text}"
      | .error e => errText e
    | none => "bad-op"
  | ["Q", et, hex] =>
    match et.toNat?, bytesOfHex hex with
    | some et, some bs => showReq (decodeRequest (UInt8.ofNat et) bs)
    | _, _ => "bad-op"
  | ["R", full, et, chunks] =>
    match et.toNat?, (chunks.splitOn ",").mapM bytesOfHex with
    | some et, some cs => showReq (readRequest (full = "1") (UInt8.ofNat et) cs)
    | _, _ => "bad-op"
  | "P" :: fr :: name :: sq :: t :: toks =>
    match framingOf fr, bytesOfHex name, sq.toNat?, t.toNat?, parseValue toks with
    | some fr, some name, some sq, some t, some (v, []) =>
      "ok " ++ hexOrDash (encodeResponse ⟨fr, name, UInt32.ofNat sq⟩ v (UInt8.ofNat t))
    | _, _, _, _, _ => "bad-op"
  | ["A", "stream", t, hex] =>
    match t.toNat?, bytesOfHex hex with
    | some t, some bs => s!"ok {streamAlloc (UInt8.ofNat t) bs}"
    | _, _ => "bad-op"
  | ["A", "env", hex] =>
    match bytesOfHex hex with
    | some bs => s!"ok {envelopeAlloc bs}"
    | none => "bad-op"
  | ["MUX"] => (match ThriftVerif.Proto.splitColon [] with | some _ => "some . ." | none => "none")  -- the empty name
  | ["MUX", hex] =>
    match bytesOfHex hex with
    | some bs =>
      match ThriftVerif.Proto.splitColon bs with
      | some (svc, m) => s!"some {hexOfBytes svc}. {hexOfBytes m}."
      | none => "none"
    | none => "bad-op"
  | ["A", "frameat", thr, hex] =>
    match thr.toNat?, bytesOfHex hex with
    | some thr, some bs => s!"ok {frameAllocT thr bs}"
    | _, _ => "bad-op"
  | ["A", "frame", hex] =>
    match bytesOfHex hex with
    | some bs => s!"ok {frameAlloc bs}"
    | none => "bad-op"
  | _ => "bad-op"

partial def loop (hin hout : IO.FS.Stream) : IO Unit := do
  let line ← hin.getLine
  if line.isEmpty then return ()
  hout.putStrLn (step line)
  loop hin hout

def main : IO Unit := do
  let hin ← IO.getStdin
  let hout ← IO.getStdout
  loop hin hout
  hout.flush
