/-
Line-protocol driver for M-Compile. One operation per input line, one answer per output
line. Core-only (built as `lean_exe compiledrv`).

ops
  C <pre> <fuel> <orders> <program>   stateful linker: `compile.Compile` (pre=0) or
                                      `compile.CompileWithLinkOrder` (pre=1) with the given visit orders
                                      -> ok <dump> | err | diverges
  S <program>                         declarative spec (meaningful when compilation succeeds)
                                      -> ok <dump> | err
  G <fuel> <orders> <program>         compile, then the generator's service recursion
                                      -> ok | err | diverges | gen-diverges

program ::= "P" strict(0|1) nfiles file^nfiles
file    ::= "X"                                  (does not parse)
          | "F" ninc inc^ninc ndef def^ndef
inc     ::= as(0|1) basename target(index | "-")
def     ::= "T" name type | "E" name n (item value|"-")^n | "S" kind(s|u|x) name n field^n
          | "C" name type cval | "V" name parent|"-" n func^n
field   ::= id|"-" name req(r|o|d) type ("-" | "=" cval)
func    ::= name oneway(0|1) n field^n ret(type | "void") n field^n
type    ::= bool|i8|i16|i32|i64|double|string|binary | "L" type | "Z" type | "M" type type | "R" name
cval    ::= "i" int | "d" hexbits | "b" 0|1 | "s" hex|"-" | "l" n cval^n | "m" n (cval cval)^n | "r" name
orders  ::= "O" nmods mod^nmods
mod     ::= names names names names nf (svc names)^nf        (includes types consts services funcs)
names   ::= n name^n
-/
import ThriftVerif.Compile.Dump

open ThriftVerif.Compile

/-- parser state: remaining tokens, next type-occurrence id -/
abbrev P := StateT (List String × Nat) Option

def tok : P String := do
  let (ts, n) ← get
  match ts with
  | [] => failure
  | t :: rest => set (rest, n); pure t

def freshOcc : P Nat := do
  let (ts, n) ← get
  set (ts, n + 1)
  pure n

def pNat : P Nat := do
  let t ← tok
  match t.toNat? with
  | some n => pure n
  | none => failure

def pInt : P Int := do
  let t ← tok
  match t.toInt? with
  | some n => pure n
  | none => failure

def pName : P Name := do
  let t ← tok
  pure (ofStr t)

def pBool : P Bool := do
  let t ← tok
  if t = "1" then pure true else if t = "0" then pure false else failure

def hexValC (c : Char) : Option Nat :=
  if '0' ≤ c ∧ c ≤ '9' then some (c.toNat - 48)
  else if 'a' ≤ c ∧ c ≤ 'f' then some (c.toNat - 87)
  else none

def bytesOfHexC : List Char → Option (List Nat)
  | [] => some []
  | [_] => none
  | a :: b :: rest =>
    match hexValC a, hexValC b, bytesOfHexC rest with
    | some x, some y, some r => some ((x * 16 + y) :: r)
    | _, _, _ => none

def natOfHexC (cs : List Char) : Option Nat :=
  cs.foldlM (fun acc c => (hexValC c).map (fun d => acc * 16 + d)) 0

def rep {α : Type} (p : P α) : Nat → P (List α)
  | 0 => pure []
  | n + 1 => do
    let x ← p
    let xs ← rep p n
    pure (x :: xs)

def counted {α : Type} (p : P α) : P (List α) := do
  let n ← pNat
  rep p n

partial def pType : P TExpr := do
  let t ← tok
  match t with
  | "bool" => return .base (← freshOcc) .bool
  | "i8" => return .base (← freshOcc) .i8
  | "i16" => return .base (← freshOcc) .i16
  | "i32" => return .base (← freshOcc) .i32
  | "i64" => return .base (← freshOcc) .i64
  | "double" => return .base (← freshOcc) .double
  | "string" => return .base (← freshOcc) .string
  | "binary" => return .base (← freshOcc) .binary
  | "L" => do let o ← freshOcc; let e ← pType; return .list o e
  | "Z" => do let o ← freshOcc; let e ← pType; return .set o e
  | "M" => do let o ← freshOcc; let k ← pType; let v ← pType; return .map o k v
  | "R" => do let n ← pName; return .ref n
  | _ => failure

partial def pCV : P CV := do
  let t ← tok
  match t with
  | "i" => return .int (← pInt)
  | "d" => do
    let h ← tok
    match natOfHexC h.toList with
    | some b => return .dbl b
    | none => failure
  | "b" => return .bool (← pBool)
  | "s" => do
    let h ← tok
    if h = "-" then return .str [] else
    match bytesOfHexC h.toList with
    | some b => return .str b
    | none => failure
  | "l" => do
    let n ← pNat
    let xs ← rep pCV n
    return .list xs
  | "m" => do
    let n ← pNat
    let kvs ← rep (do let k ← pCV; let v ← pCV; pure (k, v)) n
    return .map kvs
  | "r" => return .uref (← pName)
  | _ => failure

def pField : P Field := do
  let idt ← tok
  let id ← (if idt = "-" then pure none else match idt.toInt? with
    | some n => pure (some n)
    | none => failure : P (Option Int))
  let name ← pName
  let rt ← tok
  let req ← (match rt with
    | "r" => pure Req.required
    | "o" => pure Req.optional
    | "d" => pure Req.unspecified
    | _ => failure : P Req)
  let ty ← pType
  let dt ← tok
  let dflt ← (if dt = "-" then pure none else if dt = "=" then (do let v ← pCV; pure (some v)) else failure : P (Option CV))
  pure ⟨id, name, req, ty, dflt⟩

def pFunc : P Func := do
  let name ← pName
  let oneway ← pBool
  let args ← counted pField
  let (ts, _) ← get
  let ret ← (match ts with
    | "void" :: _ => do let _ ← tok; pure none
    | _ => do let t ← pType; pure (some t) : P (Option TExpr))
  let excs ← counted pField
  pure ⟨name, oneway, args, ret, excs⟩

def pDef : P Def := do
  let t ← tok
  match t with
  | "T" => do let n ← pName; let ty ← pType; return .typedef n ty
  | "E" => do
    let n ← pName
    let items ← counted (do
      let i ← pName
      let v ← tok
      if v = "-" then pure (i, none) else match v.toInt? with
        | some x => pure (i, some x)
        | none => failure)
    return .enum n items
  | "S" => do
    let k ← tok
    let kind ← (match k with
      | "s" => pure SKind.struct
      | "u" => pure SKind.union
      | "x" => pure SKind.exception
      | _ => failure : P SKind)
    let n ← pName
    let fs ← counted pField
    return .struct kind n fs
  | "C" => do let n ← pName; let ty ← pType; let v ← pCV; return .const n ty v
  | "V" => do
    let n ← pName
    let pt ← tok
    let fs ← counted pFunc
    return .service n (if pt = "-" then none else some (ofStr pt)) fs
  | _ => failure

def pInclude : P Include := do
  let asName ← pBool
  let name ← pName
  let t ← tok
  if t = "-" then pure ⟨asName, name, none⟩ else match t.toNat? with
    | some n => pure ⟨asName, name, some n⟩
    | none => failure

def pFile : P File := do
  let t ← tok
  match t with
  | "X" => pure .bad
  | "F" => do
    let incs ← counted pInclude
    let defs ← counted pDef
    pure (.ok incs defs)
  | _ => failure

def pProgram : P Program := do
  let t ← tok
  if t ≠ "P" then failure
  let strict ← pBool
  let files ← counted pFile
  pure ⟨strict, files⟩

def pNames : P (List Name) := counted pName

def pModOrder : P ModOrder := do
  let includes ← pNames
  let types ← pNames
  let consts ← pNames
  let services ← pNames
  let funcs ← counted (do let s ← pName; let ns ← pNames; pure (s, ns))
  pure ⟨includes, types, consts, services, funcs⟩

def pOrders : P Orders := do
  let t ← tok
  if t ≠ "O" then failure
  counted pModOrder

def runP {α : Type} (p : P α) (toks : List String) : Option α :=
  match p.run (toks, 0) with
  | some (a, ([], _)) => some a
  | _ => none

def step (line : String) : String :=
  match (line.trimAscii.toString.splitOn " ").filter (· ≠ "") with
  | "C" :: pre :: fuel :: rest =>
    match fuel.toNat?, runP (do let o ← pOrders; let pr ← pProgram; pure (o, pr)) rest with
    | some fuel, some (o, pr) =>
      match compileWith (pre = "1") fuel o pr with
      | .ok c => "ok " ++ dumpText c.prog (Acc.ofState c.prog c.st)
      | .err => "err"
      | .fuel => "diverges"
    | _, _ => "bad-op"
  | "S" :: rest =>
    match runP pProgram rest with
    | some pr =>
      match gather pr with
      | some p => "ok " ++ dumpText p (Acc.ofSpec p)
      | none => "err"
    | none => "bad-op"
  | "G" :: fuel :: rest =>
    match fuel.toNat?, runP (do let o ← pOrders; let pr ← pProgram; pure (o, pr)) rest with
    | some fuel, some (o, pr) =>
      match compileWith false fuel o pr with
      | .ok c =>
        match genServices fuel c with
        | .ok _ => "ok"
        | .err => "err"
        | .fuel => "gen-diverges"
      | .err => "err"
      | .fuel => "diverges"
    | _, _ => "bad-op"
  | _ => "bad-op"

partial def loop (hin hout : IO.FS.Stream) : IO Unit := do
  let line ← hin.getLine
  if line.isEmpty then return ()
  hout.putStrLn (step line)
  loop hin hout

def main : IO Unit := do
  let hin ← IO.getStdin
  let hout ← IO.getStdout
  loop hin hout
  hout.flush
