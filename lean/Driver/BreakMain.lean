/-
Line-protocol driver for M-Break (C20). One operation per input line, one answer per
output line. Core-only; run with `lake env lean --run Driver/BreakMain.lean`
(lakefile.toml declares no executable for it).

  C <orders> <from-module> <to-module>
      -> ok <diagnostic set>                       (compare.Pass.CompareModules)
  R <changes> <old tree> <new tree> <per-file orders>
      -> ok <exit status> <diagnostic set>         (git.Compare's loop + main.go)
  T <diff entries> <old tree> <new tree> <per-file orders>
      -> ok <exit status> <diagnostic set>         (findChangedThrift's conversion + loop + main.go)

Grammar (see ThriftVerif/Break/Text.lean): lists are `<count> item*`;
  module  = mod <path> <services: name <fn names>> <structs: name <fields: id name req type>> <other type names> <constant names>
  orders  = ord <service names> <type names> <per service: name <fn names>>
  change  = M <path> | D <path>
  diff entry = <old path> <new path | ->
Malformed ops, summaries that are not well-formed (duplicate keys) and orders that are not
permutations of the keys they enumerate are answered `bad-op`.
-/
import ThriftVerif.Break.Text

open ThriftVerif.Break

def stepC (ts : List String) : String :=
  match pOrders ts with
  | none => "bad-op"
  | some (o, ts) =>
    match pModule ts with
    | none => "bad-op"
    | some (frm, ts) =>
      match pModule ts with
      | some (to, []) =>
        if frm.wfB && to.wfB && o.validForB frm then "ok " ++ renderSet (compareModules o frm to)
        else "bad-op"
      | _ => "bad-op"

def stepRun (cs : List Change) (ts : List String) : String :=
  match pList pModule ts with
  | none => "bad-op"
  | some (old, ts) =>
    match pList pModule ts with
    | none => "bad-op"
    | some (new, ts) =>
      match pList pPathOrders ts with
      | some (os, []) =>
        let ordersOk := cs.all fun c =>
          match lookupModule old c.file with
          | none => true
          | some m => match os.lookup c.file with
            | none => false
            | some o => o.validForB m
        if old.all Module.wfB && new.all Module.wfB && ordersOk then
          let o : Path → Orders := fun p => (os.lookup p).getD ⟨[], [], fun _ => []⟩
          let r := run o old new cs
          s!"ok {exitCode r} {renderSet (printed r)}"
        else "bad-op"
      | _ => "bad-op"

def stepR (ts : List String) : String :=
  match pList pChange ts with
  | none => "bad-op"
  | some (cs, ts) => stepRun cs ts

def stepT (ts : List String) : String :=
  match pList pDiffEntry ts with
  | none => "bad-op"
  | some (diff, ts) => stepRun (diff.map changeOf) ts

def step (line : String) : String :=
  match (line.trimAscii.toString.splitOn " ").filter (· ≠ "") with
  | "C" :: ts => stepC ts
  | "R" :: ts => stepR ts
  | "T" :: ts => stepT ts
  | _ => "bad-op"

partial def loop (hin hout : IO.FS.Stream) : IO Unit := do
  let line ← hin.getLine
  if line.isEmpty then return ()
  hout.putStrLn (step line)
  loop hin hout

def main : IO Unit := do
  let hin ← IO.getStdin
  let hout ← IO.getStdout
  loop hin hout
  hout.flush
