/-
Line-protocol driver for M-Schema (SCHEMA_PROTOCOL.md). Core-only (lean_exe schemadrv).
-/
import ThriftVerif.Schema.Text
import ThriftVerif.Schema.WireEq
import ThriftVerif.Schema.WireEquivProofs
import ThriftVerif.Schema.GoType
import ThriftVerif.Gen.Naming
import ThriftVerif.Schema.Lazy

open ThriftVerif.Wire ThriftVerif.Schema

def fuelOf (toks : List String) : Nat := 4 * toks.length + 64

def errText' : Err → String
  | .bad => "err" | .fuel => "fuel"

def parseTG (toks : List String) : Option (Ty × GVal × List String) :=
  match parseTy (toks.length + 2) toks with
  | some (t, r) =>
    match parseG (2 * r.length + 2) r with
    | some (g, r') => some (t, g, r')
    | none => none
  | none => none

def parseEnumItems : Nat → List String → Option (List (String × UInt32))
  | 0, [] => some []
  | n + 1, name :: v :: r =>
    match v.toNat?, parseEnumItems n r with
    | some v, some rest => some ((name, UInt32.ofNat v) :: rest)
    | _, _ => none
  | _, _ => none

def step (env : Env) (line : String) : Env × String :=
  let toks := (line.trimAscii.toString.splitOn " ").filter (· ≠ "")
  let fuel := fuelOf toks
  match toks with
  | ["reset"] => ({}, "ok")
  | "enum" :: name :: n :: rest =>
    match n.toNat? with
    | some n =>
      match parseEnumItems n rest with
      | some items => ({ env with enums := (name, items) :: env.enums }, "ok")
      | none => (env, "bad-op")
    | none => (env, "bad-op")
  | "struct" :: name :: kind :: n :: rest =>
    match parseKind kind, n.toNat? with
    | some k, some n =>
      match parseFields n rest with
      | some (fs, []) => ({ env with structs := ⟨name, k, fs⟩ :: env.structs.filter (·.name != name) }, "ok")
      | _ => (env, "bad-op")
    | _, _ => (env, "bad-op")
  | "towire" :: rest =>
    match parseTG rest with
    | some (t, g, []) =>
      match toWire env fuel t g with
      | .ok w => (env, "ok " ++ w.text)
      | .error e => (env, errText' e)
    | _ => (env, "bad-op")
  | "encode" :: rest =>
    match parseTG rest with
    | some (t, g, []) =>
      match encodeS env fuel t g with
      | .ok ops => (env, "ok " ++ hexOrDash (runOps ops))
      | .error e => (env, errText' e)
    | _ => (env, "bad-op")
  | "fromwire" :: rest =>
    match parseTy (rest.length + 2) rest with
    | some (t, r) =>
      match parseValue r with
      | some (w, []) =>
        match fromWire env fuel t w with
        | .ok g => (env, "ok " ++ g.text)
        | .error e => (env, errText' e)
      | _ => (env, "bad-op")
    | none => (env, "bad-op")
  | "decode" :: rest =>
    match parseTy (rest.length + 2) rest with
    | some (t, [hex]) =>
      match bytesOfHex hex with
      | some bs =>
        match decodeS env (fuelFor bs + 64) t bs with
        | .ok (g, r) => (env, s!"ok {bs.length - r.length} {g.text}")
        | .error e => (env, errText' e)
      | none => (env, "bad-op")
    | _ => (env, "bad-op")
  | "valuepath" :: rest =>
    match parseTy (rest.length + 2) rest with
    | some (t, [hex]) =>
      match bytesOfHex hex with
      | some bs =>
        match valuePath env (fuelFor bs + 64) t bs with
        | .ok (g, s') => (env, s!"ok {bs.length - s'.1.length + s'.2} {g.text}")
        | .error e => (env, errText' e)
      | none => (env, "bad-op")
    | _ => (env, "bad-op")
  | "equals" :: rest =>
    match parseTG rest with
    | some (t, a, r) =>
      match parseG (2 * r.length + 2) r with
      | some (b, []) => (env, if equalsG env fuel t a b then "ok 1" else "ok 0")
      | _ => (env, "bad-op")
    | none => (env, "bad-op")
  | "weq" :: rest =>
    match parseValue rest with
    | some (a, r) =>
      match parseValue r with
      | some (b, []) => (env, if wireEq fuel a b then "ok 1" else "ok 0")
      | _ => (env, "bad-op")
    | none => (env, "bad-op")
  | "weqspec" :: rest =>
    -- the independent statement of "the same logical value" (where it is meant to apply: clean values)
    match parseValue rest with
    | some (a, r) =>
      match parseValue r with
      | some (b, []) =>
        if wclean fuel a && wclean fuel b then (env, if specEq fuel a b then "ok 1" else "ok 0")
        else (env, "unclean")
      | _ => (env, "bad-op")
    | none => (env, "bad-op")
  | ["default", name] =>
    match env.find name with
    | some sd =>
      match defaultCtor sd with
      | some g => (env, "ok " ++ g.text)
      | none => (env, "none")
    | none => (env, "bad-op")
  | "get" :: name :: idx :: rest =>
    match env.find name, idx.toNat?, parseG (2 * rest.length + 2) rest with
    | some sd, some i, some (g, []) =>
      match getField sd i g with
      | some r => (env, "ok " ++ r.text)
      | none => (env, "bad-op")
    | _, _, _ => (env, "bad-op")
  | "isset" :: _ :: idx :: rest =>
    match idx.toNat?, parseG (2 * rest.length + 2) rest with
    | some i, some (g, []) => (env, if isSetField i g then "ok 1" else "ok 0")
    | _, _ => (env, "bad-op")
  | "string" :: rest =>
    match parseTG rest with
    | some (t, g, []) => (env, " ".intercalate ("ok" :: sortStrings (visible env false fuel t g).eraseDups))
    | _ => (env, "bad-op")
  | "zap" :: rest =>
    match parseTG rest with
    | some (t, g, []) => (env, " ".intercalate ("ok" :: sortStrings (visible env true fuel t g).eraseDups))
    | _ => (env, "bad-op")
  | ["gocase", ident] => (env, "ok " ++ String.ofList (ThriftVerif.Gen.goCase ident.toList))
  | ["constname", ident] => (env, "ok " ++ String.ofList (ThriftVerif.Gen.constantName ident.toList))
  | "gotype" :: rest =>
    match parseTy (rest.length + 2) rest with
    | some (t, [req]) => (env, "ok " ++ formatType (buildType t (req == "1")))
    | _ => (env, "bad-op")
  | _ => (env, "bad-op")

partial def loop (hin hout : IO.FS.Stream) (env : Env) : IO Unit := do
  let line ← hin.getLine
  if line.isEmpty then return ()
  let (env', out) := step env line
  hout.putStrLn out
  loop hin hout env'

def main : IO Unit := do
  let hin ← IO.getStdin
  let hout ← IO.getStdout
  loop hin hout {}
  hout.flush
