-- This module serves as the root of the `ThriftVerif` library.
-- Import modules here that should be built as part of the library.
import ThriftVerif.Basic
