-- Root of the `ThriftVerif` library. It imports the wire-level modules only: the property modules
-- (`ThriftVerif/Properties/C01 … C20`) and the fact / expectation modules are separate build targets —
-- `bin/setup` and every `bin/check` run build them by name — because some proof modules of different
-- properties reuse short names (e.g. `Proto.keys`) and cannot be imported into one file.
import ThriftVerif.Wire.Bytes
import ThriftVerif.Wire.Value
import ThriftVerif.Wire.Text
import ThriftVerif.Wire.Skip
import ThriftVerif.Wire.Envelope
import ThriftVerif.Wire.Writer
import ThriftVerif.Wire.RoundTrip
import ThriftVerif.Wire.Canonical
import ThriftVerif.Wire.Totality
import ThriftVerif.Wire.SkipProofs
import ThriftVerif.Wire.LazyProofs
import ThriftVerif.Wire.EnvelopeProofs
import ThriftVerif.Facts.GenWire
import ThriftVerif.Facts.ExpectWire
import ThriftVerif.Properties.C02
import ThriftVerif.Properties.C03
import ThriftVerif.Properties.C12
