-- Root of the `ThriftVerif` library: imports every model, proof and property module.
import ThriftVerif.Wire.Bytes
import ThriftVerif.Wire.Value
import ThriftVerif.Wire.Text
import ThriftVerif.Wire.Skip
import ThriftVerif.Wire.Envelope
import ThriftVerif.Wire.RoundTrip
import ThriftVerif.Wire.Canonical
