-- Root of the `ThriftVerif` library: imports every model, proof, fact and property module.
import ThriftVerif.Wire.Bytes
import ThriftVerif.Wire.Value
import ThriftVerif.Wire.Text
import ThriftVerif.Wire.Skip
import ThriftVerif.Wire.Envelope
import ThriftVerif.Wire.Writer
import ThriftVerif.Wire.RoundTrip
import ThriftVerif.Wire.Canonical
import ThriftVerif.Wire.Totality
import ThriftVerif.Wire.SkipProofs
import ThriftVerif.Wire.LazyProofs
import ThriftVerif.Wire.EnvelopeProofs
import ThriftVerif.Facts.GenWire
import ThriftVerif.Facts.ExpectWire
import ThriftVerif.Properties.C02
import ThriftVerif.Properties.C03
import ThriftVerif.Properties.C12
