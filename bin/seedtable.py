#!/usr/bin/env python3
"""Regenerates the seeded-change table of DESIGN.md §9.5 from seeded/*/meta.json."""
import json, glob, os, re
root = os.path.dirname(os.path.dirname(os.path.abspath(__file__)))
rows = []
for d in sorted(glob.glob(os.path.join(root, 'seeded/*/meta.json'))):
    m = json.load(open(d))
    sid = m.get('id') or os.path.basename(os.path.dirname(d))
    summ = (m.get('summary') or '').split('. ')[0][:150].replace('|', '/').replace('\n', ' ')
    v = (m.get('verdict') or '').replace('|', '/').replace('\n', ' ')
    rows.append(f"| {sid} | {summ} | {v} |")
table = "| id | change (first sentence of the author's summary) | verdict |\n|---|---|---|\n" + "\n".join(rows)
p = os.path.join(root, 'DESIGN.md')
s = open(p).read()
b, e = '<!-- SEEDTABLE:BEGIN -->', '<!-- SEEDTABLE:END -->'
if b in s:
    s = s[:s.index(b) + len(b)] + "\n" + table + "\n" + s[s.index(e):]
else:
    i = s.index("| id | change (first sentence")
    j = s.index("\n\n", i)
    s = s[:i] + b + "\n" + table + "\n" + e + s[j:]
open(p, 'w').write(s)
missed = sum(1 for r in rows if 'initially missed' in r)
print(len(rows), 'changes,', missed, 'initially missed')
