"""Per-property configuration of bin/check (what to build, what to run)."""

WIRE_TB = [
    "modelled, not verified: io.ReadFull / io.CopyN / bytes.Reader / bytes.Buffer semantics (model: Chunks, readFull); sync.Pool reuse",
    "the Go harness's own reference encoder and generic stream reader/writer (harness/internal/wv)",
]

CHECKS = {
    "C02": {
        "model": "M-Wire (lean/ThriftVerif/Wire): enc (format), opsOfValue/runOps (Writer + StreamWriter), dec (stream reader), decF (random-access reader + forcing)",
        "expect_modules": ["ThriftVerif.Facts.ExpectWire"],
        "expect_only": ["typeCodes_ok", "fixedWidth_ok"],
        "drivers": ["wiredrv"],
        "harness_cmds": ["wirecheck"],
        "harness_run": {"quick": ["{bin}/wirecheck --prop C02 --tier {tier} --driver {lean_bin}/wiredrv --corpus {root}/corpus/C02 --out {out}"]},
        "trusted_base": WIRE_TB,
        "not_covered": "writer I/O errors; Go allocation behaviour",
    },
    "C03": {
        "model": "M-Wire: dec, decF, skip (seek / stream discard), readFull over Chunks",
        "expect_modules": ["ThriftVerif.Facts.ExpectWire"],
        "expect_only": ["typeCodes_ok", "fixedWidth_ok"],
        "drivers": ["wiredrv"],
        "harness_cmds": ["wirecheck"],
        "harness_run": {"quick": ["{bin}/wirecheck --prop C03 --tier {tier} --driver {lean_bin}/wiredrv --corpus {root}/corpus/C03 --out {out}"]},
        "trusted_base": WIRE_TB,
        "not_covered": "Go stack exhaustion on extremely deep nesting (runtime; the model has no stack); the decoder over Chunks is modelled at the readFull primitive, whole-decoder chunk independence is observed by the harness under random segmentation",
    },
    "C12": {
        "model": "M-Wire Envelope.lean: encEnvStrict/encEnvLegacy, decEnvelope, decodeRequest, readRequest over Chunks, encodeResponse",
        "expect_modules": ["ThriftVerif.Facts.ExpectWire", "ThriftVerif.Facts.ExpectProto"],
        "expect_only": ["typeCodes_ok", "envelopeTypes_ok", "version_ok", "muxSplit_ok", "muxJoin_ok"],
        "drivers": ["wiredrv"],
        "harness_cmds": ["wirecheck"],
        "harness_run": {"quick": ["{bin}/wirecheck --prop C12 --tier {tier} --driver {lean_bin}/wiredrv --corpus {root}/corpus/C12 --out {out}"]},
        "trusted_base": WIRE_TB,
        "not_covered": "internal/envelope server/client are exercised by the harness only (oracle in Go); of the multiplexing glue the cut of the name is modelled (splitColon, tied by the muxSplit / muxJoin facts and the MUX driver op), the service table is not",
    },
}


# Per-property configuration dropped in bin/checks.d/<Cxx>.json (same keys as above).
import glob as _glob, json as _json, os as _os
for _p in sorted(_glob.glob(_os.path.join(_os.path.dirname(_os.path.abspath(__file__)), "checks.d", "*.json"))):
    _cfg = _json.load(open(_p))
    CHECKS[_cfg.get("property", _os.path.basename(_p)[:-5])] = _cfg
