#!/usr/bin/env python3
"""Regenerates MANIFEST.json from the table below (run from /verif)."""
import json, os, subprocess

ROOT = os.path.dirname(os.path.dirname(os.path.abspath(__file__)))
props = [json.loads(l)["id"] for l in open(os.path.join(ROOT, "properties.jsonl"))]
TECH = "Lean 4 proof over hand-written model + factgen tie + differential correspondence"
NOTE = ("Trusted: Lean kernel (axioms ⊆ propext, Classical.choice, Quot.sound, audited per theorem per run), "
        "factgen, the correspondence harness. The theorem is about the model; the tie to the code is the regenerated "
        "facts plus differential execution on generated inputs (reach bounded by the generators; distributions in the evidence). ")

# id -> (text, design_ref, extra level_note, technique)
CLAIMED = {
 "C01": ("partial: for every schema/type and every value in decoded form, both serialisers emit exactly enc(ToWire g), the wire decoder reads it back, and both deserialisers (value path, streaming path) return g (roundtrip_all_paths); ToWire output is well-typed; required-unset / union-arity / nil-element values are rejected by both serialisers; accessor and default-constructor lemmas. Not proved: permutation-invariance of the deserialisers, constants (harness oracles with an independent Go reference codec). Tie: random multi-file programs → real thriftrw → go build → reflect value driver vs Lean driver schemadrv", "§5 C01",
         "Modelled-not-verified: text/template + go/format (generated text is never modelled; M-Schema models what the generated code does and is tied by running it), reflection in the value driver.", TECH),
 "C02": ("M-Wire: format spec, writer call structure, both readers; theorems writer_emits_spec, stream/lazy decode∘encode = id for every well-typed value (unbounded nesting); tie = regenerated type-code/fixed-width facts + differential run of Encode/stream.Writer/Decode/stream.Reader against the Lean driver on enumerated and random values", "§5 C02", "Modelled-not-verified: io.ReadFull/io.CopyN/bytes.Reader, sync.Pool.", TECH),
 "C03": ("M-Wire: totality of the strict decoder (fuel never exhausted), canonical form for both reader kinds, readers agree, skip length = decode length for both discard strategies, readFull segmentation lemma; tie = facts + differential run on valid/truncated/mutated/random bytes under random read segmentation", "§5 C03", "Modelled-not-verified: io.ReadFull/io.CopyN/bytes.Reader; Go stack depth is not in the model.", TECH),
 "C04": ("partial: streaming Decode accepts every input the (forced) value path accepts, with equal value and consumed length, for every schema/type/byte string (induction over types and bytes, using skip_of_decode for unknown fields); Encode = WriteValue∘ToWire call for call, error for error. The real value path decodes lazily: content inside containers that FromWire never forces is validated by neither real path — observed by the harness; D22 (top-level typedef'd container on truncated input) is a known finding", "§5 C04", "Modelled-not-verified: generated text; chunk independence rests on C03.read_segmentation_irrelevant + harness segmentation.", TECH),
 "C05": ("foreign field insertion (unknown id or other wire type, any value, any position) is a no-op for FromWire and for streaming Decode on bytes; absent optional/default/required rule (finishFields); fails-iff characterisation is the harness oracle over evolved schema pairs", "§5 C05", "Modelled-not-verified: generated text.", TECH),
 "C06": ("partial: the accept/reject rule of top-level name reservation is exactly clash-freeness (reserveAll ↔ Nodup); goCase word-splitting lemma; witnesses that goCase is not injective and that the helper-name mangler collides (D15/D24). That emitted text is valid Go is NOT a theorem: it is decided by `go build && go vet` on every accepted random program (nested layouts, keyword/initialism/helper-name identifiers, every annotation, CLI option sets). Known findings D9, D11–D15, D21, D23, D24 (accepted but not compiling / valid but rejected)", "§5 C06",
         "Modelled-not-verified: text/template, go/format, the Go compiler. goCase/constantName of the real generator are compared with the model on random identifiers through a verif hook.", "Lean 4 proof over naming model + factgen tie + go build oracle over random programs"),
 "C10": ("partial: sorted-key iteration renders the same output for every iteration order of a key-distinct map (renderSorted_order_irrelevant, via mergeSort lemmas); merge-with-conflict-detection is order-independent in outcome and result; every `range <map>` site of gen/ and internal/plugin is classified (sites_classified, regenerated with go/types). Go's map iteration itself is observed: N fresh-process generations per program + permuted link orders, file hashes compared. D10/D21 known", "§5 C10",
         "Modelled-not-verified: Go map iteration, text/template ordering, os.WriteFile.", "Lean 4 proof over order model + go/types site extraction + repeated-run hash comparison"),
 "C11": ("partial: parse returns program ⊕ non-empty errors ⊕ (model fuel exhausted — not excluded by proof); error and token lines within [1, lines+1]; quote/unquote round trips (exact characterisation of the D16 failure set, safe printers round-trip on every byte string); token positions true for tokens outside the D18/D62 shapes (`tok_pos_partial`, input-level variant); walk: traversal equation, true parent, each node once; lexInt round trips; single-token print/scan round trips; witnesses D16, D18, D19, D20, D61, D62, D63. Not proved: node positions at parser level, token-sequence and grammar-level round trips (harness: random ASTs rendered by an independent printer with true positions)", "§5 C11",
         "Modelled-not-verified: the ragel/goyacc tables (lex.go, y.go are the implementation; the model is a hand-written scanner + recursive-descent parser compared differentially), strconv.Unquote/ParseFloat (modelled exactly, compared through hooks).", TECH),
 "C12": ("M-Wire envelopes: strict and legacy round trips, 3-way request classification, wrong-type rejection, response echo, streaming API accepts whatever the random-access API accepts under EVERY chunking (needs the io.ReadFull repair, finding D1, fixed in /repo); tie = facts (version constants, envelope types) + differential run of both request APIs, both responder APIs, 3 framings, random segmentation", "§5 C12", "Modelled-not-verified: io.ReadFull, io.MultiReader.", TECH),
 "C13": ("partial: theorem stream_alloc_bound (for every input and type, length-driven allocation of the streaming decoder ≤ 5·N + 1 MiB + 1 KiB), envelope_alloc_bound, frame_alloc_bound, recursion depth ≤ 3N+3, decoded counts ≤ N; witnesses for D2 (repaired) and D3 (known). Not proved: the lazy-extent bound for unforced random-access decodes; wall time. Tie: regenerated thresholds + measured TotalAlloc of every decoding API on ≤64-byte messages with huge declared lengths, compared two-sidedly with the model's prediction and with 12 MiB + 64·N", "§5 C13", "Modelled-not-verified: bytes.Buffer growth (bounded as 4·present+1024), the Go allocator, runtime.MemStats. Generated decoders' pre-sizing (D3) is a known finding.", "Lean 4 proof over cost-instrumented model + factgen tie + measured-allocation correspondence"),
 "C14": ("partial: generated Equals is reflexive, symmetric and transitive on decoded values for every schema and type (pigeonhole lemma for the one-directional set/map loops; hash and slice representations; structs with nil handling); order (in)sensitivity and nil handling; witness that duplicates break symmetry. Not proved: Equals ⇔ ValuesAreEqual(ToWire) ⇔ structural comparison (harness oracles)", "§5 C14", "Modelled-not-verified: generated text, Go map semantics for float keys (modelled: NaN ≠ NaN, +0 = −0).", TECH),
 "C15": ("non-interference: what String()/Error()/zap show is a function of the value with every redacted (zap: also no-log) field's content erased, at any depth; redacted shows only the marker; nolog absent; others present. Tie: regenerated annotation names + harness scanning real String/Error/zap-JSON output for unique markers and labels", "§5 C15", "Modelled-not-verified: fmt and zap formatting.", TECH),
 "C19": ("format_build_eq_core: for EVERY type shape and both requiredness rules, formatting the plugin type description equals the core generator's field type (structural induction over types); response helpers: wrap/unwrap lemmas, undeclared errors refused, nil-return boundary. Tie: gotype op vs reflected field types of generated *_Args/*_Result/helpers (go/ast), captured GenerateServiceRequest checked for self-consistency, helpers executed in the value driver", "§5 C19",
         "Modelled-not-verified: import aliasing (named types compared as schema tokens), text/template. D14 known.", TECH),
 "C20": ("partial (run-level theorems carry NoAbort — finding D30 — and root-dir attribution — D31): each breaking edit kind flagged, identical/additive silent, order independence under permutation of definitions and of every map iteration order, exit status; D30–D32 known findings with witnesses. Tie: regenerated map-range sites and message templates + scratch git repositories run through the real thriftbreak binary (readable and JSON) and verifhook.CompareModules vs the Lean driver and a declarative source-level oracle", "§5 C20", "Modelled-not-verified: go-git tree diff / rename detection (its output — the change list — is an input of the model, obtained through a verif hook).", TECH),
}
REASON_WIP = "machinery under construction: model and check planned in DESIGN.md §5 but not yet committed; not claimed until its check exists"

def main():
    cfgd = os.path.join(ROOT, "bin", "checks.d")
    base = json.load(open("/root/.vp/BASELINE.json"))["cmd"]
    hooks = subprocess.run(["git", "-C", "/repo", "log", "--format=%H %s"], capture_output=True, text=True).stdout.splitlines()
    hook_commits = [l.split()[0] for l in hooks if " verif hook:" in l]
    m = {
     "version": 1,
     "setup_cmd": "bin/setup",
     "hooks": {"guard": "verif", "enable": "go build -tags verif (harness module replaces go.uber.org/thriftrw => /repo); hook files are new, //go:build verif guarded files only",
               "baseline_off_cmd": base, "source_commits": hook_commits, "add_only": True},
     "engines": [
      {"name": "lean-model", "path": "lean/", "serves_properties": sorted(CLAIMED), "kind_free_text": "Lean 4 models (core-only) + proofs + property theorems; lake build + #print axioms audit; drivers wiredrv/schemadrv/compiledrv/idldrv/protodrv"},
      {"name": "factgen", "path": "harness/cmd/factgen", "serves_properties": sorted(CLAIMED), "kind_free_text": "go/parser(+go/types) fact extractor regenerating lean/ThriftVerif/Facts/Gen*.lean on every run"},
      {"name": "wirecheck", "path": "harness/cmd/wirecheck", "serves_properties": ["C02", "C03", "C12", "C13"], "kind_free_text": "Go differential harness: real protocol/binary + wire packages vs Lean driver wiredrv, plus implementation-side property oracles"},
      {"name": "gencheck", "path": "harness/cmd/gencheck", "serves_properties": [p for p in ["C01", "C04", "C05", "C06", "C10", "C14", "C15", "C19"] if p in CLAIMED], "kind_free_text": "random abstract programs → real thriftrw → go build/vet → reflect value driver vs Lean driver schemadrv; independent Go reference codec and oracles"},
      {"name": "idlcheck", "path": "harness/cmd/idlcheck", "serves_properties": ["C11"], "kind_free_text": "random ASTs over the full grammar rendered with randomised layout and recorded true positions; idl.Parse/ast.Walk vs Lean driver idldrv + independent oracles"},
      {"name": "breakcheck", "path": "harness/cmd/breakcheck", "serves_properties": ["C20"], "kind_free_text": "scratch git repositories → real thriftbreak binary + in-process compare vs Lean Break model + declarative oracle"},
     ],
     "checks": [], "not_applicable": [],
     "notes": "bin/check <Cxx> [--tier quick|thorough] [--replay FILE]; scratch mode VERIF_REPO=<worktree>; see DESIGN.md and FRAMEWORK.md. Properties under not_applicable with reason 'machinery under construction' are planned (DESIGN.md §5) but have no committed check yet.",
    }
    for p in props:
        if p in CLAIMED:
            text, ref, extra, tech = CLAIMED[p]
            m["checks"].append({"property_id": p, "quick_cmd": f"bin/check {p} --tier quick", "thorough_cmd": f"bin/check {p} --tier thorough",
                "evidence_file": f"/verif/evidence/{p}.json", "replay_cmd_template": f"bin/check {p} --replay {{path}}", "engine": "lean-model",
                "level_claimed": {"category": "proof", "text": text, "design_ref": ref}, "level_note": NOTE + extra, "technique": tech})
        else:
            m["not_applicable"].append({"property_id": p, "reason": REASON_WIP})
    json.dump(m, open(os.path.join(ROOT, "MANIFEST.json"), "w"), indent=1, ensure_ascii=False)
    print("claimed:", sorted(CLAIMED), "not applicable:", [x["property_id"] for x in m["not_applicable"]])

main()
